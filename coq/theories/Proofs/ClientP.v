(* Lemmas about Model/Client.v (property C11). *)
From Coq Require Import List String Ascii ZArith Bool Arith Lia Permutation DecimalPos DecimalZ DecimalString.
From AC Require Import Base.Sexp Base.Json Base.Strs Model.Client.
Import ListNotations.
Local Open Scope string_scope.
Local Open Scope list_scope.

(* ---- induction principle for the nested tree ---- *)
Section VtInd.
  Variable P : vt -> Prop.
  Hypothesis Hleaf : forall j, P (VLeaf j).
  Hypothesis Hup : forall i, P (VUpload i).
  Hypothesis Hunset : P VUnset.
  Hypothesis Hlist : forall l, Forall P l -> P (VList l).
  Hypothesis Hdict : forall kv, Forall (fun q => P (snd q)) kv -> P (VDict kv).
  Hypothesis Hmodel : forall fs, Forall (fun q => P (snd q)) fs -> P (VModel fs).
  Fixpoint vt_ind2 (t : vt) : P t :=
    match t with
    | VLeaf j => Hleaf j
    | VUpload i => Hup i
    | VUnset => Hunset
    | VList l =>
        Hlist l ((fix go (l : list vt) : Forall P l :=
                    match l with
                    | [] => Forall_nil _
                    | x :: r => Forall_cons _ (vt_ind2 x) (go r)
                    end) l)
    | VDict kv =>
        Hdict kv ((fix go (l : list (string * vt)) : Forall (fun q => P (snd q)) l :=
                     match l with
                     | [] => Forall_nil _
                     | x :: r => Forall_cons _ (vt_ind2 (snd x)) (go r)
                     end) kv)
    | VModel fs =>
        Hmodel fs ((fix go (l : list (mfield * vt)) : Forall (fun q => P (snd q)) l :=
                      match l with
                      | [] => Forall_nil _
                      | x :: r => Forall_cons _ (vt_ind2 (snd x)) (go r)
                      end) fs)
    end.
End VtInd.

(* ================= P1: the stateful traversal = pure nulling + a fold of [record] ================= *)
Definition sep_spec (t : vt) : Prop :=
  forall p st, separate p t st = (null_uploads t, fold_left record (uploads_at p t) st).

Lemma sep_list_spec l : Forall sep_spec l -> forall p i st,
  sep_list separate p i l st = (map null_uploads l, fold_left record (ups_list uploads_at p i l) st).
Proof.
  induction 1 as [|x r Hx Hr IH]; intros p i st; simpl; [reflexivity|].
  rewrite Hx, IH, fold_left_app. reflexivity.
Qed.

Lemma sep_dict_spec kv : Forall (fun q => sep_spec (snd q)) kv -> forall p st,
  sep_dict separate p kv st =
  (map (fun q : string * vt => let (k, v) := q in (k, null_uploads v)) kv,
   fold_left record (ups_dict uploads_at p kv) st).
Proof.
  induction 1 as [|[k x] r Hx Hr IH]; intros p st; simpl; [reflexivity|].
  simpl in Hx. rewrite Hx, IH, fold_left_app. reflexivity.
Qed.

Lemma separate_spec t : sep_spec t.
Proof.
  induction t using vt_ind2; intros p st; simpl; try reflexivity.
  - rewrite (sep_list_spec l H). reflexivity.
  - rewrite (sep_dict_spec kv H). reflexivity.
Qed.

(* ================= P2: what the fold of [record] computes ================= *)
Definition paths_of (id : nat) (ups : list (path * nat)) : list path :=
  map fst (filter (fun pu => Nat.eqb (snd pu) id) ups).

(* entry i of files_map: key i, every path of the i-th distinct upload, in traversal order *)
Fixpoint expected_map (ups : list (path * nat)) (files : list nat) (k : nat) : list (nat * list path) :=
  match files with
  | [] => []
  | id :: r => (k, paths_of id ups) :: expected_map ups r (S k)
  end.

Lemma index_of_none id l : index_of id l = None <-> ~ In id l.
Proof.
  induction l as [|x r IH]; simpl; [tauto|].
  destruct (Nat.eqb x id) eqn:E.
  - apply Nat.eqb_eq in E. split; [discriminate | intro H; exfalso; apply H; auto].
  - apply Nat.eqb_neq in E. destruct (index_of id r); simpl.
    + split; [discriminate|]. intro H. exfalso. apply H. right. apply Decidable.not_not.
      * unfold Decidable.decidable. destruct (in_dec Nat.eq_dec id r); auto.
      * intro N. apply IH in N. discriminate.
    + split; [|reflexivity]. intros _ [H|H]; [congruence|]. apply IH in H; auto.
Qed.

Lemma index_of_some id l i : index_of id l = Some i -> In id l.
Proof.
  intro H. destruct (in_dec Nat.eq_dec id l) as [I|N]; [exact I|].
  apply index_of_none in N. congruence.
Qed.

Lemma paths_of_snoc id ups p id' :
  paths_of id (ups ++ [(p, id')]) = paths_of id ups ++ (if Nat.eqb id' id then [p] else []).
Proof.
  unfold paths_of. rewrite filter_app, map_app. simpl. destruct (Nat.eqb id' id); reflexivity.
Qed.

Lemma expected_map_notin ups files k p id : ~ In id files ->
  expected_map (ups ++ [(p, id)]) files k = expected_map ups files k.
Proof.
  revert k. induction files as [|x r IH]; intros k N; simpl; [reflexivity|].
  rewrite paths_of_snoc. destruct (Nat.eqb id x) eqn:E.
  - apply Nat.eqb_eq in E. exfalso. apply N. left. auto.
  - rewrite app_nil_r, IH; [reflexivity|]. intro H. apply N. right. exact H.
Qed.

Lemma expected_map_snoc ups files x k :
  expected_map ups (files ++ [x]) k = expected_map ups files k ++ [(k + List.length files, paths_of x ups)].
Proof.
  revert k. induction files as [|y r IH]; intros k; simpl.
  - rewrite Nat.add_0_r. reflexivity.
  - rewrite IH. replace (k + S (List.length r)) with (S k + List.length r) by lia. reflexivity.
Qed.

Lemma map_append_expected ups files k i p id : NoDup files -> index_of id files = Some i ->
  map_append (k + i) p (expected_map ups files k) = expected_map (ups ++ [(p, id)]) files k.
Proof.
  revert k i. induction files as [|x r IH]; intros k i ND H; simpl in *; [discriminate|].
  inversion ND as [|? ? Nx NDr]; subst.
  rewrite paths_of_snoc. destruct (Nat.eqb x id) eqn:E.
  - inversion H; subst i. apply Nat.eqb_eq in E. subst x.
    rewrite Nat.add_0_r, Nat.eqb_refl. simpl. rewrite Nat.eqb_refl.
    rewrite expected_map_notin; [reflexivity | exact Nx].
  - destruct (index_of id r) as [i'|] eqn:I; simpl in H; [|discriminate]. inversion H; subst i.
    replace (Nat.eqb k (k + S i')) with false by (symmetry; apply Nat.eqb_neq; lia).
    rewrite Nat.eqb_sym in E. rewrite E, app_nil_r. f_equal.
    replace (k + S i') with (S k + i') by lia. apply IH; auto.
Qed.

Lemma NoDup_snoc {X} (l : list X) (x : X) : NoDup l -> ~ In x l -> NoDup (l ++ [x]).
Proof.
  induction l as [|y r IH]; simpl; intros ND N.
  - constructor; [intros []|constructor].
  - inversion ND; subst. constructor.
    + rewrite in_app_iff. simpl. intros [H|[H|[]]]; [auto|]. subst. apply N. left. reflexivity.
    + apply IH; auto.
Qed.

Lemma filter_none {X} (f : X -> bool) (l : list X) : (forall x, In x l -> f x = false) -> filter f l = [].
Proof.
  induction l as [|y r IH]; simpl; intro H; [reflexivity|].
  rewrite (H y) by auto. apply IH. intros x Hx. apply H. auto.
Qed.

Definition rec_inv (ups : list (path * nat)) (st : sstate) : Prop :=
  let (files, fmap) := st in
  NoDup files /\ (forall id, In id files <-> In id (map snd ups)) /\ fmap = expected_map ups files 0.

Lemma rec_inv_step ups st p id : rec_inv ups st -> rec_inv (ups ++ [(p, id)]) (record st (p, id)).
Proof.
  destruct st as [files fmap]. intros [ND [M E]]. unfold record.
  destruct (index_of id files) as [i|] eqn:I.
  - split; [exact ND|]. split.
    + intro x. rewrite map_app, in_app_iff. simpl. rewrite M. split; [tauto|].
      intros [H|[H|[]]]; [exact H|]. subst x. apply M. eapply index_of_some. exact I.
    + subst fmap. apply (map_append_expected ups files 0 i p id ND I).
  - assert (N : ~ In id files) by (apply index_of_none; exact I).
    split; [|split].
    + apply NoDup_snoc; auto.
    + intro x. rewrite map_app, !in_app_iff. simpl. rewrite M. tauto.
    + subst fmap. rewrite expected_map_snoc, expected_map_notin by exact N. simpl.
      rewrite paths_of_snoc, Nat.eqb_refl. f_equal. f_equal. f_equal.
      unfold paths_of. replace (filter _ ups) with (@nil (path * nat)); [reflexivity|].
      symmetry. apply filter_none. intros [q j] Hin. simpl.
      apply Nat.eqb_neq. intro. subst j. apply N. apply M. apply in_map_iff. exists (q, id). auto.
Qed.

Lemma rec_inv_fold rest : forall done st, rec_inv done st ->
  rec_inv (done ++ rest) (fold_left record rest st).
Proof.
  induction rest as [|[p id] r IH]; intros done st H; simpl.
  - rewrite app_nil_r. exact H.
  - replace (done ++ (p, id) :: r) with ((done ++ [(p, id)]) ++ r) by (rewrite <- app_assoc; reflexivity).
    apply IH. apply rec_inv_step. exact H.
Qed.

Lemma rec_inv_nil : rec_inv [] ([], []).
Proof. simpl. split; [constructor|]. split; [tauto | reflexivity]. Qed.

(* the whole of separate_files, from the empty state *)
Lemma separate_characterised t p :
  exists files fmap, separate p t ([], []) = (null_uploads t, (files, fmap)) /\
    NoDup files /\ (forall id, In id files <-> In id (map snd (uploads_at p t))) /\
    fmap = expected_map (uploads_at p t) files 0.
Proof.
  rewrite separate_spec.
  pose proof (rec_inv_fold (uploads_at p t) [] ([], []) rec_inv_nil) as H. simpl in H.
  destruct (fold_left record (uploads_at p t) ([], [])) as [files fmap].
  exists files, fmap. split; [reflexivity | exact H].
Qed.

Lemma in_paths_of p id ups : In p (paths_of id ups) <-> In (p, id) ups.
Proof.
  unfold paths_of. rewrite in_map_iff. split.
  - intros [[q j] [E H]]. simpl in E. subst q. apply filter_In in H as [H1 H2]. simpl in H2.
    apply Nat.eqb_eq in H2. subst j. exact H1.
  - intro H. exists (p, id). split; [reflexivity|]. apply filter_In. split; [exact H|].
    simpl. apply Nat.eqb_refl.
Qed.

Lemma expected_map_entries ups files k i ps :
  In (i, ps) (expected_map ups files k) <->
  exists j id, i = k + j /\ nth_error files j = Some id /\ ps = paths_of id ups.
Proof.
  revert k. induction files as [|x r IH]; intros k; simpl.
  - split; [tauto|]. intros [j [id [_ [H _]]]]. destruct j; discriminate.
  - split.
    + intros [H|H].
      * inversion H; subst. exists 0, x. repeat split; auto.
      * apply IH in H as [j [id [E [N P]]]]. exists (S j), id. repeat split; auto. lia.
    + intros [j [id [E [N P]]]]. destruct j; simpl in N.
      * inversion N; subst. left. f_equal. lia.
      * right. apply IH. exists j, id. repeat split; auto. lia.
Qed.

(* multipart iff there is an upload *)
Lemma files_empty_iff t p files fmap : separate p t ([], []) = (null_uploads t, (files, fmap)) ->
  (files = [] <-> uploads_at p t = []) /\ (fmap = [] <-> files = []).
Proof.
  intro H. destruct (separate_characterised t p) as [f' [m' [E [ND [M F]]]]].
  rewrite E in H. inversion H; subst f' m'. split.
  - split; intro Z.
    + destruct (uploads_at p t) as [|[q id] r]; [reflexivity|]. exfalso.
      assert (In id files) by (apply M; left; reflexivity). rewrite Z in H0. destruct H0.
    + destruct files as [|id r]; [reflexivity|]. exfalso.
      assert (In id (map snd (uploads_at p t))) by (apply M; left; reflexivity). rewrite Z in H0. destruct H0.
  - subst fmap. destruct files; simpl; split; intro Z; try reflexivity; discriminate.
Qed.

(* ================= P3: the nulled tree ================= *)
Lemma no_upload_left t : forall p, uploads_at p (null_uploads t) = [].
Proof.
  induction t using vt_ind2; intro p; simpl; try reflexivity.
  - generalize 0. induction H as [|x r Hx Hr IH]; intro i; simpl; [reflexivity|].
    rewrite Hx, IH. reflexivity.
  - induction H as [|[k x] r Hx Hr IH]; simpl; [reflexivity|].
    simpl in Hx. rewrite Hx, IH. reflexivity.
Qed.

Lemma nth_error_map' {X Y} (f : X -> Y) l i : nth_error (map f l) i = option_map f (nth_error l i).
Proof. revert i. induction l; intros [|i]; simpl; auto. Qed.

Lemma vlookup_null k kv :
  vlookup k (map (fun q : string * vt => let (k, v) := q in (k, null_uploads v)) kv) =
  option_map null_uploads (vlookup k kv).
Proof.
  induction kv as [|[k' v] r IH]; simpl; [reflexivity|]. destruct (String.eqb k' k); auto.
Qed.

(* every position is unchanged, except that Uploads became None *)
Lemma nulled_exact p : forall t, get_at p (null_uploads t) = option_map null_uploads (get_at p t).
Proof.
  induction p as [|s r IH]; intro t; simpl; [reflexivity|].
  destruct s, t; simpl; try reflexivity.
  - rewrite vlookup_null. destruct (vlookup k kv); simpl; auto.
  - rewrite nth_error_map'. destruct (nth_error l i); simpl; auto.
Qed.

Lemma upload_position_nulled p t id : get_at p t = Some (VUpload id) ->
  get_at p (null_uploads t) = Some (VLeaf JNull).
Proof. intro H. rewrite nulled_exact, H. reflexivity. Qed.

(* ---- map paths <-> upload positions ---- *)
Lemma ups_list_in q l : forall i0 j x e, nth_error l j = Some x ->
  In e (uploads_at (q ++ [SIdx (i0 + j)]) x) -> In e (ups_list uploads_at q i0 l).
Proof.
  induction l as [|y r IH]; intros i0 j x e N H; [destruct j; discriminate|].
  simpl. apply in_or_app. destruct j; simpl in N.
  - inversion N; subst. rewrite Nat.add_0_r in H. left. exact H.
  - right. apply (IH (S i0) j x); auto. replace (S i0 + j) with (i0 + S j) by lia. exact H.
Qed.

Lemma ups_dict_in q kv : forall k x e, vlookup k kv = Some x ->
  In e (uploads_at (q ++ [SKey k]) x) -> In e (ups_dict uploads_at q kv).
Proof.
  induction kv as [|[k' y] r IH]; intros k x e N H; simpl in *; [discriminate|].
  apply in_or_app. destruct (String.eqb k' k) eqn:E.
  - apply String.eqb_eq in E. subst k'. inversion N; subst. left. exact H.
  - right. eapply IH; eauto.
Qed.

Lemma upload_position_listed p : forall t q id, get_at p t = Some (VUpload id) ->
  In (q ++ p, id) (uploads_at q t).
Proof.
  induction p as [|s r IH]; intros t q id H; simpl in H.
  - inversion H; subst. simpl. rewrite app_nil_r. left. reflexivity.
  - destruct s, t; try discriminate; simpl.
    + destruct (vlookup k kv) as [x|] eqn:V; [|discriminate].
      eapply ups_dict_in; eauto. specialize (IH x (q ++ [SKey k]) id H).
      rewrite <- app_assoc in IH. exact IH.
    + destruct (nth_error l i) as [x|] eqn:N; [|discriminate].
      eapply (ups_list_in q l 0 i x); eauto. specialize (IH x (q ++ [SIdx i]) id H).
      rewrite <- app_assoc in IH. exact IH.
Qed.

Lemma ups_list_inv q l : forall i0 e, In e (ups_list uploads_at q i0 l) ->
  exists j x, nth_error l j = Some x /\ In e (uploads_at (q ++ [SIdx (i0 + j)]) x).
Proof.
  induction l as [|y r IH]; intros i0 e H; simpl in H; [destruct H|].
  apply in_app_or in H as [H|H].
  - exists 0, y. rewrite Nat.add_0_r. auto.
  - apply IH in H as [j [x [N I]]]. exists (S j), x. split; [exact N|].
    replace (i0 + S j) with (S i0 + j) by lia. exact I.
Qed.

Lemma ups_dict_inv q kv : forall e, In e (ups_dict uploads_at q kv) ->
  exists k x, In (k, x) kv /\ In e (uploads_at (q ++ [SKey k]) x).
Proof.
  induction kv as [|[k' y] r IH]; intros e H; simpl in H; [destruct H|].
  apply in_app_or in H as [H|H].
  - exists k', y. split; [left; reflexivity | exact H].
  - apply IH in H as [k [x [I U]]]. exists k, x. split; [right; exact I | exact U].
Qed.

Lemma existsb_eqb_false k l : existsb (String.eqb k) l = false -> ~ In k l.
Proof.
  intros H I. assert (existsb (String.eqb k) l = true).
  { apply existsb_exists. exists k. split; [exact I | apply String.eqb_refl]. }
  congruence.
Qed.

Lemma unique_vlookup kv : keys_unique (map fst kv) = true -> forall k x, In (k, x) kv ->
  vlookup k kv = Some x.
Proof.
  induction kv as [|[k' y] r IH]; intros U k x I; simpl in *; [destruct I|].
  apply andb_true_iff in U as [U1 U2]. apply negb_true_iff in U1.
  destruct I as [I|I].
  - inversion I; subst. rewrite String.eqb_refl. reflexivity.
  - destruct (String.eqb k' k) eqn:E.
    + apply String.eqb_eq in E. subst k'. exfalso. apply (existsb_eqb_false _ _ U1).
      apply in_map_iff. exists (k, x). auto.
    + apply IH; auto.
Qed.

Lemma listed_is_upload_position t : wf_keys t = true -> forall q p' id,
  In (p', id) (uploads_at q t) -> exists p, p' = q ++ p /\ get_at p t = Some (VUpload id).
Proof.
  induction t using vt_ind2; intros W q p' id I; simpl in I; try (destruct I; fail).
  - destruct I as [I|[]]. inversion I; subst. exists []. rewrite app_nil_r. auto.
  - apply ups_list_inv in I as [j [x [N I]]]. simpl in N, I.
    simpl in W. rewrite forallb_forall in W. rewrite Forall_forall in H.
    assert (Ix : In x l) by (eapply nth_error_In; eauto).
    destruct (H x Ix (W x Ix) _ _ _ I) as [p [E G]].
    exists (SIdx j :: p). split; [rewrite E, <- app_assoc; reflexivity|]. simpl. rewrite N. exact G.
  - apply ups_dict_inv in I as [k [x [Ik I]]].
    simpl in W. apply andb_true_iff in W as [U W]. rewrite forallb_forall in W. rewrite Forall_forall in H.
    destruct (H (k, x) Ik (W (k, x) Ik) _ _ _ I) as [p [E G]].
    exists (SKey k :: p). split; [rewrite E, <- app_assoc; reflexivity|]. simpl.
    rewrite (unique_vlookup kv U k x Ik). exact G.
Qed.

(* "map lists exactly those paths": a path is listed for file id iff that position holds it *)
Lemma map_lists_exactly t : wf_keys t = true -> forall p id,
  In (p, id) (uploads_at [] t) <-> get_at p t = Some (VUpload id).
Proof.
  intros W p id. split.
  - intro I. destruct (listed_is_upload_position t W [] p id I) as [p0 [E G]]. simpl in E. subst. exact G.
  - intro G. apply (upload_position_listed p t [] id G).
Qed.

(* ================= headers ================= *)
Fixpoint hlookup (k : string) (d : headers) : option string :=
  match d with
  | [] => None
  | (k', v) :: r => if String.eqb k' k then Some v else hlookup k r
  end.

Lemma dict_set_same k v d : hlookup k (dict_set k v d) = Some v.
Proof.
  induction d as [|[k' v'] r IH]; simpl.
  - rewrite String.eqb_refl. reflexivity.
  - destruct (String.eqb k' k) eqn:E; simpl; rewrite E; auto.
Qed.

Lemma dict_set_other k v d k0 : k0 <> k -> hlookup k0 (dict_set k v d) = hlookup k0 d.
Proof.
  intro N. induction d as [|[k' v'] r IH]; simpl.
  - destruct (String.eqb k k0) eqn:E; [apply String.eqb_eq in E; congruence | reflexivity].
  - destruct (String.eqb k' k) eqn:E; simpl.
    + apply String.eqb_eq in E. subst k'. destruct (String.eqb k k0) eqn:E2;
        [apply String.eqb_eq in E2; congruence | reflexivity].
    + destruct (String.eqb k' k0); auto.
Qed.

Lemma update_other u : forall d k0, ~ In k0 (map fst u) -> hlookup k0 (dict_update d u) = hlookup k0 d.
Proof.
  unfold dict_update. induction u as [|[k v] r IH]; intros d k0 N; simpl; [reflexivity|].
  rewrite IH by (intro H; apply N; right; exact H).
  apply dict_set_other. intro E. apply N. left. simpl. congruence.
Qed.

(* caller wins, key by key (Python dict keys are unique) *)
Lemma update_caller_wins u : keys_unique (map fst u) = true -> forall d k v, In (k, v) u ->
  hlookup k (dict_update d u) = Some v.
Proof.
  unfold dict_update. induction u as [|[k1 v1] r IH]; intros U d k v I; simpl in *; [destruct I|].
  apply andb_true_iff in U as [U1 U2]. apply negb_true_iff in U1. destruct I as [I|I].
  - inversion I; subst. change (fold_left _ r ?x) with (dict_update x r).
    rewrite update_other by (apply existsb_eqb_false; exact U1). apply dict_set_same.
  - apply IH; auto.
Qed.

Lemma update_default_kept u : ~ In "Content-Type" (map fst u) ->
  hlookup "Content-Type" (dict_update default_headers u) = Some "application/json".
Proof. intro N. rewrite update_other by exact N. reflexivity. Qed.

(* structure of the merged dict when the default is the single Content-Type entry *)
Lemma dict_set_fresh k v d : ~ In k (map fst d) -> dict_set k v d = d ++ [(k, v)].
Proof.
  induction d as [|[k' v'] r IH]; simpl; intro N; [reflexivity|].
  destruct (String.eqb k' k) eqn:E.
  - apply String.eqb_eq in E. exfalso. apply N. left. exact E.
  - rewrite IH; [reflexivity|]. intro H. apply N. right. exact H.
Qed.

Lemma dict_update_snoc d u x : dict_update d (u ++ [x]) = dict_set (fst x) (snd x) (dict_update d u).
Proof. unfold dict_update. rewrite fold_left_app. reflexivity. Qed.

Lemma keys_unique_snoc l k : keys_unique (l ++ [k]) = true -> keys_unique l = true /\ ~ In k l.
Proof.
  induction l as [|x r IH]; simpl; intro H; [split; [reflexivity | tauto]|].
  apply andb_true_iff in H as [H1 H2]. apply negb_true_iff in H1.
  destruct (IH H2) as [U N]. split.
  - apply andb_true_iff. split; [|exact U]. apply negb_true_iff.
    destruct (existsb (String.eqb x) r) eqn:E; [|reflexivity].
    apply existsb_exists in E as [y [Iy Ey]]. exfalso. apply (existsb_eqb_false _ _ H1).
    apply String.eqb_eq in Ey. subst y. apply in_or_app. left. exact Iy.
  - intros [E|I]; [|exact (N I)]. subst x. apply (existsb_eqb_false _ _ H1).
    apply in_or_app. right. left. reflexivity.
Qed.

Definition not_ct (p : string * string) : bool := negb (String.eqb (fst p) "Content-Type").

Lemma merged_shape u : keys_unique (map fst u) = true ->
  dict_update default_headers u =
  ("Content-Type", match hlookup "Content-Type" u with Some v => v | None => "application/json" end)
    :: filter not_ct u.
Proof.
  induction u as [|[k v] r IH] using rev_ind; intro U; [reflexivity|].
  rewrite map_app in U. cbn [map fst] in U. apply keys_unique_snoc in U as [U N].
  rewrite dict_update_snoc, IH by exact U. cbn [fst snd].
  rewrite filter_app. cbn [filter].
  assert (L : forall k0, hlookup k0 (r ++ [(k, v)]) =
              match hlookup k0 r with Some x => Some x | None => if String.eqb k k0 then Some v else None end).
  { intro k0. clear. induction r as [|[a b] r IH]; simpl; [reflexivity|]. destruct (String.eqb a k0); auto. }
  rewrite L. cbn [dict_set].
  assert (NH : hlookup "Content-Type" r <> None -> In "Content-Type" (map fst r)).
  { clear. induction r as [|[a b] r IH]; cbn [hlookup map fst]; [congruence|].
    destruct (String.eqb a "Content-Type") eqn:E; intro H;
      [left; apply String.eqb_eq; exact E | right; auto]. }
  destruct (String.eqb "Content-Type" k) eqn:E.
  - apply String.eqb_eq in E. subst k.
    replace (not_ct ("Content-Type", v)) with false
      by (unfold not_ct; cbn [fst]; rewrite String.eqb_refl; reflexivity).
    rewrite app_nil_r, String.eqb_refl.
    destruct (hlookup "Content-Type" r) eqn:H; [|reflexivity].
    exfalso. apply N. apply NH. congruence.
  - assert (E' : String.eqb k "Content-Type" = false) by (rewrite String.eqb_sym; exact E).
    replace (not_ct (k, v)) with true by (unfold not_ct; cbn [fst]; rewrite E'; reflexivity).
    rewrite E'. rewrite dict_set_fresh.
    + destruct (hlookup "Content-Type" r); reflexivity.
    + intro I. apply N. apply in_map_iff in I as [[a b] [Ea Ia]]. cbn [fst] in Ea. subst a.
      apply filter_In in Ia as [Ia _]. apply in_map_iff. exists (k, b). auto.
Qed.

(* ---- the fixed merge (/repo 7378d1f): the caller wins in any letter case ---- *)
Lemma dict_update_nil u : keys_unique (map fst u) = true -> dict_update [] u = u.
Proof.
  induction u as [|[k v] r IH] using rev_ind; intro U; [reflexivity|].
  rewrite map_app in U. cbn [map fst] in U. apply keys_unique_snoc in U as [U N].
  rewrite dict_update_snoc, IH by exact U. cbn [fst snd]. apply dict_set_fresh. exact N.
Qed.

Lemma existsb_false_all {X} (f : X -> bool) l : existsb f l = false -> forall x, In x l -> f x = false.
Proof.
  intros H x I. destruct (f x) eqn:E; [|reflexivity].
  assert (existsb f l = true) by (apply existsb_exists; eauto). congruence.
Qed.

Lemma hlookup_in k u v : hlookup k u = Some v -> In (k, v) u.
Proof.
  induction u as [|[a b] r IH]; simpl; [discriminate|].
  destruct (String.eqb a k) eqn:E; intro H.
  - apply String.eqb_eq in E. inversion H; subst. left. reflexivity.
  - right. auto.
Qed.

Lemma lower_ct : lower "Content-Type" = "content-type".
Proof. reflexivity. Qed.
Lemma lower_ct' : lower "content-type" = "content-type".
Proof. reflexivity. Qed.

Lemma no_ct_shape u : keys_unique (map fst u) = true -> has_ct u = false ->
  dict_update default_headers u = ("Content-Type", "application/json") :: u.
Proof.
  intros U H. rewrite merged_shape by exact U.
  pose proof (existsb_false_all _ _ H) as A.
  destruct (hlookup "Content-Type" u) as [v|] eqn:L.
  - apply hlookup_in in L. apply A in L. cbn [fst] in L. rewrite lower_ct in L. discriminate.
  - f_equal. clear L U H. induction u as [|[a b] r IH]; [reflexivity|]. cbn [filter].
    assert (N : not_ct (a, b) = true).
    { unfold not_ct. cbn [fst]. destruct (String.eqb a "Content-Type") eqn:E; [|reflexivity].
      apply String.eqb_eq in E. subst a. specialize (A _ (or_introl eq_refl)). cbn [fst] in A.
      rewrite lower_ct in A. discriminate. }
    rewrite N. f_equal. apply IH. intros x I. apply A. right. exact I.
Qed.

(* names distinct up to case: the entries matching a caller key (case-insensitively) are that one *)
Lemma ci_unique_filter u : names_distinct_ci u = true -> forall k v, In (k, v) u ->
  filter (fun p : string * string => String.eqb (lower (fst p)) (lower k)) u = [(k, v)].
Proof.
  unfold names_distinct_ci. induction u as [|[k1 v1] r IH]; intros D k v I; [destruct I|].
  cbn [map fst keys_unique] in D. apply andb_true_iff in D as [D1 D2]. apply negb_true_iff in D1.
  pose proof (existsb_false_all _ _ D1) as A. cbn [filter fst]. destruct I as [I|I].
  - inversion I; subst k1 v1. rewrite String.eqb_refl. f_equal.
    apply filter_none. intros [a b] Ia. cbn [fst].
    rewrite String.eqb_sym. apply A. apply in_map_iff. exists (a, b). auto.
  - destruct (String.eqb (lower k1) (lower k)) eqn:E.
    + exfalso. assert (String.eqb (lower k1) (lower k) = false).
      { apply A. apply in_map_iff. exists (k, v). auto. }
      congruence.
    + apply IH; assumption.
Qed.

Lemma caller_wins_any_case u k v : keys_unique (map fst u) = true -> names_distinct_ci u = true ->
  In (k, v) u -> wire_values k (merge_headers u) = [v].
Proof.
  intros U D I. unfold merge_headers, wire_values. destruct (has_ct u) eqn:H.
  - rewrite dict_update_nil by exact U. rewrite (ci_unique_filter u D k v I). reflexivity.
  - rewrite no_ct_shape by assumption. cbn [filter fst]. rewrite lower_ct.
    destruct (String.eqb "content-type" (lower k)) eqn:E.
    + exfalso. pose proof (existsb_false_all _ _ H _ I) as A. cbn [fst] in A.
      rewrite String.eqb_sym in E. congruence.
    + rewrite (ci_unique_filter u D k v I). reflexivity.
Qed.

Definition caller_content_type (u : headers) : option string :=
  match filter (fun p : string * string => String.eqb (lower (fst p)) "content-type") u with
  | [] => None
  | p :: _ => Some (snd p)
  end.

(* exactly one Content-Type on the wire: the caller's (any letter case) or the default *)
Lemma content_type_on_wire u : keys_unique (map fst u) = true -> names_distinct_ci u = true ->
  wire_values "content-type" (merge_headers u) =
  [match caller_content_type u with Some v => v | None => "application/json" end].
Proof.
  intros U D. unfold merge_headers, wire_values, caller_content_type. rewrite lower_ct'.
  destruct (has_ct u) eqn:H.
  - rewrite dict_update_nil by exact U. unfold has_ct in H.
    apply existsb_exists in H as [[k v] [I E]]. cbn [fst] in E. apply String.eqb_eq in E.
    rewrite (filter_ext _ (fun p : string * string => String.eqb (lower (fst p)) (lower k))).
    + rewrite (ci_unique_filter u D k v I). reflexivity.
    + intro a. rewrite E. reflexivity.
  - rewrite no_ct_shape by assumption. cbn [filter fst]. rewrite lower_ct. rewrite String.eqb_refl.
    replace (filter _ u) with (@nil (string * string)); [reflexivity|].
    symmetry. apply filter_none. exact (existsb_false_all _ _ H).
Qed.

(* ================= client state, schedules ================= *)
Lemma execute_stateless s c : fst (execute s c) = s.
Proof. reflexivity. Qed.

Lemma execute_url_only s s' c : s_url s = s_url s' -> snd (execute s c) = snd (execute s' c).
Proof. unfold execute. simpl. intro H. rewrite H. reflexivity. Qed.

(* a schedule = the order in which the calls of all tasks reach execute *)
Definition run_schedule (s : cstate) (calls : list call) : cstate * list (call * request) :=
  fold_left (fun acc c => let (s', r) := execute (fst acc) c in (s', snd acc ++ [(c, r)])) calls (s, []).

Lemma run_schedule_spec calls : forall s out,
  fold_left (fun acc c => let (s', r) := execute (fst acc) c in (s', snd acc ++ [(c, r)])) calls (s, out) =
  (s, out ++ map (fun c => (c, snd (execute s c))) calls).
Proof.
  induction calls as [|c r IH]; intros s out; simpl.
  - rewrite app_nil_r. reflexivity.
  - rewrite IH, <- app_assoc. reflexivity.
Qed.

Lemma interleaving_irrelevant s l l' : Permutation l l' ->
  fst (run_schedule s l') = s /\
  Permutation (snd (run_schedule s l)) (snd (run_schedule s l')) /\
  forall c r, In (c, r) (snd (run_schedule s l')) -> r = snd (execute s c).
Proof.
  intro P. unfold run_schedule. rewrite !run_schedule_spec. simpl. split; [reflexivity|]. split.
  - apply Permutation_map. exact P.
  - intros c r I. apply in_map_iff in I as [c' [E _]]. inversion E; subst. reflexivity.
Qed.

(* ================= dispatch ================= *)
Lemma process_some kv : kv <> [] ->
  process_variables (Some kv) = get_files (convert_dict kv).
Proof. destruct kv; [congruence | reflexivity]. Qed.

Lemma get_files_spec vars :
  get_files vars = let (t, st) := separate [] (VDict vars) ([], []) in
                   (match t with VDict kv => kv | _ => [] end, st).
Proof.
  unfold get_files. simpl. destruct (sep_dict separate [] vars ([], [])). reflexivity.
Qed.

(* ================= P4: separate / fill round trip ================= *)
Lemma seg_eqb_eq a b : seg_eqb a b = true <-> a = b.
Proof.
  destruct a, b; simpl; split; intro H; try discriminate; try congruence.
  - apply String.eqb_eq in H. congruence.
  - inversion H. apply String.eqb_refl.
  - apply Nat.eqb_eq in H. congruence.
  - inversion H. apply Nat.eqb_refl.
Qed.

Lemma path_eqb_eq a : forall b, path_eqb a b = true <-> a = b.
Proof.
  induction a as [|x a IH]; intros [|y b]; simpl; split; intro H; try discriminate; try reflexivity.
  - apply andb_true_iff in H as [H1 H2]. apply seg_eqb_eq in H1. apply IH in H2. congruence.
  - inversion H; subst. apply andb_true_iff. split; [apply seg_eqb_eq | apply IH]; reflexivity.
Qed.

Lemma find_exists {X} (f : X -> bool) l x : In x l -> f x = true -> exists y, find f l = Some y.
Proof.
  induction l as [|a r IH]; simpl; intros I E; [destruct I|].
  destruct (f a) eqn:Fa; [eauto|]. destruct I as [I|I]; [subst; congruence | auto].
Qed.

Lemma map_find_sound ups files p id :
  map_find (files, expected_map ups files 0) p = Some id -> In (p, id) ups.
Proof.
  unfold map_find. destruct (find _ _) as [[i ps]|] eqn:F; [|discriminate]. simpl. intro N.
  apply find_some in F as [I E]. simpl in E. apply existsb_exists in E as [q [Iq Eq]].
  apply path_eqb_eq in Eq. subst q.
  apply expected_map_entries in I as [j [id' [Ej [Nj P]]]]. simpl in Ej. subst j.
  rewrite Nj in N. inversion N; subst id'. subst ps. apply in_paths_of. exact Iq.
Qed.

Lemma map_find_complete ups files p id : (forall x, In x files <-> In x (map snd ups)) ->
  In (p, id) ups -> exists id', map_find (files, expected_map ups files 0) p = Some id'.
Proof.
  intros M I. assert (If : In id files) by (apply M; apply in_map_iff; exists (p, id); auto).
  apply In_nth_error in If as [j Nj].
  assert (Ie : In (j, paths_of id ups) (expected_map ups files 0))
    by (apply expected_map_entries; exists j, id; auto).
  destruct (find_exists (fun e : nat * list path => existsb (path_eqb p) (snd e)) _ _ Ie) as [[i ps] F].
  { simpl. apply existsb_exists. exists p. split; [apply in_paths_of; exact I | apply path_eqb_eq; reflexivity]. }
  unfold map_find. rewrite F. simpl.
  apply find_some in F as [I2 _]. apply expected_map_entries in I2 as [j' [id' [Ej [Nj' _]]]].
  simpl in Ej. subst j'. exists id'. exact Nj'.
Qed.

Lemma get_at_app q : forall r t, get_at (q ++ r) t =
  match get_at q t with Some x => get_at r x | None => None end.
Proof.
  induction q as [|s q IH]; intros r t; simpl; [reflexivity|].
  destruct s, t; try reflexivity.
  - destruct (vlookup k kv); [apply IH | reflexivity].
  - destruct (nth_error l i); [apply IH | reflexivity].
Qed.

Lemma vlookup_in k kv x : vlookup k kv = Some x -> In (k, x) kv.
Proof.
  induction kv as [|[k' y] r IH]; simpl; [discriminate|].
  destruct (String.eqb k' k) eqn:E; intro H.
  - apply String.eqb_eq in E. inversion H; subst. left. reflexivity.
  - right. auto.
Qed.

Lemma wf_sub q : forall t0 t, wf_keys t0 = true -> get_at q t0 = Some t -> wf_keys t = true.
Proof.
  induction q as [|s q IH]; intros t0 t W G; simpl in G; [inversion G; subst; exact W|].
  destruct s, t0; try discriminate; simpl in W.
  - destruct (vlookup k kv) as [x|] eqn:V; [|discriminate]. apply andb_true_iff in W as [_ W].
    rewrite forallb_forall in W. apply (IH x t); [|exact G]. apply (W (k, x)). apply vlookup_in. exact V.
  - destruct (nth_error l i) as [x|] eqn:N; [|discriminate]. rewrite forallb_forall in W.
    apply (IH x t); [|exact G]. apply W. eapply nth_error_In. exact N.
Qed.

Definition fill_ok (st : sstate) (t0 t : vt) : Prop :=
  forall q, get_at q t0 = Some t -> fill st q (null_uploads t) = t.

Lemma fill_list_ok st t0 q l : Forall (fill_ok st t0) l -> forall i0,
  (forall j x, nth_error l j = Some x -> get_at (q ++ [SIdx (i0 + j)]) t0 = Some x) ->
  fill_list (fill st) q i0 (map null_uploads l) = l.
Proof.
  induction 1 as [|x r Hx Hr IH]; intros i0 G; simpl; [reflexivity|]. f_equal.
  - apply Hx. specialize (G 0 x eq_refl). rewrite Nat.add_0_r in G. exact G.
  - apply IH. intros j y N. replace (S i0 + j) with (i0 + S j) by lia. apply G. exact N.
Qed.

Lemma fill_dict_ok st t0 q kv : Forall (fun e => fill_ok st t0 (snd e)) kv ->
  (forall k x, In (k, x) kv -> get_at (q ++ [SKey k]) t0 = Some x) ->
  fill_dict (fill st) q (map (fun e : string * vt => let (k, v) := e in (k, null_uploads v)) kv) = kv.
Proof.
  induction 1 as [|[k x] r Hx Hr IH]; intros G; simpl; [reflexivity|]. f_equal.
  - f_equal. apply Hx. apply G. left. reflexivity.
  - apply IH. intros k' y I. apply G. right. exact I.
Qed.

Lemma fill_subtree t0 files : wf_keys t0 = true ->
  NoDup files -> (forall x, In x files <-> In x (map snd (uploads_at [] t0))) ->
  forall t, fill_ok (files, expected_map (uploads_at [] t0) files 0) t0 t.
Proof.
  intros W ND M. set (st := (files, expected_map (uploads_at [] t0) files 0)).
  induction t using vt_ind2; intros q G; cbn [null_uploads fill]; try reflexivity.
  - destruct j; try reflexivity.
    destruct (map_find st q) as [id|] eqn:F; [|reflexivity]. exfalso.
    apply map_find_sound in F. apply (map_lists_exactly t0 W) in F. congruence.
  - assert (I : In (q, i) (uploads_at [] t0)) by (apply (map_lists_exactly t0 W); exact G).
    destruct (map_find_complete _ files q i M I) as [id' F]. fold st in F. rewrite F.
    apply map_find_sound in F. apply (map_lists_exactly t0 W) in F. congruence.
  - f_equal. apply (fill_list_ok st t0 q l H 0). intros j x N. simpl.
    rewrite get_at_app, G. simpl. rewrite N. reflexivity.
  - f_equal. apply (fill_dict_ok st t0 q kv H). intros k x I.
    rewrite get_at_app, G. simpl.
    assert (Wk : wf_keys (VDict kv) = true) by (eapply wf_sub; eauto).
    simpl in Wk. apply andb_true_iff in Wk as [U _].
    rewrite (unique_vlookup kv U k x I). reflexivity.
Qed.

(* substituting each file back at the paths the map lists reproduces the tree *)
Lemma separate_fill_roundtrip t : wf_keys t = true -> forall nulled st,
  separate [] t ([], []) = (nulled, st) -> fill st [] nulled = t.
Proof.
  intros W nulled st S. destruct (separate_characterised t []) as [files [fmap [E [ND [M F]]]]].
  rewrite E in S. inversion S; subst nulled st. subst fmap.
  apply (fill_subtree t files W ND M t []). reflexivity.
Qed.

(* ================= the JSON encoding: body keys, UNSET never sent ================= *)
Fixpoint to_json_kv (kv : list (string * vt)) : option (list (string * json)) :=
  match kv with
  | [] => Some []
  | (k, x) :: r => match to_json x, to_json_kv r with Some a, Some b => Some ((k, a) :: b) | _, _ => None end
  end.

Lemma to_json_dict kv : to_json (VDict kv) = option_map JObj (to_json_kv kv).
Proof.
  reflexivity.
Qed.

Lemma to_json_kv_keys kv : forall kvj, to_json_kv kv = Some kvj -> map fst kvj = map fst kv.
Proof.
  induction kv as [|[k x] r IH]; intros kvj H; simpl in H.
  - inversion H. reflexivity.
  - destruct (to_json x); [|discriminate]. destruct (to_json_kv r) as [b|]; [|discriminate].
    inversion H; subst. simpl. f_equal. apply IH. reflexivity.
Qed.

(* whatever json.dumps manages to encode contains no UNSET (and no Upload) *)
Lemma to_json_no_unset t : forall j, to_json t = Some j -> has_unset t = false.
Proof.
  induction t using vt_ind2; intros j0 E; try reflexivity; try discriminate.
  - cbn [to_json] in E. cbn [has_unset].
    destruct ((fix go (l : list vt) : option (list json) :=
                 match l with
                 | [] => Some []
                 | x :: r => match to_json x, go r with Some a, Some b => Some (a :: b) | _, _ => None end
                 end) l) as [js|] eqn:G; [|discriminate]. clear E j0.
    revert js G. induction H as [|x r Hx Hr IH]; intros js G; [reflexivity|].
    destruct (to_json x) as [a|] eqn:Ex; [|discriminate].
    match type of G with match ?g with _ => _ end = _ => destruct g as [b|] eqn:Gr; [|discriminate] end.
    cbn [existsb]. rewrite (Hx a eq_refl), (IH b eq_refl). reflexivity.
  - cbn [to_json] in E. cbn [has_unset].
    destruct ((fix go (kv : list (string * vt)) : option (list (string * json)) :=
                 match kv with
                 | [] => Some []
                 | (k, x) :: r => match to_json x, go r with Some a, Some b => Some ((k, a) :: b) | _, _ => None end
                 end) kv) as [js|] eqn:G; [|discriminate]. clear E j0.
    revert js G. induction H as [|[k x] r Hx Hr IH]; intros js G; [reflexivity|].
    destruct (to_json x) as [a|] eqn:Ex; [|discriminate].
    match type of G with match ?g with _ => _ end = _ => destruct g as [b|] eqn:Gr; [|discriminate] end.
    cbn [existsb snd]. simpl in Hx. rewrite (Hx a Ex), (IH b eq_refl). reflexivity.
  - cbn [to_json] in E. cbn [has_unset].
    destruct ((fix go (fs : list (mfield * vt)) : option (list (string * json)) :=
                 match fs with
                 | [] => Some []
                 | (f, x) :: r => match to_json x, go r with Some a, Some b => Some ((wire f, a) :: b) | _, _ => None end
                 end) fs) as [js|] eqn:G; [|discriminate]. clear E j0.
    revert js G. induction H as [|[f x] r Hx Hr IH]; intros js G; [reflexivity|].
    destruct (to_json x) as [a|] eqn:Ex; [|discriminate].
    match type of G with match ?g with _ => _ end = _ => destruct g as [b|] eqn:Gr; [|discriminate] end.
    cbn [existsb snd]. simpl in Hx. rewrite (Hx a Ex), (IH b eq_refl). reflexivity.
Qed.

Lemma convert_dict_keys kv :
  map fst (convert_dict kv) = map fst (filter (fun p => negb (is_unset (snd p))) kv).
Proof. unfold convert_dict. rewrite map_map. reflexivity. Qed.

Lemma get_files_keys vars : map fst (fst (get_files vars)) = map fst vars.
Proof.
  unfold get_files. rewrite sep_dict_spec.
  - simpl. rewrite map_map. apply map_ext. intros [k v]. reflexivity.
  - apply Forall_forall. intros x _. apply separate_spec.
Qed.

Definition top_level_keys (vars : option (list (string * vt))) : list string :=
  match vars with
  | None => []
  | Some kv => map fst (filter (fun p => negb (is_unset (snd p))) kv)
  end.

Lemma process_variables_keys vars : map fst (fst (process_variables vars)) = top_level_keys vars.
Proof.
  destruct vars as [[|p r]|]; try reflexivity.
  unfold process_variables. rewrite get_files_keys, convert_dict_keys. reflexivity.
Qed.

(* the body of every request that is sent *)
Definition request_body (r : request) : option json :=
  match r with
  | RJson _ _ _ b => Some b
  | RMultipart _ _ _ ops _ _ => Some ops
  | RError => None
  end.

Lemma body_exact url c b : request_body (build_request url c) = Some b ->
  exists vj, b = JObj [("query", JStr (c_query c)); ("operationName", opname_json (c_opname c));
                       ("variables", JObj vj)] /\
    map fst vj = top_level_keys (c_vars c) /\
    to_json (VDict (fst (process_variables (c_vars c)))) = Some (JObj vj) /\
    has_unset (VDict (fst (process_variables (c_vars c)))) = false.
Proof.
  unfold build_request. pose proof (process_variables_keys (c_vars c)) as K.
  destruct (process_variables (c_vars c)) as [vars [files fmap]]. cbn [fst] in *.
  destruct (to_json (VDict vars)) as [vj|] eqn:T; [|discriminate].
  pose proof (to_json_no_unset _ _ T) as NU.
  rewrite to_json_dict in T. destruct (to_json_kv vars) as [kvj|] eqn:Tk; [|discriminate].
  inversion T; subst vj. intro H. exists kvj.
  assert (B : b = body_json (c_query c) (c_opname c) (JObj kvj)).
  { destruct (negb (is_nil files) && negb (is_nil fmap)); simpl in H; inversion H; reflexivity. }
  split; [exact B|]. split; [rewrite (to_json_kv_keys _ _ Tk); exact K|]. split; [reflexivity | exact NU].
Qed.

(* ================= rendered dotted paths are unambiguous when keys contain no '.' ================= *)
Fixpoint dot_free (s : string) : bool :=
  match s with
  | EmptyString => true
  | String c r => negb (Ascii.eqb c "."%char) && dot_free r
  end.
Definition dot_or_empty (s : string) : bool :=
  match s with EmptyString => true | String c _ => Ascii.eqb c "."%char end.

Lemma sappend_assoc (a b c : string) : ((a ++ b) ++ c = a ++ (b ++ c))%string.
Proof. induction a; simpl; congruence. Qed.
Lemma sappend_nil_r (a : string) : (a ++ "" = a)%string.
Proof. induction a; simpl; congruence. Qed.
Lemma sappend_cancel_l (a b c : string) : (a ++ b = a ++ c)%string -> b = c.
Proof. induction a; simpl; intro H; [exact H | inversion H; auto]. Qed.

Definition tail_of (strs : list string) : string :=
  fold_right (fun s acc => ("." ++ s ++ acc)%string) "" strs.

Lemma render_fold p : forall acc,
  fold_left (fun acc s => (acc ++ "." ++ seg_to_string s)%string) p acc =
  (acc ++ tail_of (map seg_to_string p))%string.
Proof.
  induction p as [|s r IH]; intro acc; simpl.
  - rewrite sappend_nil_r. reflexivity.
  - rewrite IH. rewrite sappend_assoc. reflexivity.
Qed.

Lemma render_as_concat p : render_path p = ("variables" ++ tail_of (map seg_to_string p))%string.
Proof. unfold render_path. apply render_fold. Qed.

Lemma seg_split a : forall b r r', dot_free a = true -> dot_free b = true ->
  dot_or_empty r = true -> dot_or_empty r' = true -> (a ++ r = b ++ r')%string -> a = b /\ r = r'.
Proof.
  induction a as [|c a IH]; intros [|d b] r r' Da Db Er Er' H; simpl in *.
  - auto.
  - subst r. simpl in Er. apply andb_true_iff in Db as [Db _]. rewrite Er in Db. discriminate.
  - subst r'. simpl in Er'. apply andb_true_iff in Da as [Da _]. rewrite Er' in Da. discriminate.
  - inversion H; subst d. apply andb_true_iff in Da as [_ Da]. apply andb_true_iff in Db as [_ Db].
    destruct (IH b r r' Da Db Er Er' H2) as [E1 E2]. subst. auto.
Qed.

Lemma tail_dot_or_empty l : dot_or_empty (tail_of l) = true.
Proof. destruct l; reflexivity. Qed.

Lemma tail_inj l : forall l', forallb dot_free l = true -> forallb dot_free l' = true ->
  tail_of l = tail_of l' -> l = l'.
Proof.
  induction l as [|a l IH]; intros [|b l'] D D' H; simpl in *; try reflexivity; try discriminate.
  inversion H as [H1]. apply andb_true_iff in D as [Da D]. apply andb_true_iff in D' as [Db D'].
  destruct (seg_split a b _ _ Da Db (tail_dot_or_empty l) (tail_dot_or_empty l') H1) as [E1 E2].
  subst b. f_equal. apply IH; assumption.
Qed.

(* decimal indices never contain a dot *)
Lemma uint_dot_free d : dot_free (DecimalString.NilEmpty.string_of_uint d) = true.
Proof. induction d; simpl; auto. Qed.

Lemma nat_to_string_dot_free n : dot_free (nat_to_string n) = true.
Proof.
  unfold nat_to_string, z_to_string. destruct (Z.of_nat n) eqn:E; simpl.
  - reflexivity.
  - unfold DecimalString.NilZero.string_of_uint. destruct (Pos.to_uint p); try apply uint_dot_free. reflexivity.
  - exfalso. pose proof (Zle_0_nat n). rewrite E in H. apply H. reflexivity.
Qed.

Definition keys_dot_free (p : path) : bool :=
  forallb (fun s => match s with SKey k => dot_free k | SIdx _ => true end) p.

Lemma segs_dot_free p : keys_dot_free p = true -> forallb dot_free (map seg_to_string p) = true.
Proof.
  induction p as [|s r IH]; simpl; intro H; [reflexivity|].
  apply andb_true_iff in H as [H1 H2]. apply andb_true_iff. split; [|auto].
  destruct s; simpl; [exact H1 | apply nat_to_string_dot_free].
Qed.

(* two paths with the same rendering have the same segment strings, one by one *)
Lemma render_injective p p' : keys_dot_free p = true -> keys_dot_free p' = true ->
  render_path p = render_path p' -> map seg_to_string p = map seg_to_string p'.
Proof.
  intros D D' H. rewrite !render_as_concat in H. apply sappend_cancel_l in H.
  apply tail_inj; auto using segs_dot_free.
Qed.

(* ================= Upload anywhere => multipart (after /repo dd85cf5) ================= *)
(* a tree json.dumps can encode once its Uploads are nulled: no UNSET, no model left *)
Fixpoint plain (t : vt) : bool :=
  match t with
  | VUnset => false
  | VModel _ => false
  | VList l => forallb plain l
  | VDict kv => forallb (fun q => plain (snd q)) kv
  | _ => true
  end.

Lemma plain_dumpv t : has_unset t = false -> plain (dumpv t) = true.
Proof.
  induction t using vt_ind2; intro U; simpl in *; try reflexivity; try discriminate.
  - apply forallb_forall. intros y Iy. apply in_map_iff in Iy as [x [E Ix]]. subst y.
    rewrite Forall_forall in H. apply H; auto. apply (existsb_false_all _ _ U x Ix).
  - apply forallb_forall. intros y Iy. apply in_map_iff in Iy as [[k x] [E Ix]]. subst y. simpl.
    rewrite Forall_forall in H. apply (H (k, x) Ix). apply (existsb_false_all _ _ U (k, x) Ix).
  - induction H as [|[f x] r Hx Hr IH]; simpl in *; [reflexivity|].
    apply orb_false_iff in U as [U1 U2]. destruct (mf_set f); simpl; [rewrite (Hx U1)|]; apply IH; exact U2.
Qed.

Lemma plain_convert t : has_unset t = false -> plain (convert_value t) = true.
Proof.
  induction t using vt_ind2; intro U; try reflexivity; try discriminate.
  - simpl in *. apply forallb_forall. intros y Iy. apply in_map_iff in Iy as [x [E Ix]]. subst y.
    rewrite Forall_forall in H. apply H; auto. apply (existsb_false_all _ _ U x Ix).
  - simpl in *. apply forallb_forall. intros y Iy. apply in_map_iff in Iy as [[k x] [E Ix]]. subst y. simpl.
    rewrite Forall_forall in H. apply (H (k, x) Ix). apply (existsb_false_all _ _ U (k, x) Ix).
  - apply (plain_dumpv (VModel fs) U).
Qed.

Fixpoint to_json_l (l : list vt) : option (list json) :=
  match l with
  | [] => Some []
  | x :: r => match to_json x, to_json_l r with Some a, Some b => Some (a :: b) | _, _ => None end
  end.
Lemma to_json_list l : to_json (VList l) = option_map JArr (to_json_l l).
Proof. reflexivity. Qed.

Lemma plain_serialisable t : plain t = true -> exists j, to_json (null_uploads t) = Some j.
Proof.
  induction t using vt_ind2; intro P; try (simpl; eauto; fail); try discriminate.
  - cbn [null_uploads]. rewrite to_json_list. simpl in P.
    assert (exists js, to_json_l (map null_uploads l) = Some js) as [js E].
    { induction H as [|x r Hx Hr IH]; simpl in *; [eauto|].
      apply andb_true_iff in P as [P1 P2]. destruct (Hx P1) as [a Ea]. destruct (IH P2) as [b Eb].
      rewrite Ea, Eb. eauto. }
    rewrite E. simpl. eauto.
  - cbn [null_uploads]. rewrite to_json_dict. simpl in P.
    assert (exists js, to_json_kv (map (fun q : string * vt => let (k, v) := q in (k, null_uploads v)) kv) = Some js)
      as [js E].
    { induction H as [|[k x] r Hx Hr IH]; simpl in *; [eauto|].
      apply andb_true_iff in P as [P1 P2]. destruct (Hx P1) as [a Ea]. destruct (IH P2) as [b Eb].
      rewrite Ea, Eb. eauto. }
    rewrite E. simpl. eauto.
Qed.

(* conversion loses no Upload: the uploads separate_files can reach in the converted value are
   exactly the Upload objects anywhere in the original, in the same order *)
Lemma ids_dumpv t : forall p, map snd (uploads_at p (dumpv t)) = deep_ids t.
Proof.
  induction t using vt_ind2; intro p; simpl; try reflexivity.
  - generalize 0. induction H as [|x r Hx Hr IH]; intro i; simpl; [reflexivity|].
    rewrite map_app, Hx, IH. reflexivity.
  - induction H as [|[k x] r Hx Hr IH]; simpl in *; [reflexivity|].
    rewrite map_app, Hx, IH. reflexivity.
  - induction H as [|[f x] r Hx Hr IH]; simpl in *; [reflexivity|].
    destruct (mf_set f); simpl; [rewrite map_app, Hx, IH | rewrite IH]; reflexivity.
Qed.

Lemma ids_convert t : forall p, map snd (uploads_at p (convert_value t)) = deep_ids t.
Proof.
  induction t using vt_ind2; intro p; try reflexivity.
  - simpl. generalize 0. induction H as [|x r Hx Hr IH]; intro i; simpl; [reflexivity|].
    rewrite map_app, Hx, IH. reflexivity.
  - simpl. induction H as [|[k x] r Hx Hr IH]; simpl in *; [reflexivity|].
    rewrite map_app, Hx, IH. reflexivity.
  - apply (ids_dumpv (VModel fs)).
Qed.

Definition all_upload_ids (vars : list (string * vt)) : list nat :=
  flat_map (fun q : string * vt => deep_ids (snd q)) vars.

Lemma ids_convert_dict vars p :
  map snd (ups_dict uploads_at p (convert_dict vars)) = all_upload_ids vars.
Proof.
  unfold convert_dict, all_upload_ids. induction vars as [|[k v] r IH]; [reflexivity|]. cbn [filter snd].
  destruct (is_unset v) eqn:Uv; cbn [negb].
  - destruct v; try discriminate. simpl. exact IH.
  - cbn [map fst snd ups_dict flat_map]. rewrite map_app, ids_convert, IH. reflexivity.
Qed.

Lemma plain_convert_dict vars : vars_ok vars = true -> plain (VDict (convert_dict vars)) = true.
Proof.
  unfold vars_ok, convert_dict. cbn [plain]. induction vars as [|[k v] r IH]; intro O; [reflexivity|].
  cbn [forallb snd] in O. apply andb_true_iff in O as [O1 O2]. cbn [filter snd].
  destruct (is_unset v); cbn [negb orb] in *; [apply IH; exact O2|].
  cbn [map forallb fst snd]. apply negb_true_iff in O1. rewrite (plain_convert v O1). apply IH. exact O2.
Qed.

Lemma upload_anywhere_plain url q o vars h t : plain (VDict (convert_dict vars)) = true ->
  let c := mk_call q o (Some vars) h t in
  let ct := VDict (convert_dict vars) in
  map snd (uploads_at [] ct) = all_upload_ids vars /\
  exists files fmap vj,
    separate [] ct ([], []) = (null_uploads ct, (files, fmap)) /\
    NoDup files /\ (forall id, In id files <-> In id (all_upload_ids vars)) /\
    fmap = expected_map (uploads_at [] ct) files 0 /\
    to_json (null_uploads ct) = Some vj /\
    (all_upload_ids vars = [] ->
       build_request url c = RJson url (merge_headers (match h with Some x => x | None => [] end)) t (body_json q o vj)) /\
    (all_upload_ids vars <> [] ->
       build_request url c = RMultipart url h t (body_json q o vj) (fmap_json fmap) (files_parts files)).
Proof.
  intro O. cbv zeta.
  assert (I : map snd (uploads_at [] (VDict (convert_dict vars))) = all_upload_ids vars)
    by (apply ids_convert_dict).
  split; [exact I|].
  destruct (separate_characterised (VDict (convert_dict vars)) []) as [files [fmap [E [ND [M F]]]]].
  destruct (plain_serialisable _ O) as [vj T].
  exists files, fmap, vj. rewrite I in M.
  split; [exact E|]. split; [exact ND|]. split; [exact M|]. split; [exact F|]. split; [exact T|].
  assert (B : build_request url (mk_call q o (Some vars) h t) =
              if negb (is_nil files) && negb (is_nil fmap)
              then RMultipart url h t (body_json q o vj) (fmap_json fmap) (files_parts files)
              else RJson url (merge_headers (match h with Some x => x | None => [] end)) t (body_json q o vj)).
  { unfold build_request. cbn [c_vars c_headers c_timeout c_query c_opname].
    destruct vars as [|p0 r0].
    - simpl in E. inversion E; subst files fmap. simpl in T. inversion T; subst vj. reflexivity.
    - rewrite process_some by discriminate. rewrite get_files_spec, E.
      cbn [null_uploads] in T |- *. rewrite T. reflexivity. }
  assert (Z : files = [] <-> all_upload_ids vars = []).
  { split; intro Hn.
    - destruct (all_upload_ids vars) as [|x r]; [reflexivity|]. exfalso.
      assert (In x files) by (apply M; left; reflexivity). rewrite Hn in H. destruct H.
    - destruct files as [|x r]; [reflexivity|]. exfalso.
      assert (In x (all_upload_ids vars)) by (apply M; left; reflexivity). rewrite Hn in H. destruct H. }
  split; intro Hn.
  - rewrite B. rewrite (proj2 Z Hn). reflexivity.
  - rewrite B. destruct files as [|x r]; [exfalso; apply Hn; apply Z; reflexivity|].
    subst fmap. reflexivity.
Qed.

Lemma upload_anywhere url q o vars h t : vars_ok vars = true ->
  let c := mk_call q o (Some vars) h t in
  let ct := VDict (convert_dict vars) in
  map snd (uploads_at [] ct) = all_upload_ids vars /\
  exists files fmap vj,
    separate [] ct ([], []) = (null_uploads ct, (files, fmap)) /\
    NoDup files /\ (forall id, In id files <-> In id (all_upload_ids vars)) /\
    fmap = expected_map (uploads_at [] ct) files 0 /\
    to_json (null_uploads ct) = Some vj /\
    (all_upload_ids vars = [] ->
       build_request url c = RJson url (merge_headers (match h with Some x => x | None => [] end)) t (body_json q o vj)) /\
    (all_upload_ids vars <> [] ->
       build_request url c = RMultipart url h t (body_json q o vj) (fmap_json fmap) (files_parts files)).
Proof. intro O. apply upload_anywhere_plain. apply plain_convert_dict. exact O. Qed.

(* ================= upload bytes ================= *)
Lemma sent_bytes_position_irrelevant u n : up_seekable u = true -> sent_bytes (set_pos n u) = up_content u.
Proof. unfold sent_bytes, set_pos. simpl. intro H. rewrite H. reflexivity. Qed.

Lemma send_n_all_whole n : forall u, up_seekable u = true ->
  Forall (fun b => b = up_content u) (send_n n u).
Proof.
  induction n as [|n IH]; intros u H; simpl; constructor.
  - unfold sent_bytes. rewrite H. reflexivity.
  - apply (IH (after_send u)). exact H.
Qed.

Lemma drop_all s : drop_s (String.length s) s = EmptyString.
Proof. induction s; simpl; auto. Qed.

Lemma nonseekable_resend_empty u : up_seekable u = false -> sent_bytes (after_send u) = EmptyString.
Proof. unfold sent_bytes, after_send, set_pos. simpl. intro H. rewrite H. apply drop_all. Qed.

(* ================= the telemetry copy of the dispatch sends the same request ================= *)
Lemma build_request_dispatch url c :
  build_request url c =
  let '(vars, (files, fmap)) := process_variables (c_vars c) in
  if negb (is_nil files) && negb (is_nil fmap) then send_multipart url c vars files fmap
  else send_json url c vars.
Proof.
  unfold build_request, send_multipart, send_json.
  destruct (process_variables (c_vars c)) as [vars [files fmap]].
  destruct (to_json (VDict vars)); destruct (negb (is_nil files) && negb (is_nil fmap)); reflexivity.
Qed.

Lemma telemetry_same_request root url c :
  snd (execute_with_telemetry root url c) = build_request url c.
Proof.
  rewrite build_request_dispatch. unfold execute_with_telemetry.
  destruct (process_variables (c_vars c)) as [vars [files fmap]].
  destruct (negb (is_nil files) && negb (is_nil fmap)); unfold send_multipart, send_json;
    destruct (to_json (VDict vars)); reflexivity.
Qed.

(* what the spans carry *)
Lemma telemetry_spans root url c :
  exists child, fst (execute_with_telemetry root url c) = [mk_span root [component_attr]; child] /\
  match build_request url c with
  | RError => sp_attrs child = [component_attr]
  | RJson _ _ _ b =>
      sp_name child = "json request" /\
      exists vj, b = body_json (c_query c) (c_opname c) vj /\
        sp_attrs child = [component_attr; ("query", JStr (c_query c));
                          ("operationName", opname_attr (c_opname c)); ("variables", vj)]
  | RMultipart _ _ _ ops fm _ =>
      sp_name child = "multipart request" /\
      exists vj, ops = body_json (c_query c) (c_opname c) vj /\
        sp_attrs child = [component_attr; ("query", JStr (c_query c));
                          ("operationName", opname_attr (c_opname c)); ("variables", vj); ("map", fm)]
  end.
Proof.
  rewrite build_request_dispatch. unfold execute_with_telemetry, send_multipart, send_json.
  destruct (process_variables (c_vars c)) as [vars [files fmap]].
  destruct (negb (is_nil files) && negb (is_nil fmap)); destruct (to_json (VDict vars)) as [vj|];
    eexists; (split; [reflexivity|]); simpl; eauto.
Qed.

(* ================= exactly when nothing is sent: an UNSET json.dumps meets ================= *)
Lemma existsb_map' {X Y} (f : Y -> bool) (g : X -> Y) l : existsb f (map g l) = existsb (fun x => f (g x)) l.
Proof. induction l; simpl; congruence. Qed.
Lemma forallb_map' {X Y} (f : Y -> bool) (g : X -> Y) l : forallb f (map g l) = forallb (fun x => f (g x)) l.
Proof. induction l; simpl; congruence. Qed.
Lemma existsb_ext_in' {X} (f g : X -> bool) l : (forall x, In x l -> f x = g x) -> existsb f l = existsb g l.
Proof.
  induction l; simpl; intro H; [reflexivity|]. rewrite (H a) by auto. f_equal. apply IHl. auto.
Qed.
Lemma forallb_ext_in' {X} (f g : X -> bool) l : (forall x, In x l -> f x = g x) -> forallb f l = forallb g l.
Proof.
  induction l; simpl; intro H; [reflexivity|]. rewrite (H a) by auto. f_equal. apply IHl. auto.
Qed.

Fixpoint no_model (t : vt) : bool :=
  match t with
  | VModel _ => false
  | VList l => forallb no_model l
  | VDict kv => forallb (fun q => no_model (snd q)) kv
  | _ => true
  end.

Lemma dumpv_unset_model t : has_unset (dumpv t) = reach_unset t /\ no_model (dumpv t) = true.
Proof.
  induction t using vt_ind2; simpl; auto.
  - rewrite Forall_forall in H. rewrite existsb_map', forallb_map'. split.
    + apply existsb_ext_in'. intros x I. apply (H x I).
    + apply forallb_forall. intros x I. apply (H x I).
  - rewrite Forall_forall in H. rewrite existsb_map', forallb_map'. split.
    + apply existsb_ext_in'. intros [k x] I. apply (H (k, x) I).
    + apply forallb_forall. intros [k x] I. apply (H (k, x) I).
  - induction H as [|[f x] r Hx Hr IH]; simpl in *; [auto|]. destruct IH as [I1 I2]. destruct Hx as [H1 H2].
    destruct (mf_set f); simpl; [rewrite H1, H2, I1, I2 | rewrite I1, I2]; auto.
Qed.

Lemma convert_unset_model t : has_unset (convert_value t) = reach_unset t /\ no_model (convert_value t) = true.
Proof.
  induction t using vt_ind2; try (simpl; auto; fail).
  - simpl. rewrite Forall_forall in H. rewrite existsb_map', forallb_map'. split.
    + apply existsb_ext_in'. intros x I. apply (H x I).
    + apply forallb_forall. intros x I. apply (H x I).
  - simpl. rewrite Forall_forall in H. rewrite existsb_map', forallb_map'. split.
    + apply existsb_ext_in'. intros [k x] I. apply (H (k, x) I).
    + apply forallb_forall. intros [k x] I. apply (H (k, x) I).
  - apply (dumpv_unset_model (VModel fs)).
Qed.

Lemma has_unset_null t : has_unset (null_uploads t) = has_unset t.
Proof.
  induction t using vt_ind2; simpl; auto.
  - rewrite Forall_forall in H. rewrite existsb_map'. apply existsb_ext_in'. auto.
  - rewrite Forall_forall in H. rewrite existsb_map'. apply existsb_ext_in'. intros [k x] I. apply (H (k, x) I).
Qed.

Lemma plain_iff t : plain t = no_model t && negb (has_unset t).
Proof.
  induction t using vt_ind2; simpl; auto.
  - induction H as [|x r Hx Hr IH]; simpl; [reflexivity|]. rewrite Hx, IH.
    destruct (no_model x), (has_unset x), (forallb no_model r), (existsb has_unset r); reflexivity.
  - induction H as [|[k x] r Hx Hr IH]; simpl in *; [reflexivity|]. rewrite Hx, IH.
    destruct (no_model x), (has_unset x), (forallb (fun q => no_model (snd q)) r),
      (existsb (fun q => has_unset (snd q)) r); reflexivity.
Qed.

Lemma serialisable_iff t : no_model t = true ->
  (to_json (null_uploads t) = None <-> has_unset t = true).
Proof.
  intro N. split.
  - intro E. destruct (has_unset t) eqn:U; [reflexivity|]. exfalso.
    assert (P : plain t = true) by (rewrite plain_iff, N, U; reflexivity).
    destruct (plain_serialisable t P) as [j Ej]. congruence.
  - intro U. destruct (to_json (null_uploads t)) as [j|] eqn:E; [|reflexivity]. exfalso.
    apply to_json_no_unset in E. rewrite has_unset_null in E. congruence.
Qed.

Lemma convert_dict_unset_model vars :
  has_unset (VDict (convert_dict vars)) = vars_reach_unset vars /\ no_model (VDict (convert_dict vars)) = true.
Proof.
  unfold convert_dict, vars_reach_unset. simpl. induction vars as [|[k v] r [I1 I2]]; simpl; [auto|].
  destruct (is_unset v); simpl; [auto|].
  destruct (convert_unset_model v) as [H1 H2]. rewrite H1, H2, I1, I2. auto.
Qed.

Lemma request_shape url q o vars h t :
  let ct := VDict (convert_dict vars) in
  build_request url (mk_call q o (Some vars) h t) =
  match to_json (null_uploads ct) with
  | None => RError
  | Some vj =>
      let '(files, fmap) := snd (separate [] ct ([], [])) in
      if negb (is_nil files) && negb (is_nil fmap)
      then RMultipart url h t (body_json q o vj) (fmap_json fmap) (files_parts files)
      else RJson url (merge_headers (match h with Some x => x | None => [] end)) t (body_json q o vj)
  end.
Proof.
  cbv zeta. unfold build_request. cbn [c_vars c_headers c_timeout c_query c_opname].
  destruct vars as [|p0 r0]; [reflexivity|].
  rewrite process_some by discriminate. rewrite get_files_spec.
  destruct (separate_characterised (VDict (convert_dict (p0 :: r0))) []) as [files [fmap [E _]]].
  rewrite E. cbn [null_uploads snd]. destruct (to_json _); reflexivity.
Qed.

(* nothing is sent exactly when an UNSET is met below the top level *)
Lemma error_iff_reach_unset url q o vars h t :
  build_request url (mk_call q o (Some vars) h t) = RError <-> vars_reach_unset vars = true.
Proof.
  rewrite request_shape. cbv zeta. destruct (convert_dict_unset_model vars) as [U N].
  pose proof (serialisable_iff _ N) as S. rewrite U in S.
  destruct (to_json (null_uploads (VDict (convert_dict vars)))) as [vj|].
  - split; intro H.
    + destruct (snd (separate [] (VDict (convert_dict vars)) ([], []))) as [files fmap].
      destruct (negb (is_nil files) && negb (is_nil fmap)); discriminate.
    + apply S in H. discriminate.
  - split; intro H; [apply S; reflexivity | reflexivity].
Qed.

(* the same with the exact restriction: no UNSET that json.dumps would meet *)
Lemma upload_anywhere_exact url q o vars h t : vars_reach_unset vars = false ->
  let c := mk_call q o (Some vars) h t in
  let ct := VDict (convert_dict vars) in
  map snd (uploads_at [] ct) = all_upload_ids vars /\
  exists files fmap vj,
    separate [] ct ([], []) = (null_uploads ct, (files, fmap)) /\
    NoDup files /\ (forall id, In id files <-> In id (all_upload_ids vars)) /\
    fmap = expected_map (uploads_at [] ct) files 0 /\
    to_json (null_uploads ct) = Some vj /\
    (all_upload_ids vars = [] ->
       build_request url c = RJson url (merge_headers (match h with Some x => x | None => [] end)) t (body_json q o vj)) /\
    (all_upload_ids vars <> [] ->
       build_request url c = RMultipart url h t (body_json q o vj) (fmap_json fmap) (files_parts files)).
Proof.
  intro O. apply upload_anywhere_plain. destruct (convert_dict_unset_model vars) as [U N].
  rewrite plain_iff, N, U, O. reflexivity.
Qed.

(* vars_ok (no UNSET anywhere below the top, unset model fields included) is the narrower class *)
Lemma vars_ok_no_reach vars : vars_ok vars = true -> vars_reach_unset vars = false.
Proof.
  intro O. destruct (vars_reach_unset vars) eqn:R; [|reflexivity]. exfalso.
  pose proof (plain_convert_dict vars O) as P. destruct (convert_dict_unset_model vars) as [U N].
  rewrite plain_iff, N, U, R in P. discriminate.
Qed.

(* ================= the multipart map: a bijection between distinct Upload objects and parts ================= *)
Lemma z_to_string_inj z1 z2 : z_to_string z1 = z_to_string z2 -> z1 = z2.
Proof.
  unfold z_to_string. intro H.
  assert (N : forall z, Z.to_int z <> Decimal.Pos Decimal.Nil /\ Z.to_int z <> Decimal.Neg Decimal.Nil).
  { intros [|p|p]; simpl; split; try discriminate; intro E; inversion E;
      eapply DecimalPos.Unsigned.to_uint_nonnil; eauto. }
  assert (E : Some (Z.to_int z1) = Some (Z.to_int z2)).
  { rewrite <- (DecimalString.NilZero.isi (Z.to_int z1)) by apply N.
    rewrite <- (DecimalString.NilZero.isi (Z.to_int z2)) by apply N. rewrite H. reflexivity. }
  inversion E as [E']. rewrite <- (DecimalZ.of_to z1), <- (DecimalZ.of_to z2), E'. reflexivity.
Qed.

Lemma nat_to_string_inj a b : nat_to_string a = nat_to_string b -> a = b.
Proof. unfold nat_to_string. intro H. apply z_to_string_inj in H. lia. Qed.

Fixpoint parts_from (i : nat) (l : list nat) : list (string * nat) :=
  match l with [] => [] | id :: r => (nat_to_string i, id) :: parts_from (S i) r end.
Lemma files_parts_eq files : files_parts files = parts_from 0 files.
Proof. reflexivity. Qed.

Lemma parts_from_spec l : forall i0 name id, In (name, id) (parts_from i0 l) <->
  exists j, name = nat_to_string (i0 + j) /\ nth_error l j = Some id.
Proof.
  induction l as [|x r IH]; intros i0 name id; simpl.
  - split; [tauto|]. intros [j [_ H]]. destruct j; discriminate.
  - split.
    + intros [H|H].
      * inversion H; subst. exists 0. rewrite Nat.add_0_r. auto.
      * apply IH in H as [j [E N]]. exists (S j). split; [rewrite E; f_equal; lia | exact N].
    + intros [j [E N]]. destruct j; simpl in N.
      * inversion N; subst. left. rewrite Nat.add_0_r. reflexivity.
      * right. apply IH. exists j. split; [rewrite E; f_equal; lia | exact N].
Qed.

Lemma NoDup_nth_inj {X} (l : list X) i j x : NoDup l -> nth_error l i = Some x -> nth_error l j = Some x -> i = j.
Proof.
  intros ND Hi Hj. apply (proj1 (NoDup_nth_error l) ND); [|congruence].
  apply nth_error_Some. congruence.
Qed.

(* parts <-> distinct uploads, one to one; part names are the map's keys, in the same order *)
Lemma parts_bijection ups files : NoDup files ->
  (forall id, In id files -> exists name, In (name, id) (files_parts files) /\
      forall name', In (name', id) (files_parts files) -> name' = name) /\
  (forall name id id', In (name, id) (files_parts files) -> In (name, id') (files_parts files) -> id = id') /\
  (forall name id, In (name, id) (files_parts files) -> In id files) /\
  map fst (files_parts files) = map (fun e => nat_to_string (fst e)) (expected_map ups files 0).
Proof.
  intro ND. rewrite files_parts_eq. repeat split.
  - intros id I. apply In_nth_error in I as [j N]. exists (nat_to_string j). split.
    + apply parts_from_spec. exists j. auto.
    + intros name' I'. apply parts_from_spec in I' as [j' [E N']]. simpl in E. subst name'.
      f_equal. eapply NoDup_nth_inj; eauto.
  - intros name id id' I I'. apply parts_from_spec in I as [j [E N]]. apply parts_from_spec in I' as [j' [E' N']].
    simpl in E, E'. subst name. apply nat_to_string_inj in E'. subst j'. congruence.
  - intros name id I. apply parts_from_spec in I as [j [_ N]]. eapply nth_error_In; eauto.
  - generalize 0. clear ND. induction files as [|x r IH]; intro k; simpl; [reflexivity|]. f_equal. apply IH.
Qed.

(* ================= type-directed dumping ================= *)
Section FannInd.
  Variable P : fann -> Prop.
  Hypothesis Hany : P FAny.
  Hypothesis Hleaf : P FLeaf.
  Hypothesis Hup : P FUpload.
  Hypothesis Hopt : forall a, P a -> P (FOpt a).
  Hypothesis Hlist : forall a, P a -> P (FList a).
  Hypothesis Hmodel : forall fs, Forall (fun q => P (snd q)) fs -> P (FModel fs).
  Fixpoint fann_ind2 (a : fann) : P a :=
    match a with
    | FAny => Hany | FLeaf => Hleaf | FUpload => Hup
    | FOpt a' => Hopt a' (fann_ind2 a')
    | FList a' => Hlist a' (fann_ind2 a')
    | FModel fs =>
        Hmodel fs ((fix go (l : list (string * fann)) : Forall (fun q => P (snd q)) l :=
                      match l with
                      | [] => Forall_nil _
                      | x :: r => Forall_cons _ (fann_ind2 (snd x)) (go r)
                      end) fs)
    end.
End FannInd.

Lemma dumpv_model fs : dumpv (VModel fs) = VDict (dump_fields_any fs).
Proof. reflexivity. Qed.

(* with the Upload class as it is (serializer = identity) dumping by declared types coincides with dumping
   by runtime types, for every declared type and every value *)
Lemma dumpt_agrees_gen ser : (forall id, ser id = VUpload id) -> forall a v, dumpt ser a v = dumpv v.
Proof.
  intros Hs a. induction a using fann_ind2; intro v; cbn [dumpt]; try reflexivity.
  - destruct v; try reflexivity. apply Hs.
  - destruct v as [j| | | | |]; try apply IHa. destruct j; try apply IHa. reflexivity.
  - destruct v; try reflexivity. cbn [dumpv]. f_equal. apply map_ext. exact IHa.
  - destruct v as [| | | | |ms]; try reflexivity. rewrite dumpv_model. f_equal.
    revert ms. induction H as [|[n a] r Ha Hr IH]; intro ms; [reflexivity|].
    destruct ms as [|[f x] rm]; [reflexivity|]. cbn [dump_fields_any]. simpl in Ha.
    rewrite Ha, IH. reflexivity.
Qed.

Lemma dumpt_agrees a v : dumpt ser_upload a v = dumpv v.
Proof. apply dumpt_agrees_gen. reflexivity. Qed.

(* so an Upload below a field annotated Upload / Optional[...] / List[...] / a nested input is never lost *)
Lemma dumpt_keeps_uploads a v p : map snd (uploads_at p (dumpt ser_upload a v)) = deep_ids v.
Proof. rewrite dumpt_agrees. apply ids_dumpv. Qed.
