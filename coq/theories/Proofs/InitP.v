(* Lemmas about Model/Init.v: the string order, the sort, duplicate detection, __all__. *)
From Coq Require Import List String Ascii Bool Arith Lia Sorted Permutation.
From AC Require Import Base.Strs Model.Init.
Import ListNotations.

Definition chars_le (a b : chars) : Prop := chars_leb a b = true.

Lemma chars_leb_total a : forall b, chars_leb a b = false -> chars_leb b a = true.
Proof.
  induction a as [|x a IH]; intros [|y b]; simpl; intro H; try discriminate; try reflexivity.
  destruct (Nat.ltb (code x) (code y)) eqn:E1; [discriminate|].
  destruct (Nat.ltb (code y) (code x)) eqn:E2; [reflexivity|].
  apply IH. exact H.
Qed.

Lemma chars_leb_refl a : chars_leb a a = true.
Proof. induction a as [|x a IH]; simpl; [reflexivity|]. rewrite Nat.ltb_irrefl. exact IH. Qed.

Lemma code_inj x y : code x = code y -> x = y.
Proof.
  unfold code. intro H. rewrite <- (ascii_nat_embedding x), <- (ascii_nat_embedding y), H. reflexivity.
Qed.

Lemma chars_leb_antisym a : forall b, chars_leb a b = true -> chars_leb b a = true -> a = b.
Proof.
  induction a as [|x a IH]; intros [|y b]; simpl; intros H1 H2; try discriminate; try reflexivity.
  destruct (Nat.ltb (code x) (code y)) eqn:E1.
  - apply Nat.ltb_lt in E1. destruct (Nat.ltb (code y) (code x)) eqn:E2.
    + apply Nat.ltb_lt in E2. lia.
    + discriminate.
  - destruct (Nat.ltb (code y) (code x)) eqn:E2; [discriminate|].
    apply Nat.ltb_ge in E1. apply Nat.ltb_ge in E2.
    assert (x = y) by (apply code_inj; lia). subst. f_equal. apply IH; assumption.
Qed.

Lemma chars_leb_trans a : forall b c, chars_leb a b = true -> chars_leb b c = true -> chars_leb a c = true.
Proof.
  induction a as [|x a IH]; intros [|y b] [|z c]; simpl; intros H1 H2; try discriminate; try reflexivity.
  destruct (Nat.ltb (code x) (code y)) eqn:E1; destruct (Nat.ltb (code y) (code z)) eqn:E2;
    destruct (Nat.ltb (code y) (code x)) eqn:E3; destruct (Nat.ltb (code z) (code y)) eqn:E4;
    try discriminate;
    repeat match goal with
    | H : Nat.ltb _ _ = true |- _ => apply Nat.ltb_lt in H
    | H : Nat.ltb _ _ = false |- _ => apply Nat.ltb_ge in H
    end;
    destruct (Nat.ltb (code x) (code z)) eqn:E5; try reflexivity;
    destruct (Nat.ltb (code z) (code x)) eqn:E6;
    repeat match goal with
    | H : Nat.ltb _ _ = true |- _ => apply Nat.ltb_lt in H
    | H : Nat.ltb _ _ = false |- _ => apply Nat.ltb_ge in H
    end; try lia.
  eapply IH; eassumption.
Qed.

(* ---- insertion sort ---- *)
Lemma insert_perm x l : Permutation (insert_sorted x l) (x :: l).
Proof.
  induction l as [|y r IH]; simpl; [apply Permutation_refl|].
  destruct (chars_leb x y); [apply Permutation_refl|].
  eapply Permutation_trans; [apply perm_skip, IH | apply perm_swap].
Qed.

Theorem sort_perm l : Permutation (sort_chars l) l.
Proof.
  induction l as [|x r IH]; simpl; [constructor|].
  eapply Permutation_trans; [apply insert_perm | apply perm_skip, IH].
Qed.

Lemma insert_hdrel a x l : HdRel chars_le a l -> chars_le a x -> HdRel chars_le a (insert_sorted x l).
Proof.
  intros H Hx. destruct l as [|y r]; simpl.
  - constructor. exact Hx.
  - destruct (chars_leb x y); constructor; [exact Hx|]. inversion H; assumption.
Qed.

Lemma insert_sorted_ok x l : Sorted chars_le l -> Sorted chars_le (insert_sorted x l).
Proof.
  induction l as [|y r IH]; simpl; intro H.
  - repeat constructor.
  - destruct (chars_leb x y) eqn:E.
    + constructor; [exact H | constructor; exact E].
    + inversion H as [|? ? Hs Hh]; subst. constructor; [apply IH, Hs|].
      apply insert_hdrel; [exact Hh | apply chars_leb_total, E].
Qed.

Theorem sort_sorted l : Sorted chars_le (sort_chars l).
Proof. induction l as [|x r IH]; simpl; [constructor | apply insert_sorted_ok, IH]. Qed.

Lemma sort_in x l : In x (sort_chars l) <-> In x l.
Proof.
  split; intro H.
  - eapply Permutation_in; [apply sort_perm | exact H].
  - eapply Permutation_in; [apply Permutation_sym, sort_perm | exact H].
Qed.

Lemma sort_nodup l : NoDup l -> NoDup (sort_chars l).
Proof. intro H. eapply Permutation_NoDup; [apply Permutation_sym, sort_perm | exact H]. Qed.

Lemma sort_length l : List.length (sort_chars l) = List.length l.
Proof. apply Permutation_length, sort_perm. Qed.

(* a sorted list is determined by its elements: the result of sorted() does not depend on the order
   in which the files were written / the imports were added *)
Lemma sorted_strong l : Sorted chars_le l -> StronglySorted chars_le l.
Proof.
  apply Sorted_StronglySorted. intros a b c. unfold chars_le. apply chars_leb_trans.
Qed.

Lemma strongly_sorted_perm_eq l : forall l', StronglySorted chars_le l -> StronglySorted chars_le l' ->
  Permutation l l' -> l = l'.
Proof.
  induction l as [|x r IH]; intros l' Hs Hs' Hp.
  - apply Permutation_nil in Hp. subst. reflexivity.
  - destruct l' as [|y r'].
    + apply Permutation_sym, Permutation_nil in Hp. discriminate.
    + inversion Hs as [|? ? Hsr Hx]; subst. inversion Hs' as [|? ? Hsr' Hy]; subst.
      assert (x = y).
      { assert (In x (y :: r')) as I1 by (eapply Permutation_in; [exact Hp | left; reflexivity]).
        assert (In y (x :: r)) as I2 by (eapply Permutation_in; [apply Permutation_sym, Hp | left; reflexivity]).
        destruct I1 as [E|I1]; [symmetry; exact E|]. destruct I2 as [E|I2]; [exact E|].
        rewrite Forall_forall in Hx, Hy. apply chars_leb_antisym; [apply Hx, I2 | apply Hy, I1]. }
      subst. f_equal. apply IH; try assumption. eapply Permutation_cons_inv. exact Hp.
Qed.

Theorem sort_canonical l l' : Permutation l l' -> sort_chars l = sort_chars l'.
Proof.
  intro H. apply strongly_sorted_perm_eq; try (apply sorted_strong, sort_sorted).
  eapply Permutation_trans; [apply sort_perm|].
  eapply Permutation_trans; [exact H | apply Permutation_sym, sort_perm].
Qed.

(* ---- duplicate detection ---- *)
Theorem has_dup_false_iff l : has_dup l = false <-> NoDup l.
Proof.
  induction l as [|x r IH]; simpl.
  - split; [constructor | reflexivity].
  - rewrite orb_false_iff. split.
    + intros [H1 H2]. constructor; [|apply IH, H2].
      intro I. apply mem_chars_In in I. congruence.
    + intro H. inversion H as [|? ? Hn Hr]; subst. split; [|apply IH, Hr].
      destruct (mem_chars x r) eqn:E; [|reflexivity]. apply mem_chars_In in E. contradiction.
Qed.

Lemma has_dup_true_iff l : has_dup l = true <-> ~ NoDup l.
Proof.
  split.
  - intros H N. apply has_dup_false_iff in N. congruence.
  - intro H. destruct (has_dup l) eqn:E; [reflexivity|]. apply has_dup_false_iff in E. contradiction.
Qed.

(* ---- __init__ ---- *)
Lemma imported_names_app a b : imported_names (a ++ b) = imported_names a ++ imported_names b.
Proof. unfold imported_names. apply flat_map_app. Qed.

Lemma add_import_names names from_ st :
  imported_names (add_import names from_ st) = imported_names st ++ names.
Proof.
  unfold add_import. destruct names as [|n r].
  - rewrite app_nil_r. reflexivity.
  - rewrite imported_names_app. simpl. rewrite app_nil_r. reflexivity.
Qed.

Theorem init_all_sorted st : Sorted chars_le (init_all st).
Proof. apply sort_sorted. Qed.

Theorem init_all_perm st : Permutation (init_all st) (imported_names st).
Proof. apply sort_perm. Qed.
