(* C01 acceptance with fragment spreads used as mixin base classes: the classes of the operation module
   and of the fragments module (all_classes) accept every conformant response, for the sub-language
   sels_okM (sels_ok + recorded mixin spreads, whose fragments are again in the sub-language). *)
From Coq Require Import List String Ascii Bool Arith Lia ZArith.
From AC Require Import Base.Strs Base.Sexp Base.Json Gql.Schema Gql.Exec Py.Ann Py.Pydantic
     Model.Names Model.Results Proofs.ResultsP Proofs.ResultsRunP Proofs.ResultsAbsP Proofs.ResultsObjP.
Import ListNotations.
Local Open Scope string_scope.
Local Open Scope list_scope.

(* ---- collect does not depend on the fuel once it succeeds ---- *)
Lemma collect_fuel_det S frs rt : forall k1 k2 under sels a b,
  collect k1 S frs rt under sels = Some a -> collect k2 S frs rt under sels = Some b -> a = b.
Proof.
  induction k1 as [|k1 IH]; intros k2 under sels a b H1 H2; [discriminate H1|].
  destruct k2 as [|k2]; [discriminate H2|]. simpl in H1, H2.
  assert (G : forall sels l0 a b,
            fold_left (collect_step (collect k1 S frs rt) S frs rt under) sels (Some l0) = Some a ->
            fold_left (collect_step (collect k2 S frs rt) S frs rt under) sels (Some l0) = Some b -> a = b).
  { clear H1 H2 a b sels. induction sels as [|s sels IHs]; intros l0 a b H1 H2; simpl in H1, H2.
    - congruence.
    - destruct s as [al n c ms sub | n c | tc c sub]; simpl in H1, H2.
      + eapply IHs; eauto.
      + destruct (lookup_frag frs n) as [fd|];
          [| rewrite collect_fold_none in H1; discriminate].
        destruct (type_applies S rt (fr_on fd)); [| eapply IHs; eauto].
        destruct (collect k1 S frs rt (under || c) (fr_sel fd)) as [q1|] eqn:E1;
          [| rewrite collect_fold_none in H1; discriminate].
        destruct (collect k2 S frs rt (under || c) (fr_sel fd)) as [q2|] eqn:E2;
          [| rewrite collect_fold_none in H2; discriminate].
        rewrite (IH _ _ _ _ _ E1 E2) in H1. eapply IHs; eauto.
      + destruct (match tc with None => true | Some t => type_applies S rt t end); [| eapply IHs; eauto].
        destruct (collect k1 S frs rt (under || c) sub) as [q1|] eqn:E1;
          [| rewrite collect_fold_none in H1; discriminate].
        destruct (collect k2 S frs rt (under || c) sub) as [q2|] eqn:E2;
          [| rewrite collect_fold_none in H2; discriminate].
        rewrite (IH _ _ _ _ _ E1 E2) in H1. eapply IHs; eauto. }
  eapply G; eauto.
Qed.

Lemma collect_scopes_single S frs rt fc sels :
  collect_scopes fc S frs rt [(false, sels)] = collect fc S frs rt false sels.
Proof.
  unfold collect_scopes. cbn [fold_left fst snd]. destruct (collect fc S frs rt false sels); reflexivity.
Qed.

(* ---- conf_obj on any node list with distinct response keys, node by node ---- *)
Definition key_spec_n (rec : gtype -> list scope -> json -> bool) (S : schema) (rt : string)
           (kv : list (string * json)) (x : cnode) : bool :=
  match jlookup (n_key x) kv with
  | None => n_cond x
  | Some v =>
      if String.eqb (n_name x) "__typename"
      then match v with JStr s => String.eqb s rt | _ => false end
      else match field_type_on S rt (n_name x) with
           | None => false
           | Some ft => rec ft (sub_scopes [x]) v
           end
  end.

Lemma key_spec_node rec S rt kv f :
  key_spec rec S rt kv f = key_spec_n rec S rt kv (node_of_fnode false f).
Proof. reflexivity. Qed.

Lemma conf_obj_nodes eo rec S rt l kv :
  NoDup (map n_key l) ->
  conf_obj_gen eo rec S rt (Some l) kv
  = (eo || forallb (fun p => mem (fst p) (map n_key l)) kv) && forallb (key_spec_n rec S rt kv) l.
Proof.
  intros Hnd. unfold conf_obj_gen.
  rewrite keys_in_order_nodup; [| exact Hnd | intros n _ []].
  f_equal. rewrite forallb_map. apply forallb_ext_in. intros x Hx.
  unfold conf_key, key_spec_n.
  rewrite (filter_key_single l x Hnd Hx).
  destruct (jlookup (n_key x) kv); simpl; [reflexivity | apply andb_true_r].
Qed.

(* ---- base classes ---- *)
Lemma sorted_set_In x l : In x (sorted_set l) <-> In x l.
Proof. unfold sorted_set. rewrite sort_strings_In. apply dedup_In. Qed.

Lemma class_bases_In b ms kept eb :
  In b (class_bases ms kept eb) -> b = "BaseModel" \/ (exists m, In m kept /\ b = pascal_s m) \/ In b eb.
Proof.
  unfold class_bases. intro H. apply in_app_or in H as [H | H]; [| right; right; exact H].
  destruct ms as [|m0 ms].
  - destruct H as [H | []]. left. auto.
  - apply in_map_iff in H. destruct H as [m [E Hm]]. right. left. exists m.
    split; [apply sorted_set_In, Hm | auto].
Qed.

(* the listed bases are among the resolved mixins (those not inherited through another one) *)
Lemma remove_inherited_incl fuel S frs ms kept :
  remove_inherited fuel S frs ms = Ok kept -> incl kept ms.
Proof.
  unfold remove_inherited. intro H. apply bind_ok in H. destruct H as [inh [_ H]]. inversion H; subst.
  intros x Hx. apply filter_In in Hx. tauto.
Qed.

Lemma mro_basemodel cs j : j >= 1 -> mro_fields j cs "BaseModel" = Some [].
Proof. destruct j; [lia | reflexivity]. Qed.

Lemma mro_with_bases cs cn c J :
  lookup_class cs cn = Some c -> cn <> "BaseModel" ->
  (forall b, In b (c_bases c) -> exists pb, forall j, j >= J -> mro_fields j cs b = Some pb) ->
  exists pfs, (forall j, j >= Datatypes.S J -> mro_fields j cs cn = Some pfs) /\
              (forall pf, In pf pfs -> In pf (c_fields c) \/
                   exists b pb, In b (c_bases c) /\ (forall j, j >= J -> mro_fields j cs b = Some pb) /\ In pf pb).
Proof.
  intros Hl Hn Hb.
  assert (G : forall bases acc,
            (forall b, In b bases -> exists pb, forall j, j >= J -> mro_fields j cs b = Some pb) ->
            exists res,
              (forall j', j' >= J ->
                 fold_left (fun a b => match a, mro_fields j' cs b with
                                       | Some l, Some bl => Some (mro_merge l bl) | _, _ => None end)
                           bases (Some acc) = Some res) /\
              (forall pf, In pf res -> In pf acc \/
                   exists b pb, In b bases /\ (forall j, j >= J -> mro_fields j cs b = Some pb) /\ In pf pb)).
  { induction bases as [|b bases IH]; intros acc H.
    - exists acc. split; [reflexivity | auto].
    - destruct (H b (or_introl eq_refl)) as [pb Hpb].
      destruct (IH (mro_merge acc pb) (fun b' Hb' => H b' (or_intror Hb'))) as [res [R1 R2]].
      exists res. split.
      + intros j' Hj. simpl. rewrite (Hpb j' Hj). apply R1, Hj.
      + intros pf Hpf. destruct (R2 pf Hpf) as [Hin | [b' [pb' [Hb' [Hm Hi]]]]].
        * unfold mro_merge in Hin. apply in_app_or in Hin. destruct Hin as [Hin | Hin]; [left; exact Hin|].
          apply filter_In in Hin. destruct Hin as [Hin _]. right. exists b, pb. split; [left; reflexivity | auto].
        * right. exists b', pb'. split; [right; exact Hb' | auto]. }
  destruct (G (c_bases c) (c_fields c) Hb) as [res [R1 R2]].
  exists res. split; [| exact R2].
  intros j Hj. destruct j as [|j']; [lia|]. cbn [mro_fields]. rewrite (eqb_neq_false _ _ Hn), Hl.
  apply R1. lia.
Qed.

(* ---- the fragment classes inside all_classes ---- *)
Lemma all_classes_frags fuel C S frs d cls :
  all_classes fuel C S frs d = Ok cls ->
  forall fm, In fm frs -> exists cf, result_classes fuel C S frs (DFrag fm) = Ok cf /\ incl cf cls.
Proof.
  unfold all_classes. intro H. apply bind_ok in H. destruct H as [own [_ H]].
  assert (G : forall l l0 r,
            fold_left (fun acc f => l <- acc ;; c <- result_classes fuel C S frs (DFrag f) ;; Ok (l ++ c))
                      l (Ok l0) = Ok r ->
            incl l0 r /\ forall fm, In fm l -> exists cf, result_classes fuel C S frs (DFrag fm) = Ok cf /\ incl cf r).
  { induction l as [|f l IH]; intros l0 r Hf; cbn [fold_left] in Hf.
    - inversion Hf. split; [apply incl_refl | intros fm []].
    - destruct (result_classes fuel C S frs (DFrag f)) as [c|m] eqn:E; cbn [bind] in Hf.
      + destruct (IH _ _ Hf) as [I1 I2]. split; [eapply incl_tran; [apply incl_appl, incl_refl | exact I1]|].
        intros fm [Hfm | Hfm]; [| apply I2, Hfm]. subst fm. exists c. split; [exact E|].
        eapply incl_tran; [apply incl_appr, incl_refl | exact I1].
      + exfalso. clear - Hf. induction l; cbn [fold_left bind] in Hf; [discriminate | auto]. }
  destruct (G _ _ _ H) as [_ G2]. exact G2.
Qed.

(* ghost guard: no class skipped in any fragment's own generation *)
Definition frag_no_skip (fuel : nat) (C : cfg) (S : schema) (frs : list fragdef) : bool :=
  forallb (fun fm =>
             unpack_fragment S fm None ||
             match parse_type_def fuel C S frs [] (pascal_s (fr_name fm)) (fr_on fm) (fr_sel fm) false
                                  (fr_mixins fm) None with
             | Ok (_, _, sk) => negb sk
             | Err _ => true
             end) frs.

Lemma frag_runs fuel C S frs d cls :
  all_classes fuel C S frs d = Ok cls -> frag_no_skip fuel C S frs = true ->
  forall fm, In fm frs -> unpack_fragment S fm None = false ->
    exists out pub', parse_type_def fuel C S frs [] (pascal_s (fr_name fm)) (fr_on fm) (fr_sel fm) false
                                     (fr_mixins fm) None = Ok (out, pub', false) /\ incl out cls.
Proof.
  intros Hall Hns fm Hin Hu.
  destruct (all_classes_frags _ _ _ _ _ _ Hall fm Hin) as [cf [Hr Hi]].
  unfold frag_no_skip in Hns. rewrite forallb_forall in Hns. specialize (Hns fm Hin). rewrite Hu in Hns.
  simpl in Hr, Hns. rewrite Hu in Hr.
  destruct (parse_type_def fuel C S frs [] (pascal_s (fr_name fm)) (fr_on fm) (fr_sel fm) false
                           (fr_mixins fm) None) as [[[out pub'] sk]|m]; [| discriminate Hr].
  simpl in Hr, Hns. inversion Hr; subst cf. apply negb_true_iff in Hns. subst sk. eauto.
Qed.

Lemma lookup_class_nodup cls c :
  NoDup (map c_name cls) -> In c cls -> lookup_class cls (c_name c) = Some c.
Proof. intros Hnd Hin. rewrite <- (app_nil_r cls). apply lookup_class_own; auto. Qed.

(* ------------------------------------------------------------------------------------------- *)
(* The guard with mixins.  top: this selection set is a whole response object (its collected keys  *)
(* — own fields and mixin fragments' fields together — must satisfy keys_ok); a mixin fragment's   *)
(* own selection set is checked with top = false.                                                  *)
(* every resolved mixin is a listed base or is inherited through a listed base (true of every
   document whose fragments do not spread each other cyclically) *)
Definition reach_ok (fuel : nat) (S : schema) (frs : list fragdef) (ms : list string) : bool :=
  match remove_inherited fuel S frs ms with
  | Ok kept =>
      forallb (fun m => mem m kept ||
                        existsb (fun k => match fragment_bases fuel S frs k with
                                          | Ok lk => mem m lk | Err _ => false end) kept) ms
  | Err _ => false
  end.

Fixpoint sels_okM (fuel : nat) (cov : bool) (C : cfg) (S : schema) (frs : list fragdef) (mx : list string)
         (top abs : bool) (rt r : string) (sels : list sel) : bool :=
  match fuel with
  | O => false
  | Datatypes.S g =>
      match flattenM g S frs rt r false sels with
      | Some (fns, ms) =>
          (if top then
             match collect g S frs rt false sels with
             | Some l => keys_ok C (map n_key l) &&
                         (negb cov || nodupb (map (py_field_name C) (map n_key l)))
             | None => false
             end
           else true) &&
          forallb (field_ok (sels_okM g cov C S frs mx true) g cov S mx abs rt r) fns &&
          forallb (fun m => match lookup_frag frs m with
                            | Some fm =>
                                forallb (fun b => mem b mx) (fr_mixins fm) &&
                                negb (unpack_fragment S fm None) &&
                                sels_okM g cov C S frs mx false false rt (fr_on fm) (fr_sel fm)
                            | None => false
                            end) ms &&
          reach_ok g S frs ms
      | None => false
      end
  end.

Definition mixin_ok (g : nat) (cov : bool) (C : cfg) (S : schema) (frs : list fragdef) (mx : list string)
           (rt : string) (m : string) : bool :=
  match lookup_frag frs m with
  | Some fm =>
      forallb (fun b => mem b mx) (fr_mixins fm) &&
      negb (unpack_fragment S fm None) &&
      sels_okM g cov C S frs mx false false rt (fr_on fm) (fr_sel fm)
  | None => false
  end.

Lemma sels_okM_S g cov C S frs mx top abs rt r sels :
  sels_okM (Datatypes.S g) cov C S frs mx top abs rt r sels =
  match flattenM g S frs rt r false sels with
  | Some (fns, ms) =>
      (if top then
         match collect g S frs rt false sels with
         | Some l => keys_ok C (map n_key l) && (negb cov || nodupb (map (py_field_name C) (map n_key l)))
         | None => false
         end
       else true) &&
      forallb (field_ok (sels_okM g cov C S frs mx true) g cov S mx abs rt r) fns &&
      forallb (mixin_ok g cov C S frs mx rt) ms &&
      reach_ok g S frs ms
  | None => false
  end.
Proof. reflexivity. Qed.

Lemma sels_okM_inv g cov C S frs mx top abs rt r sels :
  sels_okM g cov C S frs mx top abs rt r sels = true ->
  exists g' fns ms, g = Datatypes.S g' /\ flattenM g' S frs rt r false sels = Some (fns, ms) /\
    (top = true -> exists l, collect g' S frs rt false sels = Some l /\ keys_ok C (map n_key l) = true /\
                             (cov = true -> NoDup (map (py_field_name C) (map n_key l)))) /\
    forallb (field_ok (sels_okM g' cov C S frs mx true) g' cov S mx abs rt r) fns = true /\
    forallb (mixin_ok g' cov C S frs mx rt) ms = true /\
    reach_ok g' S frs ms = true.
Proof.
  destruct g as [|g']; [discriminate|]. rewrite sels_okM_S. intro H.
  destruct (flattenM g' S frs rt r false sels) as [[fns ms]|] eqn:Ef; [| discriminate].
  apply andb_true_iff in H as [H H4]. apply andb_true_iff in H as [H H3]. apply andb_true_iff in H as [H1 H2].
  exists g', fns, ms. split; [reflexivity|]. split; [exact Ef|].
  split; [| split; [exact H2 | split; [exact H3 | exact H4]]].
  intro Ht. subst top. destruct (collect g' S frs rt false sels) as [l|]; [| discriminate].
  apply andb_true_iff in H1 as [K1 K2]. exists l. split; [reflexivity|]. split; [exact K1|].
  intro Hc. subst cov. simpl in K2. apply nodupb_NoDup, K2.
Qed.

(* without spreads the mixin guard gives what abstract positions need *)
Lemma sels_okM_ok_inv g cov C S frs mx : forall b rt r sels,
  sels_okM g cov C S frs mx true b rt r sels = true -> no_spread g sels = true ->
  exists g' fns, flatten g' S frs rt r sels = Some fns /\ keys_okD C fns = true /\
                 (cov = true -> NoDup (map (fun f => py_field_name C (field_key f)) fns)).
Proof.
  intros b rt r sels H Hns.
  destruct (sels_okM_inv _ _ _ _ _ _ _ _ _ _ _ H) as [g' [fns [ms [_ [Hfl [Htop _]]]]]].
  destruct (Htop eq_refl) as [l [Hc [Hk Hn]]].
  destruct (flattenM_both_ex S frs rt _ _ _ _ _ _ Hfl g' (le_n _)) as [Hres _].
  pose proof (resolve_no_spread _ _ _ _ _ _ _ _ Hns Hres) as Hm. simpl in Hm. subst ms.
  assert (Hf : flatten g' S frs rt r sels = Some fns) by (apply flatten_M; exact Hfl).
  pose proof (flatten_collect_det _ _ _ _ _ _ _ _ _ Hf Hc) as El. subst l.
  rewrite map_map in Hk, Hn. exists g', fns. split; [exact Hf|]. split; [apply keys_ok_D, Hk|].
  intro Hcov. specialize (Hn Hcov). rewrite map_map in Hn. exact Hn.
Qed.

Lemma flattenM_typename S frs rt g r sels fns ms :
  has_typename sels = true -> flattenM g S frs rt r false sels = Some (fns, ms) ->
  existsb (fun f0 => String.eqb (fn_name f0) "__typename") fns = true.
Proof.
  unfold has_typename. intros H Hf. apply existsb_exists in H. destruct H as [s [Hs Hp]].
  destruct s as [[al|] n [|] mx [sub|] | |]; try discriminate Hp.
  apply String.eqb_eq in Hp. subst n.
  apply existsb_exists. exists (fnode_of None "__typename" false mx None).
  split; [apply (flattenM_field_in _ _ _ _ _ _ _ _ _ _ _ _ _ _ Hf Hs) | reflexivity].
Qed.

(* one level of the generator on a selection set of the mixin sub-language *)
Lemma level_invM C S frs fuel pub cn rt r sels at_ eb tv out pub' g fns ms :
  parse_type_def (Datatypes.S fuel) C S frs pub cn r sels at_ eb tv = Ok (out, pub', false) ->
  flattenM g S frs rt r false sels = Some (fns, ms) ->
  (at_ = true -> has_typename sels = true) ->
  exists f2 pfl extra kept,
    fuel = Datatypes.S f2 /\
    fields_run (parse_type_def fuel C S frs) C S frs fuel cn r tv at_ fns (pub ++ [cn]) pfl extra pub' false /\
    incl kept ms /\ remove_inherited fuel S frs ms = Ok kept /\
    out = {| c_name := cn; c_bases := class_bases ms kept eb; c_fields := pfl |} :: extra.
Proof.
  intros H Hfl Hat. simpl in H. apply body_inv in H.
  destruct H as [[_ [_ [_ H]]] | [M [fields0 [mixins [pfl [extra [Hres [Hrun [kept [Hk Hout]]]]]]]]]];
    [discriminate|].
  destruct (resolve_ok_fuel _ _ _ _ _ _ _ Hres) as [f2 Ef]. subst fuel.
  pose proof (flattenM_resolve_det _ _ _ _ _ _ _ _ _ _ Hfl Hres) as E. inversion E; subst fields0 mixins.
  assert (Hadd : add_typename_field at_ fns = fns).
  { unfold add_typename_field. destruct at_; [| reflexivity].
    rewrite (flattenM_typename _ _ _ _ _ _ _ _ (Hat eq_refl) Hfl). reflexivity. }
  rewrite Hadd in Hrun. exists f2, pfl, extra, kept. split; [reflexivity|]. split; [exact Hrun|].
  split; [eapply remove_inherited_incl; eauto | split; [exact Hk | exact Hout]].
Qed.

(* ------------------------------------------------------------------------------------------- *)
(* Main induction (on the guard's fuel, which bounds both nesting and mixin depth)                *)
Section Mix.
  Variables (C : cfg) (S : schema) (frs : list fragdef) (F : nat) (cls : list pclass) (cov : bool).
  (* the @mixin names of the document: none of them is a class of the table *)
  Variable mx : list string.
  Hypothesis G0 : mx_ok cls mx = true.
  (* the class table of the run: pairwise distinct names, no BaseModel, and every fragment that gets a
     class was generated without a skip into this table *)
  Hypothesis G1 : NoDup (map c_name cls).
  Hypothesis G3 : no_basemodel cls = true.
  Hypothesis G2 : forall fm, In fm frs -> unpack_fragment S fm None = false ->
    exists out pub', parse_type_def F C S frs [] (pascal_s (fr_name fm)) (fr_on fm) (fr_sel fm) false
                                     (fr_mixins fm) None = Ok (out, pub', false) /\ incl out cls.

  Lemma table_of_incl out : incl out cls -> table_ok cls out.
  Proof.
    intros Hi c Hc. split; [apply lookup_class_nodup; auto|].
    unfold no_basemodel in G3. rewrite forallb_forall in G3. specialize (G3 c (Hi c Hc)).
    apply negb_true_iff, String.eqb_neq in G3. exact G3.
  Qed.

  (* what the payload object satisfies, stated on an ambient node list N (the collected nodes of the
     whole response object, own fields and mixin fragments' fields) *)
  Definition amb (N : list cnode) (rt : string) (kv : list (string * json)) (fc : nat) : Prop :=
    keys_ok C (map n_key N) = true /\ (forall p, In p kv -> In (fst p) (map n_key N)) /\
    (forall x, In x N -> key_spec_n (conf_val fc S frs) S rt kv x = true).

  (* the class cn, with everything it inherits, passes pydantic's per-field check on kv *)
  Definition class_good (g : nat) (cn : string) (kv : list (string * json)) : Prop :=
    exists pfs, (forall j, j >= g + 2 -> mro_fields j cls cn = Some pfs) /\
                (forall n', n' >= F + g + 1 -> forall pf, In pf pfs ->
                            field_check (accepts n' cls (schema_enums S)) kv pf = true).

  Theorem mix_main : forall g fuel pub cn rt r sels at_ eb tv top out pub' k l N kv fc,
    fuel <= F -> parse_type_def fuel C S frs pub cn r sels at_ eb tv = Ok (out, pub', false) ->
    sels_okM g cov C S frs mx top at_ rt r sels = true -> tv_ok rt tv ->
    (at_ = true -> has_typename sels = true) -> table_ok cls out -> harmless cls eb ->
    collect k S frs rt false sels = Some l -> incl l N -> amb N rt kv fc ->
    class_good g cn kv.
  Proof.
    induction g as [|g IH];
      intros fuel pub cn rt r sels at_ eb tv top out pub' k l N kv fc HF Hp Hok Htv Hat Htab Heb Hcol HlN Hamb;
      [discriminate Hok|].
    destruct (sels_okM_inv _ _ _ _ _ _ _ _ _ _ _ Hok) as [g' [fns [ms [Eg [Hfl [_ [Hfields [Hmix _]]]]]]]].
    inversion Eg; subst g'. clear Eg.
    destruct fuel as [|fuel']; [discriminate Hp|].
    destruct (level_invM _ _ _ _ _ _ _ _ _ _ _ _ _ _ _ _ _ Hp Hfl Hat) as [f2 [pfl [extra [kept [Ef [Hrun [Hkept [_ Hout]]]]]]]].
    destruct Hamb as [HkN [HkvN HspecN]].
    destruct (flattenM_collect_mix _ _ _ _ _ _ _ _ _ _ _ Hfl Hcol) as [Hown Hmixn].
    assert (Hc0 : In {| c_name := cn; c_bases := class_bases ms kept eb; c_fields := pfl |} out)
      by (rewrite Hout; left; reflexivity).
    destruct (Htab _ Hc0) as [Hl Hnb]. simpl in Hl, Hnb.
    (* the base classes *)
    assert (HB : forall b, In b (class_bases ms kept eb) -> class_good g b kv).
    { intros b Hb. destruct (class_bases_In _ _ _ _ Hb) as [E | [[m [Hm E]] | Hbe]];
        [subst b | subst b; apply Hkept in Hm |].
      - exists []. split; [intros j Hj; apply mro_basemodel; lia | intros n' _ pf []].
      - rewrite forallb_forall in Hmix. specialize (Hmix m Hm). unfold mixin_ok in Hmix.
        destruct (lookup_frag frs m) as [fm|] eqn:Elf; [| discriminate Hmix].
        apply andb_true_iff in Hmix as [Hmix Hokm]. apply andb_true_iff in Hmix as [Hnm Hun].
        apply negb_true_iff in Hun.
        pose proof (mx_ok_harmless _ _ _ G0 Hnm) as Hhm.
        unfold lookup_frag in Elf. pose proof (find_some _ _ Elf) as [Hfin Hfn].
        apply String.eqb_eq in Hfn.
        destruct (G2 fm Hfin Hun) as [outm [pubm [Hrunm Hinm]]]. rewrite Hfn in Hrunm.
        destruct (Hmixn m Hm) as [fm' [k' [lm [Elf' [Hcm Hilm]]]]].
        unfold lookup_frag in Elf'. rewrite Elf in Elf'. inversion Elf'; subst fm'.
        eapply (IH F [] (pascal_s m) rt (fr_on fm) (fr_sel fm) false (fr_mixins fm) None false outm pubm k' lm N kv fc);
          eauto.
        + left; reflexivity.
        + discriminate.
        + apply table_of_incl, Hinm.
        + eapply incl_tran; eauto.
        + repeat split; auto.
      - exists []. split; [| intros n' _ pf []].
        intros j Hj. destruct j as [|j']; [lia|]. apply mro_empty, Heb, Hbe. }
    destruct (mro_with_bases cls cn _ (g + 2) Hl Hnb) as [pfs [Hmro Hpfs]].
    { intros b Hb. destruct (HB b Hb) as [pb [Hpb _]]. exists pb. exact Hpb. }
    exists pfs. split; [intros j Hj; apply Hmro; lia|].
    intros n' Hn' pf Hpf. destruct (Hpfs pf Hpf) as [Hin | [b [pb [Hb [Hmb Hinb]]]]].
    - (* own fields *)
      simpl c_fields in Hin.
      assert (HF2 : F >= 2) by lia.
      destruct n' as [|n1]; [lia|].
      assert (Hn1 : n1 >= F + g + 1) by lia.
      assert (HFF : Forall2 (field_facts C (accepts (Datatypes.S n1) cls (schema_enums S)) kv) fns pfl).
      { eapply (level_facts C S frs fuel' g cov cls (accepts (Datatypes.S n1) cls (schema_enums S)) (fun _ => True)
                            class_accepts (accepts n1 cls (schema_enums S)) (mro_fields n1 cls)
                            (sels_okM g cov C S frs mx true) mx (harmless cls)
                            (fun eb0 => mx_ok_harmless cls mx eb0 G0) (sels_okM_ok_inv g cov C S frs mx))
          with (K := map n_key N) (k := fc);
          try eassumption; try reflexivity; auto.
        - intros m j H1 H2. apply (scalar_leaf_accepts C S); auto.
        - intros m vs j H1 H2. eapply enum_leaf_accepts; eauto.
        - intros tvs s Hs. simpl. apply mem_In. apply (proj2 (sort_strings_In _ _)), Hs.
        - intros c eb0 Hlc Hnc Hbc Hh. destruct n1 as [|[|n3]]; try lia. eapply mro_harmless; eauto.
        - eauto.
        - (* nested classes *)
          intros pb cn2 rt2 r2 sels2 at2 eb2 tvs out2 pub2 fc2 kv2 P0 P1 P2 P3 P4 P5 P6 _.
          destruct (sels_okM_inv _ _ _ _ _ _ _ _ _ _ _ P2) as [g'' [fns2 [ms2 [_ [_ [Htop2 _]]]]]].
          destruct (Htop2 eq_refl) as [l2' [Hc2' [Hk2 _]]].
          unfold obj_conf, conf_obj_with in P6. rewrite collect_scopes_single in P6.
          destruct (collect fc2 S frs rt2 false sels2) as [l2|] eqn:Ec2; [| discriminate P6].
          pose proof (collect_fuel_det _ _ _ _ _ _ _ _ _ Ec2 Hc2') as El2. subst l2'.
          rewrite conf_obj_nodes in P6 by (eapply keys_ok_nodup; eauto).
          simpl in P6. apply andb_true_iff in P6 as [Q1 Q2]. rewrite forallb_forall in Q1, Q2.
          assert (Hgood : class_good g cn2 kv2).
          { eapply (IH fuel' pb cn2 rt2 r2 sels2 at2 eb2 (Some tvs) true out2 pub2 fc2 l2 l2 kv2 fc2); eauto.
            - lia.
            - right. eauto.
            - apply incl_refl.
            - split; [exact Hk2|]. split; [intros p Hp'; apply mem_In, Q1, Hp' | exact Q2]. }
          destruct Hgood as [pfs2 [Hm2 Hc2]].
          rewrite (Hm2 n1) by lia. rewrite class_accepts_check. apply forallb_forall.
          intros pf2 Hpf2. apply last_wins_In in Hpf2. apply Hc2; [lia | exact Hpf2].
        - (* alias condition relative to the ambient keys *)
          intros f Hf. unfold keys_ok in HkN. apply andb_true_iff in HkN as [_ HkN].
          rewrite forallb_forall in HkN. apply (HkN (field_key f)).
          change (field_key f) with (n_key (node_of_fnode false f)). apply in_map, HlN, Hown, Hf.
        - eapply table_ok_incl; [exact Htab|]. rewrite Hout. apply incl_tl, incl_refl.
        - apply forallb_forall. intros f Hf. rewrite key_spec_node. apply HspecN, HlN, Hown, Hf. }
      assert (HR : Forall (fun pf0 => field_check (accepts (Datatypes.S n1) cls (schema_enums S)) kv pf0 = true) pfl).
      { eapply Forall2_right; [exact HFF|]. intros x y [_ [_ [Hc _]]]. exact Hc. }
      rewrite Forall_forall in HR. apply HR, Hin.
    - (* inherited fields *)
      destruct (HB b Hb) as [pb' [Hpb' Hchk]].
      assert (pb = pb') by (specialize (Hmb (g + 2) (le_n _)); specialize (Hpb' (g + 2) (le_n _)); congruence).
      subst pb'. apply Hchk; [lia | exact Hinb].
  Qed.
End Mix.

(* ------------------------------------------------------------------------------------------- *)
(* Operation level                                                                              *)
Definition op_okM (g : nat) (cov : bool) (C : cfg) (S : schema) (frs : list fragdef) (mx mixins : list string)
           (root : string) (sels : list sel) : bool :=
  is_object S root && forallb (fun b => mem b mx) mixins && sels_okM g cov C S frs mx true false root root sels.

Theorem op_accepts_mix C S frs F kind name mixins sels root own pub' cls g cov mx fc j n :
  root_type_name S kind = Ok root ->
  op_parse F C S frs kind name mixins sels = Ok (own, pub', false) ->
  all_classes F C S frs (DOp kind name mixins sels) = Ok cls ->
  op_okM g cov C S frs mx mixins root sels = true -> mx_ok cls mx = true ->
  nodupb (map c_name cls) = true -> no_basemodel cls = true -> frag_no_skip F C S frs = true ->
  conf_op fc S frs root sels j = true ->
  n >= F + g + 2 ->
  accepts n cls (schema_enums S) (AClass (pascal_s name)) j = true.
Proof.
  intros Hroot Hop Hall Hok Hmx Hnd Hnb Hfs Hconf Hn.
  apply nodupb_NoDup in Hnd.
  unfold op_okM in Hok. apply andb_true_iff in Hok as [Hobj Hsels]. apply andb_true_iff in Hobj as [Hobj Hmix].
  destruct (conf_op_obj _ _ _ _ _ _ Hobj Hconf) as [kv [k [Ej Hc]]]. subst j.
  destruct (all_classes_prefix _ _ _ _ _ _ Hall) as [own' [rest [Hr Ecls]]].
  simpl in Hr. rewrite Hop in Hr. simpl in Hr. inversion Hr; subst own'. clear Hr.
  assert (Hown : incl own cls) by (rewrite Ecls; apply incl_appl, incl_refl).
  unfold op_parse in Hop. rewrite Hroot in Hop. simpl in Hop.
  assert (HF1 : F >= 1) by (destruct F; [discriminate Hop | lia]).
  pose proof (frag_runs _ _ _ _ _ _ Hall Hfs) as G2.
  destruct (sels_okM_inv _ _ _ _ _ _ _ _ _ _ _ Hsels) as [g' [fns [ms [_ [_ [Htop _]]]]]].
  destruct (Htop eq_refl) as [l' [Hc' [Hk _]]].
  unfold obj_conf, conf_obj_with in Hc. rewrite collect_scopes_single in Hc.
  destruct (collect k S frs root false sels) as [l|] eqn:Ec; [| discriminate Hc].
  pose proof (collect_fuel_det _ _ _ _ _ _ _ _ _ Ec Hc') as El. subst l'.
  rewrite conf_obj_nodes in Hc by (eapply keys_ok_nodup; eauto).
  simpl in Hc. apply andb_true_iff in Hc as [Q1 Q2]. rewrite forallb_forall in Q1, Q2.
  assert (Hgood : class_good S F cls g (pascal_s name) kv).
  { eapply (mix_main C S frs F cls cov mx Hmx Hnd Hnb G2 g F [] (pascal_s name) root root sels false mixins None true
                     own pub' k l l kv k); eauto.
    - left; reflexivity.
    - discriminate.
    - apply (table_of_incl cls Hnd Hnb), Hown.
    - eapply mx_ok_harmless; eauto.
    - apply incl_refl.
    - split; [exact Hk|]. split; [intros p Hp; apply mem_In, Q1, Hp | exact Q2]. }
  destruct Hgood as [pfs [Hm Hchk]].
  destruct n as [|n']; [lia|].
  change (class_accepts (accepts n' cls (schema_enums S)) (mro_fields n' cls (pascal_s name)) (JObj kv) = true).
  rewrite (Hm n') by lia. rewrite class_accepts_check. apply forallb_forall.
  intros pf Hpf. apply last_wins_In in Hpf. apply Hchk; [lia | exact Hpf].
Qed.

