(* C04 well_scoped for the input types module (Model/Inputs.v): every class an annotation names is a class of the
   module, every enum an enum of the schema, every custom scalar a configured one; and the rebuild calls make every
   class complete under a small model of how pydantic resolves quoted annotations at import time. *)
From Coq Require Import List String Ascii ZArith Bool Lia.
From AC Require Import Base.Sexp Base.Json Base.Strs Gql.InSchema Model.Names Model.Defaults Model.Inputs
  Proofs.InputsP.
Import ListNotations.
Local Open Scope string_scope.
Local Open Scope list_scope.

Fixpoint ann_classes (a : ann) : list string :=
  match a with AClass n => [n] | AOpt x | AList x => ann_classes x | _ => [] end.
Fixpoint ann_enums (a : ann) : list string :=
  match a with AEnum n => [n] | AOpt x | AList x => ann_enums x | _ => [] end.
Fixpoint ann_customs (a : ann) : list (string * option string) :=
  match a with ACustom ty ser => [(ty, ser)] | AOpt x | AList x => ann_customs x | _ => [] end.

Lemma opt_if_classes b a : ann_classes (opt_if b a) = ann_classes a. Proof. destruct b; reflexivity. Qed.
Lemma opt_if_enums b a : ann_enums (opt_if b a) = ann_enums a. Proof. destruct b; reflexivity. Qed.
Lemma opt_if_customs b a : ann_customs (opt_if b a) = ann_customs a. Proof. destruct b; reflexivity. Qed.

Definition names_ok (s : schema) (cs : customs) (a : ann) : Prop :=
  (forall m, In m (ann_classes a) -> exists fs, lookup m s = Some (DInput fs)) /\
  (forall e, In e (ann_enums a) -> exists vs, lookup e s = Some (DEnum vs)) /\
  (forall ty ser, In (ty, ser) (ann_customs a) ->
     exists n d, lookup n cs = Some d /\ sd_type_name d = ty /\ sd_serialize_name d = ser).

Lemma kind_of_lookup s n :
  match kind_of s n with
  | KInput fs => lookup n s = Some (DInput fs)
  | KEnum vs => lookup n s = Some (DEnum vs)
  | _ => True
  end.
Proof.
  unfold kind_of.
  destruct (n =? "Int"); [exact I|]. destruct (n =? "Float"); [exact I|]. destruct (n =? "String"); [exact I|].
  destruct (n =? "Boolean"); [exact I|]. destruct (n =? "ID"); [exact I|].
  destruct (lookup n s) as [[| vs | fs]|]; auto.
Qed.

Lemma leaf_names_ok s cs n : names_ok s cs (fst (leaf s cs n)).
Proof.
  unfold leaf, names_ok. pose proof (kind_of_lookup s n) as K.
  destruct (kind_of s n) as [| | | | | | fs | vs |]; simpl;
    try (repeat split; intros; contradiction).
  - destruct (n =? "Upload"); simpl; [repeat split; intros; contradiction|].
    destruct (lookup n cs) as [d|] eqn:L; simpl; [|repeat split; intros; contradiction].
    repeat split; try (intros; contradiction).
    intros ty ser [E|[]]. inversion E; subst. exists n, d. auto.
  - repeat split; try (intros; contradiction). intros m [<-|[]]. exists fs. exact K.
  - repeat split; try (intros; contradiction). intros e [<-|[]]. exists vs. exact K.
Qed.

Lemma pift_names_ok s cs : forall t nb, names_ok s cs (fst (parse_input_field_type s cs t nb)).
Proof.
  induction t as [n | t IH | t IH]; intro nb; simpl.
  - pose proof (leaf_names_ok s cs n) as L. destruct (leaf s cs n) as [a tn]. simpl in *.
    unfold names_ok in *. rewrite opt_if_classes, opt_if_enums, opt_if_customs. exact L.
  - specialize (IH true). destruct (parse_input_field_type s cs t true) as [a tn]. simpl in *.
    unfold names_ok in *. rewrite opt_if_classes, opt_if_enums, opt_if_customs. exact IH.
  - apply IH.
Qed.

Lemma lookup_In {X} k (l : list (string * X)) v : lookup k l = Some v -> In (k, v) l.
Proof.
  induction l as [|[k' v'] r IH]; simpl; [discriminate|].
  destruct (String.eqb k k') eqn:E.
  - apply String.eqb_eq in E. intro H. inversion H; subst. left. reflexivity.
  - intro H. right. apply IH, H.
Qed.

Lemma gen_classes_of_name s0 cs snake : forall s n fs,
  In (n, DInput fs) s -> In n (map c_name (gen_classes_of s0 cs snake s)).
Proof.
  induction s as [|[k d] r IH]; intros n fs H; [destruct H|].
  destruct H as [E|H].
  - inversion E; subst. simpl. left. reflexivity.
  - destruct d; simpl; try (right); eapply IH; eauto.
Qed.

Lemma gen_classes_of_fields s0 cs snake : forall s c,
  In c (gen_classes_of s0 cs snake s) -> exists n fs, c = gen_class s0 cs snake n fs.
Proof.
  induction s as [|[k d] r IH]; intros c H; [destruct H|].
  destruct d; simpl in H; try (apply IH, H).
  destruct H as [<-|H]; [eexists; eexists; reflexivity | apply IH, H].
Qed.

(* ---- well scoped ---- *)
Theorem inputs_well_scoped s cs snake : forall c pf,
  In c (gen_classes s cs snake) -> In pf (c_fields c) ->
  (forall m, In m (ann_classes (p_ann pf)) -> In m (map c_name (gen_classes s cs snake))) /\
  (forall e, In e (ann_enums (p_ann pf)) -> exists vs, lookup e s = Some (DEnum vs)) /\
  (forall ty ser, In (ty, ser) (ann_customs (p_ann pf)) ->
     exists n d, lookup n cs = Some d /\ sd_type_name d = ty /\ sd_serialize_name d = ser).
Proof.
  intros c pf Hc Hpf. unfold gen_classes in Hc. apply gen_classes_of_fields in Hc as (n & fs & ->).
  simpl in Hpf. apply in_map_iff in Hpf as (f & <- & _). rewrite gen_field_ann.
  destruct (pift_names_ok s cs (i_type f) true) as (K1 & K2 & K3). split; [|split; assumption].
  intros m Hm. destruct (K1 m Hm) as [fs' L]. unfold gen_classes. eapply gen_classes_of_name, lookup_In, L.
Qed.

(* ---- rebuild placement ----
   How an imported module resolves quoted annotations (pydantic, modelled): the classes are created in list order;
   a class is complete at creation iff every class its annotations name already exists (is earlier in the list);
   a model_rebuild() call placed after all classes completes a class iff every name it mentions exists by then. *)
Definition refs (c : pclass) : list string := flat_map (fun f => ann_classes (p_ann f)) (c_fields c).

Definition complete_after_load (all_names rebuilds earlier : list string) (c : pclass) : bool :=
  forallb (fun n => mem n earlier) (refs c)
  || (mem (c_name c) rebuilds && forallb (fun n => mem n all_names) (refs c)).

Lemma no_class_no_refs a : ann_has_class a = false -> ann_classes a = [].
Proof. induction a; simpl; intro H; try reflexivity; try discriminate; auto. Qed.

Lemma no_forward_refs_no_refs c : has_forward_refs c = false -> refs c = [].
Proof.
  unfold has_forward_refs, refs. induction (c_fields c) as [|f r IH]; simpl; [reflexivity|].
  intro H. apply orb_false_elim in H as [H1 H2]. rewrite (no_class_no_refs _ H1). simpl. apply IH, H2.
Qed.

Lemma mem_true_In x l : In x l -> mem x l = true.
Proof.
  intro H. unfold mem. apply existsb_exists. exists x. split; [exact H | apply String.eqb_refl].
Qed.

Theorem inputs_complete_after_load s cs snake : forall pre c post,
  gen_classes s cs snake = pre ++ c :: post ->
  complete_after_load (map c_name (gen_classes s cs snake)) (rebuild_calls (gen_classes s cs snake))
                      (map c_name pre) c = true.
Proof.
  intros pre c post E. unfold complete_after_load.
  assert (In c (gen_classes s cs snake)) as Hc by (rewrite E; apply in_or_app; right; left; reflexivity).
  destruct (has_forward_refs c) eqn:F.
  - apply orb_true_iff. right. apply andb_true_iff. split.
    + apply mem_true_In. apply rebuild_complete; assumption.
    + apply forallb_forall. intros n Hn. apply mem_true_In.
      unfold refs in Hn. apply in_flat_map in Hn as (pf & Hpf & Hn).
      destruct (inputs_well_scoped s cs snake c pf Hc Hpf) as [K _]. apply K, Hn.
  - rewrite (no_forward_refs_no_refs c F). reflexivity.
Qed.

(* and no call is wasted: a class is rebuilt only if some annotation of it names a class *)
Theorem inputs_rebuild_minimal cl n :
  In n (rebuild_calls cl) -> exists c, In c cl /\ c_name c = n /\ refs c <> [].
Proof.
  unfold rebuild_calls. intro H. apply in_map_iff in H as (c & <- & Hc). apply filter_In in Hc as [Hc F].
  exists c. split; [exact Hc|]. split; [reflexivity|]. intro R.
  unfold has_forward_refs in F. apply existsb_exists in F as (f & Hf & A).
  assert (ann_classes (p_ann f) <> []) as N.
  { clear - A. induction (p_ann f); simpl in *; try discriminate; auto. }
  apply N. unfold refs in R. clear - R Hf. induction (c_fields c) as [|g r IH]; [destruct Hf|].
  simpl in R. apply app_eq_nil in R as [R1 R2]. destruct Hf as [<-|Hf]; [exact R1 | apply IH; assumption].
Qed.
