(* C19 — proofs about Model/Introspect.v *)
From Coq Require Import List String Ascii ZArith Bool Lia Permutation.
From AC Require Import Base.Sexp Base.Strs Base.Json Model.SchemaSrc Model.Loader Model.Introspect Proofs.LoaderP.
Import ListNotations.
Local Open Scope string_scope.
Local Open Scope list_scope.

(* ------------------------------------------------------------------ headers *)
Definition starts_dollar (v : string) : bool :=
  match s2l v with c :: _ => is_dollar c | [] => false end.

Lemma header_value_plain en v : starts_dollar v = false -> header_value en v = inr v.
Proof. unfold starts_dollar, header_value. destruct (s2l v) as [|c r]; [reflexivity|]. intros ->. reflexivity. Qed.

Lemma s2l_String c s : s2l (String c s) = c :: s2l s.
Proof. reflexivity. Qed.

(* "$NAME" with NAME set to a non-empty value is replaced by that value *)
Lemma header_value_env en name x :
  starts_dollar name = false -> assoc_get name en = Some x -> x <> "" ->
  header_value en (String "$" name) = inr x.
Proof.
  intros Hn Hg Hx. unfold header_value. rewrite s2l_String. simpl.
  assert (E : drop_while is_dollar (s2l name) = s2l name).
  { unfold starts_dollar in Hn. destruct (s2l name) as [|c r]; [reflexivity|]. simpl. rewrite Hn. reflexivity. }
  rewrite E, l2s_s2l, Hg. destruct (String.eqb x "") eqn:Ex; [|reflexivity].
  apply String.eqb_eq in Ex. contradiction.
Qed.

(* ... and refused when the variable is missing or empty *)
Lemma header_value_missing en name :
  starts_dollar name = false -> (assoc_get name en = None \/ assoc_get name en = Some "") ->
  header_value en (String "$" name) = inl name.
Proof.
  intros Hn Hg. unfold header_value. rewrite s2l_String. simpl.
  assert (E : drop_while is_dollar (s2l name) = s2l name).
  { unfold starts_dollar in Hn. destruct (s2l name) as [|c r]; [reflexivity|]. simpl. rewrite Hn. reflexivity. }
  rewrite E, l2s_s2l. destruct Hg as [-> | ->]; reflexivity.
Qed.

Definition header_ok (en : env) (h x : string * string) : Prop :=
  fst h = fst x /\ header_value en (snd h) = inr (snd x).

Lemma resolve_headers_ok en hs xs :
  resolve_headers en hs = inr xs <-> Forall2 (header_ok en) hs xs.
Proof.
  revert xs; induction hs as [|[k v] hs IH]; intros xs; simpl.
  - split; intro H; [inversion H; constructor | inversion H; reflexivity].
  - destruct (header_value en v) as [n|x] eqn:E.
    + split; [discriminate|]. intro H. inversion H as [|? ? ? ? [_ Hv] _]; subst. simpl in Hv. congruence.
    + destruct (resolve_headers en hs) as [n|ys] eqn:R.
      * split; [discriminate|]. intro H. inversion H as [|? y ? ys' _ Hf]; subst.
        apply IH in Hf. discriminate.
      * split.
        -- intro H. inversion H; subst. constructor; [split; [reflexivity | exact E] | apply IH; reflexivity].
        -- intro H. inversion H as [|? y ? ys' [Hk Hv] Hf]; subst. simpl in *.
           apply IH in Hf. inversion Hf; subst. destruct y as [k' x']. simpl in *. subst. congruence.
Qed.

Lemma resolve_headers_err en hs n :
  resolve_headers en hs = inl n <->
  exists pre k v post, hs = pre ++ (k, v) :: post /\
    (exists xs, Forall2 (header_ok en) pre xs) /\ header_value en v = inl n.
Proof.
  revert n; induction hs as [|[k v] hs IH]; intros n; simpl.
  - split; [discriminate|]. intros [pre [k [v [post [E _]]]]]. destruct pre; discriminate.
  - destruct (header_value en v) as [m|x] eqn:E.
    + split.
      * intro H. inversion H; subst. exists [], k, v, hs. repeat split; [exists []; constructor | exact E].
      * intros [pre [k' [v' [post [Eh [[xs Hxs] Hv]]]]]]. destruct pre as [|[k0 v0] pre].
        -- inversion Eh; subst. congruence.
        -- inversion Eh; subst. inversion Hxs as [|? ? ? ? [_ Hv0] _]; subst. simpl in Hv0. congruence.
    + destruct (resolve_headers en hs) as [m|ys] eqn:R.
      * split.
        -- intro H. inversion H; subst. destruct (proj1 (IH n) eq_refl) as [pre [k' [v' [post [Eh [[xs Hxs] Hv]]]]]].
           exists ((k, v) :: pre), k', v', post. subst hs. repeat split; [|exact Hv].
           exists ((k, x) :: xs). constructor; [split; [reflexivity | exact E] | exact Hxs].
        -- intros [pre [k' [v' [post [Eh [[xs Hxs] Hv]]]]]]. destruct pre as [|[k0 v0] pre].
           ++ inversion Eh; subst. congruence.
           ++ inversion Eh; subst. inversion Hxs as [|? ? ? xs' _ Hxs']; subst.
              f_equal. assert (H : inl m = inl n :> string + list (string * string)).
              { apply IH. exists pre, k', v', post. repeat split; [exists xs'; exact Hxs' | exact Hv]. }
              inversion H. reflexivity.
      * split; [discriminate|].
        intros [pre [k' [v' [post [Eh [[xs Hxs] Hv]]]]]]. destruct pre as [|[k0 v0] pre].
        -- inversion Eh; subst. congruence.
        -- inversion Eh; subst. inversion Hxs as [|? ? ? xs' _ Hxs']; subst.
           assert (H : inr ys = inl n :> string + list (string * string)).
           { apply IH. exists pre, k', v', post. repeat split; [exists xs'; exact Hxs' | exact Hv]. }
           discriminate.
Qed.

Lemma request_of_spec en s q :
  request_of en s = inr q <->
  (q_url q = s_url s /\ q_verify q = s_verify s /\ q_descriptions q = false /\
   Forall2 (header_ok en) (s_headers s) (q_headers q)).
Proof.
  unfold request_of. destruct (resolve_headers en (s_headers s)) as [n|hs] eqn:R.
  - split; [discriminate|]. intros [_ [_ [_ H]]]. apply resolve_headers_ok in H. congruence.
  - split.
    + intro H. inversion H; subst. simpl. repeat split. apply resolve_headers_ok. exact R.
    + intros [H1 [H2 [H3 H4]]]. apply resolve_headers_ok in H4. rewrite R in H4. inversion H4; subst.
      destruct q; simpl in *. subst. reflexivity.
Qed.

(* ------------------------------------------------------------------ the decision chain *)
Lemma jhas_lookup k kv : jhas k kv = true -> exists v, jlookup k kv = Some v.
Proof. unfold jhas. destruct (jlookup k kv); [eauto | discriminate]. Qed.

Ltac unfold_chain :=
  unfold schema_from_url, any_failure, g_c19_errors, earlier_failure, data_malformed, data_not_object, has_errors, bad_format,
    non_json, non_2xx, data_of, top_of, bad_url, introspect_remote_schema, client_schema_gate, jhas in *;
  simpl in *.

(* case analysis along the chain: status, body kind, data, errors, __schema, types, deep judgement *)
Ltac cases st body deep :=
  destruct (is_success st) eqn:Es; simpl in *;
  [ destruct body as [[ | | | | | | kv]|]; simpl in *;
    try (destruct (jlookup "data" kv) as [[ | | | | | | d]|] eqn:Ed; simpl in *;
         destruct (jlookup "errors" kv) as [e|] eqn:Ee; simpl in *;
         try (destruct (truthy e) eqn:Et; simpl in *);
         try (destruct (jlookup "__schema" d) as [[ | | | | | | s]|] eqn:Esch; simpl in *;
              try (destruct (jlookup "types" s) eqn:Ety; simpl in *);
              try (destruct deep; simpl in *)))
  | ].

Ltac finish := intros; try discriminate; try congruence; eauto.

(* priority table: the first failing check decides, and decides the documented class *)
Theorem outcome_table fx r deep :
  (non_2xx r = true -> schema_from_url fx UOk r deep = SError (EStatus (r_status r))) /\
  (non_2xx r = false -> non_json r = true -> schema_from_url fx UOk r deep = SError ENotJson) /\
  (non_2xx r = false -> non_json r = false -> bad_format r = true ->
     schema_from_url fx UOk r deep = SError EFormat) /\
  (non_2xx r = false -> non_json r = false -> bad_format r = false -> has_errors r = true ->
     exists e, schema_from_url fx UOk r deep = SError (EErrors e) /\ truthy e = true) /\
  (non_2xx r = false -> non_json r = false -> bad_format r = false -> has_errors r = false ->
     data_not_object r = true -> schema_from_url fx UOk r deep = SError EDataKey) /\
  (non_2xx r = false -> non_json r = false -> bad_format r = false -> has_errors r = false ->
     data_not_object r = false -> data_malformed r deep = true ->
     if fx then schema_from_url fx UOk r deep = SError EBuild
     else exists x, schema_from_url fx UOk r deep = SCrash x) /\
  (any_failure UOk r deep = false ->
     exists d, data_of r = Some (JObj d) /\ schema_from_url fx UOk r deep = SBuilt d).
Proof.
  destruct r as [st body]. unfold_chain. cases st body deep; destruct fx; simpl; repeat split; finish.
Qed.

Theorem outcome_bad_url fx r deep :
  schema_from_url fx UInvalid r deep = SError EInvalidUrl /\
  schema_from_url true UNoScheme r deep = SError EInvalidUrl /\
  schema_from_url false UNoScheme r deep = SCrash "UnsupportedProtocol".
Proof. repeat split. Qed.

(* a schema is built exactly for the inputs outside every failure class *)
Theorem built_iff_no_failure fx u r deep :
  (exists d, schema_from_url fx u r deep = SBuilt d) <-> any_failure u r deep = false.
Proof.
  destruct r as [st body], u, fx; unfold_chain;
    try (split; [intros [d H]; discriminate | discriminate]);
  cases st body deep; (split; [intros [d0 H] | intro H]); finish.
Qed.

(* failure => IntrospectionError: outside the two classes where a foreign exception escapes *)
Theorem failure_is_introspection_error_partial u r deep :
  any_failure u r deep = true -> g_c19_errors u r deep = true ->
  exists e, schema_from_url false u r deep = SError e.
Proof.
  destruct r as [st body], u; unfold_chain; try (finish; fail).
  cases st body deep; finish.
Qed.

(* ... and with the patch, always *)
Theorem failure_is_introspection_error_fixed u r deep :
  any_failure u r deep = true -> exists e, schema_from_url true u r deep = SError e.
Proof.
  destruct r as [st body], u; unfold_chain; try (finish; fail).
  cases st body deep; finish.
Qed.

(* the guard is exactly the defect class: inside it the unpatched code lets a foreign exception escape *)
Theorem outside_guard_crashes u r deep :
  any_failure u r deep = true -> g_c19_errors u r deep = false ->
  exists x, schema_from_url false u r deep = SCrash x.
Proof.
  destruct r as [st body], u; unfold_chain; try (finish; fail).
  cases st body deep; finish.
Qed.

(* ------------------------------------------------------------------ input types through introspection *)
Lemma via_field_type f : if_type (via_field f) = if_type f.
Proof. reflexivity. Qed.
Lemma via_field_name f : if_name (via_field f) = if_name f.
Proof. reflexivity. Qed.

Lemma field_default_via_unfixed f :
  field_default false (via_field f) = if nullable (if_type f) then PNone else PRequired.
Proof. reflexivity. Qed.

Lemma required_via f : pf_required (gen_field false (via_field f)) = negb (nullable (if_type f)).
Proof. unfold gen_field. rewrite field_default_via_unfixed. destruct (nullable (if_type f)); reflexivity. Qed.

Lemma required_sdl f : wf_field f = true ->
  pf_required (gen_field false f) = negb (nullable (if_type f)) && negb (has_default f).
Proof.
  unfold wf_field, gen_field, field_default, has_default. intro H. apply andb_true_iff in H as [Hn H]. rewrite Hn.
  destruct (if_ast_default f), (nullable (if_type f)); reflexivity.
Qed.

(* per field: the generated field is the same on both routes exactly when there is no default,
   or the default is null on a nullable field *)
Definition harmless_default (f : ifield) : bool :=
  negb (has_default f) ||
  (nullable (if_type f) && match if_value_default f with Some CNull => true | _ => false end).

Lemma gen_field_via_iff f : wf_field f = true ->
  (gen_field false (via_field f) = gen_field false f <-> harmless_default f = true).
Proof.
  unfold wf_field, gen_field, semantic_default, field_default, harmless_default, has_default, via_field; simpl.
  intro H. apply andb_true_iff in H as [Hn H]. rewrite Hn.
  destruct (if_ast_default f) as [a|], (if_value_default f) as [v|], (nullable (if_type f)); simpl in *;
    try discriminate; split; intro E; try reflexivity; try discriminate; try (inversion E; fail).
  - inversion E; subst. reflexivity.
  - destruct v; try discriminate. reflexivity.
Qed.

Lemma gen_field_via_fixed f : wf_field f = true -> gen_field true (via_field f) = gen_field false f.
Proof.
  unfold wf_field, gen_field, semantic_default, field_default, via_field; simpl.
  intro H. apply andb_true_iff in H as [Hn H]. rewrite Hn.
  destruct (if_ast_default f) as [a|], (if_value_default f) as [v|], (nullable (if_type f)); simpl in *;
    try discriminate; reflexivity.
Qed.

Lemma filter_all {X} (p : X -> bool) l : forallb p l = true -> filter p l = l.
Proof.
  induction l as [|x l IH]; simpl; [reflexivity|]. intro H. apply andb_true_iff in H as [H1 H2].
  rewrite H1, (IH H2). reflexivity.
Qed.

Lemma map_ext_forallb {X Y} (f g : X -> Y) (p : X -> bool) l :
  forallb p l = true -> (forall x, p x = true -> f x = g x) -> map f l = map g l.
Proof.
  induction l as [|x l IH]; simpl; [reflexivity|]. intros H E. apply andb_true_iff in H as [H1 H2].
  rewrite (E x H1), (IH H2 E). reflexivity.
Qed.

Lemma forallb_and {X} (p q : X -> bool) l :
  forallb p l = true -> forallb q l = true -> forallb (fun x => p x && q x) l = true.
Proof.
  induction l as [|x l IH]; simpl; [reflexivity|]. intros H1 H2.
  apply andb_true_iff in H1 as [A1 A2]. apply andb_true_iff in H2 as [B1 B2].
  rewrite A1, B1. simpl. apply IH; assumption.
Qed.

Definition all_fields (p : ifield -> bool) (s : inputs) : bool := forallb (fun c => forallb p (snd c)) s.

Lemma gen_inputs_via_gen fx (ok : ifield -> bool) s :
  all_fields (fun f => negb (if_deprecated f)) s = true ->
  all_fields ok s = true ->
  (forall f, ok f = true -> gen_field fx (via_field f) = gen_field false f) ->
  gen_inputs fx (via_introspection s) = gen_inputs false s.
Proof.
  intros Hd Hok E. unfold gen_inputs, via_introspection. rewrite map_map.
  unfold all_fields in *. induction s as [|[n fs] s IH]; simpl in *; [reflexivity|].
  apply andb_true_iff in Hd as [Hd1 Hd2]. apply andb_true_iff in Hok as [Ho1 Ho2].
  rewrite (IH Hd2 Ho2). f_equal. f_equal. unfold via_fields.
  rewrite (filter_all _ _ Hd1), map_map. apply (map_ext_forallb _ _ ok); assumption.
Qed.

(* what IS preserved: without harmful defaults and deprecated fields the input models coincide *)
Theorem introspection_inputs_partial s :
  wf_sdl s = true -> no_deprecated s = true -> all_fields harmless_default s = true ->
  gen_inputs false (via_introspection s) = gen_inputs false s.
Proof.
  intros Hw Hd Hh.
  apply (gen_inputs_via_gen false (fun f => wf_field f && harmless_default f)); [exact Hd | |].
  - unfold all_fields, wf_sdl in *. clear Hd. induction s as [|[n fs] s IH]; simpl in *; [reflexivity|].
    apply andb_true_iff in Hw as [W1 W2]. apply andb_true_iff in Hh as [H1 H2].
    rewrite (forallb_and _ _ _ W1 H1). simpl. apply IH; assumption.
  - intros f H. apply andb_true_iff in H as [H1 H2]. apply gen_field_via_iff; assumption.
Qed.

Lemma no_defaults_harmless s : no_defaults s = true -> all_fields harmless_default s = true.
Proof.
  unfold no_defaults, all_fields. induction s as [|[n fs] s IH]; simpl; [reflexivity|].
  intro H. apply andb_true_iff in H as [H1 H2]. rewrite (IH H2), andb_true_r.
  clear -H1. induction fs as [|f fs IH]; simpl in *; [reflexivity|].
  apply andb_true_iff in H1 as [A B]. unfold harmless_default. rewrite A. simpl. apply IH. exact B.
Qed.

(* with the patch (defaults read from field.default_value when there is no node) only the
   deprecated fields still differ *)
Theorem introspection_inputs_fixed s :
  wf_sdl s = true -> no_deprecated s = true ->
  gen_inputs true (via_introspection s) = gen_inputs false s.
Proof.
  intros Hw Hd. apply (gen_inputs_via_gen true wf_field); [exact Hd | exact Hw |].
  intros f H. apply gen_field_via_fixed. exact H.
Qed.

(* names and types of the surviving fields are always preserved *)
Theorem introspection_keeps_names_types fx s :
  map (fun c => (fst c, map (fun p => (pf_name p, pf_type p)) (snd c))) (gen_inputs fx (via_introspection s)) =
  map (fun c => (fst c, map (fun f => (if_name f, if_type f)) (filter (fun f => negb (if_deprecated f)) (snd c)))) s.
Proof.
  unfold gen_inputs, via_introspection, via_fields. rewrite !map_map. apply map_ext. intros [n fs]. simpl.
  f_equal. rewrite !map_map. reflexivity.
Qed.

(* the required set: preserved exactly when no non-null field carries a default *)
Theorem required_set_partial s :
  wf_sdl s = true -> no_deprecated s = true -> no_nonnull_default s = true ->
  map (fun c => (fst c, required_names (snd c))) (gen_inputs false (via_introspection s)) =
  map (fun c => (fst c, required_names (snd c))) (gen_inputs false s).
Proof.
  unfold wf_sdl, no_deprecated, no_nonnull_default, gen_inputs, via_introspection. rewrite !map_map.
  induction s as [|[n fs] s IH]; [reflexivity|]. intros Hw Hd Hn.
  cbn [forallb snd] in Hw, Hd, Hn.
  apply andb_true_iff in Hw as [W1 W2]. apply andb_true_iff in Hd as [D1 D2]. apply andb_true_iff in Hn as [N1 N2].
  rewrite !map_cons. f_equal; [| apply IH; assumption].
  cbn [fst snd]. f_equal. unfold via_fields. rewrite (filter_all _ _ D1). clear -W1 N1.
  unfold required_names. induction fs as [|f fs IH]; [reflexivity|].
  cbn [forallb] in W1, N1. apply andb_true_iff in W1 as [A1 A2]. apply andb_true_iff in N1 as [B1 B2].
  cbn [map filter]. rewrite required_via, (required_sdl f A1).
  assert (E : negb (nullable (if_type f)) && negb (has_default f) = negb (nullable (if_type f))).
  { destruct (nullable (if_type f)); simpl in *; [reflexivity|]. rewrite B1. reflexivity. }
  rewrite E. destruct (negb (nullable (if_type f))); cbn [map]; rewrite (IH A2 B2); reflexivity.
Qed.

(* ------------------------------------------------------------------ loader + generator *)
Lemma inputs_of_perm tm tm' : Permutation tm' tm -> Permutation (inputs_of tm') (inputs_of tm).
Proof. intro H. unfold inputs_of. apply Permutation_flat_map. exact H. Qed.

Lemma gen_inputs_perm fx s s' : Permutation s' s -> Permutation (gen_inputs fx s') (gen_inputs fx s).
Proof. intro H. unfold gen_inputs. apply Permutation_map. exact H. Qed.

Theorem split_same_input_classes fx gx tree ds :
  NoDup (type_names ds) -> has_ext ds = false ->
  Permutation (flat_map defs_of (filter (selected fx) tree)) ds ->
  Permutation (gen_inputs gx (inputs_of (type_map (loaded_defs fx tree))))
              (gen_inputs gx (inputs_of (type_map ds))).
Proof.
  intros Hn He Hp. apply gen_inputs_perm, inputs_of_perm, type_map_perm_noext; try assumption.
  apply split_permutation. exact Hp.
Qed.

Theorem introspection_inputs_partial_nodefaults s :
  wf_sdl s = true -> no_deprecated s = true -> no_defaults s = true ->
  gen_inputs false (via_introspection s) = gen_inputs false s.
Proof. intros W D N. apply introspection_inputs_partial; auto. apply no_defaults_harmless. exact N. Qed.
