(* C19 — proofs about Model/Introspect.v *)
From Coq Require Import List String Ascii ZArith Bool Lia Permutation.
From AC Require Import Base.Sexp Base.Strs Base.Json Model.SchemaSrc Model.Loader Model.Introspect Proofs.LoaderP.
Import ListNotations.
Local Open Scope string_scope.
Local Open Scope list_scope.

(* ------------------------------------------------------------------ headers *)
Definition starts_dollar (v : string) : bool :=
  match s2l v with c :: _ => is_dollar c | [] => false end.

Lemma header_value_plain en v : starts_dollar v = false -> header_value en v = inr v.
Proof. unfold starts_dollar, header_value. destruct (s2l v) as [|c r]; [reflexivity|]. intros ->. reflexivity. Qed.

Lemma s2l_String c s : s2l (String c s) = c :: s2l s.
Proof. reflexivity. Qed.

(* "$NAME" with NAME set to a non-empty value is replaced by that value *)
Lemma header_value_env en name x :
  starts_dollar name = false -> assoc_get name en = Some x -> x <> "" ->
  header_value en (String "$" name) = inr x.
Proof.
  intros Hn Hg Hx. unfold header_value. rewrite s2l_String. simpl.
  assert (E : drop_while is_dollar (s2l name) = s2l name).
  { unfold starts_dollar in Hn. destruct (s2l name) as [|c r]; [reflexivity|]. simpl. rewrite Hn. reflexivity. }
  rewrite E, l2s_s2l, Hg. destruct (String.eqb x "") eqn:Ex; [|reflexivity].
  apply String.eqb_eq in Ex. contradiction.
Qed.

(* ... and refused when the variable is missing or empty *)
Lemma header_value_missing en name :
  starts_dollar name = false -> (assoc_get name en = None \/ assoc_get name en = Some "") ->
  header_value en (String "$" name) = inl name.
Proof.
  intros Hn Hg. unfold header_value. rewrite s2l_String. simpl.
  assert (E : drop_while is_dollar (s2l name) = s2l name).
  { unfold starts_dollar in Hn. destruct (s2l name) as [|c r]; [reflexivity|]. simpl. rewrite Hn. reflexivity. }
  rewrite E, l2s_s2l. destruct Hg as [-> | ->]; reflexivity.
Qed.

Definition header_ok (en : env) (h x : string * string) : Prop :=
  fst h = fst x /\ header_value en (snd h) = inr (snd x).

Lemma resolve_headers_ok en hs xs :
  resolve_headers en hs = inr xs <-> Forall2 (header_ok en) hs xs.
Proof.
  revert xs; induction hs as [|[k v] hs IH]; intros xs; simpl.
  - split; intro H; [inversion H; constructor | inversion H; reflexivity].
  - destruct (header_value en v) as [n|x] eqn:E.
    + split; [discriminate|]. intro H. inversion H as [|? ? ? ? [_ Hv] _]; subst. simpl in Hv. congruence.
    + destruct (resolve_headers en hs) as [n|ys] eqn:R.
      * split; [discriminate|]. intro H. inversion H as [|? y ? ys' _ Hf]; subst.
        apply IH in Hf. discriminate.
      * split.
        -- intro H. inversion H; subst. constructor; [split; [reflexivity | exact E] | apply IH; reflexivity].
        -- intro H. inversion H as [|? y ? ys' [Hk Hv] Hf]; subst. simpl in *.
           apply IH in Hf. inversion Hf; subst. destruct y as [k' x']. simpl in *. subst. congruence.
Qed.

Lemma resolve_headers_err en hs n :
  resolve_headers en hs = inl n <->
  exists pre k v post, hs = pre ++ (k, v) :: post /\
    (exists xs, Forall2 (header_ok en) pre xs) /\ header_value en v = inl n.
Proof.
  revert n; induction hs as [|[k v] hs IH]; intros n; simpl.
  - split; [discriminate|]. intros [pre [k [v [post [E _]]]]]. destruct pre; discriminate.
  - destruct (header_value en v) as [m|x] eqn:E.
    + split.
      * intro H. inversion H; subst. exists [], k, v, hs. repeat split; [exists []; constructor | exact E].
      * intros [pre [k' [v' [post [Eh [[xs Hxs] Hv]]]]]]. destruct pre as [|[k0 v0] pre].
        -- inversion Eh; subst. congruence.
        -- inversion Eh; subst. inversion Hxs as [|? ? ? ? [_ Hv0] _]; subst. simpl in Hv0. congruence.
    + destruct (resolve_headers en hs) as [m|ys] eqn:R.
      * split.
        -- intro H. inversion H; subst. destruct (proj1 (IH n) eq_refl) as [pre [k' [v' [post [Eh [[xs Hxs] Hv]]]]]].
           exists ((k, v) :: pre), k', v', post. subst hs. repeat split; [|exact Hv].
           exists ((k, x) :: xs). constructor; [split; [reflexivity | exact E] | exact Hxs].
        -- intros [pre [k' [v' [post [Eh [[xs Hxs] Hv]]]]]]. destruct pre as [|[k0 v0] pre].
           ++ inversion Eh; subst. congruence.
           ++ inversion Eh; subst. inversion Hxs as [|? ? ? xs' _ Hxs']; subst.
              f_equal. assert (H : inl m = inl n :> string + list (string * string)).
              { apply IH. exists pre, k', v', post. repeat split; [exists xs'; exact Hxs' | exact Hv]. }
              inversion H. reflexivity.
      * split; [discriminate|].
        intros [pre [k' [v' [post [Eh [[xs Hxs] Hv]]]]]]. destruct pre as [|[k0 v0] pre].
        -- inversion Eh; subst. congruence.
        -- inversion Eh; subst. inversion Hxs as [|? ? ? xs' _ Hxs']; subst.
           assert (H : inr ys = inl n :> string + list (string * string)).
           { apply IH. exists pre, k', v', post. repeat split; [exists xs'; exact Hxs' | exact Hv]. }
           discriminate.
Qed.

Lemma request_of_spec en s q :
  request_of en s = inr q <->
  (q_url q = s_url s /\ q_verify q = s_verify s /\ q_query q = full_query /\
   Forall2 (header_ok en) (s_headers s) (q_headers q)).
Proof.
  unfold request_of. destruct (resolve_headers en (s_headers s)) as [n|hs] eqn:R.
  - split; [discriminate|]. intros [_ [_ [_ H]]]. apply resolve_headers_ok in H. congruence.
  - split.
    + intro H. inversion H; subst. simpl. repeat split. apply resolve_headers_ok. exact R.
    + intros [H1 [H2 [H3 H4]]]. apply resolve_headers_ok in H4. rewrite R in H4. inversion H4; subst.
      destruct q; simpl in *. subst. reflexivity.
Qed.

(* resolving what has been resolved: harmless exactly when no resolved value begins with "$" -
   which is why writing the resolved values back into the configuration would be a defect even
   with a constant environment *)
Definition no_dollar (xs : list (string * string)) : bool := forallb (fun p => negb (starts_dollar (snd p))) xs.

Lemma resolve_resolved en xs : no_dollar xs = true -> resolve_headers en xs = inr xs.
Proof.
  induction xs as [|[k v] xs IH]; simpl; [reflexivity|]. intro H. apply andb_true_iff in H as [H1 H2].
  apply negb_true_iff in H1. rewrite (header_value_plain en v H1), (IH H2). reflexivity.
Qed.

Theorem resolve_idempotent_partial en hs xs :
  resolve_headers en hs = inr xs -> no_dollar xs = true -> resolve_headers en xs = inr xs.
Proof. intros _ H. apply resolve_resolved. exact H. Qed.

(* histories: every generation sees the configuration as written, whatever happened before *)
Theorem history_independent cfg ens :
  run_history cfg ens = (map (fun en => request_of en cfg) ens, cfg).
Proof.
  induction ens as [|en r IH]; simpl; [reflexivity|]. rewrite IH. reflexivity.
Qed.

(* ------------------------------------------------------------------ the decision chain *)
Lemma jhas_lookup k kv : jhas k kv = true -> exists v, jlookup k kv = Some v.
Proof. unfold jhas. destruct (jlookup k kv); [eauto | discriminate]. Qed.

Ltac unfold_chain :=
  unfold schema_from_url, any_failure, data_malformed, data_not_object, has_errors, bad_format,
    non_json, non_2xx, data_of, top_of, bad_url, introspect_remote_schema, client_schema_gate, jhas in *;
  simpl in *.

(* case analysis along the chain: status, body kind, data, errors, __schema, types, deep judgement *)
Ltac cases st body deep :=
  destruct (is_success st) eqn:Es; simpl in *;
  [ destruct body as [[ | | | | | | kv]|]; simpl in *;
    try (destruct (jlookup "data" kv) as [[ | | | | | | d]|] eqn:Ed; simpl in *;
         destruct (jlookup "errors" kv) as [e|] eqn:Ee; simpl in *;
         try (destruct (truthy e) eqn:Et; simpl in *);
         try (destruct (jlookup "__schema" d) as [[ | | | | | | s]|] eqn:Esch; simpl in *;
              try (destruct (jlookup "types" s) eqn:Ety; simpl in *);
              try (destruct deep; simpl in *)))
  | ].

Ltac finish := intros; try discriminate; try congruence; eauto.

(* priority table: the first failing check decides, and decides the documented class *)
Theorem outcome_table r deep :
  (non_2xx r = true -> schema_from_url UOk r deep = SError (EStatus (r_status r))) /\
  (non_2xx r = false -> non_json r = true -> schema_from_url UOk r deep = SError ENotJson) /\
  (non_2xx r = false -> non_json r = false -> bad_format r = true ->
     schema_from_url UOk r deep = SError EFormat) /\
  (non_2xx r = false -> non_json r = false -> bad_format r = false -> has_errors r = true ->
     exists e, schema_from_url UOk r deep = SError (EErrors e) /\ truthy e = true) /\
  (non_2xx r = false -> non_json r = false -> bad_format r = false -> has_errors r = false ->
     data_not_object r = true -> schema_from_url UOk r deep = SError EDataKey) /\
  (non_2xx r = false -> non_json r = false -> bad_format r = false -> has_errors r = false ->
     data_not_object r = false -> data_malformed r deep = true ->
     schema_from_url UOk r deep = SError EBuild) /\
  (any_failure UOk r deep = false ->
     exists d, data_of r = Some (JObj d) /\ schema_from_url UOk r deep = SBuilt d).
Proof.
  destruct r as [st body]. unfold_chain. cases st body deep; repeat split; finish.
Qed.

Theorem outcome_bad_url u r deep :
  bad_url u = true -> schema_from_url u r deep = SError EInvalidUrl.
Proof. destruct u; [discriminate | reflexivity | reflexivity]. Qed.

(* a schema is built exactly for the inputs outside every failure class *)
Theorem built_iff_no_failure u r deep :
  (exists d, schema_from_url u r deep = SBuilt d) <-> any_failure u r deep = false.
Proof.
  destruct r as [st body], u; unfold_chain;
    try (split; [intros [d H]; discriminate | discriminate]);
  cases st body deep; (split; [intros [d0 H] | intro H]); finish.
Qed.

(* every failure class surfaces as IntrospectionError *)
Theorem failure_is_introspection_error u r deep :
  any_failure u r deep = true -> exists e, schema_from_url u r deep = SError e.
Proof.
  destruct r as [st body], u; unfold_chain; try (finish; fail).
  cases st body deep; finish.
Qed.

(* ------------------------------------------------------------------ input types through introspection *)
Lemma via_field_type f : if_type (via_field f) = if_type f.
Proof. reflexivity. Qed.
Lemma via_field_name f : if_name (via_field f) = if_name f.
Proof. reflexivity. Qed.

Lemma required_sdl f : wf_field f = true ->
  pf_required (gen_field f) = negb (nullable (if_type f)) && negb (has_default f).
Proof.
  unfold wf_field, gen_field, field_default, has_default. intro H. apply andb_true_iff in H as [Hn H]. rewrite Hn.
  destruct (if_ast_default f), (if_value_default f), (nullable (if_type f)); simpl in *; try discriminate; reflexivity.
Qed.

(* per field: what the generated class says is the same on both routes *)
Lemma gen_field_via f : wf_field f = true -> gen_field (via_field f) = gen_field f.
Proof.
  unfold wf_field, gen_field, semantic_default, field_default, via_field; simpl.
  intro H. apply andb_true_iff in H as [Hn H]. rewrite Hn.
  destruct (if_ast_default f) as [a|], (if_value_default f) as [v|], (nullable (if_type f)); simpl in *;
    try discriminate; reflexivity.
Qed.

Lemma filter_all {X} (p : X -> bool) l : forallb p l = true -> filter p l = l.
Proof.
  induction l as [|x l IH]; simpl; [reflexivity|]. intro H. apply andb_true_iff in H as [H1 H2].
  rewrite H1, (IH H2). reflexivity.
Qed.

Lemma map_ext_forallb {X Y} (f g : X -> Y) (p : X -> bool) l :
  forallb p l = true -> (forall x, p x = true -> f x = g x) -> map f l = map g l.
Proof.
  induction l as [|x l IH]; simpl; [reflexivity|]. intros H E. apply andb_true_iff in H as [H1 H2].
  rewrite (E x H1), (IH H2 E). reflexivity.
Qed.

Lemma forallb_and {X} (p q : X -> bool) l :
  forallb p l = true -> forallb q l = true -> forallb (fun x => p x && q x) l = true.
Proof.
  induction l as [|x l IH]; simpl; [reflexivity|]. intros H1 H2.
  apply andb_true_iff in H1 as [A1 A2]. apply andb_true_iff in H2 as [B1 B2].
  rewrite A1, B1. simpl. apply IH; assumption.
Qed.

Definition all_fields (p : ifield -> bool) (s : inputs) : bool := forallb (fun c => forallb p (snd c)) s.

(* the input models coincide on both routes: same classes, fields, required flags and defaults *)
Theorem introspection_inputs s :
  wf_sdl s = true -> gen_inputs (via_introspection s) = gen_inputs s.
Proof.
  unfold wf_sdl, gen_inputs, via_introspection. rewrite map_map.
  induction s as [|[n fs] s IH]; [reflexivity|]. intro Hw. cbn [forallb snd] in Hw.
  apply andb_true_iff in Hw as [W1 W2]. rewrite !map_cons, (IH W2). f_equal. cbn [fst snd]. f_equal.
  unfold via_fields. rewrite map_map. apply (map_ext_forallb _ _ wf_field); [exact W1|].
  intros f H. apply gen_field_via. exact H.
Qed.

Theorem required_set s :
  wf_sdl s = true ->
  map (fun c => (fst c, required_names (snd c))) (gen_inputs (via_introspection s)) =
  map (fun c => (fst c, required_names (snd c))) (gen_inputs s).
Proof. intro Hw. rewrite (introspection_inputs s Hw). reflexivity. Qed.

(* names, types and deprecation marks survive for ANY input list (no well-formedness needed) *)
Theorem introspection_keeps_names_types s :
  map (fun c => (fst c, map (fun f => (if_name f, if_type f, if_deprecated f)) (snd c))) (via_introspection s) =
  map (fun c => (fst c, map (fun f => (if_name f, if_type f, if_deprecated f)) (snd c))) s.
Proof.
  unfold via_introspection, via_fields. rewrite map_map. apply map_ext. intros [n fs]. simpl.
  f_equal. rewrite map_map. reflexivity.
Qed.

(* ------------------------------------------------------------------ loader + generator *)
Lemma inputs_of_perm tm tm' : Permutation tm' tm -> Permutation (inputs_of tm') (inputs_of tm).
Proof. intro H. unfold inputs_of. apply Permutation_flat_map. exact H. Qed.

Lemma gen_inputs_perm s s' : Permutation s' s -> Permutation (gen_inputs s') (gen_inputs s).
Proof. intro H. unfold gen_inputs. apply Permutation_map. exact H. Qed.

Theorem split_same_input_classes tree ds :
  NoDup (type_names ds) -> has_ext ds = false ->
  Permutation (flat_map defs_of (filter selected tree)) ds ->
  Permutation (gen_inputs (inputs_of (type_map (loaded_defs tree))))
              (gen_inputs (inputs_of (type_map ds))).
Proof.
  intros Hn He Hp. apply gen_inputs_perm, inputs_of_perm, type_map_perm_noext; try assumption.
  apply split_permutation. exact Hp.
Qed.
