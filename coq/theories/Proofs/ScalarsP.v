(* Proofs about Model/Scalars.v *)
From Coq Require Import List String Ascii ZArith Bool Lia.
From AC Require Import Base.Strs Base.Sexp Base.Json Gql.Coerce Model.Args Model.Convert Model.Scalars
     Proofs.ConvertP.
Import ListNotations.
Local Open Scope string_scope.

Section S.
  Variable S : schema.

  Lemma vlog_opt_nonnull a j : j <> JNull -> vlog (SOpt a) j = vlog a j.
  Proof. destruct j; simpl; intro H; try reflexivity. exfalso; apply H; reflexivity. Qed.

  (* parse is called exactly on the non-null occurrences, in order, never on null *)
  Lemma parse_once : forall t nn j log,
    occ_parse S t nn j = Some log -> vlog (result_sann S t (negb nn)) j = Some log.
  Proof.
    induction t as [n|t' IH|t' IH]; intros nn j log H.
    - simpl in *. destruct j.
      1: { destruct nn; [discriminate|]. inversion H; subst. reflexivity. }
      all: inversion H; subst; unfold result_leaf; destruct (cfg_parse (scalar_cfg_of S n)); destruct nn; reflexivity.
    - simpl in H. destruct j; try discriminate.
      + destruct nn; [discriminate|]. inversion H; subst. reflexivity.
      + assert (Hl : vlog (SList (result_sann S t' true)) (JArr l) = Some log).
        { simpl. revert log H. induction l as [|e r IHl]; intros log H; [exact H|].
          destruct (occ_parse S t' false e) as [a1|] eqn:E1; [|discriminate].
          pose proof (IH false e a1 E1) as Hx. change (negb false) with true in Hx. rewrite Hx.
          match type of H with
          | match ?g with _ => _ end = _ => destruct g as [a2|] eqn:E2; [|discriminate]
          end.
          rewrite (IHl a2 eq_refl). exact H. }
        simpl result_sann. destruct nn; simpl negb; unfold wrap_opt; [exact Hl|].
        rewrite vlog_opt_nonnull; [exact Hl|discriminate].
    - simpl in *. apply (IH true). exact H.
  Qed.

  Lemma dlog_opt_nonnone a v : v <> PNone -> dlog (SOpt a) v = dlog a v.
  Proof. destruct v; simpl; intro H; try reflexivity. exfalso; apply H; reflexivity. Qed.

  (* serialize is called exactly on the non-None occurrences held by input model fields *)
  Lemma serialize_once_fields : forall t nl nn v log,
    (nl = false -> nn = true) ->
    occ_ser S t nn v = Some log -> dlog (input_sann S t nl) v = Some log.
  Proof.
    induction t as [n|t' IH|t' IH]; intros nl nn v log Hfl H.
    - simpl in *.
      assert (Hleaf : forall v', v' <> PNone -> v' <> PUnset ->
                dlog (wrap_opt nl (input_leaf S n)) v' =
                Some (match cfg_ser (scalar_cfg_of S n) with Some f => [(f, v')] | None => [] end)).
      { intros v' H1 H2. destruct nl; unfold wrap_opt; [rewrite dlog_opt_nonnone by exact H1|];
          unfold input_leaf; destruct (cfg_ser (scalar_cfg_of S n)); reflexivity. }
      destruct v; try (inversion H; subst; apply Hleaf; discriminate).
      destruct nn; [discriminate|]. inversion H; subst.
      destruct nl; [reflexivity|]. specialize (Hfl eq_refl). discriminate.
    - simpl in H. destruct v; try discriminate.
      + destruct nn; [discriminate|]. inversion H; subst.
        destruct nl; [reflexivity|]. specialize (Hfl eq_refl). discriminate.
      + assert (Hl : dlog (SList (input_sann S t' true)) (PList l) = Some log).
        { simpl. revert log H. induction l as [|e r IHl]; intros log H; [exact H|].
          destruct (occ_ser S t' false e) as [a1|] eqn:E1; [|discriminate].
          rewrite (IH true false e a1); [|discriminate|exact E1].
          match type of H with
          | match ?g with _ => _ end = _ => destruct g as [a2|] eqn:E2; [|discriminate]
          end.
          rewrite (IHl a2 eq_refl). exact H. }
        simpl input_sann. destruct nl; unfold wrap_opt; [|exact Hl].
        rewrite dlog_opt_nonnone; [exact Hl|discriminate].
    - simpl in *. apply (IH false true); [intros _; reflexivity | exact H].
  Qed.

  Lemma var_ser_cfg t : var_ser S t = cfg_ser (scalar_cfg_of S (named_of t)).
  Proof.
    unfold var_ser, scalar_cfg_of. destruct (lookup_type S (named_of t)) as [[b|c|vals|fs]|]; reflexivity.
  Qed.

  Lemma occ_ser_no_ser : forall t nn v log,
    cfg_ser (scalar_cfg_of S (named_of t)) = None -> occ_ser S t nn v = Some log -> log = [].
  Proof.
    induction t as [n|t' IH|t' IH]; intros nn v log Hc H.
    - simpl in *. rewrite Hc in H. destruct v; try (inversion H; reflexivity); try discriminate.
      destruct nn; [discriminate|inversion H; reflexivity].
    - simpl in *. destruct v; try discriminate.
      + destruct nn; [discriminate|inversion H; reflexivity].
      + revert log H. induction l as [|e r IHl]; intros log H; [inversion H; reflexivity|].
        destruct (occ_ser S t' false e) as [a1|] eqn:E1; [|discriminate].
        match type of H with
        | match ?g with _ => _ end = _ => destruct g as [a2|] eqn:E2; [|discriminate]
        end.
        inversion H; subst. rewrite (IH false e a1 Hc E1), (IHl a2 eq_refl). reflexivity.
    - simpl in *. eapply IH; eauto.
  Qed.

  (* top-level arguments (since /repo d163d56): the generated expression calls serialize exactly on the
     non-None occurrences, in order, for every wrapper nesting; never for None, never for an omitted argument *)
  Lemma ser_arg_log ser f : forall t nn top v log,
    cfg_ser (scalar_cfg_of S (named_of t)) = Some f -> occ_ser S t nn v = Some log ->
    exists w, ser_arg ser f t (negb nn) top v = Some (w, log).
  Proof.
    induction t as [n|t' IH|t' IH]; intros nn top v log Hc H.
    - simpl in *. rewrite Hc in H.
      destruct v; try discriminate;
        try (inversion H; subst; eexists; destruct nn, top; reflexivity).
      destruct nn; [discriminate|]. inversion H; subst. eexists. reflexivity.
    - simpl in *. destruct v; try discriminate.
      + destruct nn; [discriminate|]. inversion H; subst. eexists. reflexivity.
      + assert (Hl : exists rs, map_opt (ser_arg ser f t' true false) l = Some rs /\ List.concat (map snd rs) = log).
        { revert log H. induction l as [|e r IHl]; intros log H.
          - inversion H; subst. exists []. split; reflexivity.
          - destruct (occ_ser S t' false e) as [a1|] eqn:E1; [|discriminate].
            match type of H with
            | match ?g with _ => _ end = _ => destruct g as [a2|] eqn:E2; [|discriminate]
            end.
            inversion H; subst.
            destruct (IH false false e a1 Hc E1) as [w Hw]. simpl in Hw.
            destruct (IHl a2 eq_refl) as [rs [Hrs Hcat]].
            exists ((w, a1) :: rs). split; [simpl; rewrite Hw, Hrs; reflexivity|simpl; rewrite Hcat; reflexivity]. }
        destruct Hl as [rs [Hrs Hcat]]. exists (PList (map fst rs)).
        rewrite Hrs. simpl. rewrite Hcat. destruct nn, top; reflexivity.
    - simpl in *. apply (IH true top v log Hc H).
  Qed.

  Lemma serialize_args ser t v log :
    (forall f, var_ser S t = Some f -> String.eqb f "x" = false) ->
    occ_ser S t false v = Some log -> arg_log ser S t v = Some log.
  Proof.
    intros Hn H. unfold arg_log. pose proof (var_ser_cfg t) as Hv.
    destruct (var_ser S t) as [f|] eqn:Ef.
    - pose proof (Hn f eq_refl) as Hx.
      rewrite (eval_gen ser f) with (v := v).
      + destruct (ser_arg_log ser f t false true v log (eq_sym Hv) H) as [w Hw]. simpl in Hw. simpl Nat.eqb.
        rewrite Hw. reflexivity.
      + reflexivity.
      + simpl. rewrite Hx. reflexivity.
      + reflexivity.
    - f_equal. symmetry. eapply occ_ser_no_ser; [symmetry; exact Hv|exact H].
  Qed.

  Lemma serialize_args_omitted ser t :
    (forall f, var_ser S t = Some f -> String.eqb f "x" = false) ->
    is_nonnull t = false -> arg_log ser S t PUnset = Some [].
  Proof.
    intros Hn Ht. unfold arg_log. destruct (var_ser S t) as [f|] eqn:Ef; [|reflexivity].
    pose proof (Hn f eq_refl) as Hx.
    rewrite (eval_gen ser f) with (v := PUnset).
    - simpl Nat.eqb. rewrite ser_arg_unset; [reflexivity|exact Ht].
    - reflexivity.
    - simpl. rewrite Hx. reflexivity.
    - reflexivity.
  Qed.

  (* custom operation arguments (since /repo 3032a3a): once per non-None occurrence for every wrapper nesting *)
  Lemma cu_arg_log ser f : forall t nn d0 v log,
    cfg_ser (scalar_cfg_of S (named_of t)) = Some f -> occ_ser S t nn v = Some log ->
    exists w, cu_arg ser f t (negb nn) d0 v = Some (w, log).
  Proof.
    induction t as [n|t' IH|t' IH]; intros nn d0 v log Hc H.
    - simpl in *. rewrite Hc in H.
      destruct v; try discriminate;
        try (inversion H; subst; eexists; destruct nn, d0; reflexivity).
      destruct nn; [discriminate|]. inversion H; subst. eexists. reflexivity.
    - simpl in *. destruct v; try discriminate.
      + destruct nn; [discriminate|]. inversion H; subst. eexists. reflexivity.
      + assert (Hl : exists rs, map_opt (cu_arg ser f t' true false) l = Some rs /\ List.concat (map snd rs) = log).
        { revert log H. induction l as [|e r IHl]; intros log H.
          - inversion H; subst. exists []. split; reflexivity.
          - destruct (occ_ser S t' false e) as [a1|] eqn:E1; [|discriminate].
            match type of H with
            | match ?g with _ => _ end = _ => destruct g as [a2|] eqn:E2; [|discriminate]
            end.
            inversion H; subst.
            destruct (IH false false e a1 Hc E1) as [w Hw]. simpl in Hw.
            destruct (IHl a2 eq_refl) as [rs [Hrs Hcat]].
            exists ((w, a1) :: rs). split; [simpl; rewrite Hw, Hrs; reflexivity|simpl; rewrite Hcat; reflexivity]. }
        destruct Hl as [rs [Hrs Hcat]]. exists (PList (map fst rs)).
        rewrite Hrs. simpl. rewrite Hcat. destruct nn, d0; reflexivity.
    - simpl in *. apply (IH true d0 v log Hc H).
  Qed.

  Lemma custom_args ser t v log :
    (forall f, var_ser S t = Some f -> String.eqb f "x" = false /\ is_item_name f = false) ->
    occ_ser S t false v = Some log -> custom_arg_log ser S t v = Some log.
  Proof.
    intros Hn H. unfold custom_arg_log. pose proof (var_ser_cfg t) as Hv.
    destruct (var_ser S t) as [f|] eqn:Ef.
    - destruct (Hn f eq_refl) as [Hx Hi].
      rewrite (eval_gen_cu ser f) with (v := v).
      + destruct (cu_arg_log ser f t false true v log (eq_sym Hv) H) as [w Hw]. simpl in Hw. simpl Nat.eqb.
        rewrite Hw. reflexivity.
      + intro d. destruct (String.eqb f (item_name d)) eqn:E; [|reflexivity].
        apply String.eqb_eq in E. subst f. unfold is_item_name in Hi.
        unfold item_name in Hi. simpl in Hi. destruct (z_to_string (Z.of_nat d)); discriminate.
      + reflexivity.
      + simpl. rewrite Hx. reflexivity.
    - f_equal. symmetry. eapply occ_ser_no_ser; [symmetry; exact Hv|exact H].
  Qed.

  (* an unconfigured scalar (or one without parse / serialize) triggers no hook *)
  Lemma passthrough_parse : forall t nl j log,
    cfg_parse (scalar_cfg_of S (named_of t)) = None -> vlog (result_sann S t nl) j = Some log -> log = [].
  Proof.
    induction t as [n|t' IH|t' IH]; intros nl j log Hc H.
    - simpl in *. unfold result_leaf in H. rewrite Hc in H.
      destruct nl; simpl in H; [destruct j|]; inversion H; reflexivity.
    - simpl in Hc. simpl result_sann in H.
      assert (Hl : forall log, vlog (SList (result_sann S t' true)) j = Some log -> log = []).
      { clear H log. intros log H. simpl in H. destruct j; try discriminate.
        revert log H. induction l as [|e r IHl]; intros log H; [inversion H; reflexivity|].
        destruct (vlog (result_sann S t' true) e) as [a1|] eqn:E1; [|discriminate].
        match type of H with
        | match ?g with _ => _ end = _ => destruct g as [a2|] eqn:E2; [|discriminate]
        end.
        inversion H; subst. rewrite (IH true e a1 Hc E1), (IHl a2 eq_refl). reflexivity. }
      destruct nl; unfold wrap_opt in H; [|apply Hl; exact H].
      destruct j; try (apply Hl; exact H). inversion H; reflexivity.
    - simpl in *. eapply IH; eauto.
  Qed.

  Lemma passthrough_arg t u a :
    parse_type_node S t true = Some (a, u) -> var_ser S t = None ->
    exists nl, parse_type_node S t nl = Some (a, u) /\ True.
  Proof. intros H _. exists true. split; [exact H|exact I]. Qed.
End S.

(* every dotted type / parse / serialize string yields the import of exactly its object from its module;
   the deprecated `import` key imports all three names *)
Lemma imports_complete c nm m o :
  In nm (names_to_import c) -> split_dotted nm = (Some m, o) -> In (m, [o]) (scalar_imports c).
Proof.
  intros Hin Hs. unfold scalar_imports. apply in_or_app. right.
  apply in_flat_map. exists nm. split; [exact Hin|]. rewrite Hs. left; reflexivity.
Qed.

Lemma imports_only_needed c m names :
  In (m, names) (scalar_imports c) ->
  (sc_import c = Some m /\ names = names_to_import c) \/
  exists nm o, In nm (names_to_import c) /\ split_dotted nm = (Some m, o) /\ names = [o].
Proof.
  unfold scalar_imports. intro H. apply in_app_or in H as [H|H].
  - destruct (sc_import c) as [m'|]; [|contradiction]. destruct H as [H|[]].
    inversion H; subst. left; split; reflexivity.
  - right. apply in_flat_map in H as [nm [Hin H]].
    destruct (split_dotted nm) as [[m'|] o] eqn:E; [|contradiction]. destruct H as [H|[]].
    inversion H; subst. exists nm, o. repeat split; assumption.
Qed.

Lemma import_key c m : sc_import c = Some m -> In (m, names_to_import c) (scalar_imports c).
Proof. intro H. unfold scalar_imports. rewrite H. left; reflexivity. Qed.
