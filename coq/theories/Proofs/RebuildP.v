(* Lemmas about Model/Rebuild.v: with the rebuild calls the generator places, every class of a result module and
   of the fragments module is complete after import, provided its annotations are well scoped (Proofs/ScopeP.v). *)
From Coq Require Import List String Bool.
From AC Require Import Gql.Schema Py.Ann Model.Results Model.Rebuild Proofs.ResultsP Proofs.ResultsRunP Proofs.ScopeP.
Import ListNotations.
Local Open Scope list_scope.

(* the two definitions are the same fixpoint *)
Lemma ann_class_names_eq : forall a, ann_class_names a = ann_classes a.
Proof. intro a. reflexivity. Qed.

Lemma not_quoted_no_names : forall a, ann_quoted a = false -> ann_class_names a = [].
Proof.
  fix IH 1. intros [ | | | | | ty hp | n | n | x | x | l | vals]; simpl; intro H; try reflexivity; try discriminate.
  - apply (IH x H).
  - apply (IH x H).
  - revert l H. fix IHl 1. intros [|y r] H; simpl in *; [reflexivity|].
    apply orb_false_elim in H as [H1 H2]. rewrite (IH y H1), (IHl r H2). reflexivity.
Qed.

Lemma no_forward_refs_no_refs c : has_forward_refs c = false -> class_refs c = [].
Proof.
  unfold has_forward_refs, class_refs. induction (c_fields c) as [|f r IH]; simpl; [reflexivity|].
  intro H. apply orb_false_elim in H as [H1 H2]. rewrite (not_quoted_no_names _ H1). simpl. apply IH, H2.
Qed.

Lemma mem_true_In x l : In x l -> mem x l = true.
Proof. intro H. unfold mem. apply existsb_exists. exists x. split; [exact H | apply String.eqb_refl]. Qed.

(* the generic fact: rebuild every class with forward references + well-scoped annotations => all complete *)
Theorem complete_generic (cls : list pclass) (rebuilds : list string) :
  (forall c, In c cls -> has_forward_refs c = true -> In (c_name c) rebuilds) ->
  (forall c pf n, In c cls -> In pf (c_fields c) -> In n (ann_classes (p_ann pf)) -> In n (map c_name cls)) ->
  forall pre c post, cls = pre ++ c :: post ->
  complete_after_load (map c_name cls) rebuilds (map c_name pre) c = true.
Proof.
  intros HR HS pre c post E. unfold complete_after_load.
  assert (In c cls) as Hc by (rewrite E; apply in_or_app; right; left; reflexivity).
  destruct (has_forward_refs c) eqn:F.
  - apply orb_true_iff. right. apply andb_true_iff. split; [apply mem_true_In, HR; assumption|].
    apply forallb_forall. intros n Hn. apply mem_true_In. unfold class_refs in Hn.
    apply in_flat_map in Hn as (pf & Hpf & Hn). rewrite ann_class_names_eq in Hn. eapply HS; eauto.
  - rewrite (no_forward_refs_no_refs c F). reflexivity.
Qed.

Lemma op_rebuild_has cls c : In c cls -> has_forward_refs c = true -> In (c_name c) (op_rebuild_calls cls).
Proof. intros H1 H2. unfold op_rebuild_calls. apply in_map, filter_In. split; assumption. Qed.

Lemma frag_rebuild_has top cls c :
  In c cls -> has_forward_refs c = true -> In (c_name c) (frag_rebuild_calls top cls).
Proof.
  intros H1 H2. unfold frag_rebuild_calls. apply in_map, filter_In. split; [exact H1|]. rewrite H2. apply orb_true_r.
Qed.

(* a rebuild call of an operation module is never wasted *)
Lemma op_rebuild_minimal cls n :
  In n (op_rebuild_calls cls) -> exists c, In c cls /\ c_name c = n /\ has_forward_refs c = true.
Proof.
  unfold op_rebuild_calls. intro H. apply in_map_iff in H as (c & <- & Hc). apply filter_In in Hc as [Hc F].
  exists c. auto.
Qed.
