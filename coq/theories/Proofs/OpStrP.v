(* Proofs about Model/OpStr.v (C02): fragment closure, the two documented rewrites. *)
From Coq Require Import List String Ascii Bool Arith Lia.
From AC Require Import Base.Strs Base.Sexp Gql.Schema Gql.Doc Py.Ann Model.Names Model.Results Model.OpStr.
Import ListNotations.
Local Open Scope string_scope.
Local Open Scope list_scope.

(* ---------------------------------------------------------------- induction over selections *)
Section FselInd.
  Variable P : fsel -> Prop.
  Hypothesis Hf : forall id al n args ds sub,
      (forall l, sub = Some l -> Forall P l) -> P (FField id al n args ds sub).
  Hypothesis Hs : forall n ds, P (FSpread n ds).
  Hypothesis Hi : forall tc ds sub, Forall P sub -> P (FInline tc ds sub).
  Hypothesis Ha : P FAuto.

  Fixpoint fsel_rect' (s : fsel) : P s :=
    let fix all (l : list fsel) : Forall P l :=
      match l with
      | [] => Forall_nil P
      | x :: r => Forall_cons x (fsel_rect' x) (all r)
      end in
    match s with
    | FField id al n args ds sub =>
        Hf id al n args ds sub
           (match sub as o return (forall l, o = Some l -> Forall P l) with
            | Some l0 => fun l E => match E in (_ = y) return (match y with Some l' => Forall P l' | None => True end)
                                    with eq_refl => all l0 end
            | None => fun l E => match E in (_ = y) return (match y with Some l' => Forall P l' | None => True end)
                                 with eq_refl => I end
            end)
    | FSpread n ds => Hs n ds
    | FInline tc ds sub => Hi tc ds sub (all sub)
    | FAuto => Ha
    end.
End FselInd.

(* ---------------------------------------------------------------- sets of strings *)
Lemma mem_In x l : mem x l = true <-> In x l.
Proof.
  unfold mem. rewrite existsb_exists. split.
  - intros [y [Hy He]]. apply String.eqb_eq in He. subst. exact Hy.
  - intro H. exists x. split; [exact H | apply String.eqb_refl].
Qed.

Lemma dedup_In x l : In x (dedup l) <-> In x l.
Proof.
  induction l as [|y l IH]; simpl; [tauto|].
  destruct (mem y l) eqn:E.
  - rewrite IH. split; [tauto|]. intros [->|H]; [apply mem_In; exact E | exact H].
  - simpl. rewrite IH. tauto.
Qed.

Lemma dedup_NoDup l : NoDup (dedup l).
Proof.
  induction l as [|y l IH]; simpl; [constructor|].
  destruct (mem y l) eqn:E; [exact IH|].
  constructor; [|exact IH]. rewrite dedup_In. intro H. apply mem_In in H. congruence.
Qed.

Lemma insert_sorted_In x y l : In x (insert_sorted y l) <-> x = y \/ In x l.
Proof.
  induction l as [|z l IH]; simpl; [intuition|].
  destruct (str_leb y z); simpl; [intuition|]. rewrite IH. intuition.
Qed.

Lemma sort_strings_In x l : In x (sort_strings l) <-> In x l.
Proof.
  induction l as [|y l IH]; simpl; [tauto|].
  rewrite insert_sorted_In, IH. intuition.
Qed.

Lemma insert_sorted_NoDup y l : NoDup l -> ~ In y l -> NoDup (insert_sorted y l).
Proof.
  induction l as [|z l IH]; simpl; intros Hn Hy.
  - constructor; [tauto | constructor].
  - destruct (str_leb y z).
    + constructor; [simpl; tauto | exact Hn].
    + inversion Hn; subst. constructor.
      * rewrite insert_sorted_In. intros [->|H]; [apply Hy; left; reflexivity | tauto].
      * apply IH; [assumption | tauto].
Qed.

Lemma sort_strings_NoDup l : NoDup l -> NoDup (sort_strings l).
Proof.
  induction l as [|y l IH]; simpl; intro H; [constructor|].
  inversion H; subst. apply insert_sorted_NoDup; [apply IH; assumption|].
  rewrite sort_strings_In. assumption.
Qed.

Lemma sorted_set_In x l : In x (sorted_set l) <-> In x l.
Proof. unfold sorted_set. rewrite sort_strings_In. apply dedup_In. Qed.

Lemma sorted_set_NoDup l : NoDup (sorted_set l).
Proof. unfold sorted_set. apply sort_strings_NoDup, dedup_NoDup. Qed.

(* ---------------------------------------------------------------- fragment closure *)
Lemma reach_mono frs a b n : incl a b -> reach frs a n -> reach frs b n.
Proof.
  intros Hi H. induction H.
  - apply reach_direct. apply Hi. assumption.
  - eapply reach_step; eassumption.
Qed.

(* everything reachable from the body of a fragment that is itself reachable is reachable *)
Lemma reach_through frs names m f n :
  reach frs names m -> lookup_fdef frs m = Some f ->
  reach frs (sel_spreads (fd_sel f)) n -> reach frs names n.
Proof.
  intros Hm Hl H. induction H.
  - eapply reach_step; eassumption.
  - eapply reach_step; eassumption.
Qed.

Lemma reach_trans frs a b n :
  (forall m, In m b -> reach frs a m) -> reach frs b n -> reach frs a n.
Proof.
  intros Hb H. induction H.
  - apply Hb. assumption.
  - eapply reach_step; eassumption.
Qed.

(* unfolding of the inner loop *)
Definition fn_go (fuel' : nat) (frs : list fdef) :=
  fix go (ns : list string) : option (list string) :=
    match ns with
    | [] => Some []
    | n :: r =>
        match lookup_fdef frs n with
        | None => None
        | Some f =>
            match frag_names fuel' frs (sel_spreads (fd_sel f)), go r with
            | Some a, Some b => Some (n :: a ++ b)
            | _, _ => None
            end
        end
    end.

Lemma frag_names_S fuel frs names : frag_names (S fuel) frs names = fn_go fuel frs names.
Proof. reflexivity. Qed.

Lemma fn_go_cons fuel frs n r l :
  fn_go fuel frs (n :: r) = Some l ->
  exists f a b, lookup_fdef frs n = Some f /\
                frag_names fuel frs (sel_spreads (fd_sel f)) = Some a /\
                fn_go fuel frs r = Some b /\ l = n :: a ++ b.
Proof.
  simpl. destruct (lookup_fdef frs n) as [f|] eqn:E1; [|discriminate].
  destruct (frag_names fuel frs (sel_spreads (fd_sel f))) as [a|] eqn:E2; [|discriminate].
  destruct (fn_go fuel frs r) as [b|] eqn:E; [|discriminate].
  intro H. inversion H. subst. exists f, a, b. repeat split; try reflexivity; assumption.
Qed.

(* the names asked for are in the result *)
Lemma frag_names_incl fuel frs : forall names l,
  frag_names fuel frs names = Some l -> incl names l.
Proof.
  destruct fuel as [|fuel]; intros names l H.
  - destruct names; [intros x []|discriminate].
  - rewrite frag_names_S in H. revert l H.
    induction names as [|n r IH]; intros l H; [intros x []|].
    apply fn_go_cons in H as (f & a & b & _ & _ & Hb & ->).
    intros x [->|Hx]; [left; reflexivity|].
    right. apply in_or_app. right. eapply IH; eassumption.
Qed.

(* soundness: only reachable names *)
Lemma frag_names_sound frs : forall fuel names l,
  frag_names fuel frs names = Some l -> forall n, In n l -> reach frs names n.
Proof.
  induction fuel as [|fuel IHf]; intros names l H n Hn.
  - destruct names; [|discriminate]. inversion H; subst. destruct Hn.
  - rewrite frag_names_S in H. revert l H n Hn.
    induction names as [|m r IH]; intros l H n Hn.
    + inversion H; subst. destruct Hn.
    + apply fn_go_cons in H as (f & a & b & Hl & Ha & Hb & ->).
      destruct Hn as [->|Hn]; [apply reach_direct; left; reflexivity|].
      apply in_app_or in Hn as [Hn|Hn].
      * eapply reach_through; [apply reach_direct; left; reflexivity | exact Hl |].
        eapply IHf; eassumption.
      * eapply reach_mono; [|eapply IH; eassumption]. intros x Hx; right; exact Hx.
Qed.

(* the result is closed under "spreads" *)
Lemma frag_names_closed frs : forall fuel names l,
  frag_names fuel frs names = Some l ->
  forall m f, In m l -> lookup_fdef frs m = Some f -> incl (sel_spreads (fd_sel f)) l.
Proof.
  induction fuel as [|fuel IHf]; intros names l H m f Hm Hl.
  - destruct names; [|discriminate]. inversion H; subst. destruct Hm.
  - rewrite frag_names_S in H. revert l H m f Hm Hl.
    induction names as [|k r IH]; intros l H m f Hm Hl.
    + inversion H; subst. destruct Hm.
    + apply fn_go_cons in H as (g & a & b & Hg & Ha & Hb & ->).
      destruct Hm as [<-|Hm].
      * rewrite Hg in Hl. inversion Hl; subst.
        intros x Hx. right. apply in_or_app. left. eapply frag_names_incl; eassumption.
      * apply in_app_or in Hm as [Hm|Hm].
        -- intros x Hx. right. apply in_or_app. left. eapply IHf; eassumption.
        -- intros x Hx. right. apply in_or_app. right. eapply IH; eassumption.
Qed.

(* completeness: every reachable name *)
Lemma frag_names_complete frs fuel names l :
  frag_names fuel frs names = Some l -> forall n, reach frs names n -> In n l.
Proof.
  intros H n Hr. induction Hr.
  - eapply frag_names_incl; eassumption.
  - eapply frag_names_closed; eassumption.
Qed.

Theorem frag_names_exact frs fuel names l :
  frag_names fuel frs names = Some l -> forall n, In n l <-> reach frs names n.
Proof.
  intros H n. split; [eapply frag_names_sound | eapply frag_names_complete]; eassumption.
Qed.

(* fuel: a ranking of the fragments that decreases along spreads bounds the recursion depth *)
Definition ranked (rk : string -> nat) (frs : list fdef) : Prop :=
  forall m f, lookup_fdef frs m = Some f ->
  forall n, In n (sel_spreads (fd_sel f)) -> (exists g, lookup_fdef frs n = Some g) /\ rk n < rk m.

Lemma frag_names_fuel rk frs : ranked rk frs -> forall fuel names,
  (forall n, In n names -> (exists g, lookup_fdef frs n = Some g) /\ rk n < fuel) ->
  exists l, frag_names fuel frs names = Some l.
Proof.
  intro Hr. induction fuel as [|fuel IHf]; intros names Hn.
  - destruct names as [|n r]; [exists []; reflexivity|].
    destruct (Hn n (or_introl eq_refl)) as [_ H]. lia.
  - rewrite frag_names_S. induction names as [|n r IH]; [exists []; reflexivity|].
    destruct (Hn n (or_introl eq_refl)) as [[g Hg] Hlt].
    destruct (IHf (sel_spreads (fd_sel g))) as [a Ha].
    { intros k Hk. destruct (Hr n g Hg k Hk) as [He Hlt']. split; [exact He | lia]. }
    destruct IH as [b Hb]. { intros k Hk. apply Hn. right. exact Hk. }
    exists (n :: a ++ b). simpl. rewrite Hg, Ha. fold (fn_go fuel frs r). rewrite Hb. reflexivity.
Qed.

(* "fuel = number of fragments suffices": with ranks below the number of fragments *)
Corollary frag_names_fuel_count rk frs names :
  ranked rk frs -> (forall m f, lookup_fdef frs m = Some f -> rk m < List.length frs) ->
  (forall n, In n names -> exists g, lookup_fdef frs n = Some g) ->
  exists l, frag_names (List.length frs) frs names = Some l.
Proof.
  intros Hr Hb Hn. eapply frag_names_fuel; [exact Hr|].
  intros n Hi. destruct (Hn n Hi) as [g Hg]. split; [exists g; exact Hg | eapply Hb; exact Hg].
Qed.

(* ---- related fragments = reachable fragments ---- *)
Theorem related_exact fuel frs o rel :
  related fuel frs o = Some rel ->
  (forall n, In n rel <-> reach frs (sel_spreads (o_sel o)) n) /\ NoDup rel.
Proof.
  unfold related. intro H. destruct (frag_names fuel frs (sel_spreads (o_sel o))) as [l|] eqn:El; [|discriminate].
  inversion H; subst. split; [|apply sorted_set_NoDup].
  intro n. rewrite sorted_set_In. eapply frag_names_exact. exact El.
Qed.

(* ---------------------------------------------------------------- the documented rewrites *)
Lemma flat_map_singleton {X Y} (f : X -> list Y) (g : X -> Y) l :
  Forall (fun x => f x = [g x]) l -> flat_map f l = map g l.
Proof. induction 1; simpl; [reflexivity|]. rewrite H, IHForall. reflexivity. Qed.

Lemma erase_view ins id l : erase_sels (view ins id l) = erase_sels l.
Proof. unfold view. destruct (mem_nat id ins); reflexivity. Qed.

(* erasing the inserted nodes after inserting them and stripping @mixin from fields gives the authored
   selection with @mixin stripped from fields: nothing else moves *)
Lemma erase_strip_apply ins : forall s, authored_sel s = true ->
  erase_sel (strip_sel (apply_sel ins s)) = [strip_sel s].
Proof.
  induction s using fsel_rect'; simpl; intro Ha; try reflexivity; try discriminate.
  - destruct sub as [l|]; [|reflexivity].
    specialize (H l eq_refl). f_equal. f_equal. f_equal.
    change (flat_map erase_sel (map strip_sel (view ins id (map (apply_sel ins) l))))
      with (erase_sels (map strip_sel (view ins id (map (apply_sel ins) l)))).
    assert (E : map strip_sel (view ins id (map (apply_sel ins) l))
                = view ins id (map strip_sel (map (apply_sel ins) l))).
    { unfold view. destruct (mem_nat id ins); reflexivity. }
    rewrite E, erase_view. unfold erase_sels. rewrite map_map, flat_map_concat_map, map_map.
    rewrite <- flat_map_concat_map.
    apply flat_map_singleton with (g := strip_sel).
    rewrite forallb_forall in Ha. rewrite Forall_forall in *. intros x Hx. apply H; auto.
  - f_equal. f_equal. rewrite flat_map_concat_map, !map_map. rewrite <- flat_map_concat_map.
    apply flat_map_singleton with (g := strip_sel).
    rewrite forallb_forall in Ha. rewrite Forall_forall in *. intros x Hx. apply H; auto.
Qed.

Lemma erase_strip_apply_list ins l : forallb authored_sel l = true ->
  erase_sels (map strip_sel (map (apply_sel ins) l)) = map strip_sel l.
Proof.
  intro Ha. unfold erase_sels. rewrite flat_map_concat_map, !map_map, <- flat_map_concat_map.
  apply flat_map_singleton with (g := strip_sel).
  rewrite forallb_forall in Ha. apply Forall_forall. intros x Hx. apply erase_strip_apply. auto.
Qed.

Definition authored_op (o : opdef) : bool := forallb authored_sel (o_sel o).
Definition authored_fd (f : fdef) : bool := forallb authored_sel (fd_sel f).

Lemma erase_op ins o : authored_op o = true ->
  erase_ddef (XOp (strip_op (apply_op ins o))) = XOp (strip_op o).
Proof.
  intro Ha. unfold erase_ddef, strip_op, apply_op; simpl. f_equal. f_equal.
  apply erase_strip_apply_list. exact Ha.
Qed.

Lemma erase_fd ins f : authored_fd f = true ->
  erase_ddef (XFrag (strip_fd (apply_fd ins f))) = XFrag (strip_fd f).
Proof.
  intro Ha. unfold erase_ddef, strip_fd, apply_fd; simpl. f_equal. f_equal.
  apply erase_strip_apply_list. exact Ha.
Qed.

Lemma lookup_fdef_In frs n f : lookup_fdef frs n = Some f -> In f frs /\ fd_name f = n.
Proof.
  unfold lookup_fdef. intro H. apply find_some in H as [Hi He]. apply String.eqb_eq in He. auto.
Qed.

Lemma lookup_all_In frs : forall names defs, lookup_all frs names = Some defs ->
  Forall (fun f => In f frs) defs /\ map fd_name defs = names.
Proof.
  induction names as [|n r IH]; simpl; intros defs H.
  - inversion H. split; [constructor | reflexivity].
  - destruct (lookup_fdef frs n) as [f|] eqn:El; [|discriminate].
    destruct (lookup_all frs r) as [fs|]; [|discriminate]. inversion H; subst.
    destruct (IH fs eq_refl) as [H1 H2]. apply lookup_fdef_In in El as [Hi Hn].
    split; [constructor; assumption | simpl; congruence].
Qed.

(* shape of the document of one operation *)
Lemma op_document_shape fuel C Sc frs ins o doc ins' :
  op_document fuel C Sc frs ins o = Ok (doc, ins') ->
  exists st rel defs,
    related fuel frs o = Some rel /\ lookup_all frs rel = Some defs /\
    ins' = ps_ins st /\
    doc = XOp (strip_op (apply_op ins' o)) :: map (fun f => XFrag (strip_fd (apply_fd ins' f))) defs /\
    op_sets fuel C Sc frs ins o = Ok (ps_mix st, ps_unp st).
Proof.
  unfold op_document, op_sets. destruct (String.eqb (o_name o) ""); [discriminate|].
  destruct (root_type_name Sc (o_kind o)) as [tn|]; simpl; [|discriminate].
  destruct (ptd fuel C Sc frs (map proj_frag frs) (fresh ins) (pascal_s (o_name o)) tn None (o_sel o) false)
    as [st|]; simpl; [|discriminate].
  destruct (related fuel frs o) as [rel|] eqn:Er; [|discriminate].
  destruct (lookup_all frs rel) as [defs|] eqn:El; [|discriminate].
  intro H. inversion H; subst. exists st, rel, defs. auto.
Qed.

Theorem only_documented_rewrites fuel C Sc frs ins o doc ins' :
  op_document fuel C Sc frs ins o = Ok (doc, ins') ->
  authored_op o = true -> forallb authored_fd frs = true ->
  exists defs, Forall (fun f => In f frs) defs /\
    map erase_ddef doc = XOp (strip_op o) :: map (fun f => XFrag (strip_fd f)) defs.
Proof.
  intros H Ho Hf. apply op_document_shape in H as (st & rel & defs & _ & Hl & -> & -> & _).
  apply lookup_all_In in Hl as [Hin _]. exists defs. split; [exact Hin|].
  rewrite map_cons, (erase_op _ _ Ho). f_equal. rewrite map_map.
  apply map_ext_in. intros f Hfi. apply erase_fd.
  rewrite forallb_forall in Hf. apply Hf. rewrite Forall_forall in Hin. apply Hin. exact Hfi.
Qed.

(* the visitor is the identity where no field carries @mixin; where @mixin stands on fields only it is
   the full removal *)
Fixpoint no_field_mixin (s : fsel) : bool :=
  match s with
  | FField _ _ _ _ ds (Some l) => forallb not_mixin ds && forallb no_field_mixin l
  | FField _ _ _ _ ds None => forallb not_mixin ds
  | FInline _ _ l => forallb no_field_mixin l
  | _ => true
  end.

Lemma filter_id {X} (p : X -> bool) l : forallb p l = true -> filter p l = l.
Proof.
  induction l as [|x l IH]; simpl; [reflexivity|]. intro H. apply andb_true_iff in H as [H1 H2].
  rewrite H1, IH by exact H2. reflexivity.
Qed.

Lemma map_id_in {X} (f : X -> X) l : Forall (fun x => f x = x) l -> map f l = l.
Proof. induction 1; simpl; congruence. Qed.

Lemma strip_sel_id : forall s, no_field_mixin s = true -> strip_sel s = s.
Proof.
  induction s using fsel_rect'; simpl; intro Hn; try reflexivity.
  - destruct sub as [l|].
    + apply andb_true_iff in Hn as [H1 H2]. rewrite filter_id by exact H1. f_equal. f_equal.
      apply map_id_in. specialize (H l eq_refl). rewrite forallb_forall in H2.
      rewrite Forall_forall in *. intros x Hx. apply H; auto.
    + rewrite filter_id by exact Hn. reflexivity.
  - f_equal. apply map_id_in. rewrite forallb_forall in Hn. rewrite Forall_forall in *.
    intros x Hx. apply H; auto.
Qed.

Lemma strip_sel_all : forall s, mixin_located_sel s = true -> strip_sel s = strip_all_sel s.
Proof.
  induction s using fsel_rect'; simpl; intro Hm; try reflexivity.
  - destruct sub as [l|]; [|reflexivity]. f_equal. f_equal. apply map_ext_in.
    specialize (H l eq_refl). rewrite forallb_forall in Hm. rewrite Forall_forall in H. intros x Hx. apply H; auto.
  - unfold strip_dirs. rewrite filter_id by exact Hm. reflexivity.
  - apply andb_true_iff in Hm as [H1 H2]. unfold strip_dirs. rewrite filter_id by exact H1. f_equal.
    apply map_ext_in. rewrite forallb_forall in H2. rewrite Forall_forall in H. intros x Hx. apply H; auto.
Qed.

Lemma strip_ddef_all d : mixin_located d = true ->
  match d with XOp o => XOp (strip_op o) | XFrag f => XFrag (strip_fd f) end = strip_all_ddef d.
Proof.
  destruct d as [o|f]; simpl; intro H.
  - apply andb_true_iff in H as [H12 H3]. apply andb_true_iff in H12 as [H1 H2].
    unfold strip_op. f_equal. destruct o; simpl in *. f_equal.
    + symmetry. apply map_id_in. rewrite forallb_forall in H2. apply Forall_forall. intros v Hv.
      unfold strip_dirs. rewrite filter_id by (apply H2; exact Hv). destruct v; reflexivity.
    + unfold strip_dirs. rewrite filter_id by exact H1. reflexivity.
    + apply map_ext_in. rewrite forallb_forall in H3. intros x Hx. apply strip_sel_all. auto.
  - unfold strip_fd. f_equal. destruct f; simpl in *. f_equal.
    apply map_ext_in. rewrite forallb_forall in H. intros x Hx. apply strip_sel_all. auto.
Qed.

(* every @mixin is gone from the sent document (valid input: @mixin only at its declared locations) *)
Theorem documented_rewrites fuel C Sc frs ins o doc ins' :
  op_document fuel C Sc frs ins o = Ok (doc, ins') ->
  authored_op o = true -> forallb authored_fd frs = true ->
  mixin_located (XOp o) = true -> forallb (fun f => mixin_located (XFrag f)) frs = true ->
  exists defs, Forall (fun f => In f frs) defs /\
    map erase_ddef doc = map strip_all_ddef (XOp o :: map XFrag defs).
Proof.
  intros H Ho Hf Hmo Hmf. destruct (only_documented_rewrites _ _ _ _ _ _ _ _ H Ho Hf) as (defs & Hin & E).
  exists defs. split; [exact Hin|]. rewrite E. simpl. f_equal.
  - apply (strip_ddef_all (XOp o)). exact Hmo.
  - rewrite map_map. apply map_ext_in. intros f Hfi. apply (strip_ddef_all (XFrag f)).
    rewrite forallb_forall in Hmf. apply Hmf. rewrite Forall_forall in Hin. apply Hin. exact Hfi.
Qed.

(* the sent document holds exactly one operation definition, the method's *)
Definition ops_of (doc : list ddef) : list opdef :=
  flat_map (fun d => match d with XOp o => [o] | XFrag _ => [] end) doc.

Theorem operation_name_is_single fuel C Sc frs ins o doc ins' :
  op_document fuel C Sc frs ins o = Ok (doc, ins') ->
  exists o', ops_of doc = [o'] /\ o_name o' = method_opname o /\ o_kind o' = o_kind o /\
             o_vars o' = o_vars o /\ o_dirs o' = o_dirs o.
Proof.
  intro H. apply op_document_shape in H as (st & rel & defs & _ & _ & -> & -> & _).
  exists (strip_op (apply_op (ps_ins st) o)). split; [|simpl; auto].
  unfold ops_of. simpl. f_equal. induction defs as [|f r IH]; simpl; [reflexivity | exact IH].
Qed.

(* variable definitions, operation directives, name and kind are never touched (any insertions) *)
Lemma op_header_kept ins o :
  let o' := strip_op (apply_op ins o) in
  o_vars o' = o_vars o /\ o_dirs o' = o_dirs o /\ o_name o' = o_name o /\ o_kind o' = o_kind o.
Proof. simpl. auto. Qed.

(* ---------------------------------------------------------------- fragments of the sent document *)
Lemma doc_fragment_names_shape o' (defs : list fdef) (g : fdef -> fdef) :
  (forall f, fd_name (g f) = fd_name f) ->
  doc_fragment_names (XOp o' :: map (fun f => XFrag (g f)) defs) = map fd_name defs.
Proof.
  intro Hg. unfold doc_fragment_names. cbn [flat_map app].
  induction defs as [|f r IH]; cbn [map flat_map app]; [reflexivity|]. rewrite Hg, IH. reflexivity.
Qed.

Theorem fragments_exact fuel C Sc frs ins o doc ins' :
  op_document fuel C Sc frs ins o = Ok (doc, ins') ->
  (forall n, In n (doc_fragment_names doc) <-> reach frs (sel_spreads (o_sel o)) n)
  /\ NoDup (doc_fragment_names doc).
Proof.
  intro Hd. apply op_document_shape in Hd as (st & rel & defs & Er & El & -> & -> & _).
  rewrite (doc_fragment_names_shape _ defs (fun f => strip_fd (apply_fd (ps_ins st) f))) by reflexivity.
  apply lookup_all_In in El as [_ ->]. eapply related_exact. exact Er.
Qed.

(* ---------------------------------------------------------------- the traversal records only reachable fragments *)
Lemma fold_left_err {A X} (F : res A -> X -> res A) l m :
  (forall m x, F (Err m) x = Err m) -> fold_left F l (Err m) = Err m.
Proof. intro H. induction l as [|x l IH]; simpl; [reflexivity|]. rewrite H. exact IH. Qed.

Lemma fold_left_res_inv {A X} (F : res A -> X -> res A) (P : A -> Prop) l :
  (forall m x, F (Err m) x = Err m) ->
  (forall acc x a', In x l -> P acc -> F (Ok acc) x = Ok a' -> P a') ->
  forall init r, P init -> fold_left F l (Ok init) = Ok r -> P r.
Proof.
  intros He. induction l as [|x l IH]; intros Hs init r Hi Hf; simpl in Hf.
  - inversion Hf; subst. exact Hi.
  - destruct (F (Ok init) x) as [a'|m] eqn:E.
    + eapply IH; [| | exact Hf].
      * intros acc y a'' Hy. apply Hs. right. exact Hy.
      * eapply Hs; [left; reflexivity | exact Hi | exact E].
    + rewrite fold_left_err in Hf by exact He. discriminate.
Qed.

Lemma spreads_in s sels : In s sels -> incl (spreads_of s) (sel_spreads sels).
Proof. intros H n Hn. unfold sel_spreads. apply in_flat_map. exists s. auto. Qed.

Section Sound.
  Variable Sc : schema.
  Variable frs : list fdef.

  Definition rs_inv (sels : list fsel) (acc : list fnode' * list string * list string) : Prop :=
    let '(fields, mix, unp) := acc in
    (forall n, In n mix \/ In n unp -> reach frs (sel_spreads sels) n) /\
    (forall f sub n, In f fields -> n_sub f = Some sub -> In n (sel_spreads sub) -> reach frs (sel_spreads sels) n).

  Lemma resolve'_sound : forall fuel cond sels root r,
    resolve' fuel Sc frs cond sels root = Ok r -> rs_inv sels r.
  Proof.
    induction fuel as [|fuel IH]; intros cond sels root r H; [discriminate|].
    cbn [resolve'] in H.
    eapply (fold_left_res_inv _ (rs_inv sels)); [| | | exact H].
    - intros m x. reflexivity.
    - intros [[fields mix] unp] s a' Hs [Hm Hf] E. cbn [bind] in E.
      pose proof (spreads_in s sels Hs) as Hin.
      destruct s as [id al n args ds sub | n ds | tc ds sub | ].
      + inversion E; subst; clear E. split; [exact Hm|].
        intros f sub' k Hk Hsub Hn. apply in_app_or in Hk as [Hk|[<-|[]]]; [eapply Hf; eassumption|].
        cbn [n_sub] in Hsub. subst sub. apply reach_direct. apply Hin. cbn [spreads_of]. exact Hn.
      + destruct (lookup_fdef frs n) as [f|] eqn:El; [|discriminate].
        destruct (lookup_type Sc root); [|discriminate].
        destruct (lookup_type Sc (fd_on f)) as [fd|]; [|discriminate].
        assert (Hn : reach frs (sel_spreads sels) n) by (apply reach_direct, Hin; left; reflexivity).
        destruct (negb (cond || has_cond ds) && negb (unpack_fragment Sc (proj_frag f) (Some root))).
        * inversion E; subst; clear E. split; [|exact Hf].
          intros k [Hk|Hk]; [|apply Hm; right; exact Hk].
          apply in_app_or in Hk as [Hk|[<-|[]]]; [apply Hm; left; exact Hk | exact Hn].
        * destruct (String.eqb (fd_on f) root || (is_abstract fd && is_sub_type Sc (fd_on f) root)).
          -- destruct (resolve' fuel Sc frs (cond || has_cond ds) (fd_sel f) root) as [[[f2 m2] u2]|] eqn:Er; cbn [bind] in E; [|discriminate].
             inversion E; subst; clear E. apply IH in Er. destruct Er as [Hm2 Hf2].
             assert (Hthru : forall k, reach frs (sel_spreads (fd_sel f)) k -> reach frs (sel_spreads sels) k)
               by (intros k Hk; eapply reach_through; eassumption).
             split.
             ++ intros k [Hk|Hk].
                ** apply in_app_or in Hk as [Hk|Hk]; [apply Hm; left; exact Hk | apply Hthru, Hm2; left; exact Hk].
                ** apply in_app_or in Hk as [Hk|[<-|Hk]]; [apply Hm; right; exact Hk | exact Hn | apply Hthru, Hm2; right; exact Hk].
             ++ intros g sub' k Hk Hsub Hkn. apply in_app_or in Hk as [Hk|Hk]; [eapply Hf; eassumption|].
                apply Hthru. eapply Hf2; eassumption.
          -- inversion E; subst. split; assumption.
      + destruct (inline_root_type Sc (match tc with Some tc0 => tc0 | None => root end) root) as [r0|].
        * destruct (resolve' fuel Sc frs (cond || has_cond ds) sub r0) as [[[f2 m2] u2]|] eqn:Er; cbn [bind] in E; [|discriminate].
          inversion E; subst; clear E. apply IH in Er. destruct Er as [Hm2 Hf2].
          assert (Hsubi : forall k, reach frs (sel_spreads sub) k -> reach frs (sel_spreads sels) k).
          { intros k Hk. eapply reach_trans; [|exact Hk]. intros m Hmi. apply reach_direct, Hin. exact Hmi. }
          split.
          -- intros k [Hk|Hk]; apply in_app_or in Hk as [Hk|Hk];
               [apply Hm; left; exact Hk | apply Hsubi, Hm2; left; exact Hk
               | apply Hm; right; exact Hk | apply Hsubi, Hm2; right; exact Hk].
          -- intros g sub' k Hk Hsub Hkn. apply in_app_or in Hk as [Hk|Hk]; [eapply Hf; eassumption|].
             apply Hsubi. eapply Hf2; eassumption.
        * inversion E; subst. split; assumption.
      + inversion E; subst; clear E. split; [exact Hm|].
        intros f sub' k Hk Hsub Hn. apply in_app_or in Hk as [Hk|[<-|[]]]; [eapply Hf; eassumption|].
        discriminate Hsub.
    - split; [intros n [[]|[]] | intros f sub n []].
  Qed.

  Definition grows (R : string -> Prop) (st st' : pst) : Prop :=
    forall n, In n (ps_mix st') \/ In n (ps_unp st') -> (In n (ps_mix st) \/ In n (ps_unp st)) \/ R n.

  Lemma grows_refl R st : grows R st st.
  Proof. intros n H. left. exact H. Qed.

  Lemma grows_trans R st1 st2 st3 : grows R st1 st2 -> grows R st2 st3 -> grows R st1 st3.
  Proof. intros H12 H23 n H. destruct (H23 n H) as [H2|Hr]; [apply H12; exact H2 | right; exact Hr]. Qed.

  Lemma grows_weaken (R R' : string -> Prop) st st' : (forall n, R n -> R' n) -> grows R st st' -> grows R' st st'.
  Proof. intros Hw H n Hn. destruct (H n Hn) as [H1|H2]; [left; exact H1 | right; apply Hw; exact H2]. Qed.

  Lemma sel_spreads_view ins id l : sel_spreads (view ins id l) = sel_spreads l.
  Proof. unfold view. destruct (mem_nat id ins); reflexivity. Qed.

  Lemma ptd_sound C pfrs : forall fuel st cn tn sid raw at' st',
    ptd fuel C Sc frs pfrs st cn tn sid raw at' = Ok st' ->
    grows (fun n => reach frs (sel_spreads raw) n) st st'.
  Proof.
    induction fuel as [|fuel IH]; intros st cn tn sid raw at' st' H; [discriminate|].
    cbn [ptd] in H. destruct (mem cn (ps_pub st)); [inversion H; subst; apply grows_refl|].
    set (sels := match sid with Some id => view (ps_ins st) id raw | None => raw end) in H.
    assert (Hsp : sel_spreads sels = sel_spreads raw)
      by (unfold sels; destruct sid; [apply sel_spreads_view | reflexivity]).
    destruct (resolve' fuel Sc frs false sels tn) as [[[fields0 mix] unp]|] eqn:Er; cbn [bind] in H; [|discriminate].
    apply resolve'_sound in Er. destruct Er as [Hm Hf]. rewrite Hsp in Hm, Hf.
    match type of H with fold_left _ ?FS (Ok ?ST1) = _ => set (fields := FS) in H; set (st1 := ST1) in H end.
    assert (H01 : grows (fun n => reach frs (sel_spreads raw) n) st st1).
    { intros n Hn. unfold st1 in Hn. cbn [ps_mix ps_unp] in Hn. destruct Hn as [Hn|Hn]; apply in_app_or in Hn as [Hn|Hn].
      - left; left; exact Hn.
      - right. apply Hm. left. exact Hn.
      - left; right; exact Hn.
      - right. apply Hm. right. exact Hn. }
    assert (Hfields : forall f sub n, In f fields -> n_sub f = Some sub -> In n (sel_spreads sub) ->
                                      reach frs (sel_spreads raw) n).
    { intros f sub n Hi Hs Hn. unfold fields in Hi.
      destruct (at' && negb (existsb (fun f0 => String.eqb (n_name f0) "__typename") fields0)).
      - destruct Hi as [<-|Hi]; [discriminate Hs | eapply Hf; eassumption].
      - eapply Hf; eassumption. }
    eapply (fold_left_res_inv _ (grows (fun n => reach frs (sel_spreads raw) n) st)); [| | exact H01 | exact H].
    - intros m x. reflexivity.
    - intros acc f a' Hfi Hacc E. cbn [bind] in E.
      destruct (schema_field_type Sc tn (n_name f)) as [t|]; cbn [bind] in E; [|discriminate].
      destruct (n_sub f) as [sub|] eqn:Es; [|inversion E; subst; exact Hacc].
      destruct (field_type_ann C Sc pfrs fuel (Some (map proj_sel sub)) t true
                  (cn +++ pascal_s (py_field_name C (node_key f))) false) as [r|]; cbn [bind] in E; [|discriminate].
      eapply (fold_left_res_inv _ (grows (fun n => reach frs (sel_spreads raw) n) st)); [| | exact Hacc | exact E].
      + intros m x. reflexivity.
      + intros acc2 rc a2 _ Hacc2 E2. cbn [bind] in E2. apply IH in E2.
        eapply grows_trans; [exact Hacc2|]. eapply grows_weaken; [|exact E2].
        intros n Hn. eapply reach_trans; [|exact Hn]. intros m Hmi. eapply Hfields; eassumption.
  Qed.

  (* what the operation's generator recorded is reachable from the operation: the second half of the
     guard of fragments_exact always holds *)
  Theorem recorded_is_reachable fuel C ins o mix unp l :
    op_sets fuel C Sc frs ins o = Ok (mix, unp) ->
    frag_names fuel frs (sel_spreads (o_sel o)) = Some l ->
    recorded_reachable fuel frs o mix unp = true.
  Proof.
    unfold op_sets, recorded_reachable. intros H Hl. rewrite Hl.
    destruct (root_type_name Sc (o_kind o)) as [tn|]; cbn [bind] in H; [|discriminate].
    destruct (ptd fuel C Sc frs (map proj_frag frs) (fresh ins) (pascal_s (o_name o)) tn None (o_sel o) false)
      as [st|] eqn:E; cbn [bind] in H; [|discriminate].
    inversion H; subst; clear H. apply ptd_sound in E.
    apply forallb_forall. intros n Hn. apply mem_In. eapply frag_names_complete; [exact Hl|].
    apply in_app_or in Hn. destruct (E n Hn) as [[[]|[]]|Hr]. exact Hr.
  Qed.
End Sound.


(* ---------------------------------------------------------------- witnesses *)
Definition fld (id : nat) (n : string) (sub : option (list fsel)) : fsel := FField id None n [] [] sub.

(* interface Node { id: ID! }  interface Animal { name: String }
   type Dog implements Node & Animal { id: ID! name: String }  type Query { animal: Animal } *)
Definition W_schema : schema :=
  {| s_types := [("Query", DObject [] [("animal", TNamed "Animal"); ("a", TNamed "A")]);
                 ("Node", DInterface [] [("id", TNonNull (TNamed "ID"))]);
                 ("Animal", DInterface [] [("name", TNamed "String")]);
                 ("Dog", DObject ["Node"; "Animal"] [("id", TNonNull (TNamed "ID")); ("name", TNamed "String")]);
                 ("A", DObject [] [("x", TNamed "Int")]);
                 ("ID", DScalar); ("String", DScalar); ("Int", DScalar)];
     s_query := Some "Query"; s_mutation := None; s_subscription := None |}.

Definition W_cfg : cfg := {| cf_snake := true; cf_scalars := [] |}.

(* query Q { animal { name ...NF } }   fragment NF on Node { id } *)
Definition W_drop_op : opdef :=
  {| o_kind := "query"; o_name := "Q"; o_vars := []; o_dirs := [];
     o_sel := [fld 1 "animal" (Some [fld 2 "name" None; FSpread "NF" []])] |}.
Definition W_drop_frs : list fdef :=
  [{| fd_name := "NF"; fd_on := "Node"; fd_dirs := []; fd_sel := [fld 3 "id" None] |}].

(* query Q { a { ...F } }   fragment F on A @mixin(from: ".m", import: "M") { x } *)
Definition W_mixin_dir : directive :=
  {| d_name := "mixin"; d_args := [("from", VStr false ".m"); ("import", VStr false "M")] |}.
Definition W_mixin_op : opdef :=
  {| o_kind := "query"; o_name := "Q"; o_vars := []; o_dirs := [];
     o_sel := [fld 1 "a" (Some [FSpread "F" []])] |}.
Definition W_mixin_frs : list fdef :=
  [{| fd_name := "F"; fd_on := "A"; fd_dirs := [W_mixin_dir]; fd_sel := [fld 2 "x" None] |}].

Definition doc_of (r : res (list ddef * list nat)) : list ddef :=
  match r with Ok (d, _) => d | Err _ => [] end.

Lemma W_drop_reach : reach W_drop_frs (sel_spreads (o_sel W_drop_op)) "NF".
Proof. apply reach_direct. simpl. left. reflexivity. Qed.

Lemma W_drop_doc : exists doc ins', op_document 50 W_cfg W_schema W_drop_frs [] W_drop_op = Ok (doc, ins')
                                    /\ doc_fragment_names doc = ["NF"].
Proof. eexists. eexists. split; vm_compute; reflexivity. Qed.

Definition has_mixin (d : ddef) : bool :=
  match d with
  | XFrag f => existsb (fun d => String.eqb (d_name d) "mixin") (fd_dirs f)
  | XOp o => existsb (fun d => String.eqb (d_name d) "mixin") (o_dirs o)
  end.

Lemma W_mixin_doc : exists doc ins',
  op_document 50 W_cfg W_schema W_mixin_frs [] W_mixin_op = Ok (doc, ins') /\
  doc_fragment_names doc = ["F"] /\ existsb has_mixin doc = false.
Proof. eexists. eexists. split; [vm_compute; reflexivity|]. split; reflexivity. Qed.
