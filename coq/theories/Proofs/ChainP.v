(* Default chains: an object default may omit a field whose own schema default is again an object default (and so
   on through the schema).  The nested class default is then produced by model_validate of the nested literal on the
   Python side and by the coerced nested schema default on the GraphQL side.  Induction on the fuel of the
   specification with explicit accounting: one unit of specification fuel per nesting level corresponds to at most
   two units on the Python side (validate -> default factory -> model_validate), hence the hypotheses
   2n <= k (validate) and 2n < k (eval). *)
From Coq Require Import List String Ascii ZArith Bool Lia.
From AC Require Import Base.Sexp Base.Json Base.Strs Gql.InSchema Gql.InCoerce
  Model.Names Model.Defaults Model.Inputs Py.PyEval Proofs.InputsP Proofs.FreshP Proofs.AcceptsP Proofs.ValidateP
  Proofs.ByNameP Proofs.DefaultsP.
Import ListNotations.
Local Open Scope string_scope.

(* a field an object literal may leave out: nullable without default, or ANY schema default (its goodness is a
   hypothesis about the schema, see defaults_good) *)
Definition omitted_ok_c (f : ifdef) : bool :=
  match i_default f with None => negb (is_nonnull (i_type f)) | Some _ => true end.

Fixpoint good_value_c (s : schema) (lit : cvalue) : gtype -> bool :=
  fix go (t : gtype) : bool :=
    match t with
    | TNonNull t' => match lit with CNull => false | _ => go t' end
    | TList t' =>
        match lit with
        | CNull => true
        | CList l => forallb (fun x => good_value_c s x t') l
        | _ => false
        end
    | TNamed nm =>
        match lit with
        | CNull => true
        | CObj kv =>
            match kind_of s nm with
            | KInput fs =>
                forallb (fun p => match find_field (fst p) fs with
                                  | Some f => good_value_c s (snd p) (i_type f)
                                  | None => false end) kv
                && forallb (fun f => mem (i_name f) (map fst kv) || omitted_ok_c f) fs
            | _ => false
            end
        | _ => leaf_good_v s nm lit
        end
    end.

Fixpoint good_default_c (s : schema) (lit : cvalue) : gtype -> bool :=
  fix go (t : gtype) : bool :=
    match t with
    | TNonNull t' => match lit with CNull => false | _ => go t' end
    | TList t' =>
        match lit with
        | CNull => true
        | CList l => forallb (fun x => good_default_c s x t') l
        | _ => false
        end
    | TNamed nm =>
        match lit with
        | CNull => true
        | CObj _ => good_value_c s lit (TNamed nm)
        | _ => leaf_good s nm lit
        end
    end.

Definition is_leaf (lit : cvalue) : bool := match lit with CList _ | CObj _ => false | _ => true end.

Lemma is_leaf_spec lit : is_leaf lit = true -> (forall kv, lit <> CObj kv) /\ (forall l, lit <> CList l).
Proof. destruct lit; simpl; intros H; try discriminate; split; intros; discriminate. Qed.

Lemma good_value_c_leaf s lit : is_leaf lit = true -> forall t, good_value_c s lit t = good_value s lit t.
Proof.
  intros L t. induction t as [nm|t IH|t IH]; destruct lit; simpl in *; try reflexivity; try discriminate; exact IH.
Qed.

Lemma good_default_c_leaf s lit : is_leaf lit = true -> forall t, good_default_c s lit t = good_default s lit t.
Proof.
  intros L t. induction t as [nm|t IH|t IH]; destruct lit; simpl in *; try reflexivity; try discriminate; exact IH.
Qed.

Section Chain.
Variables (s : schema) (cs : customs) (snake : bool).
Hypothesis OK : schema_ok snake s = true.
(* every schema default is of a covered shape (recursively through the schema, by this very hypothesis) and already
   has the shape of its type *)
Hypothesis DG : forall nm fs f d, kind_of s nm = KInput fs -> In f fs -> i_default f = Some d ->
  good_default_c s d (i_type f) = true /\ coerce_lit s d (i_type f) = d.
Let E := env_of s cs snake.
Let ftn t := snd (parse_input_field_type s cs t true).

Definition VP (n : nat) : Prop :=
  forall lit t nb cv k, 2 * n <= k -> good_value_c s lit t = true -> (nb = false -> lit <> CNull) ->
  coerced_default n s t lit = Some cv ->
  exists v jd, validate k E (fst (parse_input_field_type s cs t nb)) (json_of_cvalue lit) = Ok v /\
               dump v = Some jd /\ strip_nulls jd = strip_nulls (json_of_cvalue cv).

Definition DP (n : nat) : Prop :=
  forall lit t cv k, 2 * n < k -> good_default_c s lit t = true -> coerced_default n s t lit = Some cv ->
  exists v jd, eval k E (const_value_node (ftn t) lit true false) = Ok v /\ dump v = Some jd /\
               strip_nulls jd = strip_nulls (json_of_cvalue cv).

Lemma vp_leaf n lit : is_leaf lit = true ->
  forall t nb cv k, n <= k -> good_value_c s lit t = true -> (nb = false -> lit <> CNull) ->
  coerced_default n s t lit = Some cv ->
  exists v jd, validate k E (fst (parse_input_field_type s cs t nb)) (json_of_cvalue lit) = Ok v /\
               dump v = Some jd /\ strip_nulls jd = strip_nulls (json_of_cvalue cv).
Proof.
  intros L t nb cv k LE G NB C. rewrite (good_value_c_leaf s lit L) in G.
  destruct (validate_roundtrip s cs snake OK lit t nb n cv k LE G NB C) as [v [Hv Dv]].
  exists v, (json_of_cvalue cv). auto.
Qed.

Lemma vp_items n' k' t sl : VP n' -> 2 * n' <= k' -> parse_input_field_type s cs t true = (sl, snd (parse_input_field_type s cs t true)) ->
  forall l cvs, forallb (fun x => good_value_c s x t) l = true -> map_opt (coerced_default n' s t) l = Some cvs ->
  exists vs js, Forall2 (fun r x => r = Ok x) (map (fun x => validate k' E sl (json_of_cvalue x)) l) vs
                /\ map_opt dump vs = Some js /\ map strip_nulls js = map strip_nulls (map json_of_cvalue cvs).
Proof.
  intros V LE PE. induction l as [|h r IHr]; intros cvs G M.
  - simpl in M. inversion M. exists [], []. repeat split; constructor.
  - simpl in M, G. apply andb_true_iff in G as [G1 G2].
    destruct (coerced_default n' s t h) as [c|] eqn:Ch; [|discriminate].
    destruct (map_opt (coerced_default n' s t) r) as [cr|] eqn:Mr; [|discriminate]. inversion M; subst cvs.
    destruct (V h t true c k' LE G1 ltac:(discriminate) Ch) as [v [jd [Hv [Dv Sv]]]]. rewrite PE in Hv. simpl in Hv.
    destruct (IHr cr G2 eq_refl) as [vs [js [Hs [Ds Ss]]]].
    exists (v :: vs), (jd :: js). split; [constructor; assumption|]. split.
    + simpl. rewrite Dv, Ds. reflexivity.
    + simpl. rewrite Sv, Ss. reflexivity.
Qed.

Lemma vp_step n : (forall n', n' < n -> VP n' /\ DP n') -> VP n.
Proof.
  intros IHn. unfold VP. intros lit.
  destruct (is_leaf lit) eqn:L.
  { intros t nb cv k LE. apply (vp_leaf n lit L t nb cv k). lia. }
  intros t. induction t as [nm|t IH|t IH]; intros nb cv k LE G NB C.
  - (* named type: lit is an object (a list is refused) *)
    destruct lit as [| | | | | |l|kv]; try discriminate.
    { simpl in G. unfold leaf_good_v in G. destruct (kind_of s nm); discriminate. }
    simpl in G. rewrite cd_named_obj in C. pose proof (kind_of_lookup s nm) as KL.
    destruct (kind_of s nm) as [| | | | | |vals|fs|] eqn:K; try discriminate.
    apply andb_true_iff in G as [G1 G2]. rewrite forallb_forall in G1, G2.
    destruct n as [|n']; [discriminate|]. destruct k as [|k']; [lia|].
    destruct (IHn n' (Nat.lt_succ_diag_r n')) as [Vn' Dn'].
    destruct (fields_with (fun k0 => lookup k0 kv) (coerced_default n' s) (coerced_default n' s) fs) as [r|] eqn:FW;
      [|discriminate]. inversion C; subst cv.
    pose proof (schema_ok_input snake s nm fs OK KL) as NOK.
    set (kvj := map (fun p => (fst p, json_of_cvalue (snd p))) kv).
    assert (KK : known_keys fs kvj = true).
    { unfold known_keys, kvj. apply forallb_forall. intros p Hp. apply in_map_iff in Hp as [p0 [<- Hp0]]. simpl.
      specialize (G1 p0 Hp0). destruct (find_field (fst p0) fs) as [g|] eqn:FF; [|discriminate].
      destruct (find_field_some _ _ _ FF) as [Hin Eg]. apply mem_In. rewrite <- Eg. apply in_map. exact Hin. }
    simpl parse_input_field_type. unfold leaf. rewrite K. simpl fst.
    rewrite validate_opt_if by (intros _; discriminate). simpl json_of_cvalue. fold kvj.
    rewrite validate_class. unfold E at 1. simpl e_classes. unfold gen_classes.
    rewrite (classes_lookup s cs snake s nm fs KL). simpl c_fields. rewrite (effective_gen s cs snake fs NOK).
    rewrite map_map.
    assert (X : forall l r', incl l fs ->
              fields_with (fun k0 => lookup k0 kv) (coerced_default n' s) (coerced_default n' s) l = Some r' ->
              exists vs jkv, Forall2 (fun rs x => rs = Ok x)
                           (map (fun f => field_result k' E kvj (gen_field s cs snake fs f)) l) vs
                         /\ map_opt entry_dump vs = Some jkv
                         /\ strip_kv jkv = strip_kv (map (fun p => (fst p, json_of_cvalue (snd p))) r')).
    { induction l as [|f l IHl]; intros r' INC FWl.
      - simpl in FWl. inversion FWl. exists [], []. repeat split; constructor.
      - assert (Hf : In f fs) by (apply INC; left; reflexivity).
        assert (INC' : incl l fs) by (intros x Hx; apply INC; right; exact Hx).
        assert (FI : field_input (gen_field s cs snake fs f) kvj = option_map json_of_cvalue (lookup (i_name f) kv)).
        { rewrite (field_input_gen s cs snake fs kvj f NOK KK Hf). unfold kvj. apply jlookup_map. }
        simpl in FWl. destruct (lookup (i_name f) kv) as [x|] eqn:Lx.
        + destruct (coerced_default n' s (i_type f) x) as [vc|] eqn:Cx; [|discriminate].
          destruct (fields_with (fun k0 => lookup k0 kv) (coerced_default n' s) (coerced_default n' s) l) as [rl|] eqn:Fl;
            [|discriminate]. inversion FWl; subst r'.
          destruct (IHl rl INC' eq_refl) as [vs [jkv [Hs [Ds Ss]]]].
          pose proof (lookup_in _ _ _ Lx) as INx.
          pose proof (G1 _ INx) as Gx. simpl in Gx. rewrite (find_field_self snake fs f NOK Hf) in Gx.
          destruct (Vn' x (i_type f) true vc k' ltac:(lia) Gx ltac:(discriminate) Cx) as [v [jd [Hv [Dv Sv]]]].
          exists ((p_name (gen_field s cs snake fs f), (i_name f, v)) :: vs), ((i_name f, jd) :: jkv). split; [|split].
          * constructor; [|exact Hs]. unfold field_result. rewrite FI. simpl.
            rewrite gen_field_ann, Hv. unfold keep. simpl. unfold wire_of. rewrite gen_field_wire. reflexivity.
          * simpl. unfold entry_dump at 1. simpl. rewrite Dv. simpl. rewrite Ds. reflexivity.
          * simpl map. apply strip_kv_cons; assumption.
        + pose proof (G2 f Hf) as Gf. apply orb_true_iff in Gf as [Gf|Gf].
          { exfalso. destruct (lookup_mem _ _ Gf) as [x Lx']. congruence. }
          unfold omitted_ok_c in Gf.
          assert (FR := field_result_omitted s cs snake fs k' kvj f ltac:(rewrite FI; reflexivity)).
          rewrite gen_field_default in FR. unfold field_default_value, emitted_default in FR.
          destruct (i_default f) as [d|] eqn:D; simpl option_map in FR.
          * (* schema default, possibly an object default again: the chain *)
            destruct (DG nm fs f d K Hf D) as [Gd Sd]. rewrite Sd in FR.
            destruct (coerced_default n' s (i_type f) d) as [vc|] eqn:Cd; [|discriminate].
            destruct (fields_with (fun k0 => lookup k0 kv) (coerced_default n' s) (coerced_default n' s) l) as [rl|] eqn:Fl;
              [|discriminate]. inversion FWl; subst r'.
            destruct (IHl rl INC' eq_refl) as [vs [jkv [Hs [Ds Ss]]]].
            rewrite top_level_body in FR.
            destruct (Dn' d (i_type f) vc k' ltac:(lia) Gd Cd) as [v [jd [Hv [Dv Sv]]]].
            unfold ftn, E in Hv. unfold E in FR. rewrite Hv in FR.
            exists ((p_name (gen_field s cs snake fs f), (i_name f, v)) :: vs), ((i_name f, jd) :: jkv).
            split; [|split].
            -- constructor; [|exact Hs]. unfold E. rewrite FR. unfold keep. simpl. unfold wire_of. rewrite gen_field_wire. reflexivity.
            -- simpl. unfold entry_dump at 1. simpl. rewrite Dv. simpl. rewrite Ds. reflexivity.
            -- simpl map. apply strip_kv_cons; [exact Sv | exact Ss].
          * apply negb_true_iff in Gf. rewrite Gf in FWl, FR. simpl in FR.
            destruct (IHl r' INC' FWl) as [vs [jkv [Hs [Ds Ss]]]].
            rewrite eval_const_eq in FR.
            exists ((p_name (gen_field s cs snake fs f), (i_name f, VNone)) :: vs), ((i_name f, JNull) :: jkv).
            split; [|split].
            -- constructor; [|exact Hs]. unfold E. rewrite FR. unfold keep. simpl. unfold wire_of. rewrite gen_field_wire. reflexivity.
            -- simpl. rewrite Ds. reflexivity.
            -- simpl. exact Ss. }
    destruct (X fs r (incl_refl fs) FW) as [vs [jkv [Hs [Ds Ss]]]].
    rewrite (collect_oks _ _ Hs). simpl. eexists. exists (JObj jkv). split; [reflexivity|]. split.
    + rewrite dump_model, Ds. reflexivity.
    + change (json_of_cvalue (CObj r)) with (JObj (map (fun p => (fst p, json_of_cvalue (snd p))) r)).
      rewrite !strip_obj. rewrite Ss. reflexivity.
  - (* list type: lit is a list literal (an object is refused) *)
    destruct lit as [| | | | | |l|kv]; try discriminate; try (simpl in G; discriminate).
    simpl in G. rewrite cd_list in C. destruct n as [|n']; [discriminate|].
    destruct k as [|k']; [lia|]. destruct (IHn n' (Nat.lt_succ_diag_r n')) as [Vn' _].
    destruct (map_opt (coerced_default n' s t) l) as [cvs|] eqn:M; [|discriminate]. inversion C; subst cv.
    simpl parse_input_field_type. destruct (parse_input_field_type s cs t true) as [sl tn] eqn:PE. simpl fst.
    rewrite validate_opt_if by (intros _; discriminate). simpl json_of_cvalue. rewrite validate_list, map_map.
    destruct (vp_items n' k' t sl Vn' ltac:(lia) ltac:(rewrite PE; reflexivity) l cvs G M) as [vs [js [Hs [Ds Ss]]]].
    rewrite (collect_oks _ _ Hs). simpl. exists (VList vs), (JArr js). split; [reflexivity|]. split.
    + rewrite dump_list, Ds. reflexivity.
    + simpl. rewrite Ss. reflexivity.
  - rewrite cd_nonnull in C. simpl parse_input_field_type.
    assert (G' : good_value_c s lit t = true) by (destruct lit; simpl in G; try discriminate; exact G).
    apply (IH false cv k LE G'); [intros _; destruct lit; discriminate | destruct lit; try discriminate; exact C].
Qed.

Lemma dp_leaf n lit : is_leaf lit = true ->
  forall t cv k, n < k -> good_default_c s lit t = true -> coerced_default n s t lit = Some cv ->
  exists v jd, eval k E (const_value_node (ftn t) lit true false) = Ok v /\ dump v = Some jd /\
               strip_nulls jd = strip_nulls (json_of_cvalue cv).
Proof.
  intros L t cv k LT G C. rewrite (good_default_c_leaf s lit L) in G.
  destruct (roundtrip_nested s cs snake OK lit t n cv k LT G C) as [v [Hv Dv]].
  exists v, (json_of_cvalue cv). auto.
Qed.

Lemma dp_items n' k t : DP n' -> 2 * n' < k ->
  forall l cvs, forallb (fun x => good_default_c s x t) l = true -> map_opt (coerced_default n' s t) l = Some cvs ->
  exists vs js, Forall2 (fun r x => r = Ok x) (map (fun x => eval k E (const_value_node (ftn t) x true false)) l) vs
                /\ map_opt dump vs = Some js /\ map strip_nulls js = map strip_nulls (map json_of_cvalue cvs).
Proof.
  intros D LT. induction l as [|h r IHr]; intros cvs G M.
  - simpl in M. inversion M. exists [], []. repeat split; constructor.
  - simpl in M, G. apply andb_true_iff in G as [G1 G2].
    destruct (coerced_default n' s t h) as [c|] eqn:Ch; [|discriminate].
    destruct (map_opt (coerced_default n' s t) r) as [cr|] eqn:Mr; [|discriminate]. inversion M; subst cvs.
    destruct (D h t c k LT G1 Ch) as [v [jd [Hv [Dv Sv]]]].
    destruct (IHr cr G2 eq_refl) as [vs [js [Hs [Ds Ss]]]].
    exists (v :: vs), (jd :: js). split; [constructor; assumption|]. split.
    + simpl. rewrite Dv, Ds. reflexivity.
    + simpl. rewrite Sv, Ss. reflexivity.
Qed.

Lemma dp_step n : (forall n', n' < n -> VP n' /\ DP n') -> VP n -> DP n.
Proof.
  intros IHn Vn. unfold DP. intros lit.
  destruct (is_leaf lit) eqn:L.
  { intros t cv k LT. apply (dp_leaf n lit L t cv k). lia. }
  intros t. induction t as [nm|t IH|t IH]; intros cv k LT G C.
  - destruct lit as [| | | | | |l|kv]; try discriminate.
    { simpl in G. unfold leaf_good in G. destruct (kind_of s nm); discriminate. }
    simpl in G. pose proof G as G0. destruct (kind_of s nm) as [| | | | | |vals|fs|] eqn:K; try discriminate.
    assert (FT : ftn (TNamed nm) = nm) by (unfold ftn; simpl; unfold leaf; rewrite K; reflexivity).
    rewrite FT. change (const_value_node nm (CObj kv) true false)
      with (PValidate nm (const_value_node nm (CObj kv) true true)).
    rewrite eval_validate_eq. destruct (dict_expr_denotes E nm (CObj kv) k) as [vd [Hd Jd]]. rewrite Hd, Jd.
    destruct k as [|k']; [lia|].
    assert (GV : good_value_c s (CObj kv) (TNonNull (TNamed nm)) = true) by (simpl; rewrite K; exact G0).
    assert (CV : coerced_default n s (TNonNull (TNamed nm)) (CObj kv) = Some cv) by (rewrite cd_nonnull; exact C).
    destruct (Vn (CObj kv) (TNonNull (TNamed nm)) true cv k' ltac:(lia) GV ltac:(discriminate) CV) as [v [jd [Hv Dv]]].
    simpl parse_input_field_type in Hv. unfold leaf in Hv. rewrite K in Hv. simpl in Hv.
    exists v, jd. split; [exact Hv | exact Dv].
  - destruct lit as [| | | | | |l|kv]; try discriminate; try (simpl in G; discriminate).
    simpl in G. rewrite cd_list in C. destruct n as [|n']; [discriminate|].
    destruct (IHn n' (Nat.lt_succ_diag_r n')) as [_ Dn'].
    destruct (map_opt (coerced_default n' s t) l) as [cvs|] eqn:M; [|discriminate]. inversion C; subst cv.
    simpl const_value_node. rewrite eval_list_eq. rewrite map_map.
    unfold ftn. rewrite ftn_list. fold (ftn t).
    destruct (dp_items n' k t Dn' ltac:(lia) l cvs G M) as [vs [js [Hs [Ds Ss]]]].
    rewrite (sequence_oks _ _ Hs). simpl res_map. exists (VList vs), (JArr js). split; [reflexivity|]. split.
    + rewrite dump_list, Ds. reflexivity.
    + simpl. rewrite Ss. reflexivity.
  - rewrite cd_nonnull in C.
    assert (G' : good_default_c s lit t = true) by (destruct lit; simpl in G; try discriminate; exact G).
    assert (C' : coerced_default n s t lit = Some cv) by (destruct lit; try discriminate; exact C).
    destruct (IH cv k LT G' C') as [x [jd [H1 H2]]]. exists x, jd. split; [|exact H2].
    unfold ftn in *. rewrite ftn_nonnull. exact H1.
Qed.

Theorem chain_roundtrip : forall n, VP n /\ DP n.
Proof.
  induction n as [n IHn] using lt_wf_ind.
  assert (V : VP n) by (apply vp_step; exact IHn).
  split; [exact V | apply dp_step; [exact IHn | exact V]].
Qed.

(* the default of a field, default chains included *)
Theorem default_roundtrip_chain fs f lit n cv k :
  emitted_default s f = Some lit -> good_default_c s lit (i_type f) = true ->
  coerced_default n s (i_type f) lit = Some cv -> 2 * n < k ->
  exists b v jd, default_body (rhs_default (p_value (gen_field s cs snake fs f))) = Some b /\
                 eval k E b = Ok v /\ dump v = Some jd /\
                 strip_nulls jd = strip_nulls (json_of_cvalue cv).
Proof.
  intros D G C LT. rewrite gen_field_default. unfold field_default_value. rewrite D.
  rewrite top_level_body.
  destruct (chain_roundtrip n) as [_ Dn].
  destruct (Dn lit (i_type f) cv k LT G C) as [v [jd [H1 [H2 H3]]]].
  eexists. exists v, jd. split; [reflexivity|]. auto.
Qed.
End Chain.

(* ---------- the schema-level hypothesis as a boolean ---------- *)
Fixpoint cvalue_eqb (a b : cvalue) : bool :=
  match a, b with
  | CInt x, CInt y => Z.eqb x y
  | CFloat x, CFloat y => String.eqb x y
  | CStr x, CStr y => String.eqb x y
  | CBool x, CBool y => Bool.eqb x y
  | CNull, CNull => true
  | CEnum x, CEnum y => String.eqb x y
  | CList l, CList m =>
      (fix go (l m : list cvalue) : bool :=
         match l, m with
         | [], [] => true
         | x :: l', y :: m' => cvalue_eqb x y && go l' m'
         | _, _ => false
         end) l m
  | CObj k, CObj m =>
      (fix go (l m : list (string * cvalue)) : bool :=
         match l, m with
         | [], [] => true
         | (kx, x) :: l', (ky, y) :: m' => String.eqb kx ky && cvalue_eqb x y && go l' m'
         | _, _ => false
         end) k m
  | _, _ => false
  end.

Lemma cvalue_eqb_eq : forall a b, cvalue_eqb a b = true -> a = b.
Proof.
  apply (cvalue_ind2 (fun a => forall b, cvalue_eqb a b = true -> a = b)).
  - intros z [] H; try discriminate. simpl in H. apply Z.eqb_eq in H. congruence.
  - intros x [] H; try discriminate. simpl in H. apply String.eqb_eq in H. congruence.
  - intros x [] H; try discriminate. simpl in H. apply String.eqb_eq in H. congruence.
  - intros x [] H; try discriminate. simpl in H. apply Bool.eqb_prop in H. congruence.
  - intros [] H; try discriminate. reflexivity.
  - intros x [] H; try discriminate. simpl in H. apply String.eqb_eq in H. congruence.
  - intros l FA [] H; try discriminate. simpl in H. f_equal. revert l0 H.
    induction FA as [|x l' Hx _ IH]; intros [|y m'] H; try discriminate; [reflexivity|].
    apply andb_true_iff in H as [H1 H2]. f_equal; [apply Hx; exact H1 | apply IH; exact H2].
  - intros kv FA [] H; try discriminate. simpl in H. f_equal. revert kv0 H.
    induction FA as [|[kx x] l' Hx _ IH]; intros [|[ky y] m'] H; try discriminate; [reflexivity|].
    apply andb_true_iff in H as [H12 H3]. apply andb_true_iff in H12 as [H1 H2].
    apply String.eqb_eq in H1. subst ky. f_equal; [f_equal; apply Hx; exact H2 | apply IH; exact H3].
Qed.

Definition field_default_good (s : schema) (f : ifdef) : bool :=
  match i_default f with
  | None => true
  | Some d => good_default_c s d (i_type f) && cvalue_eqb (coerce_lit s d (i_type f)) d
  end.
Definition defaults_good (s : schema) : bool :=
  forallb (fun d => match snd d with DInput fs => forallb (field_default_good s) fs | _ => true end) s.

Lemma defaults_good_spec s : defaults_good s = true ->
  forall nm fs f d, kind_of s nm = KInput fs -> In f fs -> i_default f = Some d ->
  good_default_c s d (i_type f) = true /\ coerce_lit s d (i_type f) = d.
Proof.
  intros H nm fs f d K Hf D. pose proof (kind_of_lookup s nm) as KL. rewrite K in KL.
  apply lookup_in in KL. unfold defaults_good in H. rewrite forallb_forall in H. specialize (H _ KL). simpl in H.
  rewrite forallb_forall in H. specialize (H f Hf). unfold field_default_good in H. rewrite D in H.
  apply andb_true_iff in H as [H1 H2]. split; [exact H1 | apply cvalue_eqb_eq; exact H2].
Qed.
