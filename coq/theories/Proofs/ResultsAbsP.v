(* Abstract positions: what the generator emits for an interface / union typed composite field, and
   why the discriminated union picks the class of the runtime type. *)
From Coq Require Import List String Ascii Bool Arith Lia ZArith.
From AC Require Import Base.Strs Base.Sexp Base.Json Gql.Schema Gql.Exec Py.Ann Py.Pydantic
     Model.Names Model.Results Proofs.ResultsP Proofs.ResultsRunP.
Import ListNotations.
Local Open Scope string_scope.
Local Open Scope list_scope.

(* ---- sorting keeps the elements ---- *)
Lemma insert_sorted_In x y l : In x (insert_sorted y l) <-> x = y \/ In x l.
Proof.
  induction l as [|z l IH]; simpl.
  - split; [intros [H | []]; auto | intros [H | []]; auto].
  - destruct (str_leb y z); simpl; [split; intros [H | H]; auto|].
    rewrite IH. split.
    + intros [H | [H | H]]; auto.
    + intros [H | [H | H]]; auto.
Qed.

Lemma sort_strings_In x l : In x (sort_strings l) <-> In x l.
Proof.
  unfold sort_strings. induction l as [|y l IH]; simpl; [tauto|].
  rewrite insert_sorted_In, IH. split; intros [H | H]; auto.
Qed.

(* ---- selection sets without spreads ---- *)
Lemma no_spread_top g sels : no_spread g sels = true ->
  forallb (fun s => match s with SSpread _ _ => false | _ => true end) sels = true.
Proof.
  destruct g as [|g]; [discriminate|]. simpl. intro H. rewrite forallb_forall in *.
  intros s Hs. specialize (H s Hs). destruct s; auto.
Qed.

Lemma inline_conds_nospread frs k sels :
  forallb (fun s => match s with SSpread _ _ => false | _ => true end) sels = true ->
  forallb (fun o => match o with Some _ => true | None => false end) (inline_tcs sels) = true ->
  inline_conds (Datatypes.S k) frs sels = Ok (inline_tcs sels).
Proof.
  simpl. intros H Hs.
  match goal with |- fold_left ?F sels (Ok []) = _ =>
    assert (G : forall l0, forallb (fun s => match s with SSpread _ _ => false | _ => true end) sels = true ->
                forallb (fun o => match o with Some _ => true | None => false end) (inline_tcs sels) = true ->
                fold_left F sels (Ok l0) = Ok (l0 ++ inline_tcs sels)) end.
  { clear H Hs. induction sels as [|s sels IH]; intros l0 H Hs; simpl.
    - rewrite app_nil_r. reflexivity.
    - simpl in H. apply andb_true_iff in H as [H1 H2]. destruct s as [al n c ms sub | n c | tc c sub];
        try discriminate H1; simpl.
      + apply IH; auto.
      + simpl in Hs. destruct tc as [tc|]; [| discriminate Hs]. simpl in Hs.
        rewrite IH by auto. rewrite <- app_assoc. reflexivity. }
  apply (G [] H Hs).
Qed.

Lemma spreads_nospread S frs sels root :
  forallb (fun s => match s with SSpread _ _ => false | _ => true end) sels = true ->
  spreads_on_subtypes S frs sels root = Ok [].
Proof.
  intro H. unfold spreads_on_subtypes. destruct (lookup_type S root) as [d|]; [| reflexivity].
  destruct (is_abstract d); [| reflexivity].
  induction sels as [|s sels IH]; simpl; [reflexivity|].
  simpl in H. apply andb_true_iff in H as [H1 H2]. destruct s; try discriminate H1; simpl; apply IH, H2.
Qed.

(* without spreads no variant gets a mixin *)
Lemma resolve_no_spread S frs : forall g f under sels r x,
  no_spread g sels = true -> resolve f S frs under sels r = Ok x -> snd x = [].
Proof.
  induction g as [|g IH]; intros f under sels r x Hn Hr; [discriminate Hn|].
  destruct f as [|f]; [discriminate Hr|]. simpl in Hn, Hr.
  assert (G : forall sels l0 x, forallb (fun s => match s with
                        | SField _ _ _ _ _ => true | SSpread _ _ => false
                        | SInline _ _ sub => no_spread g sub end) sels = true ->
     fold_left (resolve_step (resolve f S frs) S frs r under) sels (Ok (l0, [])) = Ok x -> snd x = []).
  { clear Hn Hr x sels. induction sels as [|s sels IHs]; intros l0 x Hn Hr; simpl in Hn, Hr.
    - inversion Hr. reflexivity.
    - apply andb_true_iff in Hn as [H1 H2]. destruct s as [al n c ms sub | n c | tc c sub]; try discriminate H1.
      + simpl in Hr. eapply IHs; eauto.
      + simpl in Hr.
        destruct (inline_root_type S (match tc with Some tc0 => tc0 | None => r end) r) as [r'|];
          [| eapply IHs; eauto].
        destruct (resolve f S frs (under || c) sub r') as [q|m] eqn:Eq; simpl in Hr;
          [| rewrite resolve_fold_err in Hr; discriminate].
        rewrite (IH _ _ _ _ _ H1 Eq) in Hr. simpl in Hr. eapply IHs; eauto. }
  eapply G; eauto.
Qed.

(* ---- the annotation and the related classes of an abstract named type ---- *)
Definition rel_of (sc : string) (t : string) : related := {| r_class := sc +++ t; r_type := t |}.

Lemma existsb_none_false (l : list (option string)) :
  forallb (fun o => match o with Some _ => true | None => false end) l = true ->
  existsb (fun o => match o with None => true | Some _ => false end) l = false.
Proof.
  induction l as [|o l IH]; simpl; [reflexivity|]. intro H. apply andb_true_iff in H as [H1 H2].
  destruct o; [apply IH, H2 | discriminate].
Qed.

Lemma named_ann_interface C S frs k sub base ifs fs sc x ctx :
  lookup_type S base = Some (DInterface ifs fs) ->
  forallb (fun s => match s with SSpread _ _ => false | _ => true end) sub = true ->
  forallb (fun o => match o with Some _ => true | None => false end) (inline_tcs sub) = true ->
  named_ann C S frs (Datatypes.S k) (Some sub) base false sc false = Ok (x, ctx) ->
  x_abstract ctx = true /\
  ((inline_tcs sub = [] /\ x = AClass sc /\ x_related ctx = [{| r_class := sc; r_type := base |}]) \/
   (inline_tcs sub <> [] /\ x = AUnion (map (fun t => AClass (sc +++ t)) (abs_names S base sub)) /\
    x_related ctx = map (rel_of sc) (abs_names S base sub))).
Proof.
  intros Hl Hns Hsome H. unfold named_ann in H. rewrite Hl in H. unfold interface_ann in H.
  rewrite (inline_conds_nospread frs k sub Hns Hsome) in H. cbn [bind] in H.
  rewrite (spreads_nospread S frs sub base Hns) in H. cbn [bind] in H.
  unfold abs_names. rewrite Hl.
  destruct (inline_tcs sub) as [|i ics] eqn:Ei.
  - inversion H; subst. simpl. split; [reflexivity|]. left. auto.
  - rewrite (existsb_none_false _ Hsome) in H. rewrite Hl in H. inversion H; subst. cbn [x_abstract x_related].
    split; [reflexivity|]. right. split; [discriminate|].
    unfold some_conds. rewrite app_nil_r. split; reflexivity.
Qed.

Lemma named_ann_union C S frs k fsub base ms sc x ctx :
  lookup_type S base = Some (DUnion ms) -> forallb (is_object S) ms = true ->
  named_ann C S frs k fsub base false sc false = Ok (x, ctx) ->
  x_abstract ctx = true /\ x = AUnion (map (fun t => AClass (sc +++ t)) ms) /\
  x_related ctx = map (rel_of sc) ms.
Proof.
  intros Hl Hobj H. unfold named_ann in H. rewrite Hl in H.
  apply bind_ok in H. destruct H as [r [Hf H]]. inversion H; subst; clear H. cbn [x_abstract x_related].
  split; [reflexivity|].
  assert (G : forall ms al0 c0 r, forallb (is_object S) ms = true ->
     fold_left (fun acc m => p <- acc ;;
                  match lookup_type S m with
                  | Some (DObject _ _) =>
                      let '(a, c) := object_ann m false sc true in Ok (fst p ++ [a], ctx_app (snd p) c)
                  | _ => Err "ParsingError: Invalid field type."
                  end) ms (Ok (al0, c0)) = Ok r ->
     fst r = al0 ++ map (fun t => AClass (sc +++ t)) ms /\
     x_related (snd r) = x_related c0 ++ map (rel_of sc) ms).
  { clear. induction ms as [|m ms IH]; intros al0 c0 r Hobj Hf; simpl in Hf.
    - inversion Hf; subst. simpl. rewrite !app_nil_r. auto.
    - simpl in Hobj. apply andb_true_iff in Hobj as [H1 H2]. unfold is_object in H1.
      destruct (lookup_type S m) as [[]|]; try discriminate H1. simpl in Hf.
      destruct (IH _ _ _ H2 Hf) as [I1 I2]. simpl in I2. rewrite I1, I2, <- !app_assoc. auto. }
  destruct (G _ _ _ _ Hobj Hf) as [G1 G2]. simpl in G1, G2. rewrite G1, G2. auto.
Qed.

(* ---- every related class of a run without skip was generated by its own sub-run ---- *)
Lemma subs_run_each rec S ctx f sub : forall rcs pub cls pub' sk,
  subs_run rec S ctx f sub rcs pub cls pub' sk -> sk = false ->
  forall rc, In rc rcs ->
    exists pa qc qp,
      rec pa (r_class rc) (r_type rc) sub (x_abstract ctx) (fn_mixins f)
          (Some (typename_values S (x_related ctx) (r_type rc))) = Ok (qc, qp, false) /\ incl qc cls.
Proof.
  intros rcs pub cls pub' sk H.
  induction H as [pub | rc0 rcs pub qc qp qs cls pub' sk Hq Hrun IH]; intros Hsk rc Hin; [contradiction|].
  apply orb_false_elim in Hsk as [Hs1 Hs2]. subst.
  destruct Hin as [E | Hin].
  - subst rc0. exists pub, qc, qp. split; [exact Hq | apply incl_appl, incl_refl].
  - destruct (IH eq_refl rc Hin) as [pa [qc' [qp' [H1 H2]]]]. exists pa, qc', qp'. split; [exact H1|].
    apply incl_appr, H2.
Qed.

(* ---- Literal annotations arise only for __typename, with the sorted typename values ---- *)
Lemma named_ann_not_lit C S frs k fsub n nl cn add a c vs :
  named_ann C S frs k fsub n nl cn add = Ok (a, c) -> a <> ALit vs.
Proof.
  intro H. destruct (named_nullable C S frs k fsub cn n nl add a c H) as [a0 [H0 Ea]].
  assert (G : a0 <> ALit vs).
  { clear H Ea. unfold named_ann in H0.
    destruct (lookup_type S n) as [[| evs | ifs fs | ifs fs | ms |]|]; try discriminate H0.
    - unfold scalar_ann, simple_type in H0.
      repeat match type of H0 with context [if ?b then _ else _] => destruct b end;
        try (inversion H0; discriminate).
      destruct (find _ (cf_scalars C)); inversion H0; discriminate.
    - inversion H0. discriminate.
    - unfold object_ann in H0. inversion H0. discriminate.
    - unfold interface_ann in H0. destruct fsub as [sels|].
      + destruct (inline_conds k frs sels) as [ics|]; simpl in H0; [| discriminate].
        destruct (spreads_on_subtypes S frs sels n) as [fos|]; simpl in H0; [| discriminate].
        destruct ics; [destruct fos|]; try (inversion H0; discriminate);
          match type of H0 with context [existsb ?p ?l] => destruct (existsb p l) end;
          try discriminate H0; inversion H0; discriminate.
      + inversion H0. discriminate.
    - apply bind_ok in H0. destruct H0 as [r [_ H0]]. inversion H0. discriminate. }
  subst a. destruct nl; simpl; [discriminate | exact G].
Qed.

Lemma field_type_ann_not_lit C S frs k fsub cn : forall t nl r vs,
  field_type_ann C S frs k fsub t nl cn false = Ok r -> fst r <> ALit vs.
Proof.
  induction t as [n | t IH | t IH]; intros nl r vs H; simpl in H.
  - destruct r as [a c]. simpl. eapply named_ann_not_lit; eauto.
  - apply bind_ok in H. destruct H as [r' [_ H]]. inversion H; subst. simpl. destruct nl; discriminate.
  - eapply IH; eauto.
Qed.

Lemma field_pf_alit C S frs k cn r tv at_ f pf ctx vs :
  field_pf C S frs k cn r tv at_ f = Ok (pf, ctx) -> p_ann pf = ALit vs ->
  exists tvs, tv = Some tvs /\ vs = sort_strings tvs /\ fn_name f = "__typename".
Proof.
  intros H Ha. destruct (field_pf_inv _ _ _ _ _ _ _ _ _ _ _ H) as [t [a0 [il [Ht [Hl Hp]]]]]. subst pf.
  cbn [p_ann mk_pfield] in Ha. unfold field_ann_lit in Hl.
  assert (Hno : forall r0, field_type_ann C S frs k (fn_sub f) t true
                   (cn +++ pascal_s (py_field_name C (field_key f))) false = Ok r0 ->
                 Ok (fst r0, snd r0, false) = Ok (a0, ctx, il) -> False).
  { intros r0 Hr E. inversion E; subst. simpl andb in Ha. unfold cond_ann in Ha.
    pose proof (field_type_ann_not_lit _ _ _ _ _ _ _ _ _ vs Hr) as Hn.
    destruct (fn_cond f); [destruct (is_opt (fst r0)); [contradiction | discriminate] | contradiction]. }
  destruct tv as [[|v0 vs0]|].
  - apply bind_ok in Hl. destruct Hl as [r0 [Hr E]]. exfalso. eapply Hno; eauto.
  - destruct (String.eqb (fn_name f) "__typename") eqn:En.
    + inversion Hl; subst. unfold cond_ann in Ha.
      assert (Hv : ALit (sort_strings (v0 :: vs0)) = ALit vs).
      { destruct (true && at_); [exact Ha|]. destruct (fn_cond f); [| exact Ha].
        simpl in Ha. discriminate Ha. }
      inversion Hv. exists (v0 :: vs0). repeat split. apply String.eqb_eq, En.
    + apply bind_ok in Hl. destruct Hl as [r0 [Hr E]]. exfalso. eapply Hno; eauto.
  - apply bind_ok in Hl. destruct Hl as [r0 [Hr E]]. exfalso. eapply Hno; eauto.
Qed.

Lemma fields_run_pf rec C S frs k cn r tv at_ : forall fs pub pfl extra pub' sk,
  fields_run rec C S frs k cn r tv at_ fs pub pfl extra pub' sk ->
  Forall2 (fun f pf => exists ctx, field_pf C S frs k cn r tv at_ f = Ok (pf, ctx)) fs pfl.
Proof. induction 1; constructor; eauto. Qed.

(* ---- the variant of a runtime type: the one related type whose typename literal contains it ---- *)
Lemma tv_variant S base sub rel rt :
  (exists ifs fs, lookup_type S base = Some (DInterface ifs fs)) \/
  (exists ms, lookup_type S base = Some (DUnion ms) /\ forallb (is_object S) ms = true) ->
  mem base (possible_types S base) = false ->
  map r_type rel = abs_names S base sub ->
  In rt (possible_types S base) ->
  let t0 := variant (abs_names S base sub) base rt in
  In t0 (abs_names S base sub) /\ In rt (typename_values S rel t0) /\
  (forall t, In t (abs_names S base sub) -> In rt (typename_values S rel t) -> t = t0).
Proof.
  intros Hkind Hnb Hrel Hrt t0.
  apply mem_false_In in Hnb.
  destruct Hkind as [[ifs [fs Hl]] | [ms [Hl Hobj]]].
  - (* interface *)
    assert (Hhead : exists tl, abs_names S base sub = base :: tl).
    { unfold abs_names. rewrite Hl. destruct (inline_tcs sub); eauto. }
    destruct Hhead as [tl Hn].
    assert (Hfirst : find (fun n => match lookup_type S n with Some d => is_abstract d | None => false end)
                          (map r_type rel) = Some base).
    { rewrite Hrel, Hn. simpl. rewrite Hl. reflexivity. }
    assert (Hne : rt <> base) by (intro E; subst; contradiction).
    assert (Hin0 : In t0 (abs_names S base sub)).
    { unfold t0, variant. destruct (mem rt (abs_names S base sub)) eqn:M.
      - apply mem_In, M.
      - rewrite Hn. left; reflexivity. }
    assert (Htv0 : In rt (typename_values S rel t0)).
    { unfold t0, variant, typename_values. rewrite Hfirst.
      destruct (mem rt (abs_names S base sub)) eqn:M.
      - rewrite (eqb_neq_false base rt) by congruence. left; reflexivity.
      - rewrite String.eqb_refl. right. apply filter_In. split; [apply dedup_In, Hrt|].
        rewrite Hrel, M. reflexivity. }
    split; [exact Hin0|]. split; [exact Htv0|].
    intros t Ht Htv.
    destruct (typename_partition S rel base Hfirst Hnb rt Hrt) as [_ Huniq].
    apply Huniq; rewrite ?Hrel; auto.
  - (* union: every related type is an object, each literal is the singleton *)
    assert (Hn : abs_names S base sub = ms) by (unfold abs_names; rewrite Hl; reflexivity).
    assert (Hp : possible_types S base = ms) by (unfold possible_types; rewrite Hl; reflexivity).
    assert (Hnone : find (fun n => match lookup_type S n with Some d => is_abstract d | None => false end)
                         (map r_type rel) = None).
    { rewrite Hrel, Hn. clear - Hobj. induction ms as [|m ms IH]; simpl; [reflexivity|].
      simpl in Hobj. apply andb_true_iff in Hobj as [H1 H2]. unfold is_object in H1.
      destruct (lookup_type S m) as [[]|]; try discriminate H1. simpl. apply IH, H2. }
    assert (Htv : forall t, typename_values S rel t = [t]).
    { intro t. unfold typename_values. rewrite Hnone. reflexivity. }
    assert (E0 : t0 = rt).
    { unfold t0, variant. rewrite Hn. rewrite Hp in Hrt. apply mem_In in Hrt. rewrite Hrt. reflexivity. }
    rewrite E0. split; [rewrite Hn, <- Hp; exact Hrt|]. split; [rewrite Htv; left; reflexivity|].
    intros t _ H. rewrite Htv in H. destruct H as [H | []]. exact H.
Qed.

(* ---- the discriminated union picks the variant's class ---- *)
Lemma union_pick_variant (mro : string -> option (list pfield)) (cname : string -> string)
      (tvs : string -> list string) names rt t0 :
  In t0 names -> In rt (tvs t0) ->
  (forall t, In t names -> In rt (tvs t) -> t = t0) ->
  (* every alternative's class: its fields, whose Literal annotations are the sorted typename values *)
  (forall t, In t names -> exists pfl, mro (cname t) = Some pfl /\
       forall pf vs, In pf pfl -> p_ann pf = ALit vs -> vs = sort_strings (tvs t)) ->
  (exists pfl0, mro (cname t0) = Some pfl0 /\
       typename_literal (last_wins pfl0) = Some (sort_strings (tvs t0))) ->
  union_pick mro (map (fun t => AClass (cname t)) names) rt = Some (AClass (cname t0)).
Proof.
  intros Hin Hrt Huniq Hall [pfl0 [Hm0 Hl0]]. unfold union_pick.
  match goal with |- find ?P0 ?l0 = _ => set (P := P0); set (alts := l0) end.
  assert (HP0 : P (AClass (cname t0)) = true).
  { unfold P. rewrite Hm0, Hl0. apply mem_In. apply (proj2 (sort_strings_In _ _)), Hrt. }
  destruct (find P alts) as [a|] eqn:Ef.
  - apply find_some in Ef. destruct Ef as [Ha HPa]. unfold alts in Ha. apply in_map_iff in Ha.
    destruct Ha as [t [Ea Ht]]. subst a. f_equal. f_equal. f_equal.
    destruct (Hall t Ht) as [pfl [Hm Hlit]]. unfold P in HPa. rewrite Hm in HPa.
    unfold typename_literal in HPa.
    destruct (find (fun f => String.eqb (p_name f) "typename__") (last_wins pfl)) as [f'|] eqn:Ef'; [| discriminate].
    destruct (p_ann f') as [| | | | | | | | | | |vs] eqn:Ea; try discriminate HPa.
    apply find_some in Ef'. destruct Ef' as [Hf' _]. apply last_wins_In in Hf'.
    rewrite (Hlit f' vs Hf' Ea) in HPa. apply mem_In in HPa. apply (proj1 (sort_strings_In _ _)) in HPa.
    apply Huniq; assumption.
  - exfalso. pose proof (find_none _ _ Ef (AClass (cname t0))) as Hn.
    rewrite HP0 in Hn. assert (In (AClass (cname t0)) alts) by (unfold alts; apply in_map_iff; eauto).
    specialize (Hn H). discriminate.
Qed.

(* ---- small list facts ---- *)
Lemma Forall2_In_r {X Y} (P : X -> Y -> Prop) l l' y :
  Forall2 P l l' -> In y l' -> exists x, In x l /\ P x y.
Proof.
  induction 1 as [|a b l l' Hab H IH]; intros Hin; [contradiction|].
  destruct Hin as [E | Hin]; [subst; exists a; split; [left; reflexivity | exact Hab]|].
  destruct (IH Hin) as [x [Hx Hp]]. exists x. split; [right; exact Hx | exact Hp].
Qed.

Lemma NoDup_map_inj_in {X Y} (h : X -> Y) l a b :
  NoDup (map h l) -> In a l -> In b l -> h a = h b -> a = b.
Proof.
  induction l as [|x l IH]; intros Hnd Ha Hb E; [contradiction|].
  simpl in Hnd. inversion Hnd; subst. destruct Ha as [Ha | Ha], Hb as [Hb | Hb]; subst; auto.
  - exfalso. apply H1. rewrite E. apply in_map, Hb.
  - exfalso. apply H1. rewrite <- E. apply in_map, Ha.
Qed.

(* ---- a directly selected field survives flattening ---- *)
Lemma flattenM_field_in S frs rt : forall g r under sels fns ms al n c mx sub,
  flattenM g S frs rt r under sels = Some (fns, ms) -> In (SField al n c mx sub) sels ->
  In (fnode_of al n (under || c) mx sub) fns.
Proof.
  intros g r under sels fns ms al n c mx sub Hf Hin. destruct g as [|g]; [discriminate Hf|]. simpl in Hf.
  assert (G : forall sels l m fns ms,
            fold_left (flattenM_step (flattenM g S frs rt) S frs rt r under) sels (Some (l, m)) = Some (fns, ms) ->
            (forall x, In x l -> In x fns) /\
            (In (SField al n c mx sub) sels -> In (fnode_of al n (under || c) mx sub) fns)).
  { clear. induction sels as [|s sels IH]; intros l m fns ms Hf; cbn [fold_left] in Hf.
    - inversion Hf; subst. split; [auto | intros []].
    - destruct (flattenM_step (flattenM g S frs rt) S frs rt r under (Some (l, m)) s) as [[l' m']|] eqn:Es;
        [| rewrite flattenM_fold_none in Hf; discriminate].
      destruct (IH _ _ _ _ Hf) as [I1 I2].
      assert (Hl : forall x, In x l -> In x l').
      { intros x Hx. unfold flattenM_step in Es.
        destruct s as [al' n' c' ms' sub' | n' c' | tc c' sub'].
        - inversion Es; subst. apply in_or_app. left; exact Hx.
        - destruct (lookup_frag frs n'); [| discriminate].
          destruct (lookup_type S r); [| discriminate]. destruct (lookup_type S (fr_on f)); [| discriminate].
          destruct (negb (under || c') && negb (unpack_fragment S f (Some r))).
          + destruct (type_applies S rt (fr_on f)); [| discriminate]. inversion Es; subst. exact Hx.
          + destruct (String.eqb (fr_on f) r || (is_abstract t0 && is_sub_type S (fr_on f) r));
              destruct (type_applies S rt (fr_on f)); try discriminate.
            * destruct (flattenM g S frs rt r (under || c') (fr_sel f)) as [[? ?]|]; [| discriminate].
              inversion Es; subst. apply in_or_app. left; exact Hx.
            * inversion Es; subst. exact Hx.
        - destruct (inline_root_type S (match tc with Some tc0 => tc0 | None => r end) r);
            destruct (match tc with None => true | Some t => type_applies S rt t end); try discriminate.
          + destruct (flattenM g S frs rt s (under || c') sub') as [[? ?]|]; [| discriminate]. inversion Es; subst.
            apply in_or_app. left; exact Hx.
          + inversion Es; subst. exact Hx. }
      split; [intros x Hx; apply I1, Hl, Hx|].
      intros [E | Hin]; [| apply I2, Hin]. subst s. simpl in Es. inversion Es; subst.
      apply I1. apply in_or_app. right. left. reflexivity. }
  destruct (G _ _ _ _ _ Hf) as [_ G2]. apply G2, Hin.
Qed.

Lemma flatten_field_in S frs rt g r sels fns al n c ms sub :
  flatten g S frs rt r sels = Some fns -> In (SField al n c ms sub) sels -> In (fnode_of al n c ms sub) fns.
Proof. intros H Hin. apply flatten_M in H. apply (flattenM_field_in _ _ _ _ _ _ _ _ _ _ _ _ _ _ H Hin). Qed.

Lemma has_typename_flatten S frs rt g r sels fns :
  has_typename sels = true -> flatten g S frs rt r sels = Some fns ->
  exists ms, In (fnode_of None "__typename" false ms None) fns.
Proof.
  unfold has_typename. intros H Hf. apply existsb_exists in H. destruct H as [s [Hs Hp]].
  destruct s as [[al|] n [|] ms [sub|] | |]; try discriminate Hp.
  apply String.eqb_eq in Hp. subst n. exists ms. eapply flatten_field_in; eauto.
Qed.

(* ---- the typename field of a nested class ---- *)
Lemma field_pf_typename C S frs k cn r v vs f pf ctx :
  fn_name f = "__typename" -> field_pf C S frs k cn r (Some (v :: vs)) true f = Ok (pf, ctx) ->
  p_ann pf = ALit (sort_strings (v :: vs)) /\ p_name pf = py_field_name C (field_key f).
Proof.
  intros Hn H. destruct (field_pf_inv _ _ _ _ _ _ _ _ _ _ _ H) as [t [a0 [il [_ [Hl Hp]]]]]. subst pf.
  unfold field_ann_lit in Hl. rewrite Hn in Hl. simpl in Hl. inversion Hl; subst. split; reflexivity.
Qed.

(* ---- what a sub-run for a related type produces when the sub-selection has no spread ---- *)
Lemma variant_class_facts C S frs f2 g pa cn t sub eb tvs qc qp :
  parse_type_def (Datatypes.S f2) C S frs pa cn t sub true eb (Some tvs) = Ok (qc, qp, false) ->
  no_spread g sub = true ->
  exists fields0 pfl extra,
    resolve f2 S frs false sub t = Ok (fields0, []) /\
    fields_run (parse_type_def f2 C S frs) C S frs f2 cn t (Some tvs) true
               (add_typename_field true fields0) (pa ++ [cn]) pfl extra qp false /\
    qc = {| c_name := cn; c_bases := "BaseModel" :: eb; c_fields := pfl |} :: extra /\
    (forall pf vs, In pf pfl -> p_ann pf = ALit vs -> vs = sort_strings tvs).
Proof.
  intros H Hns. simpl in H. apply body_inv in H.
  destruct H as [[_ [_ [_ H]]] | [M [fields0 [mixins [pfl [extra [Hres [Hrun [kept [Hk Hout]]]]]]]]]];
    [discriminate|].
  pose proof (resolve_no_spread _ _ _ _ _ _ _ _ Hns Hres) as Hm. simpl in Hm. subst mixins.
  exists fields0, pfl, extra. split; [exact Hres|]. split; [exact Hrun|]. split; [exact Hout|].
  intros pf vs Hin Ha. pose proof (fields_run_pf _ _ _ _ _ _ _ _ _ _ _ _ _ _ _ Hrun) as HF.
  destruct (Forall2_In_r _ _ _ _ HF Hin) as [f [_ [ctx Hpf]]].
  destruct (field_pf_alit _ _ _ _ _ _ _ _ _ _ _ _ Hpf Ha) as [tvs' [E1 [E2 _]]]. inversion E1; subst. reflexivity.
Qed.

(* ---- interface positions where every possible type has its own variant ---- *)
Lemma interface_ann_shape S frs k fsub n cn add a c :
  interface_ann S frs k fsub n false cn add = Ok (a, c) ->
  (exists c0, a = AClass c0) \/ (exists alts, a = AUnion alts).
Proof.
  unfold interface_ann. destruct fsub as [sels|].
  - destruct (inline_conds k frs sels) as [ics|]; simpl; [| discriminate].
    destruct (spreads_on_subtypes S frs sels n) as [fos|]; simpl; [| discriminate].
    destruct ics; [destruct fos|]; intro H;
      try (inversion H; left; eauto; fail);
      match type of H with context [existsb ?p ?l] => destruct (existsb p l) end;
      try discriminate H; inversion H; right; eauto.
  - intro H. inversion H. left. eauto.
Qed.

Lemma tv_interface_singleton S base sub rel ifs fs t :
  lookup_type S base = Some (DInterface ifs fs) ->
  map r_type rel = abs_names S base sub ->
  forallb (fun s => mem s (abs_names S base sub)) (possible_types S base) = true ->
  typename_values S rel t = [t].
Proof.
  intros Hl Hrel Hall.
  assert (Hhead : exists tl, abs_names S base sub = base :: tl).
  { unfold abs_names. rewrite Hl. destruct (inline_tcs sub); eauto. }
  destruct Hhead as [tl Hn].
  unfold typename_values. rewrite Hrel.
  assert (Hfirst : find (fun n => match lookup_type S n with Some d => is_abstract d | None => false end)
                        (abs_names S base sub) = Some base) by (rewrite Hn; simpl; rewrite Hl; reflexivity).
  rewrite Hfirst.
  destruct (String.eqb base t) eqn:E; [| reflexivity].
  apply String.eqb_eq in E. subst t. f_equal.
  assert (G : forall l, (forall x, In x l -> mem x (abs_names S base sub) = true) ->
                        filter (fun p => negb (mem p (abs_names S base sub))) l = []).
  { induction l as [|x l IH]; intro H; simpl; [reflexivity|].
    rewrite (H x (or_introl eq_refl)). simpl. apply IH. intros y Hy. apply H. right; exact Hy. }
  rewrite forallb_forall in Hall. apply G. intros x Hx. apply (proj1 (dedup_In _ _)) in Hx. apply Hall, Hx.
Qed.
