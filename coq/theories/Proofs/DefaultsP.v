(* Default literals: the emitted Python default evaluates to the coerced schema default, for literals of the
   shapes the generator handles: scalars, enums, null, nested lists, and (since fixes 9710ea3 / bef1df4) objects
   containing enums and lists of objects, for object literals that spell out every field; by induction on the
   literal. *)
From Coq Require Import List String Ascii ZArith Bool Lia.
From AC Require Import Base.Sexp Base.Json Base.Strs Gql.InSchema Gql.InCoerce
  Model.Names Model.Defaults Model.Inputs Py.PyEval Proofs.InputsP Proofs.AcceptsP Proofs.ValidateP Proofs.ByNameP.
Import ListNotations.
Local Open Scope string_scope.


Definition no_dot (s : string) : bool := match split_dot s with None => true | Some _ => false end.

(* ---- value mode: the literal as handed to model_validate (inside an object default) ----
   leaf literals have exactly the kind of the type; an object literal spells out every field of its type *)
Definition leaf_good_v (s : schema) (nm : string) (lit : cvalue) : bool :=
  match kind_of s nm, lit with
  | KInt, CInt z => int32 z
  | KFloat, CFloat _ | KString, CStr _ | KBoolean, CBool _ | KID, CStr _ => true
  | KEnum vals, CEnum v => mem v vals
  | KScalar, CInt _ | KScalar, CFloat _ | KScalar, CStr _ | KScalar, CBool _ => true
  | _, _ => false
  end.

Fixpoint good_value (s : schema) (lit : cvalue) : gtype -> bool :=
  fix go (t : gtype) : bool :=
    match t with
    | TNonNull t' => match lit with CNull => false | _ => go t' end
    | TList t' =>
        match lit with
        | CNull => true
        | CList l => forallb (fun x => good_value s x t') l
        | _ => false
        end
    | TNamed nm =>
        match lit with
        | CNull => true
        | CObj kv =>
            match kind_of s nm with
            | KInput fs =>
                forallb (fun p => match find_field (fst p) fs with
                                  | Some f => good_value s (snd p) (i_type f)
                                  | None => false end) kv
                && forallb (fun f => mem (i_name f) (map fst kv)) fs
            | _ => false
            end
        | _ => leaf_good_v s nm lit
        end
    end.

(* ---- expression mode: the literal as a Python expression (top level and inside list defaults) ---- *)
Definition leaf_good (s : schema) (nm : string) (lit : cvalue) : bool :=
  match kind_of s nm, lit with
  | KInt, CInt z => int32 z
  | KFloat, CInt _ | KFloat, CFloat _ | KString, CStr _ | KBoolean, CBool _ | KID, CStr _ => true
  | KEnum vals, CEnum v =>
      mem v vals && no_dot nm && negb (nm =? "")
      && match find_member (member_name v) vals with Some v' => v' =? v | None => false end
  | KScalar, CInt _ | KScalar, CFloat _ | KScalar, CStr _ | KScalar, CBool _ => true
  | _, _ => false
  end.

Fixpoint good_default (s : schema) (lit : cvalue) : gtype -> bool :=
  fix go (t : gtype) : bool :=
    match t with
    | TNonNull t' => match lit with CNull => false | _ => go t' end
    | TList t' =>
        match lit with
        | CNull => true
        | CList l => forallb (fun x => good_default s x t') l
        | _ => false
        end
    | TNamed nm =>
        match lit with
        | CNull => true
        | CObj _ => good_value s lit (TNamed nm)
        | _ => leaf_good s nm lit
        end
    end.

Definition default_body (d : pdefault) : option pyexpr :=
  match d with DRequired => None | DValue e => Some e | DFactory b => Some b end.

(* ---------- induction principle for literals ---------- *)
Lemma cvalue_ind2 (P : cvalue -> Prop) :
  (forall z, P (CInt z)) -> (forall x, P (CFloat x)) -> (forall x, P (CStr x)) -> (forall b, P (CBool b)) ->
  P CNull -> (forall v, P (CEnum v)) ->
  (forall l, Forall P l -> P (CList l)) ->
  (forall kv, Forall (fun p => P (snd p)) kv -> P (CObj kv)) ->
  forall c, P c.
Proof.
  intros H1 H2 H3 H4 H5 H6 H7 H8.
  fix IH 1. intros [z|x|x|b| |v|l|kv].
  - apply H1.
  - apply H2.
  - apply H3.
  - apply H4.
  - apply H5.
  - apply H6.
  - apply H7. induction l as [|h t IHl]; constructor; [apply IH | exact IHl].
  - apply H8. induction kv as [|[k h] t IHl]; constructor; [apply IH | exact IHl].
Qed.

(* ---------- unfolding equations ---------- *)
Lemma cd_nonnull n s t lit :
  coerced_default n s (TNonNull t) lit = match lit with CNull => None | _ => coerced_default n s t lit end.
Proof. destruct n; reflexivity. Qed.

Lemma cd_list n s t lit :
  coerced_default n s (TList t) lit =
  match lit with
  | CNull => Some CNull
  | CList l => match n with 0 => None | S n' => option_map CList (map_opt (coerced_default n' s t) l) end
  | _ => option_map (fun v => CList [v]) (coerced_default n s t lit)
  end.
Proof. destruct n; reflexivity. Qed.

Lemma cd_named_leaf n s nm lit : lit <> CNull -> (forall kv, lit <> CObj kv) ->
  match kind_of s nm with KInput _ => False | _ => True end ->
  coerced_default n s (TNamed nm) lit = leaf_default s nm lit.
Proof.
  intros N O K. destruct n; simpl; destruct lit; try congruence;
    destruct (kind_of s nm); try contradiction; try reflexivity; exfalso; eapply O; reflexivity.
Qed.

Lemma eval_const_eq m E c : eval m E (PConst c) = Ok (eval_const c).
Proof. destruct m; reflexivity. Qed.
Lemma eval_name_eq m E id : eval m E (PName id) = eval_name E id.
Proof. destruct m; reflexivity. Qed.
Lemma eval_list_eq m E l : eval m E (PList l) = res_map VList (sequence (map (eval m E) l)).
Proof. destruct m; reflexivity. Qed.

Lemma dump_list l : dump (VList l) = option_map JArr (map_opt dump l).
Proof.
  simpl. f_equal. induction l as [|h t IH]; simpl; [reflexivity|].
  destruct (dump h); [|reflexivity]. rewrite IH. reflexivity.
Qed.

(* ---------- names ---------- *)
Lemma kw_no_trailing_us :
  forallb (fun k => negb (match rev k with c :: _ => is_us c | [] => false end)) kwlist = true.
Proof. vm_compute. reflexivity. Qed.

Lemma s2l_app a b : s2l (a ++ b) = (s2l a ++ s2l b)%list.
Proof. unfold s2l. induction a; simpl; congruence. Qed.

(* the member name an enum default refers to is never a Python keyword *)
Lemma member_name_not_kw v : iskeyword (s2l (member_name v)) = false.
Proof.
  unfold member_name. destruct (iskeyword (s2l v)) eqn:K; [|exact K].
  apply not_true_iff_false. intro H. unfold iskeyword in H. apply mem_chars_In in H.
  pose proof kw_no_trailing_us as F. rewrite forallb_forall in F. specialize (F _ H).
  rewrite s2l_app in F. simpl in F. rewrite rev_app_distr in F. simpl in F. discriminate.
Qed.

Lemma split_dot_app a b : no_dot a = true -> split_dot (a ++ String "."%char b) = Some (a, b).
Proof.
  unfold no_dot. induction a as [|c r IH]; simpl; [reflexivity|].
  destruct (Ascii.eqb c "."%char) eqn:E; [discriminate|].
  destruct (split_dot r) as [[x y]|] eqn:S; [discriminate|]. intros _. rewrite IH by reflexivity. reflexivity.
Qed.

Lemma ftn_list s cs t : snd (parse_input_field_type s cs (TList t) true) = snd (parse_input_field_type s cs t true).
Proof. simpl. destruct (parse_input_field_type s cs t true). reflexivity. Qed.

Lemma ftn_nonnull s cs t : snd (parse_input_field_type s cs (TNonNull t) true) = snd (parse_input_field_type s cs t true).
Proof. simpl. apply type_name_flag. Qed.

Lemma ftn_enum s cs nm vals : kind_of s nm = KEnum vals -> snd (parse_input_field_type s cs (TNamed nm) true) = nm.
Proof. intros K. simpl. unfold leaf. rewrite K. reflexivity. Qed.

(* ---------- more unfolding equations and container lemmas ---------- *)
Lemma cd_named_obj n s nm kv :
  coerced_default n s (TNamed nm) (CObj kv) =
  match kind_of s nm with
  | KInput fs =>
      match n with
      | S n' => option_map CObj (fields_with (fun k => lookup k kv) (coerced_default n' s) (coerced_default n' s) fs)
      | 0 => None
      end
  | _ => leaf_default s nm (CObj kv)
  end.
Proof. destruct n; simpl; destruct (kind_of s nm); reflexivity. Qed.

Lemma eval_dict_eq m E kv :
  eval m E (PDict kv) = res_map VDict (sequence (map (fun p => res_map (pair (fst p)) (eval m E (snd p))) kv)).
Proof. destruct m; reflexivity. Qed.

Lemma eval_validate_eq m E t d :
  eval m E (PValidate t d) =
  match eval m E d with
  | Err x => Err x
  | Ok v => match json_of_pyval v, m with
            | Some j, S m' => validate m' E (AClass t) j
            | Some _, 0 => Err EFuel
            | None, _ => Err EValidation
            end
  end.
Proof. destruct m; reflexivity. Qed.

Definition entry_json (p : string * pyval) : option (string * json) :=
  option_map (pair (fst p)) (json_of_pyval (snd p)).

Lemma json_of_pyval_list l : json_of_pyval (VList l) = option_map JArr (map_opt json_of_pyval l).
Proof.
  simpl. f_equal. induction l as [|h t IH]; simpl; [reflexivity|].
  destruct (json_of_pyval h); [|reflexivity]. rewrite IH. reflexivity.
Qed.

Lemma json_of_pyval_dict kv : json_of_pyval (VDict kv) = option_map JObj (map_opt entry_json kv).
Proof.
  simpl. f_equal. induction kv as [|[k h] t IH]; simpl; [reflexivity|]. unfold entry_json at 1. simpl.
  destruct (json_of_pyval h); [|reflexivity]. simpl. rewrite IH. reflexivity.
Qed.

Definition entry_dump (q : string * (string * pyval)) : option (string * json) :=
  option_map (pair (fst (snd q))) (dump (snd (snd q))).

Lemma dump_model c fs : dump (VModel c fs) = option_map JObj (map_opt entry_dump fs).
Proof.
  simpl. f_equal. induction fs as [|[pn [w x]] t IH]; simpl; [reflexivity|]. unfold entry_dump at 1. simpl.
  destruct (dump x); [|reflexivity]. simpl. rewrite IH. reflexivity.
Qed.

Lemma collect_oks {X} (rs : list (res X)) xs : Forall2 (fun r x => r = Ok x) rs xs -> collect rs = Ok xs.
Proof. induction 1 as [|r x rs xs H _ IH]; simpl; [reflexivity|]. subst r. rewrite IH. reflexivity. Qed.

Lemma sequence_oks {X} (rs : list (res X)) xs : Forall2 (fun r x => r = Ok x) rs xs -> sequence rs = Ok xs.
Proof. induction 1 as [|r x rs xs H _ IH]; simpl; [reflexivity|]. subst r. rewrite IH. reflexivity. Qed.

Lemma validate_opt_if n E nb a j : (nb = false -> j <> JNull) ->
  validate n E (opt_if nb a) j = match j with JNull => Ok VNone | _ => validate n E a j end.
Proof.
  intros H. destruct nb; simpl.
  - apply validate_opt.
  - destruct j; try reflexivity. exfalso. apply H; reflexivity.
Qed.

Lemma json_lit_not_null lit : lit <> CNull -> json_of_cvalue lit <> JNull.
Proof. destruct lit; simpl; intros H; try discriminate. congruence. Qed.

Lemma jlookup_map k kv :
  jlookup k (map (fun p => (fst p, json_of_cvalue (snd p))) kv) = option_map json_of_cvalue (lookup k kv).
Proof.
  induction kv as [|[k' v] r IH]; simpl; [reflexivity|]. destruct (k =? k'); [reflexivity | exact IH].
Qed.

Lemma lookup_mem {X} k (kv : list (string * X)) : mem k (map fst kv) = true -> exists x, lookup k kv = Some x.
Proof.
  induction kv as [|[k' v] r IH]; simpl; [discriminate|].
  destruct (k =? k'); [eauto | exact IH].
Qed.

(* ---------- stage 1: inside an object default the emitted expression denotes the literal itself ---------- *)
Section Stage1.
Variables (E : env) (ft : string).

Definition DE (lit : cvalue) : Prop := forall m,
  exists v, eval m E (const_value_node ft lit true true) = Ok v /\ json_of_pyval v = Some (json_of_cvalue lit).

Lemma dict_expr_denotes : forall lit, DE lit.
Proof.
  apply cvalue_ind2; unfold DE; intros.
  1-6: simpl const_value_node; rewrite eval_const_eq; eexists; split; reflexivity.
  - (* list *)
    simpl const_value_node. rewrite eval_list_eq, map_map.
    assert (X : exists vs, Forall2 (fun r x => r = Ok x)
                (map (fun x => eval m E (const_value_node ft x true true)) l) vs
              /\ map_opt json_of_pyval vs = Some (map json_of_cvalue l)).
    { induction H as [|h r Hh _ IH]; [exists []; split; [constructor | reflexivity]|].
      destruct (Hh m) as [v [Hv Jv]]. destruct IH as [vs [Hs Js]].
      exists (v :: vs). split; [constructor; assumption|]. simpl. rewrite Jv, Js. reflexivity. }
    destruct X as [vs [Hs Js]]. rewrite (sequence_oks _ _ Hs). simpl. eexists. split; [reflexivity|].
    rewrite json_of_pyval_list, Js. reflexivity.
  - (* object *)
    simpl const_value_node. rewrite eval_dict_eq, map_map. simpl.
    assert (X : exists vs, Forall2 (fun r x => r = Ok x)
                (map (fun p => res_map (pair (fst p)) (eval m E (const_value_node ft (snd p) true true))) kv) vs
              /\ map_opt entry_json vs = Some (map (fun p => (fst p, json_of_cvalue (snd p))) kv)).
    { induction H as [|[k h] r Hh _ IH]; [exists []; split; [constructor | reflexivity]|].
      destruct (Hh m) as [v [Hv Jv]]. destruct IH as [vs [Hs Js]]. simpl in *.
      exists ((k, v) :: vs). split; [constructor; [rewrite Hv; reflexivity | assumption]|].
      simpl. unfold entry_json at 1. simpl. rewrite Jv, Js. reflexivity. }
    destruct X as [vs [Hs Js]]. rewrite (sequence_oks _ _ Hs). simpl. eexists. split; [reflexivity|].
    rewrite json_of_pyval_dict, Js. reflexivity.
Qed.
End Stage1.

(* ---------- stage 2: model_validate on the literal gives the coerced default (value mode) ---------- *)
Section ValueMode.
Variables (s : schema) (cs : customs) (snake : bool).
Hypothesis OK : schema_ok snake s = true.
Let E := env_of s cs snake.

Definition RTV (lit : cvalue) : Prop :=
  forall t nb n cv k, n <= k -> good_value s lit t = true -> (nb = false -> lit <> CNull) ->
  coerced_default n s t lit = Some cv ->
  exists v, validate k E (fst (parse_input_field_type s cs t nb)) (json_of_cvalue lit) = Ok v /\
            dump v = Some (json_of_cvalue cv).

Lemma leaf_good_v_not_input nm lit : leaf_good_v s nm lit = true ->
  match kind_of s nm with KInput _ => False | _ => True end.
Proof. unfold leaf_good_v. destruct (kind_of s nm); auto. destruct lit; discriminate. Qed.

(* a non-null, non-object leaf literal *)
Lemma rtv_leaf lit : lit <> CNull -> (forall kv, lit <> CObj kv) -> (forall l, lit <> CList l) -> RTV lit.
Proof.
  intros NN NO NL. unfold RTV. intros t; induction t as [nm|t IH|t IH]; intros nb n cv k LE G NB C.
  - assert (G' : leaf_good_v s nm lit = true).
    { simpl in G. destruct lit; try exact G; [congruence | exfalso; eapply NO; reflexivity]. }
    pose proof (leaf_good_v_not_input nm lit G') as NI.
    rewrite cd_named_leaf in C by assumption.
    simpl parse_input_field_type. destruct (leaf s cs nm) as [a tn] eqn:LF. simpl fst.
    rewrite validate_opt_if by (intros _; apply json_lit_not_null; exact NN).
    assert (V : exists v, validate k E a (json_of_cvalue lit) = Ok v /\ dump v = Some (json_of_cvalue cv)).
    { unfold leaf in LF. unfold leaf_good_v in G'. unfold leaf_default in C.
      pose proof (kind_of_lookup s nm) as KL.
      destruct (kind_of s nm) as [| | | | | |vals|fs|] eqn:K; try discriminate;
        try (inversion LF; subst a; destruct lit; try discriminate; simpl in *;
             try (rewrite G' in C); inversion C; subst cv;
             rewrite validate_leaf by exact I; simpl; eexists; split; reflexivity).
      - (* custom scalar *)
        rewrite (schema_ok_not_upload snake s nm _ OK KL) in LF.
        destruct (lookup nm cs); inversion LF; subst a; destruct lit; try discriminate; simpl in *;
          inversion C; subst cv; rewrite validate_leaf by exact I; simpl; eexists; split; reflexivity.
      - (* enum *)
        injection LF as Ha _. subst a. destruct lit; try discriminate. simpl in *. rewrite G' in C.
        inversion C; subst cv.
        rewrite validate_leaf by exact I. unfold leaf_validate. unfold E. simpl e_enums.
        rewrite (enums_lookup s nm vals KL), G'. eexists. split; reflexivity. }
    destruct V as [v [V1 V2]]. exists v. split; [|exact V2].
    destruct (json_of_cvalue lit) eqn:J; try exact V1. exfalso. revert J. apply json_lit_not_null. exact NN.
  - simpl in G. destruct lit; try discriminate; [congruence | exfalso; eapply NL; reflexivity].
  - rewrite cd_nonnull in C. simpl parse_input_field_type.
    assert (G' : good_value s lit t = true) by (simpl in G; destruct lit; try exact G; congruence).
    apply (IH false n cv k LE G'); [intros _; exact NN | destruct lit; try exact C; congruence].
Qed.

Lemma rtv_null : RTV CNull.
Proof.
  unfold RTV. intros t; induction t as [nm|t IH|t IH]; intros nb n cv k LE G NB C.
  - destruct nb; [|exfalso; apply NB; reflexivity].
    simpl. destruct (leaf s cs nm). simpl. rewrite validate_opt.
    exists VNone. split; [reflexivity|]. destruct n; simpl in C; inversion C; reflexivity.
  - destruct nb; [|exfalso; apply NB; reflexivity].
    simpl. destruct (parse_input_field_type s cs t true). simpl. rewrite validate_opt.
    exists VNone. split; [reflexivity|]. rewrite cd_list in C. inversion C; reflexivity.
  - simpl in G. discriminate.
Qed.

Lemma rtv_list l : Forall RTV l -> RTV (CList l).
Proof.
  intros FA. unfold RTV. intros t; induction t as [nm|t IH|t IH]; intros nb n cv k LE G NB C.
  - simpl in G. unfold leaf_good_v in G. destruct (kind_of s nm); discriminate.
  - simpl in G. rewrite cd_list in C. destruct n as [|n']; [discriminate|].
    destruct k as [|k']; [lia|]. assert (LE' : n' <= k') by lia.
    destruct (map_opt (coerced_default n' s t) l) as [cvs|] eqn:M; [|discriminate]. inversion C; subst cv.
    simpl parse_input_field_type. destruct (parse_input_field_type s cs t true) as [sl tn] eqn:PE. simpl fst.
    rewrite validate_opt_if by (intros _; discriminate). simpl json_of_cvalue. rewrite validate_list, map_map.
    assert (X : exists vs, Forall2 (fun r x => r = Ok x)
                  (map (fun x => validate k' E sl (json_of_cvalue x)) l) vs
                /\ map_opt dump vs = Some (map json_of_cvalue cvs)).
    { clear C IH NB LE. revert cvs M G. induction FA as [|h r Hh Hr IHr]; intros cvs M G.
      - simpl in M. inversion M. exists []. split; [constructor | reflexivity].
      - simpl in M, G. apply andb_true_iff in G as [G1 G2].
        destruct (coerced_default n' s t h) as [c|] eqn:Ch; [|discriminate].
        destruct (map_opt (coerced_default n' s t) r) as [cr|] eqn:Mr; [|discriminate]. inversion M; subst cvs.
        destruct (Hh t true n' c k' LE' G1 ltac:(discriminate) Ch) as [v [Hv Dv]]. rewrite PE in Hv. simpl in Hv.
        destruct (IHr cr eq_refl G2) as [vs [Hs Ds]].
        exists (v :: vs). split; [constructor; assumption|]. simpl. rewrite Dv, Ds. reflexivity. }
    destruct X as [vs [Hs Ds]]. rewrite (collect_oks _ _ Hs). simpl. exists (VList vs). split; [reflexivity|].
    rewrite dump_list, Ds. reflexivity.
  - rewrite cd_nonnull in C. simpl in G. simpl parse_input_field_type.
    apply (IH false n cv k LE G); [discriminate | exact C].
Qed.

Lemma rtv_obj kv : Forall (fun p => RTV (snd p)) kv -> RTV (CObj kv).
Proof.
  intros FA. unfold RTV. intros t; induction t as [nm|t IH|t IH]; intros nb n cv k LE G NB C.
  - simpl in G. rewrite cd_named_obj in C. pose proof (kind_of_lookup s nm) as KL.
    destruct (kind_of s nm) as [| | | | | |vals|fs|] eqn:K; try discriminate.
    apply andb_true_iff in G as [G1 G2]. rewrite forallb_forall in G1, G2.
    destruct n as [|n']; [discriminate|]. destruct k as [|k']; [lia|]. assert (LE' : n' <= k') by lia.
    destruct (fields_with (fun k0 => lookup k0 kv) (coerced_default n' s) (coerced_default n' s) fs) as [r|] eqn:FW;
      [|discriminate]. inversion C; subst cv.
    pose proof (schema_ok_input snake s nm fs OK KL) as NOK.
    set (kvj := map (fun p => (fst p, json_of_cvalue (snd p))) kv).
    assert (KK : known_keys fs kvj = true).
    { unfold known_keys, kvj. apply forallb_forall. intros p Hp. apply in_map_iff in Hp as [p0 [<- Hp0]]. simpl.
      specialize (G1 p0 Hp0). destruct (find_field (fst p0) fs) as [g|] eqn:FF; [|discriminate].
      destruct (find_field_some _ _ _ FF) as [Hin Eg]. apply mem_In. rewrite <- Eg. apply in_map. exact Hin. }
    simpl parse_input_field_type. unfold leaf. rewrite K. simpl fst.
    rewrite validate_opt_if by (intros _; discriminate). simpl json_of_cvalue. fold kvj.
    rewrite validate_class. unfold E at 1. simpl e_classes. unfold gen_classes.
    rewrite (classes_lookup s cs snake s nm fs KL). simpl c_fields. rewrite (effective_gen s cs snake fs NOK).
    rewrite map_map.
    assert (X : forall l r', incl l fs ->
              fields_with (fun k0 => lookup k0 kv) (coerced_default n' s) (coerced_default n' s) l = Some r' ->
              exists vs, Forall2 (fun rs x => rs = Ok x)
                           (map (fun f => field_result k' E kvj (gen_field s cs snake fs f)) l) vs
                         /\ map_opt entry_dump vs = Some (map (fun p => (fst p, json_of_cvalue (snd p))) r')).
    { induction l as [|f l IHl]; intros r' INC FWl.
      - simpl in FWl. inversion FWl. exists []. split; [constructor | reflexivity].
      - assert (Hf : In f fs) by (apply INC; left; reflexivity).
        assert (INC' : incl l fs) by (intros x Hx; apply INC; right; exact Hx).
        destruct (lookup_mem _ _ (G2 f Hf)) as [x Lx].
        simpl in FWl. rewrite Lx in FWl.
        destruct (coerced_default n' s (i_type f) x) as [vc|] eqn:Cx; [|discriminate].
        destruct (fields_with (fun k0 => lookup k0 kv) (coerced_default n' s) (coerced_default n' s) l) as [rl|] eqn:Fl;
          [|discriminate]. inversion FWl; subst r'.
        destruct (IHl rl INC' eq_refl) as [vs [Hs Ds]].
        pose proof (lookup_in _ _ _ Lx) as INx.
        pose proof (G1 _ INx) as Gx. simpl in Gx. rewrite (find_field_self snake fs f NOK Hf) in Gx.
        rewrite Forall_forall in FA. pose proof (FA _ INx) as Px. simpl in Px.
        destruct (Px (i_type f) true n' vc k' LE' Gx ltac:(discriminate) Cx) as [v [Hv Dv]].
        exists ((p_name (gen_field s cs snake fs f), (i_name f, v)) :: vs). split.
        + constructor; [|exact Hs]. unfold field_result.
          rewrite (field_input_gen s cs snake fs kvj f NOK KK Hf). unfold kvj. rewrite jlookup_map, Lx. simpl.
          rewrite gen_field_ann, Hv. unfold keep. simpl. unfold wire_of. rewrite gen_field_wire. reflexivity.
        + simpl. unfold entry_dump at 1. simpl. rewrite Dv. simpl. rewrite Ds. reflexivity. }
    destruct (X fs r (incl_refl fs) FW) as [vs [Hs Ds]].
    rewrite (collect_oks _ _ Hs). simpl. eexists. split; [reflexivity|]. rewrite dump_model, Ds. reflexivity.
  - simpl in G. discriminate.
  - rewrite cd_nonnull in C. simpl in G. simpl parse_input_field_type.
    apply (IH false n cv k LE G); [discriminate | exact C].
Qed.

Theorem validate_roundtrip : forall lit, RTV lit.
Proof.
  apply cvalue_ind2; intros;
    try (apply rtv_leaf; [discriminate | intros; discriminate | intros; discriminate]).
  - apply rtv_null.
  - apply rtv_list; assumption.
  - apply rtv_obj; assumption.
Qed.
End ValueMode.

(* ---------- stage 3: the emitted expression (top level / inside list defaults) ---------- *)
Section Roundtrip.
Variables (s : schema) (cs : customs) (snake : bool).
Hypothesis OK : schema_ok snake s = true.
Let E := env_of s cs snake.
Let ftn t := snd (parse_input_field_type s cs t true).

Definition RT (lit : cvalue) : Prop :=
  forall t n cv k, n < k -> good_default s lit t = true -> coerced_default n s t lit = Some cv ->
  exists v, eval k E (const_value_node (ftn t) lit true false) = Ok v /\ dump v = Some (json_of_cvalue cv).

Lemma good_named_not_input nm lit : leaf_good s nm lit = true ->
  match kind_of s nm with KInput _ => False | _ => True end.
Proof. unfold leaf_good. destruct (kind_of s nm); auto. destruct lit; discriminate. Qed.

Ltac scalar_case :=
  intros t; induction t as [nm|t IH|t IH]; intros n cv k LT G C;
  [ simpl in G;
    pose proof (good_named_not_input nm _ G) as NI;
    rewrite cd_named_leaf in C by (try discriminate; exact NI);
    simpl const_value_node; rewrite eval_const_eq; eexists; split; [reflexivity|];
    unfold leaf_good in G; unfold leaf_default in C;
    destruct (kind_of s nm); try discriminate; simpl in *;
    try (rewrite G in C); inversion C; reflexivity
  | simpl in G; discriminate
  | simpl in G; rewrite cd_nonnull in C;
    destruct (IH n cv k LT G C) as [v [H1 H2]]; exists v; split; [|exact H2];
    unfold ftn in *; rewrite ftn_nonnull; exact H1 ].

Lemma rt_int z : RT (CInt z). Proof. unfold RT. scalar_case. Qed.
Lemma rt_float x : RT (CFloat x). Proof. unfold RT. scalar_case. Qed.
Lemma rt_str x : RT (CStr x). Proof. unfold RT. scalar_case. Qed.
Lemma rt_bool b : RT (CBool b). Proof. unfold RT. scalar_case. Qed.

Lemma rt_null : RT CNull.
Proof.
  unfold RT. intros t; induction t as [nm|t IH|t IH]; intros n cv k LT G C.
  - simpl. rewrite eval_const_eq. exists VNone. split; [reflexivity|].
    destruct n; simpl in C; inversion C; reflexivity.
  - simpl. rewrite eval_const_eq. exists VNone. split; [reflexivity|].
    rewrite cd_list in C. inversion C; reflexivity.
  - simpl in G. discriminate.
Qed.

Lemma rt_enum v : RT (CEnum v).
Proof.
  unfold RT. intros t; induction t as [nm|t IH|t IH]; intros n cv k LT G C.
  - simpl in G. pose proof (good_named_not_input nm _ G) as NI.
    rewrite cd_named_leaf in C by (try discriminate; exact NI).
    unfold leaf_good in G. unfold leaf_default in C. pose proof (kind_of_lookup s nm) as KL.
    destruct (kind_of s nm) as [| | | | | |vals|fs|] eqn:K; try discriminate.
    repeat (apply andb_true_iff in G as [G ?]). rewrite G in C. inversion C; subst cv.
    simpl const_value_node. rewrite eval_name_eq. unfold ftn. rewrite (ftn_enum s cs nm vals K).
    unfold eval_name. change (nm ++ "." ++ member_name v) with (nm ++ String "."%char (member_name v)).
    rewrite split_dot_app by assumption.
    match goal with H : negb (nm =? "") = true |- _ => apply negb_true_iff in H; rewrite H end.
    rewrite member_name_not_kw.
    simpl. unfold E. simpl e_enums. rewrite (enums_lookup s nm vals KL).
    destruct (find_member (member_name v) vals) as [v'|]; [|discriminate].
    match goal with H : (v' =? v) = true |- _ => apply String.eqb_eq in H; subst v' end.
    eexists. split; reflexivity.
  - simpl in G. discriminate.
  - simpl in G. rewrite cd_nonnull in C.
    destruct (IH n cv k LT G C) as [x [H1 H2]]. exists x. split; [|exact H2].
    unfold ftn in *. rewrite ftn_nonnull. exact H1.
Qed.

Lemma rt_list l : Forall RT l -> RT (CList l).
Proof.
  intros FA. unfold RT. intros t; induction t as [nm|t IH|t IH]; intros n cv k LT G C.
  - simpl in G. unfold leaf_good in G. destruct (kind_of s nm); discriminate.
  - simpl in G. rewrite cd_list in C. destruct n as [|n']; [discriminate|].
    assert (LT' : n' < k) by lia.
    destruct (map_opt (coerced_default n' s t) l) as [cvs|] eqn:M; [|discriminate]. inversion C; subst cv.
    simpl const_value_node. rewrite eval_list_eq. rewrite map_map.
    unfold ftn. rewrite ftn_list. fold (ftn t).
    assert (X : exists vs, Forall2 (fun r x => r = Ok x)
                  (map (fun x => eval k E (const_value_node (ftn t) x true false)) l) vs
                /\ map_opt dump vs = Some (map json_of_cvalue cvs)).
    { clear C IH LT. revert cvs M G. induction FA as [|h r Hh Hr IHr]; intros cvs M G.
      - simpl in M. inversion M. exists []. split; [constructor | reflexivity].
      - simpl in M, G. apply andb_true_iff in G as [G1 G2].
        destruct (coerced_default n' s t h) as [c|] eqn:Ch; [|discriminate].
        destruct (map_opt (coerced_default n' s t) r) as [cr|] eqn:Mr; [|discriminate]. inversion M; subst cvs.
        destruct (Hh t n' c k LT' G1 Ch) as [v [Hv Dv]].
        destruct (IHr cr eq_refl G2) as [vs [Hs Ds]].
        exists (v :: vs). split; [constructor; assumption|]. simpl. rewrite Dv, Ds. reflexivity. }
    destruct X as [vs [Hs Ds]]. rewrite (sequence_oks _ _ Hs). simpl res_map. exists (VList vs).
    split; [reflexivity|]. rewrite dump_list, Ds. reflexivity.
  - simpl in G. rewrite cd_nonnull in C.
    destruct (IH n cv k LT G C) as [x [H1 H2]]. exists x. split; [|exact H2].
    unfold ftn in *. rewrite ftn_nonnull. exact H1.
Qed.

(* an object literal: globals()[T].model_validate({...}) — stage 1 then stage 2 *)
Lemma rt_obj kv : RT (CObj kv).
Proof.
  unfold RT. intros t; induction t as [nm|t IH|t IH]; intros n cv k LT G C.
  - simpl in G. pose proof G as G0. destruct (kind_of s nm) as [| | | | | |vals|fs|] eqn:K; try discriminate.
    assert (FT : ftn (TNamed nm) = nm) by (unfold ftn; simpl; unfold leaf; rewrite K; reflexivity).
    rewrite FT. change (const_value_node nm (CObj kv) true false)
      with (PValidate nm (const_value_node nm (CObj kv) true true)).
    rewrite eval_validate_eq. destruct (dict_expr_denotes E nm (CObj kv) k) as [vd [Hd Jd]]. rewrite Hd, Jd.
    destruct k as [|k']; [lia|].
    assert (GV : good_value s (CObj kv) (TNonNull (TNamed nm)) = true) by (simpl; rewrite K; exact G0).
    assert (CV : coerced_default n s (TNonNull (TNamed nm)) (CObj kv) = Some cv) by (rewrite cd_nonnull; exact C).
    destruct (validate_roundtrip s cs snake OK (CObj kv) (TNonNull (TNamed nm)) true n cv k'
                ltac:(lia) GV ltac:(discriminate) CV) as [v [Hv Dv]].
    simpl parse_input_field_type in Hv. unfold leaf in Hv. rewrite K in Hv. simpl in Hv.
    exists v. split; [exact Hv | exact Dv].
  - simpl in G. discriminate.
  - simpl in G. rewrite cd_nonnull in C.
    destruct (IH n cv k LT G C) as [x [H1 H2]]. exists x. split; [|exact H2].
    unfold ftn in *. rewrite ftn_nonnull. exact H1.
Qed.

Lemma roundtrip_nested : forall lit, RT lit.
Proof.
  apply cvalue_ind2; [apply rt_int|apply rt_float|apply rt_str|apply rt_bool|apply rt_null|apply rt_enum
                     |apply rt_list|intros; apply rt_obj].
Qed.

(* the top-level default: a bare constant/name, or Field(default_factory=lambda: <the same expression>) *)
Lemma top_level_body ft lit :
  default_body (rhs_default (Some (const_value_node ft lit false false))) = Some (const_value_node ft lit true false).
Proof. destruct lit; reflexivity. Qed.

Theorem default_roundtrip fs f lit n cv k :
  emitted_default s f = Some lit -> good_default s lit (i_type f) = true ->
  coerced_default n s (i_type f) lit = Some cv -> n < k ->
  exists b v, default_body (rhs_default (p_value (gen_field s cs snake fs f))) = Some b /\
              eval k E b = Ok v /\ dump v = Some (json_of_cvalue cv).
Proof.
  intros D G C LT. rewrite gen_field_default. unfold field_default_value. rewrite D.
  rewrite top_level_body.
  destruct (roundtrip_nested lit (i_type f) n cv k LT G C) as [v [H1 H2]].
  eexists. exists v. split; [reflexivity|]. split; [exact H1 | exact H2].
Qed.
End Roundtrip.

(* ====================================================================================================
   Object defaults that OMIT fields.  The instance then carries the nested class's own defaults (or None),
   the coerced schema default carries the nested schema defaults (or no key at all): equal modulo
   "absent == null", which is what the server sees (an explicit null and an absent key coerce alike for a
   nullable field without default).  strip_nulls removes null-valued keys from objects, recursively.
   ==================================================================================================== *)
Definition is_null (j : json) : bool := match j with JNull => true | _ => false end.

Fixpoint strip_nulls (j : json) : json :=
  match j with
  | JArr l => JArr (map strip_nulls l)
  | JObj kv =>
      JObj ((fix go (kv : list (string * json)) : list (string * json) :=
               match kv with
               | [] => []
               | (k, v) :: r => if is_null v then go r else (k, strip_nulls v) :: go r
               end) kv)
  | j => j
  end.

Fixpoint strip_kv (kv : list (string * json)) : list (string * json) :=
  match kv with
  | [] => []
  | (k, v) :: r => if is_null v then strip_kv r else (k, strip_nulls v) :: strip_kv r
  end.

Lemma strip_obj kv : strip_nulls (JObj kv) = JObj (strip_kv kv).
Proof. reflexivity. Qed.

Lemma strip_null_iff j : strip_nulls j = JNull <-> j = JNull.
Proof. destruct j; simpl; split; intros H; try discriminate; auto. Qed.

Lemma strip_is_null j : is_null (strip_nulls j) = is_null j.
Proof. destruct j; reflexivity. Qed.

Lemma strip_kv_cons k a b ra rb : strip_nulls a = strip_nulls b -> strip_kv ra = strip_kv rb ->
  strip_kv ((k, a) :: ra) = strip_kv ((k, b) :: rb).
Proof.
  intros Hab Hr. simpl. rewrite <- (strip_is_null a), <- (strip_is_null b), Hab, Hr. reflexivity.
Qed.

Fixpoint no_obj (lit : cvalue) : bool :=
  match lit with
  | CObj _ => false
  | CList l => forallb no_obj l
  | _ => true
  end.

(* a literal of a proved object-free shape already has the shape of its type: the repair e1f804e leaves it alone *)
Lemma coerce_lit_simple s : forall lit t, good_default s lit t = true -> no_obj lit = true ->
  coerce_lit s lit t = lit.
Proof.
  apply (cvalue_ind2 (fun lit => forall t, good_default s lit t = true -> no_obj lit = true ->
                                  coerce_lit s lit t = lit)).
  - intros z t. induction t as [nm|t IH|t IH]; simpl; intros G N.
    + unfold leaf_good in G. destruct (kind_of s nm); try reflexivity. discriminate.
    + discriminate.
    + apply IH; assumption.
  - intros x t. induction t as [nm|t IH|t IH]; simpl; intros G N; [reflexivity | discriminate | apply IH; assumption].
  - intros x t. induction t as [nm|t IH|t IH]; simpl; intros G N; [reflexivity | discriminate | apply IH; assumption].
  - intros b t. induction t as [nm|t IH|t IH]; simpl; intros G N; [reflexivity | discriminate | apply IH; assumption].
  - intros t. induction t as [nm|t IH|t IH]; simpl; intros G N; [reflexivity | reflexivity | discriminate].
  - intros v t. induction t as [nm|t IH|t IH]; simpl; intros G N; [reflexivity | discriminate | apply IH; assumption].
  - intros l FA t. induction t as [nm|t IH|t IH]; simpl; intros G N.
    + reflexivity.
    + f_equal. rewrite <- (map_id l) at 2. apply map_ext_in. intros x Hx.
      rewrite forallb_forall in G, N. rewrite Forall_forall in FA. apply (FA x Hx t (G x Hx) (N x Hx)).
    + apply IH; assumption.
  - intros kv _ t G N. simpl in N. discriminate.
Qed.

(* a field an object literal may leave out: nullable without default, or with a default of a shape the
   expression theorem covers that contains no object (its evaluation needs no fuel) *)
Definition omitted_ok (s : schema) (f : ifdef) : bool :=
  match i_default f with
  | None => negb (is_nonnull (i_type f))
  | Some d => good_default s d (i_type f) && no_obj d
  end.

Fixpoint good_value_w (s : schema) (lit : cvalue) : gtype -> bool :=
  fix go (t : gtype) : bool :=
    match t with
    | TNonNull t' => match lit with CNull => false | _ => go t' end
    | TList t' =>
        match lit with
        | CNull => true
        | CList l => forallb (fun x => good_value_w s x t') l
        | _ => false
        end
    | TNamed nm =>
        match lit with
        | CNull => true
        | CObj kv =>
            match kind_of s nm with
            | KInput fs =>
                forallb (fun p => match find_field (fst p) fs with
                                  | Some f => good_value_w s (snd p) (i_type f)
                                  | None => false end) kv
                && forallb (fun f => mem (i_name f) (map fst kv) || omitted_ok s f) fs
            | _ => false
            end
        | _ => leaf_good_v s nm lit
        end
    end.

Fixpoint good_default_w (s : schema) (lit : cvalue) : gtype -> bool :=
  fix go (t : gtype) : bool :=
    match t with
    | TNonNull t' => match lit with CNull => false | _ => go t' end
    | TList t' =>
        match lit with
        | CNull => true
        | CList l => forallb (fun x => good_default_w s x t') l
        | _ => false
        end
    | TNamed nm =>
        match lit with
        | CNull => true
        | CObj _ => good_value_w s lit (TNamed nm)
        | _ => leaf_good s nm lit
        end
    end.

(* evaluation of an object-free default expression does not depend on the fuel *)
Lemma eval_no_obj_fuel E ft : forall lit, no_obj lit = true ->
  forall nl no k k', eval k E (const_value_node ft lit nl no) = eval k' E (const_value_node ft lit nl no).
Proof.
  apply (cvalue_ind2 (fun lit => no_obj lit = true -> forall nl no k k',
           eval k E (const_value_node ft lit nl no) = eval k' E (const_value_node ft lit nl no))); intros.
  1-5: simpl; rewrite !eval_const_eq; reflexivity.
  - simpl. destruct no; [rewrite !eval_const_eq | rewrite !eval_name_eq]; reflexivity.
  - assert (L : forall k0, eval k0 E (PList (map (fun x => const_value_node ft x true no) l))
                 = res_map VList (sequence (map (fun x => eval k E (const_value_node ft x true no)) l))).
    { intros k0. rewrite eval_list_eq, map_map. f_equal. f_equal. simpl in H0.
      rewrite forallb_forall in H0. rewrite Forall_forall in H.
      apply map_ext_in. intros x Hx. apply (H x Hx (H0 x Hx)). }
    simpl. destruct nl.
    + rewrite (L k), (L k'). reflexivity.
    + unfold default_factory. destruct k, k'; reflexivity.
  - simpl in H0. discriminate.
Qed.

Lemma good_value_w_leaf s lit : (forall kv, lit <> CObj kv) -> (forall l, lit <> CList l) ->
  forall t, good_value_w s lit t = good_value s lit t.
Proof.
  intros NO NL. induction t as [nm|t IH|t IH]; simpl.
  - destruct lit; try reflexivity. exfalso. eapply NO. reflexivity.
  - destruct lit; try reflexivity. exfalso. eapply NL. reflexivity.
  - destruct lit; try exact IH. reflexivity.
Qed.

Section ValueModeW.
Variables (s : schema) (cs : customs) (snake : bool).
Hypothesis OK : schema_ok snake s = true.
Let E := env_of s cs snake.

Definition RTVW (lit : cvalue) : Prop :=
  forall t nb n cv k, n <= k -> good_value_w s lit t = true -> (nb = false -> lit <> CNull) ->
  coerced_default n s t lit = Some cv ->
  exists v jd, validate k E (fst (parse_input_field_type s cs t nb)) (json_of_cvalue lit) = Ok v /\
               dump v = Some jd /\ strip_nulls jd = strip_nulls (json_of_cvalue cv).

Lemma rtvw_leaf lit : (forall kv, lit <> CObj kv) -> (forall l, lit <> CList l) -> RTVW lit.
Proof.
  intros NO NL. unfold RTVW. intros t nb n cv k LE G NB C.
  rewrite (good_value_w_leaf s lit NO NL) in G.
  destruct (validate_roundtrip s cs snake OK lit t nb n cv k LE G NB C) as [v [Hv Dv]].
  exists v, (json_of_cvalue cv). auto.
Qed.

Lemma rtvw_list l : Forall RTVW l -> RTVW (CList l).
Proof.
  intros FA. unfold RTVW. intros t; induction t as [nm|t IH|t IH]; intros nb n cv k LE G NB C.
  - simpl in G. unfold leaf_good_v in G. destruct (kind_of s nm); discriminate.
  - simpl in G. rewrite cd_list in C. destruct n as [|n']; [discriminate|].
    destruct k as [|k']; [lia|]. assert (LE' : n' <= k') by lia.
    destruct (map_opt (coerced_default n' s t) l) as [cvs|] eqn:M; [|discriminate]. inversion C; subst cv.
    simpl parse_input_field_type. destruct (parse_input_field_type s cs t true) as [sl tn] eqn:PE. simpl fst.
    rewrite validate_opt_if by (intros _; discriminate). simpl json_of_cvalue. rewrite validate_list, map_map.
    assert (X : exists vs js, Forall2 (fun r x => r = Ok x)
                  (map (fun x => validate k' E sl (json_of_cvalue x)) l) vs
                /\ map_opt dump vs = Some js /\ map strip_nulls js = map strip_nulls (map json_of_cvalue cvs)).
    { clear C IH NB LE. revert cvs M G. induction FA as [|h r Hh Hr IHr]; intros cvs M G.
      - simpl in M. inversion M. exists [], []. repeat split; constructor.
      - simpl in M, G. apply andb_true_iff in G as [G1 G2].
        destruct (coerced_default n' s t h) as [c|] eqn:Ch; [|discriminate].
        destruct (map_opt (coerced_default n' s t) r) as [cr|] eqn:Mr; [|discriminate]. inversion M; subst cvs.
        destruct (Hh t true n' c k' LE' G1 ltac:(discriminate) Ch) as [v [jd [Hv [Dv Sv]]]]. rewrite PE in Hv. simpl in Hv.
        destruct (IHr cr eq_refl G2) as [vs [js [Hs [Ds Ss]]]].
        exists (v :: vs), (jd :: js). split; [constructor; assumption|]. split.
        + simpl. rewrite Dv, Ds. reflexivity.
        + simpl. rewrite Sv, Ss. reflexivity. }
    destruct X as [vs [js [Hs [Ds Ss]]]]. rewrite (collect_oks _ _ Hs). simpl.
    exists (VList vs), (JArr js). split; [reflexivity|]. split.
    + rewrite dump_list, Ds. reflexivity.
    + simpl. rewrite Ss. reflexivity.
  - rewrite cd_nonnull in C. simpl in G. simpl parse_input_field_type.
    apply (IH false n cv k LE G); [discriminate | exact C].
Qed.

(* what validate does for a field the object leaves out *)
Lemma field_result_omitted fs k' kvj f : 
  field_input (gen_field s cs snake fs f) kvj = None ->
  field_result k' E kvj (gen_field s cs snake fs f) =
  match default_body (rhs_default (p_value (gen_field s cs snake fs f))) with
  | Some b => keep (gen_field s cs snake fs f) (eval k' E b)
  | None => Err EValidation
  end.
Proof.
  intros H. unfold field_result. rewrite H. destruct (rhs_default (p_value (gen_field s cs snake fs f))); reflexivity.
Qed.

Lemma rtvw_obj kv : Forall (fun p => RTVW (snd p)) kv -> RTVW (CObj kv).
Proof.
  intros FA. unfold RTVW. intros t; induction t as [nm|t IH|t IH]; intros nb n cv k LE G NB C.
  - simpl in G. rewrite cd_named_obj in C. pose proof (kind_of_lookup s nm) as KL.
    destruct (kind_of s nm) as [| | | | | |vals|fs|] eqn:K; try discriminate.
    apply andb_true_iff in G as [G1 G2]. rewrite forallb_forall in G1, G2.
    destruct n as [|n']; [discriminate|]. destruct k as [|k']; [lia|]. assert (LE' : n' <= k') by lia.
    destruct (fields_with (fun k0 => lookup k0 kv) (coerced_default n' s) (coerced_default n' s) fs) as [r|] eqn:FW;
      [|discriminate]. inversion C; subst cv.
    pose proof (schema_ok_input snake s nm fs OK KL) as NOK.
    set (kvj := map (fun p => (fst p, json_of_cvalue (snd p))) kv).
    assert (KK : known_keys fs kvj = true).
    { unfold known_keys, kvj. apply forallb_forall. intros p Hp. apply in_map_iff in Hp as [p0 [<- Hp0]]. simpl.
      specialize (G1 p0 Hp0). destruct (find_field (fst p0) fs) as [g|] eqn:FF; [|discriminate].
      destruct (find_field_some _ _ _ FF) as [Hin Eg]. apply mem_In. rewrite <- Eg. apply in_map. exact Hin. }
    simpl parse_input_field_type. unfold leaf. rewrite K. simpl fst.
    rewrite validate_opt_if by (intros _; discriminate). simpl json_of_cvalue. fold kvj.
    rewrite validate_class. unfold E at 1. simpl e_classes. unfold gen_classes.
    rewrite (classes_lookup s cs snake s nm fs KL). simpl c_fields. rewrite (effective_gen s cs snake fs NOK).
    rewrite map_map.
    assert (X : forall l r', incl l fs ->
              fields_with (fun k0 => lookup k0 kv) (coerced_default n' s) (coerced_default n' s) l = Some r' ->
              exists vs jkv, Forall2 (fun rs x => rs = Ok x)
                           (map (fun f => field_result k' E kvj (gen_field s cs snake fs f)) l) vs
                         /\ map_opt entry_dump vs = Some jkv
                         /\ strip_kv jkv = strip_kv (map (fun p => (fst p, json_of_cvalue (snd p))) r')).
    { induction l as [|f l IHl]; intros r' INC FWl.
      - simpl in FWl. inversion FWl. exists [], []. repeat split; constructor.
      - assert (Hf : In f fs) by (apply INC; left; reflexivity).
        assert (INC' : incl l fs) by (intros x Hx; apply INC; right; exact Hx).
        assert (FI : field_input (gen_field s cs snake fs f) kvj = option_map json_of_cvalue (lookup (i_name f) kv)).
        { rewrite (field_input_gen s cs snake fs kvj f NOK KK Hf). unfold kvj. apply jlookup_map. }
        simpl in FWl. destruct (lookup (i_name f) kv) as [x|] eqn:Lx.
        + (* the literal gives the field *)
          destruct (coerced_default n' s (i_type f) x) as [vc|] eqn:Cx; [|discriminate].
          destruct (fields_with (fun k0 => lookup k0 kv) (coerced_default n' s) (coerced_default n' s) l) as [rl|] eqn:Fl;
            [|discriminate]. inversion FWl; subst r'.
          destruct (IHl rl INC' eq_refl) as [vs [jkv [Hs [Ds Ss]]]].
          pose proof (lookup_in _ _ _ Lx) as INx.
          pose proof (G1 _ INx) as Gx. simpl in Gx. rewrite (find_field_self snake fs f NOK Hf) in Gx.
          rewrite Forall_forall in FA. pose proof (FA _ INx) as Px. simpl in Px.
          destruct (Px (i_type f) true n' vc k' LE' Gx ltac:(discriminate) Cx) as [v [jd [Hv [Dv Sv]]]].
          exists ((p_name (gen_field s cs snake fs f), (i_name f, v)) :: vs), ((i_name f, jd) :: jkv). split; [|split].
          * constructor; [|exact Hs]. unfold field_result. rewrite FI. simpl.
            rewrite gen_field_ann, Hv. unfold keep. simpl. unfold wire_of. rewrite gen_field_wire. reflexivity.
          * simpl. unfold entry_dump at 1. simpl. rewrite Dv. simpl. rewrite Ds. reflexivity.
          * simpl map. apply strip_kv_cons; assumption.
        + (* the literal leaves the field out *)
          pose proof (G2 f Hf) as Gf. apply orb_true_iff in Gf as [Gf|Gf].
          { exfalso. destruct (lookup_mem _ _ Gf) as [x Lx']. congruence. }
          unfold omitted_ok in Gf.
          assert (FR := field_result_omitted fs k' kvj f ltac:(rewrite FI; reflexivity)).
          rewrite gen_field_default in FR. unfold field_default_value, emitted_default in FR.
          destruct (i_default f) as [d|] eqn:D; simpl option_map in FR.
          * (* schema default: the class default evaluates to its coerced value *)
            apply andb_true_iff in Gf as [Gd Nd]. rewrite (coerce_lit_simple s d (i_type f) Gd Nd) in FR.
            destruct (coerced_default n' s (i_type f) d) as [vc|] eqn:Cd; [|discriminate].
            destruct (fields_with (fun k0 => lookup k0 kv) (coerced_default n' s) (coerced_default n' s) l) as [rl|] eqn:Fl;
              [|discriminate]. inversion FWl; subst r'.
            destruct (IHl rl INC' eq_refl) as [vs [jkv [Hs [Ds Ss]]]].
            rewrite top_level_body in FR.
            destruct (roundtrip_nested s cs snake OK d (i_type f) n' vc (S n') ltac:(lia) Gd Cd) as [v [Hv Dv]].
            rewrite (eval_no_obj_fuel E _ d Nd true false k' (S n')) in FR. fold E in Hv. rewrite Hv in FR.
            exists ((p_name (gen_field s cs snake fs f), (i_name f, v)) :: vs), ((i_name f, json_of_cvalue vc) :: jkv).
            split; [|split].
            -- constructor; [|exact Hs]. rewrite FR. unfold keep. simpl. unfold wire_of. rewrite gen_field_wire. reflexivity.
            -- simpl. unfold entry_dump at 1. simpl. rewrite Dv. simpl. rewrite Ds. reflexivity.
            -- simpl map. apply strip_kv_cons; [reflexivity | exact Ss].
          * (* nullable without default: None on the instance, no key in the coerced default *)
            apply negb_true_iff in Gf. rewrite Gf in FWl, FR. simpl in FR.
            destruct (IHl r' INC' FWl) as [vs [jkv [Hs [Ds Ss]]]].
            rewrite eval_const_eq in FR.
            exists ((p_name (gen_field s cs snake fs f), (i_name f, VNone)) :: vs), ((i_name f, JNull) :: jkv).
            split; [|split].
            -- constructor; [|exact Hs]. rewrite FR. unfold keep. simpl. unfold wire_of. rewrite gen_field_wire. reflexivity.
            -- simpl. rewrite Ds. reflexivity.
            -- simpl. exact Ss. }
    destruct (X fs r (incl_refl fs) FW) as [vs [jkv [Hs [Ds Ss]]]].
    rewrite (collect_oks _ _ Hs). simpl. eexists. exists (JObj jkv). split; [reflexivity|]. split.
    + rewrite dump_model, Ds. reflexivity.
    + change (json_of_cvalue (CObj r)) with (JObj (map (fun p => (fst p, json_of_cvalue (snd p))) r)).
      rewrite !strip_obj. rewrite Ss. reflexivity.
  - simpl in G. discriminate.
  - rewrite cd_nonnull in C. simpl in G. simpl parse_input_field_type.
    apply (IH false n cv k LE G); [discriminate | exact C].
Qed.

Theorem validate_roundtrip_modulo_null : forall lit, RTVW lit.
Proof.
  apply cvalue_ind2; intros;
    try (apply rtvw_leaf; [intros; discriminate | intros; discriminate]).
  - apply rtvw_list; assumption.
  - apply rtvw_obj; assumption.
Qed.
End ValueModeW.

Lemma good_default_w_leaf s lit : (forall kv, lit <> CObj kv) -> (forall l, lit <> CList l) ->
  forall t, good_default_w s lit t = good_default s lit t.
Proof.
  intros NO NL. induction t as [nm|t IH|t IH]; simpl.
  - destruct lit; try reflexivity. exfalso. eapply NO. reflexivity.
  - destruct lit; try reflexivity. exfalso. eapply NL. reflexivity.
  - destruct lit; try exact IH. reflexivity.
Qed.

Section RoundtripW.
Variables (s : schema) (cs : customs) (snake : bool).
Hypothesis OK : schema_ok snake s = true.
Let E := env_of s cs snake.
Let ftn t := snd (parse_input_field_type s cs t true).

Definition RTW (lit : cvalue) : Prop :=
  forall t n cv k, n < k -> good_default_w s lit t = true -> coerced_default n s t lit = Some cv ->
  exists v jd, eval k E (const_value_node (ftn t) lit true false) = Ok v /\ dump v = Some jd /\
               strip_nulls jd = strip_nulls (json_of_cvalue cv).

Lemma rtw_leaf lit : (forall kv, lit <> CObj kv) -> (forall l, lit <> CList l) -> RTW lit.
Proof.
  intros NO NL. unfold RTW. intros t n cv k LT G C. rewrite (good_default_w_leaf s lit NO NL) in G.
  destruct (roundtrip_nested s cs snake OK lit t n cv k LT G C) as [v [Hv Dv]].
  exists v, (json_of_cvalue cv). auto.
Qed.

Lemma rtw_list l : Forall RTW l -> RTW (CList l).
Proof.
  intros FA. unfold RTW. intros t; induction t as [nm|t IH|t IH]; intros n cv k LT G C.
  - simpl in G. unfold leaf_good in G. destruct (kind_of s nm); discriminate.
  - simpl in G. rewrite cd_list in C. destruct n as [|n']; [discriminate|].
    assert (LT' : n' < k) by lia.
    destruct (map_opt (coerced_default n' s t) l) as [cvs|] eqn:M; [|discriminate]. inversion C; subst cv.
    simpl const_value_node. rewrite eval_list_eq. rewrite map_map.
    unfold ftn. rewrite ftn_list. fold (ftn t).
    assert (X : exists vs js, Forall2 (fun r x => r = Ok x)
                  (map (fun x => eval k E (const_value_node (ftn t) x true false)) l) vs
                /\ map_opt dump vs = Some js /\ map strip_nulls js = map strip_nulls (map json_of_cvalue cvs)).
    { clear C IH LT. revert cvs M G. induction FA as [|h r Hh Hr IHr]; intros cvs M G.
      - simpl in M. inversion M. exists [], []. repeat split; constructor.
      - simpl in M, G. apply andb_true_iff in G as [G1 G2].
        destruct (coerced_default n' s t h) as [c|] eqn:Ch; [|discriminate].
        destruct (map_opt (coerced_default n' s t) r) as [cr|] eqn:Mr; [|discriminate]. inversion M; subst cvs.
        destruct (Hh t n' c k LT' G1 Ch) as [v [jd [Hv [Dv Sv]]]].
        destruct (IHr cr eq_refl G2) as [vs [js [Hs [Ds Ss]]]].
        exists (v :: vs), (jd :: js). split; [constructor; assumption|]. split.
        + simpl. rewrite Dv, Ds. reflexivity.
        + simpl. rewrite Sv, Ss. reflexivity. }
    destruct X as [vs [js [Hs [Ds Ss]]]]. rewrite (sequence_oks _ _ Hs). simpl res_map.
    exists (VList vs), (JArr js). split; [reflexivity|]. split.
    + rewrite dump_list, Ds. reflexivity.
    + simpl. rewrite Ss. reflexivity.
  - simpl in G. rewrite cd_nonnull in C.
    destruct (IH n cv k LT G C) as [x [jd [H1 H2]]]. exists x, jd. split; [|exact H2].
    unfold ftn in *. rewrite ftn_nonnull. exact H1.
Qed.

Lemma rtw_obj kv : RTW (CObj kv).
Proof.
  unfold RTW. intros t; induction t as [nm|t IH|t IH]; intros n cv k LT G C.
  - simpl in G. pose proof G as G0. destruct (kind_of s nm) as [| | | | | |vals|fs|] eqn:K; try discriminate.
    assert (FT : ftn (TNamed nm) = nm) by (unfold ftn; simpl; unfold leaf; rewrite K; reflexivity).
    rewrite FT. change (const_value_node nm (CObj kv) true false)
      with (PValidate nm (const_value_node nm (CObj kv) true true)).
    rewrite eval_validate_eq. destruct (dict_expr_denotes E nm (CObj kv) k) as [vd [Hd Jd]]. rewrite Hd, Jd.
    destruct k as [|k']; [lia|].
    assert (GV : good_value_w s (CObj kv) (TNonNull (TNamed nm)) = true) by (simpl; rewrite K; exact G0).
    assert (CV : coerced_default n s (TNonNull (TNamed nm)) (CObj kv) = Some cv) by (rewrite cd_nonnull; exact C).
    destruct (validate_roundtrip_modulo_null s cs snake OK (CObj kv) (TNonNull (TNamed nm)) true n cv k'
                ltac:(lia) GV ltac:(discriminate) CV) as [v [jd [Hv Dv]]].
    simpl parse_input_field_type in Hv. unfold leaf in Hv. rewrite K in Hv. simpl in Hv.
    exists v, jd. split; [exact Hv | exact Dv].
  - simpl in G. discriminate.
  - simpl in G. rewrite cd_nonnull in C.
    destruct (IH n cv k LT G C) as [x [jd [H1 H2]]]. exists x, jd. split; [|exact H2].
    unfold ftn in *. rewrite ftn_nonnull. exact H1.
Qed.

Lemma roundtrip_nested_w : forall lit, RTW lit.
Proof.
  apply cvalue_ind2; intros;
    try (apply rtw_leaf; [intros; discriminate | intros; discriminate]).
  - apply rtw_list; assumption.
  - apply rtw_obj.
Qed.

(* the default of a field, for object literals that may omit fields: equal to the coerced schema default
   modulo absent == null *)
Theorem default_roundtrip_modulo_null fs f lit n cv k :
  emitted_default s f = Some lit -> good_default_w s lit (i_type f) = true ->
  coerced_default n s (i_type f) lit = Some cv -> n < k ->
  exists b v jd, default_body (rhs_default (p_value (gen_field s cs snake fs f))) = Some b /\
                 eval k E b = Ok v /\ dump v = Some jd /\
                 strip_nulls jd = strip_nulls (json_of_cvalue cv).
Proof.
  intros D G C LT. rewrite gen_field_default. unfold field_default_value. rewrite D.
  rewrite top_level_body.
  destruct (roundtrip_nested_w lit (i_type f) n cv k LT G C) as [v [jd [H1 [H2 H3]]]].
  eexists. exists v, jd. split; [reflexivity|]. auto.
Qed.
End RoundtripW.

(* ---------- a checkable sufficient condition for defaults_ok (the guard of accepts => validate) ---------- *)
Definition is_some {X} (o : option X) : bool := match o with Some _ => true | None => false end.

Fixpoint lit_depth (lit : cvalue) : nat :=
  match lit with
  | CList l => S (fold_right (fun x a => Nat.max (lit_depth x) a) 0 l)
  | CObj kv => S (fold_right (fun p a => Nat.max (lit_depth (snd p)) a) 0 kv)
  | _ => 0
  end.

(* every schema default is of a proved shape, contains no object literal, and is a valid literal of its type *)
Definition simple_field_default (s : schema) (f : ifdef) : bool :=
  match i_default f with
  | None => true
  | Some d => good_default s d (i_type f) && no_obj d && is_some (coerced_default (S (lit_depth d)) s (i_type f) d)
  end.
Definition simple_defaults (s : schema) : bool :=
  forallb (fun d => match snd d with DInput fs => forallb (simple_field_default s) fs | _ => true end) s.

Lemma effective_incl fs f : In f (effective fs) -> In f fs.
Proof.
  induction fs as [|h r IH]; simpl; [auto|].
  destruct (existsb (fun g => p_name g =? p_name h) r); simpl; intros H; [right; auto|].
  destruct H as [<-|H]; auto.
Qed.

Lemma gen_classes_in s0 cs snake s cl : In cl (gen_classes_of s0 cs snake s) ->
  exists nm fs, In (nm, DInput fs) s /\ cl = gen_class s0 cs snake nm fs.
Proof.
  induction s as [|[k d] r IH]; simpl; [contradiction|].
  destruct d as [|v|fs]; simpl; intros H.
  - destruct (IH H) as [nm [fs [A B]]]. eauto.
  - destruct (IH H) as [nm [fs [A B]]]. eauto.
  - destruct H as [<-|H]; [eauto|]. destruct (IH H) as [nm [fs0 [A B]]]. eauto.
Qed.

Theorem simple_defaults_ok s cs snake : schema_ok snake s = true -> simple_defaults s = true ->
  forall n, defaults_ok n (env_of s cs snake).
Proof.
  intros OK SD n m cl pf e _ Hcl Hpf He. simpl in Hcl. unfold gen_classes in Hcl.
  destruct (gen_classes_in s cs snake s cl Hcl) as [nm [fs [Hin ->]]].
  apply effective_incl in Hpf. simpl in Hpf. apply in_map_iff in Hpf as [f [<- Hf]].
  unfold simple_defaults in SD. rewrite forallb_forall in SD. specialize (SD _ Hin). simpl in SD.
  rewrite forallb_forall in SD. specialize (SD f Hf). unfold simple_field_default in SD.
  assert (B : default_body (rhs_default (p_value (gen_field s cs snake fs f))) = Some e)
    by (destruct He as [-> | ->]; reflexivity).
  rewrite gen_field_default in B. unfold field_default_value, emitted_default in B.
  destruct (i_default f) as [d|]; simpl option_map in B.
  - apply andb_true_iff in SD as [SD CD]. apply andb_true_iff in SD as [GD ND].
    rewrite (coerce_lit_simple s d (i_type f) GD ND) in B.
    destruct (coerced_default (S (lit_depth d)) s (i_type f) d) as [cv|] eqn:C; [|discriminate].
    rewrite top_level_body in B. inversion B; subst e.
    destruct (roundtrip_nested s cs snake OK d (i_type f) (S (lit_depth d)) cv (S (S (lit_depth d))) ltac:(lia) GD C) as [v [Hv _]].
    exists v. rewrite (eval_no_obj_fuel _ _ d ND true false m (S (S (lit_depth d)))). exact Hv.
  - destruct (negb (is_nonnull (i_type f)) || is_opt (fst (parse_input_field_type s cs (i_type f) true)));
      [|discriminate]. simpl in B. inversion B; subst e. exists VNone. apply eval_const_eq.
Qed.
