(* Default literals: the emitted Python default evaluates to the coerced schema default, for literals of the
   shapes the generator handles (scalars, enums, null, nested lists); by induction on the literal. *)
From Coq Require Import List String Ascii ZArith Bool Lia.
From AC Require Import Base.Sexp Base.Json Base.Strs Gql.InSchema Gql.InCoerce
  Model.Names Model.Defaults Model.Inputs Py.PyEval Proofs.InputsP Proofs.AcceptsP.
Import ListNotations.
Local Open Scope string_scope.

Definition no_dot (s : string) : bool := match split_dot s with None => true | Some _ => false end.

(* leaf literals whose emitted expression is right: the literal has exactly the kind of the type (no reliance on
   GraphQL literal coercion) and an enum value is not a Python keyword *)
Definition leaf_good (s : schema) (nm : string) (lit : cvalue) : bool :=
  match kind_of s nm, lit with
  | KInt, CInt z => int32 z
  | KFloat, CInt _ | KFloat, CFloat _ | KString, CStr _ | KBoolean, CBool _ | KID, CStr _ => true
  | KEnum vals, CEnum v =>
      mem v vals && negb (iskeyword (s2l v)) && no_dot nm && negb (nm =? "")
      && match find_member v vals with Some v' => v' =? v | None => false end
  | KScalar, CInt _ | KScalar, CFloat _ | KScalar, CStr _ | KScalar, CBool _ => true
  | _, _ => false
  end.

Fixpoint good_default (s : schema) (lit : cvalue) : gtype -> bool :=
  fix go (t : gtype) : bool :=
    match t with
    | TNonNull t' => match lit with CNull => false | _ => go t' end
    | TList t' =>
        match lit with
        | CNull => true
        | CList l => forallb (fun x => good_default s x t') l
        | _ => false
        end
    | TNamed nm => match lit with CNull => true | _ => leaf_good s nm lit end
    end.

Definition default_body (d : pdefault) : option pyexpr :=
  match d with DRequired => None | DValue e => Some e | DFactory b => Some b end.

(* ---------- induction principle for literals ---------- *)
Lemma cvalue_ind2 (P : cvalue -> Prop) :
  (forall z, P (CInt z)) -> (forall x, P (CFloat x)) -> (forall x, P (CStr x)) -> (forall b, P (CBool b)) ->
  P CNull -> (forall v, P (CEnum v)) ->
  (forall l, Forall P l -> P (CList l)) ->
  (forall kv, Forall (fun p => P (snd p)) kv -> P (CObj kv)) ->
  forall c, P c.
Proof.
  intros H1 H2 H3 H4 H5 H6 H7 H8.
  fix IH 1. intros [z|x|x|b| |v|l|kv].
  - apply H1.
  - apply H2.
  - apply H3.
  - apply H4.
  - apply H5.
  - apply H6.
  - apply H7. induction l as [|h t IHl]; constructor; [apply IH | exact IHl].
  - apply H8. induction kv as [|[k h] t IHl]; constructor; [apply IH | exact IHl].
Qed.

(* ---------- unfolding equations ---------- *)
Lemma cd_nonnull n s t lit :
  coerced_default n s (TNonNull t) lit = match lit with CNull => None | _ => coerced_default n s t lit end.
Proof. destruct n; reflexivity. Qed.

Lemma cd_list n s t lit :
  coerced_default n s (TList t) lit =
  match lit with
  | CNull => Some CNull
  | CList l => match n with 0 => None | S n' => option_map CList (map_opt (coerced_default n' s t) l) end
  | _ => option_map (fun v => CList [v]) (coerced_default n s t lit)
  end.
Proof. destruct n; reflexivity. Qed.

Lemma cd_named_leaf n s nm lit : lit <> CNull -> (forall kv, lit <> CObj kv) ->
  match kind_of s nm with KInput _ => False | _ => True end ->
  coerced_default n s (TNamed nm) lit = leaf_default s nm lit.
Proof.
  intros N O K. destruct n; simpl; destruct lit; try congruence;
    destruct (kind_of s nm); try contradiction; try reflexivity; exfalso; eapply O; reflexivity.
Qed.

Lemma eval_const_eq m E c : eval m E (PConst c) = Ok (eval_const c).
Proof. destruct m; reflexivity. Qed.
Lemma eval_name_eq m E id : eval m E (PName id) = eval_name E id.
Proof. destruct m; reflexivity. Qed.
Lemma eval_list_eq m E l : eval m E (PList l) = res_map VList (sequence (map (eval m E) l)).
Proof. destruct m; reflexivity. Qed.

Lemma dump_list l : dump (VList l) = option_map JArr (map_opt dump l).
Proof.
  simpl. f_equal. induction l as [|h t IH]; simpl; [reflexivity|].
  destruct (dump h); [|reflexivity]. rewrite IH. reflexivity.
Qed.

(* ---------- names ---------- *)
Lemma split_dot_app a b : no_dot a = true -> split_dot (a ++ String "."%char b) = Some (a, b).
Proof.
  unfold no_dot. induction a as [|c r IH]; simpl; [reflexivity|].
  destruct (Ascii.eqb c "."%char) eqn:E; [discriminate|].
  destruct (split_dot r) as [[x y]|] eqn:S; [discriminate|]. intros _. rewrite IH by reflexivity. reflexivity.
Qed.

Lemma ftn_list s cs t : snd (parse_input_field_type s cs (TList t) true) = snd (parse_input_field_type s cs t true).
Proof. simpl. destruct (parse_input_field_type s cs t true). reflexivity. Qed.

Lemma ftn_nonnull s cs t : snd (parse_input_field_type s cs (TNonNull t) true) = snd (parse_input_field_type s cs t true).
Proof. simpl. apply type_name_flag. Qed.

Lemma ftn_enum s cs nm vals : kind_of s nm = KEnum vals -> snd (parse_input_field_type s cs (TNamed nm) true) = nm.
Proof. intros K. simpl. unfold leaf. rewrite K. reflexivity. Qed.

(* object literals are outside the good class at every type *)
Lemma good_obj_false s kv t : good_default s (CObj kv) t = false.
Proof.
  induction t as [nm|t IH|t IH]; simpl; auto.
  unfold leaf_good. destruct (kind_of s nm); reflexivity.
Qed.

Lemma good_named_not_input s nm lit : leaf_good s nm lit = true ->
  match kind_of s nm with KInput _ => False | _ => True end.
Proof. unfold leaf_good. destruct (kind_of s nm); auto. destruct lit; discriminate. Qed.

(* ---------- the round trip, nested form (inside a list the expression is emitted bare) ---------- *)
Section Roundtrip.
Variables (s : schema) (cs : customs) (snake : bool).
Let E := env_of s cs snake.
Let ftn t := snd (parse_input_field_type s cs t true).

Definition RT (lit : cvalue) : Prop :=
  forall t n cv m no, good_default s lit t = true -> coerced_default n s t lit = Some cv ->
  exists v, eval m E (const_value_node (ftn t) lit true no) = Ok v /\ dump v = Some (json_of_cvalue cv).

Ltac scalar_case :=
  intros t; induction t as [nm|t IH|t IH]; intros n cv m no G C;
  [ simpl in G;
    pose proof (good_named_not_input s nm _ G) as NI;
    rewrite cd_named_leaf in C by (try discriminate; exact NI);
    simpl const_value_node; rewrite eval_const_eq; eexists; split; [reflexivity|];
    unfold leaf_good in G; unfold leaf_default in C;
    destruct (kind_of s nm); try discriminate; simpl in *;
    try (rewrite G in C); inversion C; reflexivity
  | simpl in G; discriminate
  | simpl in G; rewrite cd_nonnull in C;
    destruct (IH n cv m no G C) as [v [H1 H2]]; exists v; split; [|exact H2];
    unfold ftn in *; rewrite ftn_nonnull; exact H1 ].

Lemma rt_int z : RT (CInt z). Proof. unfold RT. scalar_case. Qed.
Lemma rt_float x : RT (CFloat x). Proof. unfold RT. scalar_case. Qed.
Lemma rt_str x : RT (CStr x). Proof. unfold RT. scalar_case. Qed.
Lemma rt_bool b : RT (CBool b). Proof. unfold RT. scalar_case. Qed.

Lemma rt_null : RT CNull.
Proof.
  unfold RT. intros t; induction t as [nm|t IH|t IH]; intros n cv m no G C.
  - simpl. rewrite eval_const_eq. exists VNone. split; [reflexivity|].
    destruct n; simpl in C; inversion C; reflexivity.
  - simpl. rewrite eval_const_eq. exists VNone. split; [reflexivity|].
    rewrite cd_list in C. inversion C; reflexivity.
  - simpl in G. discriminate.
Qed.

Lemma rt_enum v : RT (CEnum v).
Proof.
  unfold RT. intros t; induction t as [nm|t IH|t IH]; intros n cv m no G C.
  - simpl in G. pose proof (good_named_not_input s nm _ G) as NI.
    rewrite cd_named_leaf in C by (try discriminate; exact NI).
    unfold leaf_good in G. unfold leaf_default in C. pose proof (kind_of_lookup s nm) as KL.
    destruct (kind_of s nm) as [| | | | | |vals|fs|] eqn:K; try discriminate.
    repeat (apply andb_true_iff in G as [G ?]). rewrite G in C. inversion C; subst cv.
    simpl const_value_node. rewrite eval_name_eq. unfold ftn. rewrite (ftn_enum s cs nm vals K).
    unfold eval_name. change (nm ++ "." ++ v) with (nm ++ String "."%char v). rewrite split_dot_app by assumption.
    match goal with H : negb (nm =? "") = true |- _ => apply negb_true_iff in H; rewrite H end.
    match goal with H : negb (iskeyword _) = true |- _ => apply negb_true_iff in H; rewrite H end.
    simpl. unfold E. simpl e_enums. rewrite (enums_lookup s nm vals KL).
    destruct (find_member v vals) as [v'|]; [|discriminate].
    match goal with H : (v' =? v) = true |- _ => apply String.eqb_eq in H; subst v' end.
    eexists. split; reflexivity.
  - simpl in G. discriminate.
  - simpl in G. rewrite cd_nonnull in C.
    destruct (IH n cv m no G C) as [x [H1 H2]]. exists x. split; [|exact H2].
    unfold ftn in *. rewrite ftn_nonnull. exact H1.
Qed.

Lemma rt_list l : Forall RT l -> RT (CList l).
Proof.
  intros FA. unfold RT. intros t; induction t as [nm|t IH|t IH]; intros n cv m no G C.
  - simpl in G. unfold leaf_good in G. destruct (kind_of s nm); discriminate.
  - simpl in G. rewrite cd_list in C. destruct n as [|n']; [discriminate|].
    destruct (map_opt (coerced_default n' s t) l) as [cvs|] eqn:M; [|discriminate]. inversion C; subst cv.
    simpl const_value_node. rewrite eval_list_eq. rewrite map_map.
    unfold ftn. rewrite ftn_list. fold (ftn t).
    assert (X : exists vs, sequence (map (fun x => eval m E (const_value_node (ftn t) x true no)) l) = Ok vs
                          /\ map_opt dump vs = Some (map json_of_cvalue cvs)).
    { clear C IH. revert cvs M G. induction FA as [|h r Hh Hr IHr]; intros cvs M G.
      - simpl in M. inversion M. exists []. split; reflexivity.
      - simpl in M, G. apply andb_true_iff in G as [G1 G2].
        destruct (coerced_default n' s t h) as [c|] eqn:Ch; [|discriminate].
        destruct (map_opt (coerced_default n' s t) r) as [cr|] eqn:Mr; [|discriminate]. inversion M; subst cvs.
        destruct (Hh t n' c m no G1 Ch) as [v [Hv Dv]].
        destruct (IHr cr eq_refl G2) as [vs [Hs Ds]].
        exists (v :: vs). simpl. rewrite Hv, Hs. simpl. rewrite Dv, Ds. split; reflexivity. }
    destruct X as [vs [Hs Ds]]. rewrite Hs. simpl res_map. exists (VList vs). split; [reflexivity|].
    rewrite dump_list, Ds. reflexivity.
  - simpl in G. rewrite cd_nonnull in C.
    destruct (IH n cv m no G C) as [x [H1 H2]]. exists x. split; [|exact H2].
    unfold ftn in *. rewrite ftn_nonnull. exact H1.
Qed.

Lemma rt_obj kv : RT (CObj kv).
Proof. unfold RT. intros t n cv m no G. rewrite good_obj_false in G. discriminate. Qed.

Lemma roundtrip_nested : forall lit, RT lit.
Proof.
  apply cvalue_ind2; [apply rt_int|apply rt_float|apply rt_str|apply rt_bool|apply rt_null|apply rt_enum
                     |apply rt_list|intros; apply rt_obj].
Qed.

(* the top-level default: a bare constant/name, or Field(default_factory=lambda: [...]) around the same list *)
Lemma top_level_body ft lit t : good_default s lit t = true ->
  default_body (rhs_default (Some (const_value_node ft lit false false))) = Some (const_value_node ft lit true false).
Proof.
  destruct lit; try reflexivity. rewrite good_obj_false. discriminate.
Qed.

Theorem default_roundtrip f lit n cv m :
  i_default f = Some lit -> good_default s lit (i_type f) = true ->
  coerced_default n s (i_type f) lit = Some cv ->
  exists b v, default_body (rhs_default (p_value (gen_field s cs snake f))) = Some b /\
              eval m E b = Ok v /\ dump v = Some (json_of_cvalue cv).
Proof.
  intros D G C. rewrite gen_field_default. unfold field_default_value. rewrite D.
  rewrite (top_level_body _ lit (i_type f) G).
  destruct (roundtrip_nested lit (i_type f) n cv m false G C) as [v [H1 H2]].
  eexists. exists v. split; [reflexivity|]. split; [exact H1 | exact H2].
Qed.
End Roundtrip.
