(* The generated input models accept every value the schema's (canonical-form) input coercion accepts,
   outside finding class F18 (names_ok_fields); and refuse a value lacking a required field. *)
From Coq Require Import List String Ascii ZArith Bool Lia.
From AC Require Import Base.Sexp Base.Json Base.Strs Gql.InSchema Gql.InCoerce
  Model.Names Model.Defaults Model.Inputs Py.PyEval Proofs.InputsP Proofs.FreshP.
Import ListNotations.
Local Open Scope string_scope.

(* ---------- unfolding equations (the outer fixpoints are on the fuel) ---------- *)
Lemma coerce_nonnull n s t j :
  coerce_input n s (TNonNull t) j = match j with JNull => None | _ => coerce_input n s t j end.
Proof. destruct n; reflexivity. Qed.

Lemma coerce_list n s t j :
  coerce_input n s (TList t) j =
  match j with
  | JNull => Some CNull
  | JArr l => match n with 0 => None | S n' => option_map CList (map_opt (coerce_input n' s t) l) end
  | _ => None
  end.
Proof. destruct n; reflexivity. Qed.

Lemma coerce_named n s nm j :
  coerce_input n s (TNamed nm) j =
  match j with
  | JNull => Some CNull
  | _ =>
    match kind_of s nm with
    | KInput fs =>
        match j, n with
        | JObj kv, S n' =>
            if known_keys fs kv then
              option_map CObj (fields_with (fun k => jlookup k kv) (coerce_input n' s) (coerced_default n' s) fs)
            else None
        | _, _ => None
        end
    | _ => leaf_input s nm j
    end
  end.
Proof. destruct n; reflexivity. Qed.

Lemma accepts_opt n E a j : accepts n E (AOpt a) j = match j with JNull => true | _ => accepts n E a j end.
Proof. destruct n; reflexivity. Qed.

Lemma accepts_list n E a j :
  accepts n E (AList a) j =
  match j with
  | JArr l => match n with 0 => false | S n' => forallb (accepts n' E a) l end
  | _ => false
  end.
Proof. destruct n; reflexivity. Qed.

Lemma accepts_class n E c j :
  accepts n E (AClass c) j =
  match j with
  | JObj kv =>
      match n with
      | 0 => false
      | S n' =>
          match find_class c (e_classes E) with
          | None => false
          | Some cl =>
              forallb (fun f => match field_input f kv with
                                | Some v => accepts n' E (p_ann f) v
                                | None => has_default f
                                end) (effective (c_fields cl))
          end
      end
  | _ => false
  end.
Proof. destruct n; reflexivity. Qed.

Lemma accepts_leaf n E a j :
  match a with AOpt _ | AList _ | AClass _ => False | _ => True end ->
  accepts n E a j = leaf_accepts E a j.
Proof. destruct n, a; simpl; intros H; try reflexivity; contradiction. Qed.

Lemma accepts_opt_if n E nb a j : (nb = false -> j <> JNull) ->
  accepts n E (opt_if nb a) j = match j with JNull => true | _ => accepts n E a j end.
Proof.
  intros H. destruct nb; simpl.
  - apply accepts_opt.
  - destruct j; try reflexivity. exfalso. apply H; reflexivity.
Qed.

(* ---------- environment lookups ---------- *)
Lemma kind_of_lookup s nm : 
  match kind_of s nm with
  | KScalar => lookup nm s = Some DScalar
  | KEnum v => lookup nm s = Some (DEnum v)
  | KInput fs => lookup nm s = Some (DInput fs)
  | _ => True
  end.
Proof.
  unfold kind_of.
  repeat match goal with |- context [if ?b then _ else _] => destruct b; [exact I|] end.
  destruct (lookup nm s) as [[|v|fs]|]; auto.
Qed.

Lemma enums_lookup s nm v : lookup nm s = Some (DEnum v) -> lookup nm (enums_of s) = Some v.
Proof.
  unfold enums_of. induction s as [|[k d] r IH]; simpl; [discriminate|].
  destruct (nm =? k) eqn:E.
  - intros H. inversion H; subst. simpl. rewrite E. reflexivity.
  - intros H. destruct d; simpl; auto. rewrite E. auto.
Qed.

Lemma classes_lookup s0 cs snake s nm fs : lookup nm s = Some (DInput fs) ->
  find_class nm (gen_classes_of s0 cs snake s) = Some (gen_class s0 cs snake nm fs).
Proof.
  induction s as [|[k d] r IH]; simpl; [discriminate|].
  destruct (nm =? k) eqn:E.
  - intros H. inversion H; subst. simpl. rewrite E. apply String.eqb_eq in E. subst. reflexivity.
  - intros H. destruct d; simpl; auto. rewrite E. auto.
Qed.

(* ---------- names ---------- *)
(* the guard speaks about cross-reads and GraphQL-name uniqueness; distinct Python names come from FreshP *)
Lemma names_ok_go_pairs snake all fs : names_ok_go snake all fs = true ->
  forall f g, In f fs -> In g fs -> i_name f <> i_name g ->
  fname snake all (i_name f) <> i_name g.
Proof.
  induction fs as [|h r IH]; simpl; intros H f g Hf Hg Hn; [contradiction|].
  apply andb_true_iff in H as [H1 H2]. rewrite forallb_forall in H1.
  destruct Hf as [<-|Hf], Hg as [<-|Hg].
  - congruence.
  - specialize (H1 g Hg). repeat (apply andb_true_iff in H1 as [H1 ?]).
    intro X; rewrite X in *; rewrite ?String.eqb_refl in *; simpl in *; discriminate.
  - specialize (H1 f Hf). repeat (apply andb_true_iff in H1 as [H1 ?]).
    intro X; rewrite X in *; rewrite ?String.eqb_refl in *; simpl in *; discriminate.
  - apply IH; assumption.
Qed.

Lemma names_ok_go_nodup snake all fs : names_ok_go snake all fs = true -> NoDup (map i_name fs).
Proof.
  induction fs as [|h r IH]; simpl; intros H; [constructor|].
  apply andb_true_iff in H as [H1 H2]. constructor; [|apply IH; exact H2].
  intro X. apply in_map_iff in X as [g [E Hg]]. rewrite forallb_forall in H1. specialize (H1 g Hg).
  repeat (apply andb_true_iff in H1 as [H1 ?]). rewrite E, String.eqb_refl in *. discriminate.
Qed.

Lemma names_ok_nodup snake fs : names_ok_fields snake fs = true -> NoDup (map i_name fs).
Proof. apply names_ok_go_nodup. Qed.

Lemma names_ok_pairs snake fs : names_ok_fields snake fs = true ->
  forall f g, In f fs -> In g fs -> i_name f <> i_name g ->
  fname snake fs (i_name f) <> fname snake fs (i_name g) /\ fname snake fs (i_name f) <> i_name g.
Proof.
  intros N f g Hf Hg Hn. split; [|apply (names_ok_go_pairs snake fs fs N f g Hf Hg Hn)].
  intro E. apply Hn.
  pose proof (fname_nodup snake fs (names_ok_nodup snake fs N)) as ND.
  f_equal. apply (nodup_map_inj (fun f => fname snake fs (i_name f)) fs ND f g Hf Hg E).
Qed.

Lemma effective_nodup l : NoDup (map p_name l) -> effective l = l.
Proof.
  induction l as [|h r IH]; simpl; intros ND; [reflexivity|].
  inversion ND as [|? ? NI ND']; subst. rewrite (IH ND').
  replace (existsb _ r) with false; [reflexivity|].
  symmetry. apply not_true_iff_false. intros X. apply existsb_exists in X as [g [Hg Eg]].
  apply String.eqb_eq in Eg. apply NI. rewrite <- Eg. apply in_map. exact Hg.
Qed.

Lemma effective_gen s cs snake fs : names_ok_fields snake fs = true ->
  effective (map (gen_field s cs snake fs) fs) = map (gen_field s cs snake fs) fs.
Proof.
  intros N. apply effective_nodup. rewrite map_map.
  rewrite (map_ext _ (fun f => fname snake fs (i_name f))) by (intros; apply gen_field_name).
  apply fname_nodup. apply (names_ok_nodup snake fs N).
Qed.

Lemma jlookup_in k kv v : jlookup k kv = Some v -> In k (map fst kv).
Proof.
  induction kv as [|[k' v'] r IH]; simpl; [discriminate|].
  destruct (k =? k') eqn:E; [apply String.eqb_eq in E; auto | auto].
Qed.

Lemma mem_In x l : mem x l = true <-> In x l.
Proof.
  unfold mem. rewrite existsb_exists. split.
  - intros [y [Hy E]]. apply String.eqb_eq in E. subst. exact Hy.
  - intros H. exists x. split; [exact H | apply String.eqb_refl].
Qed.

Lemma known_key fs kv k v : known_keys fs kv = true -> jlookup k kv = Some v ->
  exists g, In g fs /\ i_name g = k.
Proof.
  intros K L. apply jlookup_in in L. apply in_map_iff in L as [[k0 v0] [E Hin]]. simpl in E. subst k0.
  unfold known_keys in K. rewrite forallb_forall in K. specialize (K _ Hin). simpl in K.
  apply mem_In in K. apply in_map_iff in K as [g [E Hg]]. exists g. auto.
Qed.

(* what the generated field reads from a wire-form object: exactly the value under its GraphQL name *)
Lemma field_input_gen s cs snake fs kv f : names_ok_fields snake fs = true -> known_keys fs kv = true ->
  In f fs -> field_input (gen_field s cs snake fs f) kv = jlookup (i_name f) kv.
Proof.
  intros N K Hf. unfold field_input. rewrite gen_field_alias, gen_field_name.
  destruct (fname snake fs (i_name f) =? i_name f) eqn:E.
  - apply String.eqb_eq in E. rewrite E. reflexivity.
  - destruct (jlookup (i_name f) kv) eqn:L; [reflexivity|].
    destruct (jlookup (fname snake fs (i_name f)) kv) eqn:L2; [|reflexivity]. exfalso.
    destruct (known_key fs kv _ _ K L2) as [g [Hg Eg]].
    assert (i_name f <> i_name g).
    { intro X. rewrite <- X in Eg. rewrite <- Eg in E. rewrite String.eqb_refl in E. discriminate. }
    destruct (names_ok_pairs snake fs N f g Hf Hg H) as [_ H2]. apply H2. symmetry. exact Eg.
Qed.

(* ---------- the schema-level guard ---------- *)
Definition type_ok (snake : bool) (d : string * tdef) : bool :=
  negb (fst d =? "Upload") &&
  match snd d with
  | DInput fs => names_ok_fields snake fs
  | _ => true
  end.
Definition schema_ok (snake : bool) (s : schema) : bool := forallb (type_ok snake) s.

Lemma lookup_in {X} k (l : list (string * X)) v : lookup k l = Some v -> In (k, v) l.
Proof.
  induction l as [|[k' v'] r IH]; simpl; [discriminate|].
  destruct (k =? k') eqn:E; intros H.
  - apply String.eqb_eq in E. inversion H. subst. auto.
  - auto.
Qed.

Lemma schema_ok_input snake s nm fs : schema_ok snake s = true -> lookup nm s = Some (DInput fs) ->
  names_ok_fields snake fs = true.
Proof.
  intros H L. apply lookup_in in L. unfold schema_ok in H. rewrite forallb_forall in H.
  specialize (H _ L). unfold type_ok in H. simpl in H. apply andb_true_iff in H as [_ H]. exact H.
Qed.

Lemma schema_ok_not_upload snake s nm d : schema_ok snake s = true -> lookup nm s = Some d ->
  (nm =? "Upload") = false.
Proof.
  intros H L. apply lookup_in in L. unfold schema_ok in H. rewrite forallb_forall in H.
  specialize (H _ L). unfold type_ok in H. simpl in H. apply andb_true_iff in H as [H _].
  apply negb_true_iff in H. exact H.
Qed.

Lemma map_opt_forall {X Y} (f : X -> option Y) l r : map_opt f l = Some r ->
  forall x, In x l -> exists y, f x = Some y.
Proof.
  revert r. induction l as [|h t IH]; simpl; intros r H x Hx; [contradiction|].
  destruct (f h) eqn:E; [|discriminate]. destruct (map_opt f t) eqn:E2; [|discriminate].
  destruct Hx as [<-|Hx]; [eauto | eapply IH; eauto].
Qed.

Lemma fields_with_each {X} look (co : gtype -> X -> option cvalue) dflt fs r :
  fields_with look co dflt fs = Some r ->
  forall f, In f fs ->
    match look (i_name f) with
    | Some x => exists v, co (i_type f) x = Some v
    | None => i_default f <> None \/ is_nonnull (i_type f) = false
    end.
Proof.
  revert r. induction fs as [|h t IH]; simpl; intros r H f Hf; [contradiction|].
  destruct (look (i_name h)) as [x|] eqn:L.
  - destruct (co (i_type h) x) eqn:C; [|discriminate].
    destruct (fields_with look co dflt t) eqn:F; [|discriminate].
    destruct Hf as [<-|Hf]; [rewrite L; eauto | eapply IH; eauto].
  - destruct (i_default h) eqn:D.
    + destruct (dflt (i_type h) c); [|discriminate].
      destruct (fields_with look co dflt t) eqn:F; [|discriminate].
      destruct Hf as [<-|Hf]; [rewrite L; left; congruence | eapply IH; eauto].
    + destruct (is_nonnull (i_type h)) eqn:NN; [discriminate|].
      destruct Hf as [<-|Hf]; [rewrite L; right; exact NN | eapply IH; eauto].
Qed.

Lemma has_default_gen s cs snake fs f :
  has_default (gen_field s cs snake fs f) = negb (is_nonnull (i_type f) && match i_default f with None => true | _ => false end).
Proof.
  unfold has_default. pose proof (required_iff s cs snake fs f) as R.
  destruct (rhs_default (p_value (gen_field s cs snake fs f))) eqn:E.
  - destruct R as [R _]. destruct (R eq_refl) as [-> ->]. reflexivity.
  - destruct (is_nonnull (i_type f)) eqn:N; [|reflexivity]. destruct (i_default f) eqn:D; [reflexivity|].
    destruct R as [_ R]. discriminate (R (conj eq_refl eq_refl)).
  - destruct (is_nonnull (i_type f)) eqn:N; [|reflexivity]. destruct (i_default f) eqn:D; [reflexivity|].
    destruct R as [_ R]. discriminate (R (conj eq_refl eq_refl)).
Qed.

(* ---------- leaves ---------- *)
Lemma leaf_complete s cs snake nm j cv : schema_ok snake s = true -> j <> JNull ->
  match kind_of s nm with KInput _ => False | _ => True end ->
  leaf_input s nm j = Some cv ->
  forall n, accepts n (env_of s cs snake) (fst (leaf s cs nm)) j = true.
Proof.
  intros OK NN NI H n. unfold leaf_input in H. unfold leaf.
  pose proof (kind_of_lookup s nm) as KL.
  destruct (kind_of s nm) eqn:K; try contradiction; try discriminate;
    try (destruct j; try discriminate; rewrite accepts_leaf by exact I; reflexivity).
  - (* custom scalar *)
    rewrite (schema_ok_not_upload snake s nm _ OK KL).
    destruct (lookup nm cs); simpl; rewrite accepts_leaf by exact I; unfold leaf_accepts, leaf_validate;
      destruct j; try reflexivity; congruence.
  - (* enum *)
    destruct j; try discriminate. destruct (mem s0 vals) eqn:M; [|discriminate].
    simpl. rewrite accepts_leaf by exact I. unfold leaf_accepts, leaf_validate. simpl.
    rewrite (enums_lookup s nm vals KL). rewrite M. reflexivity.
Qed.

Lemma json_null_dec (j : json) : j = JNull \/ j <> JNull.
Proof. destruct j; auto; right; discriminate. Qed.

(* ---------- the forward theorem ---------- *)
Theorem accepts_complete s cs snake : schema_ok snake s = true ->
  forall n t nb j cv, (nb = false -> j <> JNull) ->
  coerce_input n s t j = Some cv ->
  accepts n (env_of s cs snake) (fst (parse_input_field_type s cs t nb)) j = true.
Proof.
  intros OK. induction n as [n IHn] using lt_wf_ind.
  induction t as [nm | t IH | t IH]; intros nb j cv NB C.
  - (* named *)
    simpl. destruct (leaf s cs nm) as [a tn] eqn:LF. simpl.
    rewrite accepts_opt_if by exact NB.
    destruct (json_null_dec j) as [->|JN]; [reflexivity|].
    replace (match j with JNull => true | _ => accepts n (env_of s cs snake) a j end)
      with (accepts n (env_of s cs snake) a j) by (destruct j; congruence).
    rewrite coerce_named in C.
    assert (C' : match kind_of s nm with
                 | KInput fs =>
                     match j, n with
                     | JObj kv, S n' =>
                         if known_keys fs kv then
                           option_map CObj (fields_with (fun k => jlookup k kv) (coerce_input n' s) (coerced_default n' s) fs)
                         else None
                     | _, _ => None
                     end
                 | _ => leaf_input s nm j
                 end = Some cv) by (destruct j; congruence).
    clear C.
    destruct (kind_of s nm) as [| | | | | |vals|fs|] eqn:K;
      try (replace a with (fst (leaf s cs nm)) by (rewrite LF; reflexivity);
           apply (leaf_complete s cs snake nm j cv OK JN); [rewrite K; exact I | exact C']).
    (* input object *)
    destruct j as [| | | | | |kv]; try discriminate. destruct n as [|n']; [discriminate|].
    destruct (known_keys fs kv) eqn:KK; [|discriminate].
    destruct (fields_with (fun k => jlookup k kv) (coerce_input n' s) (coerced_default n' s) fs) as [r|] eqn:FW;
      [|discriminate].
    pose proof (kind_of_lookup s nm) as KL. rewrite K in KL.
    pose proof (schema_ok_input snake s nm fs OK KL) as NOK.
    assert (a = AClass nm) as ->.
    { unfold leaf in LF. rewrite K in LF. inversion LF. reflexivity. }
    rewrite accepts_class. simpl e_classes. unfold gen_classes.
    rewrite (classes_lookup s cs snake s nm fs KL). simpl c_fields.
    rewrite (effective_gen s cs snake fs NOK).
    apply forallb_forall. intros pf Hpf. apply in_map_iff in Hpf as [f [<- Hf]].
    rewrite (field_input_gen s cs snake fs kv f NOK KK Hf).
    pose proof (fields_with_each _ _ _ _ _ FW f Hf) as EACH. simpl in EACH.
    destruct (jlookup (i_name f) kv) as [x|] eqn:L.
    + destruct EACH as [v Cv]. rewrite gen_field_ann.
      apply (IHn n' (Nat.lt_succ_diag_r n') (i_type f) true x v); [discriminate | exact Cv].
    + rewrite has_default_gen. destruct EACH as [D|NNf].
      * destruct (i_default f); [rewrite andb_false_r; reflexivity | congruence].
      * rewrite NNf. reflexivity.
  - (* list *)
    simpl. destruct (parse_input_field_type s cs t true) as [sl tn] eqn:E. simpl.
    rewrite accepts_opt_if by exact NB. rewrite coerce_list in C.
    destruct j; try reflexivity; try discriminate.
    rewrite accepts_list. destruct n as [|n']; [discriminate|].
    destruct (map_opt (coerce_input n' s t) l) as [r|] eqn:M; [|discriminate].
    apply forallb_forall. intros x Hx.
    destruct (map_opt_forall _ _ _ M x Hx) as [y Cy].
    replace sl with (fst (parse_input_field_type s cs t true)) by (rewrite E; reflexivity).
    apply (IHn n' (Nat.lt_succ_diag_r n') t true x y); [discriminate | exact Cy].
  - (* non-null *)
    simpl. rewrite coerce_nonnull in C.
    apply (IH false j cv); [intros _ ->; discriminate | destruct j; try exact C; discriminate].
Qed.

(* ---------- a value lacking a required field is refused ---------- *)
Lemma forallb_false_in {X} (p : X -> bool) l x : In x l -> p x = false -> forallb p l = false.
Proof.
  intros H E. apply not_true_iff_false. intros F. rewrite forallb_forall in F. rewrite (F x H) in E. discriminate.
Qed.

Theorem refuses_missing_required s cs snake nm fs f kv n :
  kind_of s nm = KInput fs -> names_ok_fields snake fs = true -> In f fs ->
  is_nonnull (i_type f) = true -> i_default f = None ->
  jlookup (i_name f) kv = None -> jlookup (fname snake fs (i_name f)) kv = None ->
  accepts n (env_of s cs snake) (AClass nm) (JObj kv) = false.
Proof.
  intros K NOK Hf NN D L1 L2. rewrite accepts_class. destruct n as [|n']; [reflexivity|].
  pose proof (kind_of_lookup s nm) as KL. rewrite K in KL.
  simpl e_classes. unfold gen_classes. rewrite (classes_lookup s cs snake s nm fs KL). simpl c_fields.
  rewrite (effective_gen s cs snake fs NOK).
  apply (forallb_false_in _ _ (gen_field s cs snake fs f)); [apply in_map; exact Hf|].
  unfold field_input. rewrite gen_field_alias, gen_field_name.
  destruct (fname snake fs (i_name f) =? i_name f); rewrite ?L1, ?L2;
    rewrite has_default_gen, NN, D; reflexivity.
Qed.
