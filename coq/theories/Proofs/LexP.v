(* The lexer ignores what the multi-line rewriter adds: a leading line feed and blanks at line starts
   (outside block strings). *)
From Coq Require Import List String Ascii Bool Arith Lia.
From AC Require Import Base.Strs Gql.Lex.
Import ListNotations.
Local Open Scope char_scope.
Local Open Scope list_scope.

Definition la2 (x : ascii) (r : chars) : bool :=
  match r with d :: e :: _ => leq d x && leq e x | _ => false end.

Definition dflt_of (pre : option tok) (c : ascii) (r : chars) : option (list tok) :=
  if leq c lq then (if la2 lq r then emit pre (lex (LB []) (skipn 2 r)) else emit pre (lex (LS []) r))
  else if leq c "#" then emit pre (lex LC r)
  else if leq c "." then (if la2 "." r then emit pre (cons_tok TSpread (lex LD (skipn 2 r)))
                          else emit pre (lex (LW [c]) r))
  else if is_punct c then emit pre (cons_tok (TP c) (lex LD r))
  else if is_ign c then emit pre (lex LD r)
  else if is_wordc c then emit pre (lex (LW [c]) r)
  else None.

Lemma lex_D c r : lex LD (c :: r) = dflt_of None c r.
Proof. destruct r as [|d [|e r2]]; reflexivity. Qed.

Lemma lex_W acc c r : lex (LW acc) (c :: r) =
  if leq c "." then (if la2 "." r then dflt_of (Some (TW (rev acc))) c r else lex (LW (c :: acc)) r)
  else if is_wordc c then lex (LW (c :: acc)) r else dflt_of (Some (TW (rev acc))) c r.
Proof. destruct r as [|d [|e r2]]; reflexivity. Qed.

Lemma lex_S acc c r : lex (LS acc) (c :: r) =
  if leq c lq then cons_tok (TS (rev acc)) (lex LD r)
  else if leq c lbs then lex (LSE (c :: acc)) r
  else if leq c lnl || leq c lcr then None else lex (LS (c :: acc)) r.
Proof. reflexivity. Qed.

Lemma lex_SE acc c r : lex (LSE acc) (c :: r) = if leq c lnl || leq c lcr then None else lex (LS (c :: acc)) r.
Proof. reflexivity. Qed.

Lemma lex_C c r : lex LC (c :: r) = if leq c lnl || leq c lcr then lex LD r else lex LC r.
Proof. reflexivity. Qed.

(* no three double quotes in a row: no block string starts *)
Fixpoint nodq3 (l : chars) : bool :=
  match l with [] => true | c :: r => negb (leq c lq && la2 lq r) && nodq3 r end.

Definition no_nl (l : chars) : bool := forallb (fun c => negb (leq c lnl)) l.

Lemma la2_app x l R : leq lnl x = false -> no_nl l = true -> la2 x (l ++ lnl :: R) = la2 x l.
Proof.
  intros Hx Hn. destruct l as [|d [|e l2]]; cbn [app la2].
  - destruct R; [reflexivity|]. rewrite Hx. reflexivity.
  - rewrite Hx. apply andb_false_r.
  - reflexivity.
Qed.

Lemma skipn2_app l R : la2 lq l = true \/ la2 "." l = true -> skipn 2 (l ++ lnl :: R) = skipn 2 l ++ lnl :: R.
Proof. destruct l as [|d [|e l2]]; cbn [la2]; intros [H|H]; try discriminate; reflexivity. Qed.

Definition not_block (st : lst) : bool := match st with LB _ => false | _ => true end.

Lemma dflt_nl pre R : dflt_of pre lnl R = emit pre (lex LD R).
Proof. reflexivity. Qed.

Lemma dflt_sp pre R : dflt_of pre " " R = emit pre (lex LD R).
Proof. reflexivity. Qed.

(* what follows the end of a line is lexed from the default state: only its tokens matter *)
Lemma lex_line_cong : forall n l, List.length l <= n -> no_nl l = true -> nodq3 l = true ->
  forall st R R', not_block st = true -> lex LD R = lex LD R' ->
  lex st (l ++ lnl :: R) = lex st (l ++ lnl :: R').
Proof.
  induction n as [|n IH]; intros l Hl Hn Hq st R R' Hst HR.
  - destruct l; [|simpl in Hl; lia]. cbn [app].
    destruct st; try discriminate; [rewrite !lex_D | rewrite !lex_W | reflexivity | reflexivity | rewrite !lex_C].
    + rewrite !dflt_nl, HR. reflexivity.
    + change (leq lnl ".") with false. change (is_wordc lnl) with false. cbv iota. rewrite !dflt_nl, HR. reflexivity.
    + change (leq lnl lnl || leq lnl lcr) with true. cbv iota. exact HR.
  - destruct l as [|c l]; [apply (IH [] (Nat.le_0_l _) Hn Hq st R R' Hst HR)|].
    cbn [no_nl forallb] in Hn. apply andb_true_iff in Hn as [Hc Hn]. apply negb_true_iff in Hc.
    cbn [nodq3] in Hq. apply andb_true_iff in Hq as [Hq0 Hq].
    assert (Hl' : List.length l <= n) by (simpl in Hl; lia).
    assert (Hs2 : List.length (skipn 2 l) <= n).
    { pose proof (skipn_length 2 l). lia. }
    assert (Hn2 : no_nl (skipn 2 l) = true).
    { unfold no_nl in *. rewrite forallb_forall in *. intros y Hy. apply Hn.
      rewrite <- (firstn_skipn 2 l). apply in_or_app. right. exact Hy. }
    assert (Hq2 : nodq3 (skipn 2 l) = true).
    { destruct l as [|d [|e l2]]; try reflexivity. cbn [skipn]. cbn [nodq3] in Hq.
      apply andb_true_iff in Hq as [_ Hq]. apply andb_true_iff in Hq as [_ Hq]. exact Hq. }
    assert (D : forall pre, dflt_of pre c (l ++ lnl :: R) = dflt_of pre c (l ++ lnl :: R')).
    { intro pre. unfold dflt_of.
      rewrite !(la2_app lq l) by (reflexivity || exact Hn). rewrite !(la2_app "." l) by (reflexivity || exact Hn).
      destruct (leq c lq) eqn:Eq.
      - cbn [andb negb] in Hq0. apply negb_true_iff in Hq0. rewrite Hq0.
        rewrite (IH l Hl' Hn Hq (LS []) R R' eq_refl HR). reflexivity.
      - destruct (leq c "#"); [rewrite (IH l Hl' Hn Hq LC R R' eq_refl HR); reflexivity|].
        destruct (leq c ".").
        + destruct (la2 "." l) eqn:El.
          * rewrite !skipn2_app by (right; exact El).
            rewrite (IH (skipn 2 l) Hs2 Hn2 Hq2 LD R R' eq_refl HR). reflexivity.
          * rewrite (IH l Hl' Hn Hq (LW [c]) R R' eq_refl HR). reflexivity.
        + destruct (is_punct c); [rewrite (IH l Hl' Hn Hq LD R R' eq_refl HR); reflexivity|].
          destruct (is_ign c); [rewrite (IH l Hl' Hn Hq LD R R' eq_refl HR); reflexivity|].
          destruct (is_wordc c); [rewrite (IH l Hl' Hn Hq (LW [c]) R R' eq_refl HR); reflexivity | reflexivity]. }
    cbn [app]. destruct st; try discriminate.
    + rewrite !lex_D. apply D.
    + rewrite !lex_W. rewrite !(la2_app "." l) by (reflexivity || exact Hn).
      destruct (leq c "."); [destruct (la2 "." l); [apply D | apply IH; auto]|].
      destruct (is_wordc c); [apply IH; auto | apply D].
    + rewrite !lex_S. destruct (leq c lq); [rewrite (IH l Hl' Hn Hq LD R R' eq_refl HR); reflexivity|].
      destruct (leq c lbs); [apply IH; auto|]. destruct (leq c lnl || leq c lcr); [reflexivity | apply IH; auto].
    + rewrite !lex_SE. destruct (leq c lnl || leq c lcr); [reflexivity | apply IH; auto].
    + rewrite !lex_C. destruct (leq c lnl || leq c lcr); apply IH; auto.
Qed.

Lemma lex_blanks k R : lex LD (repeat " " k ++ R) = lex LD R.
Proof. induction k as [|k IH]; [reflexivity|]. cbn [repeat app]. rewrite lex_D, dflt_sp. exact IH. Qed.

Lemma lex_nl R : lex LD (lnl :: R) = lex LD R.
Proof. rewrite lex_D, dflt_nl. reflexivity. Qed.

(* lines, each with its line feed; and the same text with a leading line feed, [pad l] blanks before each
   line, [k] blanks at the end *)
Definition joined_text (lines : list chars) : chars := flat_map (fun l => l ++ [lnl]) lines.
Definition laid_out (pad : chars -> nat) (k : nat) (lines : list chars) : chars :=
  lnl :: flat_map (fun l => repeat " " (pad l) ++ l ++ [lnl]) lines ++ repeat " " k.

Theorem layout_ignored pad k lines :
  Forall (fun l => no_nl l = true /\ nodq3 l = true) lines ->
  tokens (laid_out pad k lines) = tokens (joined_text lines).
Proof.
  intro H. unfold tokens, laid_out. rewrite lex_nl. unfold joined_text.
  induction H as [|l ls [Hn Hq] _ IH]; cbn [flat_map app].
  - rewrite <- (app_nil_r (repeat " " k)). rewrite lex_blanks. reflexivity.
  - rewrite <- !app_assoc. rewrite lex_blanks. cbn [app].
    apply (lex_line_cong (List.length l) l (le_n _) Hn Hq LD); [reflexivity | exact IH].
Qed.
