(* Lemmas about Model/Pipeline.v (C17). *)
From Coq Require Import List String Ascii ZArith Bool Lia.
From AC Require Import Base.Sexp Base.Json Base.Strs Model.Names Model.Settings Model.Pipeline
  Proofs.SettingsP.
Import ListNotations.
Local Open Scope string_scope.
Local Open Scope list_scope.

(* ---------- effect logs ---------- *)
Lemma no_writes_app l1 l2 : no_writes (l1 ++ l2) = no_writes l1 && no_writes l2.
Proof. unfold no_writes. apply forallb_app. Qed.

Lemma load_files_log fs : forall log, no_writes log = true -> no_writes (fst (load_files fs log)) = true.
Proof.
  induction fs as [|f fs IH]; simpl; intros log H; auto.
  assert (no_writes (log ++ [ERead (gf_path f)]) = true) as H1
    by (rewrite no_writes_app, H; reflexivity).
  destruct (gf_ok f); simpl; auto.
Qed.

Lemma load_and_parse_log fs log : no_writes log = true -> no_writes (fst (load_and_parse fs log)) = true.
Proof.
  intro H. unfold load_and_parse. pose proof (load_files_log fs log H) as HL.
  destruct (load_files fs log) as [l [x|]]; simpl in *; auto. destruct fs; simpl; auto.
Qed.

Lemma load_remote_log b w log : no_writes log = true -> no_writes (fst (load_remote b w log)) = true.
Proof.
  intro H. unfold load_remote.
  assert (no_writes (match w_url w with Introspect.UOk => log ++ [EHttp (s_url b)] | _ => log end) = true) as HL.
  { destruct (w_url w); auto. rewrite no_writes_app, H. reflexivity. }
  destruct (Introspect.schema_from_url _ _ _); simpl; exact HL.
Qed.

(* the remote route never lets a foreign exception through: every refusal is IntrospectionError *)
Lemma load_remote_typed b w log log' x :
  load_remote b w log = (log', Some x) -> x_cls x = IntrospectionError.
Proof.
  unfold load_remote. destruct (Introspect.schema_from_url _ _ _); intro H; inversion H; reflexivity.
Qed.

Lemma load_schema_log b w log : no_writes log = true -> no_writes (fst (load_schema b w log)) = true.
Proof.
  intro H. unfold load_schema. destruct (negb _).
  - pose proof (load_and_parse_log (w_schema_files w) log H) as HL.
    destruct (load_and_parse (w_schema_files w) log) as [l [x|]]; simpl in *; auto.
    destruct (w_schema_build w); simpl; auto.
  - apply load_remote_log; auto.
Qed.

Lemma load_queries_log w st log : no_writes log = true -> no_writes (fst (load_queries w st log)) = true.
Proof.
  intro H. unfold load_queries. pose proof (load_and_parse_log (w_query_files w) log H) as HL.
  destruct (load_and_parse (w_query_files w) log) as [l [x|]]; simpl in *; auto.
  assert (no_writes (l ++ [EValidateOps st]) = true) as HV by (rewrite no_writes_app, HL; reflexivity).
  destruct (relevant_op_errors_at w st); simpl; auto.
Qed.

(* generate: a failure is the duplicate-name check, which precedes mkdir *)
Lemma generate_failed e c w results log ph x :
  snd (generate e c w results log) = Failed ph x -> fst (generate e c w results log) = log.
Proof. unfold generate. destruct (has_dup _); simpl; [reflexivity | discriminate]. Qed.

Lemma generate_not_ill e c w results log : snd (generate e c w results log) <> IllCfg.
Proof. unfold generate. destruct (has_dup _); simpl; discriminate. Qed.

(* ---------- reject before write ---------- *)
Theorem run_client_reject_before_write e cfg w ph x :
  snd (run_client e cfg w) = Failed ph x -> no_writes (fst (run_client e cfg w)) = true.
Proof.
  unfold run_client.
  destruct (get_client_settings e cfg) as [c| |]; simpl; auto.
  pose proof (load_schema_log (c_base c) w [] eq_refl) as HS.
  destruct (load_schema (c_base c) w []) as [log [y|]]; simpl in *; auto.
  destruct (load_plugins w); simpl; auto.
  assert (no_writes (fst (if String.eqb (c_queries_path c) "" then (log, None) else load_queries w stage_for_validation log)) = true) as HQ.
  { destruct (String.eqb (c_queries_path c) ""); simpl; auto. apply load_queries_log; auto. }
  destruct (if String.eqb (c_queries_path c) "" then (log, None) else load_queries w stage_for_validation log) as [log2 [y|]];
    simpl in *; auto.
  assert (no_writes (log2 ++ [EStdout; EGenerate stage_for_generation]) = true) as H3 by (rewrite no_writes_app, HQ; reflexivity).
  destruct (add_operations _ []) as [results| |]; simpl; auto; try discriminate.
  intro H. rewrite (generate_failed _ _ _ _ _ _ _ H). exact H3.
Qed.

Theorem run_schema_reject_before_write e cfg w ph x :
  snd (run_schema e cfg w) = Failed ph x -> no_writes (fst (run_schema e cfg w)) = true.
Proof.
  unfold run_schema.
  destruct (get_graphql_schema_settings e cfg) as [g| |]; simpl; auto.
  pose proof (load_schema_log (g_base g) w [] eq_refl) as HS.
  destruct (load_schema (g_base g) w []) as [log [y|]]; simpl in *; auto.
  destruct (load_plugins w); simpl; auto. discriminate.
Qed.

Theorem run_cli_reject_before_write client e f w ph x :
  snd (run_cli client e f w) = Failed ph x -> no_writes (fst (run_cli client e f w)) = true.
Proof.
  unfold run_cli. destruct f as [n|p cfg]; simpl; auto.
  destruct client.
  - pose proof (run_client_reject_before_write e cfg w ph x) as H.
    destruct (run_client e cfg w) as [log out]; simpl in *. exact H.
  - pose proof (run_schema_reject_before_write e cfg w ph x) as H.
    destruct (run_schema e cfg w) as [log out]; simpl in *. exact H.
Qed.

(* contrapositive reading: a log that contains a mkdir or a write belongs to a successful run
   (or to a configuration outside the model's typed scope, which produces no effect at all) *)
Theorem run_client_writes_only_when_done e cfg w :
  no_writes (fst (run_client e cfg w)) = false -> snd (run_client e cfg w) = Done.
Proof.
  intro H. destruct (snd (run_client e cfg w)) eqn:E; auto.
  - rewrite (run_client_reject_before_write _ _ _ _ _ E) in H. discriminate.
  - exfalso. revert H E. unfold run_client.
    destruct (get_client_settings e cfg) as [c| |]; simpl; try discriminate.
    pose proof (load_schema_log (c_base c) w [] eq_refl) as HS.
    destruct (load_schema (c_base c) w []) as [log [y|]]; simpl in *; try congruence.
    destruct (load_plugins w); simpl; try congruence.
    assert (no_writes (fst (if String.eqb (c_queries_path c) "" then (log, None) else load_queries w stage_for_validation log)) = true) as HQ.
    { destruct (String.eqb (c_queries_path c) ""); simpl; auto. apply load_queries_log; auto. }
    destruct (if String.eqb (c_queries_path c) "" then (log, None) else load_queries w stage_for_validation log) as [log2 [y|]];
      simpl in *; try congruence.
    assert (no_writes (log2 ++ [EStdout; EGenerate stage_for_generation]) = true) as H3 by (rewrite no_writes_app, HQ; reflexivity).
    destruct (add_operations _ []) as [results| |]; simpl; try congruence.
    intros _ E. exact (generate_not_ill _ _ _ _ _ E).
Qed.

(* ---------- the validity phase is the identity: the reference verdict is never consulted ---------- *)
Definition with_schema_errors (w : world) (errs : list string) : world :=
  {| w_schema_files := w_schema_files w; w_schema_build := w_schema_build w; w_url := w_url w;
     w_resp := w_resp w; w_deep := w_deep w;
     w_schema_errors := errs; w_plugin_err := w_plugin_err w; w_query_files := w_query_files w;
     w_op_errors := w_op_errors w; w_op_errors_raw := w_op_errors_raw w; w_ops := w_ops w; w_fragments := w_fragments w;
     w_query_type := w_query_type w; w_mutation_type := w_mutation_type w |}.

Theorem run_client_ignores_schema_validity e cfg w errs :
  run_client e cfg (with_schema_errors w errs) = run_client e cfg w.
Proof. destruct w. reflexivity. Qed.

Theorem run_schema_ignores_schema_validity e cfg w errs :
  run_schema e cfg (with_schema_errors w errs) = run_schema e cfg w.
Proof. destruct w. reflexivity. Qed.

(* ---------- syntax errors: the first unparsable file, in the loader's order, is the one named ---------- *)
Lemma load_files_err fs : forall log log' x, load_files fs log = (log', Some x) ->
  exists pre f post, fs = pre ++ f :: post /\ forallb gf_ok pre = true /\ gf_ok f = false /\
                     x = mkerr InvalidGraphqlSyntax (msg_syntax (gf_path f)).
Proof.
  induction fs as [|f fs IH]; simpl; intros log log' x H; [discriminate|].
  destruct (gf_ok f) eqn:E.
  - destruct (IH _ _ _ H) as (pre & g & post & -> & Hp & Hg & Hx).
    exists (f :: pre), g, post. simpl. rewrite E, Hp. auto.
  - inversion H; subst. exists [], f, fs. auto.
Qed.

Lemma load_files_ok fs : forall log log', load_files fs log = (log', None) -> forallb gf_ok fs = true.
Proof.
  induction fs as [|f fs IH]; simpl; intros log log' H; auto.
  destruct (gf_ok f); [eapply IH; eauto | discriminate].
Qed.

Lemma load_files_bad fs : forall log, forallb gf_ok fs = false -> exists log' x, load_files fs log = (log', Some x).
Proof.
  induction fs as [|f fs IH]; simpl; intros log H; [discriminate|].
  destruct (gf_ok f); simpl in H; eauto.
Qed.

(* ---------- acceptance implies that every up-front check passed ---------- *)
Lemma add_operations_ok ops : forall files r, add_operations ops files = Ok r ->
  forallb (fun o => match op_name o, op_err o with Some _, None => true | _, _ => false end) ops = true.
Proof.
  induction ops as [|o ops IH]; simpl; intros files r H; auto.
  destruct (op_name o); [|discriminate]. destruct (existsb _ files); [discriminate|].
  destruct (op_err o); [discriminate|].
  simpl. eapply IH; eauto.
Qed.

(* the result modules of an accepted operation list are pairwise distinct: two operations mapping to one
   module name are refused (ParsingError) in the operations phase *)
Lemma existsb_eqb_false x l : existsb (String.eqb x) l = false -> ~ In x l.
Proof.
  intros H Hin. assert (existsb (String.eqb x) l = true) as HT.
  { apply existsb_exists. exists x. split; auto. apply String.eqb_refl. }
  congruence.
Qed.

Lemma NoDup_snoc {X} (l : list X) x : NoDup l -> ~ In x l -> NoDup (l ++ [x]).
Proof.
  induction l as [|y l IH]; simpl; intros ND NI.
  - constructor; auto.
  - inversion ND; subst. constructor.
    + intro Hin. apply in_app_or in Hin as [Hin|[Hin|[]]]; [contradiction | subst; apply NI; left; reflexivity].
    + apply IH; auto.
Qed.

Lemma add_operations_nodup ops : forall files r, NoDup files -> add_operations ops files = Ok r -> NoDup r.
Proof.
  induction ops as [|o ops IH]; simpl; intros files r ND H.
  - inversion H; subst; auto.
  - destruct (op_name o) as [n|]; [|discriminate].
    destruct (existsb (String.eqb (module_name n ++ ".py")%string) files) eqn:E; [discriminate|].
    destruct (op_err o); [discriminate|].
    eapply IH; [|exact H]. apply NoDup_snoc; auto using existsb_eqb_false.
Qed.

Lemma add_operations_dup_refused o ops files n :
  op_name o = Some n -> In (module_name n ++ ".py")%string files ->
  add_operations (o :: ops) files
  = Err (mkerr ParsingError ("Duplicated file names: " ++ module_name n ++ ".py")%string).
Proof.
  intros HN Hin. simpl. rewrite HN.
  assert (existsb (String.eqb (module_name n ++ ".py")%string) files = true) as ->.
  { apply existsb_exists. eexists. split; eauto. apply String.eqb_refl. }
  reflexivity.
Qed.

Local Opaque has_dup unique_check_names write_plan pkg_dir custom_files.

Theorem run_client_done_implies_checked e cfg w :
  snd (run_client e cfg w) = Done ->
  exists c, get_client_settings e cfg = Ok c /\
    (s_schema_path (c_base c) <> "" ->
       w_schema_files w <> [] /\ forallb gf_ok (w_schema_files w) = true /\ w_schema_build w = BuildOk) /\
    w_plugin_err w = None /\
    (c_queries_path c <> "" ->
       w_query_files w <> [] /\ forallb gf_ok (w_query_files w) = true /\ relevant_op_errors w = [] /\
       forallb (fun o => match op_name o, op_err o with Some _, None => true | _, _ => false end) (w_ops w) = true) /\
    has_dup (unique_check_names e c w
      (match add_operations (if String.eqb (c_queries_path c) "" then [] else w_ops w) [] with
       | Ok r => r | _ => [] end)) = false.
Proof.
  unfold run_client.
  destruct (get_client_settings e cfg) as [c| |]; simpl; try discriminate.
  intro H. exists c. split; [reflexivity|].
  unfold load_schema, load_and_parse in H.
  destruct (String.eqb (s_schema_path (c_base c)) "") eqn:SP; simpl in H.
  - (* remote schema *)
    destruct (load_remote (c_base c) w []) as [lr [y|]] eqn:LR; simpl in H; [discriminate|].
    split. { intro N. apply String.eqb_eq in SP. contradiction. }
    revert H. unfold load_plugins. destruct (w_plugin_err w); simpl; [discriminate|]. intro H.
    split; [reflexivity|].
    destruct (String.eqb (c_queries_path c) "") eqn:QP; simpl in H.
    + split. { intro N. apply String.eqb_eq in QP. contradiction. }
      simpl in H. unfold generate in H. destruct (has_dup _); simpl in H; [discriminate|reflexivity].
    + unfold load_queries, load_and_parse in H.
      destruct (load_files (w_query_files w) _) as [lq [y|]] eqn:LF; simpl in H; [discriminate|].
      destruct (w_query_files w) eqn:QF; simpl in H; [discriminate|]. rewrite <- QF in *.
      change (relevant_op_errors_at w stage_for_validation) with (relevant_op_errors w) in H.
      destruct (relevant_op_errors w) eqn:RE; simpl in H; [|discriminate].
      destruct (add_operations (w_ops w) []) eqn:AO; simpl in H; try discriminate.
      unfold generate in H. destruct (has_dup _) eqn:HD; simpl in H; [discriminate|].
      split; [|reflexivity]. intros _. repeat split.
      * rewrite QF. discriminate.
      * eapply load_files_ok; eauto.
      * eapply add_operations_ok; eauto.
  - destruct (load_files (w_schema_files w) []) as [l0 [y|]] eqn:LS; simpl in H; [discriminate|].
    destruct (w_schema_files w) eqn:SF; simpl in H; [discriminate|]. rewrite <- SF in *.
    destruct (w_schema_build w) eqn:SB; simpl in H; [|discriminate].
    split. { intros _. repeat split; [rewrite SF; discriminate | eapply load_files_ok; eauto]. }
    revert H. unfold load_plugins. destruct (w_plugin_err w); simpl; [discriminate|]. intro H.
    split; [reflexivity|].
    destruct (String.eqb (c_queries_path c) "") eqn:QP; simpl in H.
    + split. { intro N. apply String.eqb_eq in QP. contradiction. }
      unfold generate in H. destruct (has_dup _); simpl in H; [discriminate|reflexivity].
    + unfold load_queries, load_and_parse in H.
      destruct (load_files (w_query_files w) _) as [lq [y|]] eqn:LF; simpl in H; [discriminate|].
      destruct (w_query_files w) eqn:QF; simpl in H; [discriminate|]. rewrite <- QF in *.
      change (relevant_op_errors_at w stage_for_validation) with (relevant_op_errors w) in H.
      destruct (relevant_op_errors w) eqn:RE; simpl in H; [|discriminate].
      destruct (add_operations (w_ops w) []) eqn:AO; simpl in H; try discriminate.
      unfold generate in H. destruct (has_dup _) eqn:HD; simpl in H; [discriminate|].
      split; [|reflexivity]. intros _. repeat split.
      * rewrite QF. discriminate.
      * eapply load_files_ok; eauto.
      * eapply add_operations_ok; eauto.
Qed.

(* ---------- typed errors ---------- *)
(* worlds in which graphql-core itself does not raise: no bare TypeError from build_ast_schema, no empty
   document, typed introspection/operation errors *)
Definition opt_typed (o : option err) : bool :=
  match o with Some x => is_codegen_exn (x_cls x) | None => true end.
Definition typed_world (w : world) : bool :=
  (match w_schema_build w with BuildOk => true | _ => false end)
  && (match w_schema_files w with [] => false | _ => true end)
  && (match w_query_files w with [] => false | _ => true end)
  && forallb (fun o => opt_typed (op_err o)) (w_ops w).

Lemma config_exn_codegen x : config_exn x = true -> is_codegen_exn x = true.
Proof. destruct x; simpl; auto; discriminate. Qed.

Lemma load_and_parse_typed fs log log' x : fs <> [] ->
  load_and_parse fs log = (log', Some x) -> is_codegen_exn (x_cls x) = true.
Proof.
  intros NE. unfold load_and_parse.
  destruct (load_files fs log) as [l [y|]] eqn:LF.
  - intro H. inversion H; subst. apply load_files_err in LF as (pre & f & post & _ & _ & _ & ->). reflexivity.
  - destruct fs; [contradiction | discriminate].
Qed.

Lemma add_operations_typed ops : forall files x,
  forallb (fun o => opt_typed (op_err o)) ops = true ->
  add_operations ops files = Err x -> is_codegen_exn (x_cls x) = true.
Proof.
  induction ops as [|o ops IH]; simpl; intros files x HT H; [discriminate|].
  apply andb_true_iff in HT as [H1 H2].
  destruct (op_name o).
  - destruct (existsb _ files); [inversion H; reflexivity|].
    destruct (op_err o) as [y|] eqn:E.
    + inversion H; subst. exact H1.
    + eapply IH; eauto.
  - inversion H; reflexivity.
Qed.

Theorem run_client_typed_error e cfg w ph x : typed_world w = true ->
  snd (run_client e cfg w) = Failed ph x -> is_codegen_exn (x_cls x) = true.
Proof.
  unfold typed_world. rewrite !andb_true_iff. intros [[[HB HSF] HQF] HO].
  unfold run_client.
  destruct (get_client_settings e cfg) as [c|y|] eqn:GS; simpl; try discriminate.
  2:{ intro H. inversion H; subst. apply config_exn_codegen. eapply get_client_settings_err_cls; eauto. }
  destruct (load_schema (c_base c) w []) as [log [y|]] eqn:LS; simpl.
  { intro H. inversion H; subst. revert LS. unfold load_schema.
    destruct (negb _).
    - destruct (load_and_parse (w_schema_files w) []) as [l [z|]] eqn:LP.
      + intro H1. inversion H1; subst. eapply load_and_parse_typed; eauto.
        destruct (w_schema_files w); [discriminate | discriminate].
      + destruct (w_schema_build w); [discriminate | discriminate].
    - intro H1. rewrite (load_remote_typed _ _ _ _ _ H1). reflexivity. }
  unfold load_plugins. destruct (w_plugin_err w); simpl.
  { intro H. inversion H; reflexivity. }
  destruct (String.eqb (c_queries_path c) "") eqn:QP; simpl.
  - unfold generate. destruct (has_dup _); simpl; [|discriminate].
    intro H. inversion H; reflexivity.
  - destruct (load_queries w stage_for_validation log) as [log2 [y|]] eqn:LQ; simpl.
    + intro H. inversion H; subst. revert LQ. unfold load_queries.
      destruct (load_and_parse (w_query_files w) log) as [l [z|]] eqn:LP.
      * intro H1. inversion H1; subst. eapply load_and_parse_typed; eauto.
        destruct (w_query_files w); [discriminate | discriminate].
      * destruct (relevant_op_errors_at w stage_for_validation); [discriminate|]. intro H1. inversion H1; reflexivity.
    + destruct (add_operations (w_ops w) []) eqn:AO; simpl.
      * unfold generate. destruct (has_dup _); simpl; [|discriminate]. intro H. inversion H; reflexivity.
      * intro H. inversion H; subst. eapply add_operations_typed; eauto.
      * discriminate.
Qed.

Theorem run_schema_typed_error e cfg w ph x : typed_world w = true ->
  snd (run_schema e cfg w) = Failed ph x -> is_codegen_exn (x_cls x) = true.
Proof.
  unfold typed_world. rewrite !andb_true_iff. intros [[[HB HSF] HQF] HO].
  unfold run_schema.
  destruct (get_graphql_schema_settings e cfg) as [g|y|] eqn:GS; simpl; try discriminate.
  2:{ intro H. inversion H; subst. apply config_exn_codegen. eapply get_schema_settings_err_cls; eauto. }
  destruct (load_schema (g_base g) w []) as [log [y|]] eqn:LS; simpl.
  { intro H. inversion H; subst. revert LS. unfold load_schema.
    destruct (negb _).
    - destruct (load_and_parse (w_schema_files w) []) as [l [z|]] eqn:LP.
      + intro H1. inversion H1; subst. eapply load_and_parse_typed; eauto.
        destruct (w_schema_files w); [discriminate | discriminate].
      + destruct (w_schema_build w); [discriminate | discriminate].
    - intro H1. rewrite (load_remote_typed _ _ _ _ _ H1). reflexivity. }
  unfold load_plugins. destruct (w_plugin_err w); simpl; [|discriminate].
  intro H. inversion H; reflexivity.
Qed.

(* ---------- both schema sources: schema_path is prioritised, nothing is sent to the URL ---------- *)
Definition is_http (f : effect) : bool := match f with EHttp _ => true | _ => false end.
Definition no_http (log : list effect) : bool := forallb (fun f => negb (is_http f)) log.

Lemma no_http_app l1 l2 : no_http (l1 ++ l2) = no_http l1 && no_http l2.
Proof. unfold no_http. apply forallb_app. Qed.

Lemma load_files_no_http fs : forall log, no_http log = true -> no_http (fst (load_files fs log)) = true.
Proof.
  induction fs as [|f fs IH]; simpl; intros log H; auto.
  assert (no_http (log ++ [ERead (gf_path f)]) = true) as H1 by (rewrite no_http_app, H; reflexivity).
  destruct (gf_ok f); simpl; auto.
Qed.

Lemma load_and_parse_no_http fs log : no_http log = true -> no_http (fst (load_and_parse fs log)) = true.
Proof.
  intro H. unfold load_and_parse. pose proof (load_files_no_http fs log H) as HL.
  destruct (load_files fs log) as [l [x|]]; simpl in *; auto. destruct fs; simpl; auto.
Qed.

Lemma load_queries_no_http w st log : no_http log = true -> no_http (fst (load_queries w st log)) = true.
Proof.
  intro H. unfold load_queries. pose proof (load_and_parse_no_http (w_query_files w) log H) as HL.
  destruct (load_and_parse (w_query_files w) log) as [l [x|]]; simpl in *; auto.
  assert (no_http (l ++ [EValidateOps st]) = true) as HV by (rewrite no_http_app, HL; reflexivity).
  destruct (relevant_op_errors_at w st); simpl; auto.
Qed.

Lemma generate_no_http e c w results log : no_http log = true ->
  no_http (fst (generate e c w results log)) = true.
Proof.
  intro H. unfold generate. destruct (has_dup _); simpl; auto.
  rewrite no_http_app. apply andb_true_iff. split.
  - destruct (p_exists _ _); auto. rewrite no_http_app, H. reflexivity.
  - unfold no_http. rewrite forallb_forall. intros f Hf. apply in_map_iff in Hf as (p & <- & _). reflexivity.
Qed.

Lemma load_schema_local_no_http b w log : s_schema_path b <> "" -> no_http log = true ->
  no_http (fst (load_schema b w log)) = true.
Proof.
  intros NE H. unfold load_schema.
  destruct (String.eqb (s_schema_path b) "") eqn:E; [apply String.eqb_eq in E; contradiction|]. simpl.
  pose proof (load_and_parse_no_http (w_schema_files w) log H) as HL.
  destruct (load_and_parse (w_schema_files w) log) as [l [x|]]; simpl in *; auto.
  destruct (w_schema_build w); simpl; auto.
Qed.

Theorem run_client_schema_path_prioritised e cfg w c :
  get_client_settings e cfg = Ok c -> s_schema_path (c_base c) <> "" ->
  no_http (fst (run_client e cfg w)) = true.
Proof.
  intros GS NE. unfold run_client. rewrite GS.
  pose proof (load_schema_local_no_http (c_base c) w [] NE eq_refl) as HS.
  destruct (load_schema (c_base c) w []) as [log [y|]]; simpl in *; auto.
  destruct (load_plugins w); simpl; auto.
  assert (no_http (fst (if String.eqb (c_queries_path c) "" then (log, None) else load_queries w stage_for_validation log)) = true) as HQ.
  { destruct (String.eqb (c_queries_path c) ""); simpl; auto. apply load_queries_no_http; auto. }
  destruct (if String.eqb (c_queries_path c) "" then (log, None) else load_queries w stage_for_validation log) as [log2 [y|]];
    simpl in *; auto.
  assert (no_http (log2 ++ [EStdout; EGenerate stage_for_generation]) = true) as H3 by (rewrite no_http_app, HQ; reflexivity).
  destruct (add_operations _ []) as [results| |]; simpl; auto.
  apply generate_no_http; auto.
Qed.

Theorem run_schema_schema_path_prioritised e cfg w g :
  get_graphql_schema_settings e cfg = Ok g -> s_schema_path (g_base g) <> "" ->
  no_http (fst (run_schema e cfg w)) = true.
Proof.
  intros GS NE. unfold run_schema. rewrite GS.
  pose proof (load_schema_local_no_http (g_base g) w [] NE eq_refl) as HS.
  destruct (load_schema (g_base g) w []) as [log [y|]]; simpl in *; auto.
  destruct (load_plugins w); simpl; auto.
  rewrite !no_http_app, HS. reflexivity.
Qed.

(* ---------- the remote route: every refusal is IntrospectionError, whatever the server answers ---------- *)
Theorem run_client_remote_failure_typed e cfg w c x :
  get_client_settings e cfg = Ok c -> s_schema_path (c_base c) = "" ->
  snd (run_client e cfg w) = Failed PhSchema x -> x_cls x = IntrospectionError.
Proof.
  intros GS E. unfold run_client. rewrite GS. unfold load_schema. rewrite E. simpl.
  destruct (load_remote (c_base c) w []) as [log [y|]] eqn:LR; simpl.
  - intro H. inversion H; subst. eapply load_remote_typed; eauto.
  - destruct (load_plugins w); simpl; [discriminate|].
    destruct (if String.eqb (c_queries_path c) "" then (log, None) else load_queries w stage_for_validation log) as [log2 [y|]];
      simpl; [discriminate|].
    destruct (add_operations _ []) as [results| |]; simpl; try discriminate.
    intro H. unfold generate in H. destruct (has_dup _); simpl in H; discriminate.
Qed.

Theorem run_schema_remote_failure_typed e cfg w g x :
  get_graphql_schema_settings e cfg = Ok g -> s_schema_path (g_base g) = "" ->
  snd (run_schema e cfg w) = Failed PhSchema x -> x_cls x = IntrospectionError.
Proof.
  intros GS E. unfold run_schema. rewrite GS. unfold load_schema. rewrite E. simpl.
  destruct (load_remote (g_base g) w []) as [log [y|]] eqn:LR; simpl.
  - intro H. inversion H; subst. eapply load_remote_typed; eauto.
  - destruct (load_plugins w); simpl; discriminate.
Qed.

(* ---------- the schema the operations are validated against is the schema the package is generated from ---------- *)
Definition stage_of (f : effect) : option sstage :=
  match f with EValidateOps s => Some s | EGenerate s => Some s | _ => None end.
Definition uses_processed (log : list effect) : bool :=
  forallb (fun f => match stage_of f with Some s => is_processed s | None => true end) log.

Lemma uses_processed_app l1 l2 : uses_processed (l1 ++ l2) = uses_processed l1 && uses_processed l2.
Proof. unfold uses_processed. apply forallb_app. Qed.

Lemma load_files_up fs : forall log, uses_processed log = true -> uses_processed (fst (load_files fs log)) = true.
Proof.
  induction fs as [|f fs IH]; simpl; intros log H; auto.
  assert (uses_processed (log ++ [ERead (gf_path f)]) = true) as H1 by (rewrite uses_processed_app, H; reflexivity).
  destruct (gf_ok f); simpl; auto.
Qed.
Lemma load_and_parse_up fs log : uses_processed log = true -> uses_processed (fst (load_and_parse fs log)) = true.
Proof.
  intro H. unfold load_and_parse. pose proof (load_files_up fs log H) as HL.
  destruct (load_files fs log) as [l [x|]]; simpl in *; auto. destruct fs; simpl; auto.
Qed.
Lemma load_schema_up b w log : uses_processed log = true -> uses_processed (fst (load_schema b w log)) = true.
Proof.
  intro H. unfold load_schema. destruct (negb _).
  - pose proof (load_and_parse_up (w_schema_files w) log H) as HL.
    destruct (load_and_parse (w_schema_files w) log) as [l [x|]]; simpl in *; auto.
    destruct (w_schema_build w); simpl; auto.
  - unfold load_remote.
    assert (uses_processed (match w_url w with Introspect.UOk => log ++ [EHttp (s_url b)] | _ => log end) = true) as HL.
    { destruct (w_url w); auto. rewrite uses_processed_app, H. reflexivity. }
    destruct (Introspect.schema_from_url _ _ _); simpl; exact HL.
Qed.
Lemma load_queries_up w log : uses_processed log = true ->
  uses_processed (fst (load_queries w stage_for_validation log)) = true.
Proof.
  intro H. unfold load_queries. pose proof (load_and_parse_up (w_query_files w) log H) as HL.
  destruct (load_and_parse (w_query_files w) log) as [l [x|]]; simpl in *; auto.
  assert (uses_processed (l ++ [EValidateOps stage_for_validation]) = true) as HV
    by (rewrite uses_processed_app, HL; reflexivity).
  destruct (relevant_op_errors_at w stage_for_validation); simpl; auto.
Qed.
Lemma generate_up e c w results log : uses_processed log = true ->
  uses_processed (fst (generate e c w results log)) = true.
Proof.
  intro H. unfold generate. destruct (has_dup _); simpl; auto.
  rewrite uses_processed_app. apply andb_true_iff. split.
  - destruct (p_exists _ _); auto. rewrite uses_processed_app, H. reflexivity.
  - unfold uses_processed. rewrite forallb_forall. intros f Hf. apply in_map_iff in Hf as (p & <- & _). reflexivity.
Qed.

Theorem run_client_uses_processed_schema e cfg w : uses_processed (fst (run_client e cfg w)) = true.
Proof.
  unfold run_client.
  destruct (get_client_settings e cfg) as [c| |]; simpl; auto.
  pose proof (load_schema_up (c_base c) w [] eq_refl) as HS.
  destruct (load_schema (c_base c) w []) as [log [y|]]; simpl in *; auto.
  destruct (load_plugins w); simpl; auto.
  assert (uses_processed (fst (if String.eqb (c_queries_path c) "" then (log, None)
                               else load_queries w stage_for_validation log)) = true) as HQ.
  { destruct (String.eqb (c_queries_path c) ""); simpl; auto. apply load_queries_up; auto. }
  destruct (if String.eqb (c_queries_path c) "" then (log, None) else load_queries w stage_for_validation log)
    as [log2 [y|]]; simpl in *; auto.
  assert (uses_processed (log2 ++ [EStdout; EGenerate stage_for_generation]) = true) as H3
    by (rewrite uses_processed_app, HQ; reflexivity).
  destruct (add_operations _ []) as [results| |]; simpl; auto.
  apply generate_up; auto.
Qed.

(* corollary in the words of the property: whatever stage validates and whatever stage generates, they coincide *)
Theorem validation_schema_is_generation_schema e cfg w s1 s2 :
  In (EValidateOps s1) (fst (run_client e cfg w)) -> In (EGenerate s2) (fst (run_client e cfg w)) ->
  s1 = s2 /\ s1 = SProcessed.
Proof.
  intros H1 H2. pose proof (run_client_uses_processed_schema e cfg w) as HU.
  unfold uses_processed in HU. rewrite forallb_forall in HU.
  pose proof (HU _ H1) as A1. pose proof (HU _ H2) as A2. simpl in A1, A2.
  destruct s1, s2; try discriminate; auto.
Qed.

(* the verdict against the schema BEFORE process_schema never influences the run *)
Definition with_raw_op_errors (w : world) (errs : list (string * string)) : world :=
  {| w_schema_files := w_schema_files w; w_schema_build := w_schema_build w; w_url := w_url w;
     w_resp := w_resp w; w_deep := w_deep w; w_schema_errors := w_schema_errors w;
     w_plugin_err := w_plugin_err w; w_query_files := w_query_files w; w_op_errors := w_op_errors w;
     w_op_errors_raw := errs; w_ops := w_ops w; w_fragments := w_fragments w;
     w_query_type := w_query_type w; w_mutation_type := w_mutation_type w |}.

Theorem run_client_ignores_raw_verdict e cfg w errs :
  run_client e cfg (with_raw_op_errors w errs) = run_client e cfg w.
Proof. destruct w. reflexivity. Qed.
