(* Proofs about Model/SchemaGen.v: eval_module (gen_module S) = Some (strip_std S). *)
From Coq Require Import List String Ascii ZArith Bool Arith Lia.
From AC Require Import Base.Strs Base.Sexp Model.PyRepr Proofs.PyReprP Model.SchemaGen.
Import ListNotations.
Local Open Scope string_scope.
Local Open Scope list_scope.

(* ---------- constants through repr / literal_eval ---------- *)
Lemma lit_repr v : wf_val v = true -> lit (EConst (py_repr v)) = Some v.
Proof. intro W. simpl. apply repr_roundtrip. exact W. Qed.

Lemma ev_str_e_str s : ev_str (e_str s) = Some s.
Proof.
  unfold ev_str, e_str. change (repr_str s) with (py_repr (PStr s)).
  rewrite lit_repr by reflexivity. reflexivity.
Qed.

Lemma lit_none : lit e_none = Some PNone.
Proof. vm_compute. reflexivity. Qed.

Lemma ev_optstr_ok o : ev_optstr (e_optstr o) = Some o.
Proof.
  destruct o as [s|]; unfold ev_optstr, e_optstr.
  - unfold e_str. change (repr_str s) with (py_repr (PStr s)). rewrite lit_repr by reflexivity. reflexivity.
  - rewrite lit_none. reflexivity.
Qed.

Lemma ev_bool_ok b : ev_bool (e_bool b) = Some b.
Proof. destruct b; vm_compute; reflexivity. Qed.

(* ---------- generic list lemmas ---------- *)
Lemma mapM_map {X Y} (f : X -> option Y) (g : Y -> X) (l : list Y) :
  (forall y, In y l -> f (g y) = Some y) -> mapM f (map g l) = Some l.
Proof.
  induction l as [|y r IH]; intro H; simpl; [reflexivity|].
  rewrite (H y) by (left; reflexivity). rewrite IH by (intros; apply H; right; assumption). reflexivity.
Qed.

Lemma mapM_map2 {X Y Z} (f : X -> option Z) (g : Y -> X) (h : Y -> Z) (l : list Y) :
  (forall y, In y l -> f (g y) = Some (h y)) -> mapM f (map g l) = Some (map h l).
Proof.
  induction l as [|y r IH]; intro H; simpl; [reflexivity|].
  rewrite (H y) by (left; reflexivity). rewrite IH by (intros; apply H; right; assumption). reflexivity.
Qed.

Lemma unparse_wf v : wf_val v = true -> unparse_const v = py_repr v.
Proof.
  destruct v; try reflexivity. unfold unparse_const. simpl wf_val. simpl py_repr. intro W.
  destruct (chars_eqb lexeme (s2l "inf")) eqn:E1.
  { apply chars_eqb_eq in E1. subst. vm_compute in W. discriminate. }
  destruct (chars_eqb lexeme (s2l "-inf")) eqn:E2.
  { apply chars_eqb_eq in E2. subst. vm_compute in W. discriminate. }
  reflexivity.
Qed.

(* atoms: one constant, read back by literal evaluation; +-inf travel as 1e309 / -1e309 *)
Lemma ev_val_atom v : is_atom v = true -> dv_val v = true -> ev_val (EConst (unparse_const v)) = Some v.
Proof.
  destruct v; try discriminate; intros _ D.
  - vm_compute. reflexivity.
  - destruct b; vm_compute; reflexivity.
  - cbn [ev_val unparse_const]. rewrite (repr_roundtrip (PInt z)) by reflexivity. reflexivity.
  - cbn [dv_val] in D. apply orb_true_iff in D as [D|D].
    + apply andb_true_iff in D as [W N]. apply negb_true_iff in N.
      cbn [ev_val]. rewrite (unparse_wf (PFloat lexeme)) by exact W.
      rewrite (repr_roundtrip (PFloat lexeme)) by exact W.
      unfold inf_spelling in N. apply orb_false_iff in N as [N1 N2].
      unfold canon_float. rewrite N1, N2. reflexivity.
    + unfold inf_lex in D. apply orb_true_iff in D as [D|D]; apply chars_eqb_eq in D; subst;
        vm_compute; reflexivity.
  - cbn [ev_val unparse_const]. rewrite (repr_roundtrip (PStr s)) by reflexivity. reflexivity.
Qed.

Lemma ev_val_list l : ev_val (EList l) = option_map PList (mapM ev_val l).
Proof.
  cbn [ev_val]. f_equal. induction l as [|x r IH]; [reflexivity|].
  cbn [mapM]. rewrite <- IH. reflexivity.
Qed.

Definition ev_entry (p : pyexpr * pyexpr) : option (chars * pyval) :=
  match ev_str (fst p), ev_val (snd p) with Some k, Some v => Some (k, v) | _, _ => None end.

Lemma ev_val_dict kv : ev_val (EDict kv) = option_map (fun l => PDict (dict_norm l)) (mapM ev_entry kv).
Proof.
  cbn [ev_val]. f_equal. induction kv as [|[k x] r IH]; [reflexivity|].
  cbn [mapM]. rewrite <- IH. unfold ev_entry, ev_str, lit. cbn [fst snd].
  destruct k; try reflexivity.
  destruct (py_literal_eval src) as [[]|]; try reflexivity.
  destruct (ev_val x); [|reflexivity].
  match goal with |- match ?X with _ => _ end = _ => destruct X end; reflexivity.
Qed.

Definition gen_entry (p : chars * pyval) : pyexpr * pyexpr := (e_str (fst p), gen_dv (snd p)).
Lemma gen_dv_dict kv : gen_dv (PDict kv) = EDict (map gen_entry kv).
Proof.
  cbn [gen_dv]. f_equal. induction kv as [|[k x] r IH]; [reflexivity|].
  cbn [map]. rewrite <- IH. reflexivity.
Qed.

(* defaults emitted as displays (fix 060db67): every default value, non-finite floats included *)
Theorem ev_val_gen_dv v : dv_val v = true -> ev_val (gen_dv v) = Some v.
Proof.
  induction v using pyval_ind2; intro D.
  - exact (ev_val_atom PNone eq_refl D).
  - exact (ev_val_atom (PBool b) eq_refl D).
  - exact (ev_val_atom (PInt z) eq_refl D).
  - exact (ev_val_atom (PFloat l) eq_refl D).
  - exact (ev_val_atom (PStr s) eq_refl D).
  - change (gen_dv (PList l)) with (EList (map gen_dv l)). rewrite ev_val_list.
    cbn [dv_val] in D. rewrite mapM_map; [reflexivity|].
    intros y Hin. rewrite Forall_forall in H. apply H; [exact Hin|].
    rewrite forallb_forall in D. apply D. exact Hin.
  - rewrite gen_dv_dict, ev_val_dict. cbn [dv_val] in D. apply andb_true_iff in D as [N D].
    rewrite (mapM_map ev_entry gen_entry).
    + cbn [option_map]. rewrite dict_norm_nodup by exact N. reflexivity.
    + intros [k x] Hin. unfold ev_entry, gen_entry. cbn [fst snd]. rewrite ev_str_e_str.
      rewrite Forall_forall in H. assert (Hx := H (k, x) Hin). cbn [snd] in Hx.
      rewrite Hx; [reflexivity|].
      rewrite forallb_forall in D. apply (D (k, x) Hin).
Qed.

(* ---------- names that are not shadowed ---------- *)
Definition fresh (tm : chars) : Prop := forall n, In n BUILTIN_NAMES -> chars_eqb n tm = false.

Lemma fresh_of_mem tm : mem_chars tm BUILTIN_NAMES = false -> fresh tm.
Proof.
  intros H n Hin. destruct (chars_eqb n tm) eqn:E; [|reflexivity].
  apply chars_eqb_eq in E. subst. apply mem_chars_In in Hin. congruence.
Qed.

Ltac in_builtin := vm_compute; repeat (first [left; reflexivity | right]).

Lemma gname_ok b tm n : chars_eqb (s2l n) tm = false -> gname b tm (EName (s2l n)) n = true.
Proof. intro H. unfold gname. rewrite chars_eqb_refl, H, andb_false_r. reflexivity. Qed.

Lemma gname_const b tm src n : gname b tm (EConst src) n = false.
Proof. reflexivity. Qed.

Lemma as_call_ok b tm f args kws : chars_eqb (s2l f) tm = false ->
  as_call b tm f (call f args kws) = Some (args, map (fun p => (s2l (fst p), snd p)) kws).
Proof. intro H. unfold as_call, call. rewrite gname_ok by assumption. reflexivity. Qed.

Lemma as_call_ok_eager tm f args kws :
  as_call false tm f (call f args kws) = Some (args, map (fun p => (s2l (fst p), snd p)) kws).
Proof. unfold as_call, call, gname. rewrite chars_eqb_refl. reflexivity. Qed.

Lemma ev_default_ok tm d : fresh tm ->
  match d with Some v => dv_val v = true | None => True end ->
  ev_default true tm (e_default d) = Some d.
Proof.
  intros F W. destruct d as [v|]; unfold ev_default, e_default.
  - assert (G : gname true tm (gen_dv v) "Undefined" = false) by (destruct v; reflexivity).
    rewrite G, ev_val_gen_dv by assumption. reflexivity.
  - rewrite gname_ok; [reflexivity|]. apply F. in_builtin.
Qed.

Lemma as_dict_EDict {X} (key : X -> chars) (val : X -> pyexpr) (l : list X) :
  nodup_keys (map key l) = true ->
  as_dict (EDict (map (fun x => (e_str (key x), val x)) l)) = Some (map (fun x => (key x, val x)) l).
Proof.
  intro N. unfold as_dict.
  rewrite (mapM_map2 _ _ (fun x => (key x, val x))).
  - simpl. rewrite dict_norm_nodup; [reflexivity|]. rewrite map_map. simpl. exact N.
  - intros y _. simpl. rewrite ev_str_e_str. reflexivity.
Qed.

Lemma as_dict_mk {X} (key : X -> chars) (val : X -> pyexpr) (l : list X) :
  nodup_keys (map key l) = true ->
  as_dict (mk_dict (map (fun x => (e_str (key x), val x)) l)) = Some (map (fun x => (key x, val x)) l).
Proof. apply as_dict_EDict. Qed.

(* ---------- name resolution ---------- *)
Definition info (t : ftype) : chars * (chars * chars) := (t_name t, (class_of (t_def t), t_name t)).
Definition env_of (U : list ftype) : env := map info U.

Lemma find_type_name l n t : find_type l n = Some t -> t_name t = n.
Proof.
  induction l as [|x r IH]; simpl; [discriminate|].
  destruct (chars_eqb n (t_name x)) eqn:E.
  - intros [= <-]. apply chars_eqb_eq in E. auto.
  - exact IH.
Qed.

(* lookup_resolves, part 1: the emitted map binds the key n to the class and name of the type n *)
Lemma assoc_env l n :
  assoc n (env_of l) = option_map (fun t => (class_of (t_def t), t_name t)) (find_type l n).
Proof.
  induction l as [|x r IH]; simpl; [reflexivity|].
  destruct (chars_eqb n (t_name x)); [reflexivity|exact IH].
Qed.

(* part 2: filtering the standard types out of the map does not lose any non-standard name *)
Lemma find_type_filter A n : is_standard n = false ->
  find_type (filter (fun t => negb (is_standard (t_name t))) A) n = find_type A n.
Proof.
  intro H. induction A as [|x r IH]; simpl; [reflexivity|].
  destruct (is_standard (t_name x)) eqn:E; simpl.
  - destruct (chars_eqb n (t_name x)) eqn:E2; [|exact IH].
    apply chars_eqb_eq in E2. subst. congruence.
  - rewrite IH. reflexivity.
Qed.

Lemma user_type_env S n t : user_type (s_types S) n = Some t ->
  assoc n (env_of (user_types S)) = Some (class_of (t_def t), n).
Proof.
  unfold user_type, user_types. destruct (is_standard n) eqn:E; [intro X; discriminate X|]. intro H.
  rewrite assoc_env, find_type_filter by assumption. rewrite H. simpl.
  rewrite (find_type_name _ _ _ H). reflexivity.
Qed.

Lemma ev_tm_get_ok tm E n : ev_tm_get true tm E (tm_get tm n) = assoc n E.
Proof. unfold ev_tm_get, tm_get. rewrite chars_eqb_refl. simpl. rewrite ev_str_e_str. reflexivity. Qed.

(* the five standard scalars *)
Lemma std_const_inv n c : std_const n = Some c ->
  std_of_const c = Some n /\ In c BUILTIN_NAMES.
Proof.
  unfold std_const, STANDARD_SCALARS. cbn [map fst snd assoc]. intro H.
  repeat match type of H with
  | (if chars_eqb n ?k then _ else _) = _ =>
      let E := fresh "E" in
      destruct (chars_eqb n k) eqn:E;
      [apply chars_eqb_eq in E; subst n; injection H as <-; split; [vm_compute; reflexivity|in_builtin]|]
  end.
  discriminate H.
Qed.

Lemma user_type_find S n t : user_type (s_types S) n = Some t -> find_type (s_types S) n = Some t.
Proof. unfold user_type. destruct (is_standard n); [intro X; discriminate X|auto]. Qed.

Lemma ev_cast_ref S tm n t : fresh tm -> user_type (s_types S) n = Some t ->
  ev_ref true tm (env_of (user_types S)) (cast_ref (s_types S) tm n) = Some n.
Proof.
  intros F H. unfold cast_ref. rewrite (user_type_find _ _ _ H).
  unfold ev_ref. unfold call at 1.
  rewrite as_call_ok by (apply F; in_builtin). simpl map.
  rewrite ev_tm_get_ok, (user_type_env _ _ _ H), chars_eqb_refl. reflexivity.
Qed.

Lemma ev_named_ref S tm n : fresh tm -> resolves (s_types S) n = true ->
  ev_ref true tm (env_of (user_types S)) (gen_named_ref (s_types S) tm n) = Some n.
Proof.
  intros F R. unfold resolves, gen_named_ref in *.
  destruct (std_const n) as [c|] eqn:E.
  - destruct (std_const_inv _ _ E) as [H1 H2]. unfold ev_ref.
    rewrite (F c H2). rewrite andb_false_r. exact H1.
  - destruct (user_type (s_types S) n) as [t|] eqn:E2; [|discriminate].
    eapply ev_cast_ref; eassumption.
Qed.

Lemma gen_named_ref_shape S tm n :
  (exists c, gen_named_ref (s_types S) tm n = EName c) \/
  (exists a b, gen_named_ref (s_types S) tm n = ECall (EName (s2l "cast")) [a; b] []).
Proof.
  unfold gen_named_ref. destruct (std_const n); [left; eexists; reflexivity|].
  right. unfold cast_ref, call. simpl. eexists. eexists. reflexivity.
Qed.

Lemma ev_type_ok S tm t : fresh tm -> resolves (s_types S) (named_of t) = true ->
  ev_type true tm (env_of (user_types S)) (gen_type (s_types S) tm t) = Some t.
Proof.
  intros F. induction t as [n|t IH|t IH]; intro R; simpl in R.
  - simpl gen_type.
    assert (H := ev_named_ref S tm n F R).
    destruct (gen_named_ref_shape S tm n) as [[c E]|[a [b E]]]; rewrite E in *;
      cbn [ev_type]; rewrite H; reflexivity.
  - simpl gen_type. unfold call. simpl map.
    assert (E : chars_eqb (s2l "GraphQLList") tm = false) by (apply F; in_builtin).
    cbn [ev_type]. rewrite E. rewrite andb_false_r.
    change (chars_eqb (s2l "GraphQLList") (s2l "GraphQLList")) with true. cbv iota.
    rewrite (IH R). reflexivity.
  - simpl gen_type. unfold call. simpl map.
    assert (E : chars_eqb (s2l "GraphQLNonNull") tm = false) by (apply F; in_builtin).
    cbn [ev_type]. rewrite E. rewrite andb_false_r.
    change (chars_eqb (s2l "GraphQLNonNull") (s2l "GraphQLList")) with false.
    change (chars_eqb (s2l "GraphQLNonNull") (s2l "GraphQLNonNull")) with true. cbv iota.
    rewrite (IH R). reflexivity.
Qed.

(* ---------- arguments, fields ---------- *)
Local Opaque ev_type gen_type e_default ev_default e_optstr ev_optstr e_str ev_str.

Lemma kw_optstr_hit k kws o : kw k kws = Some (e_optstr o) -> kw_optstr k kws = Some o.
Proof. intro H. unfold kw_optstr. rewrite H. apply ev_optstr_ok. Qed.

Lemma ev_arg_ok cls S tm a : fresh tm -> chars_eqb (s2l cls) tm = false ->
  wf_arg dv_val (s_types S) a = true ->
  ev_arg cls true tm (env_of (user_types S)) (a_name a, gen_arg cls (s_types S) tm a) = Some a.
Proof.
  intros F Hc W. unfold wf_arg in W. apply andb_true_iff in W as [W1 W2].
  unfold ev_arg, gen_arg. cbn [snd fst]. rewrite as_call_ok by assumption.
  rewrite ev_type_ok by assumption.
  cbn [map fst snd]. 
  assert (K1 : kw "default_value" [(s2l "default_value", e_default (a_default a));
      (s2l "description", e_optstr (a_desc a)); (s2l "deprecation_reason", e_optstr (a_depr a))]
      = Some (e_default (a_default a))) by reflexivity.
  rewrite K1. rewrite ev_default_ok by (try assumption; destruct (a_default a); auto).
  rewrite (kw_optstr_hit "description" _ (a_desc a)) by reflexivity.
  rewrite (kw_optstr_hit "deprecation_reason" _ (a_depr a)) by reflexivity.
  destruct a; reflexivity.
Qed.

Lemma ev_arg_list cls S tm l b : fresh tm -> chars_eqb (s2l cls) tm = false ->
  forallb (wf_arg dv_val (s_types S)) l = true -> b = true ->
  mapM (ev_arg cls b tm (env_of (user_types S)))
       (map (fun a => (a_name a, gen_arg cls (s_types S) tm a)) l) = Some l.
Proof.
  intros F Hc W ->. apply mapM_map. intros a Hin.
  apply ev_arg_ok; try assumption. rewrite forallb_forall in W. apply W. exact Hin.
Qed.

Lemma ev_args_ok S tm l : fresh tm -> wf_args dv_val (s_types S) l = true ->
  ev_args "GraphQLArgument" true tm (env_of (user_types S)) (gen_args (s_types S) tm l) = Some l.
Proof.
  intros F W. unfold wf_args in W. apply andb_true_iff in W as [N W].
  unfold ev_args, gen_args.
  rewrite (as_dict_mk a_name (gen_arg "GraphQLArgument" (s_types S) tm)) by assumption.
  apply ev_arg_list; auto. apply F. in_builtin.
Qed.

Local Opaque ev_args gen_args.

Lemma ev_field_ok S tm f : fresh tm -> wf_field dv_val (s_types S) f = true ->
  ev_field true tm (env_of (user_types S)) (f_name f, gen_field (s_types S) tm f) = Some f.
Proof.
  intros F W. unfold wf_field in W. apply andb_true_iff in W as [W1 W2].
  unfold ev_field, gen_field. cbn [snd fst].
  rewrite as_call_ok by (apply F; in_builtin).
  rewrite ev_type_ok by assumption. cbn [map fst snd].
  assert (K1 : kw "args" [(s2l "args", gen_args (s_types S) tm (f_args f));
      (s2l "description", e_optstr (f_desc f)); (s2l "deprecation_reason", e_optstr (f_depr f))]
      = Some (gen_args (s_types S) tm (f_args f))) by reflexivity.
  rewrite K1. rewrite ev_args_ok by assumption.
  rewrite (kw_optstr_hit "description" _ (f_desc f)) by reflexivity.
  rewrite (kw_optstr_hit "deprecation_reason" _ (f_depr f)) by reflexivity.
  destruct f; reflexivity.
Qed.

Lemma ev_fields_ok S tm fs : fresh tm -> wf_fields dv_val (s_types S) fs = true ->
  ev_fields false tm (env_of (user_types S)) (gen_field_map (s_types S) tm fs) = Some fs.
Proof.
  intros F W. unfold wf_fields in W. apply andb_true_iff in W as [N W].
  unfold ev_fields, gen_field_map. destruct fs as [|f r].
  - reflexivity.
  - cbn [unthunk].
    rewrite (as_dict_EDict f_name (gen_field (s_types S) tm)) by assumption.
    apply mapM_map. intros x Hin. apply ev_field_ok; [assumption|].
    rewrite forallb_forall in W. apply W. exact Hin.
Qed.

Lemma ev_input_fields_ok S tm fs : fresh tm -> wf_args dv_val (s_types S) fs = true ->
  ev_input_fields false tm (env_of (user_types S)) (gen_input_field_map (s_types S) tm fs) = Some fs.
Proof.
  intros F W. unfold wf_args in W. apply andb_true_iff in W as [N W].
  unfold ev_input_fields, gen_input_field_map. destruct fs as [|f r].
  - reflexivity.
  - cbn [unthunk].
    rewrite (as_dict_EDict a_name (gen_arg "GraphQLInputField" (s_types S) tm)) by assumption.
    apply ev_arg_list; auto. apply F. in_builtin.
Qed.

(* lists of interfaces / union members *)
Lemma ev_type_list_ok S tm ann names : fresh tm ->
  chars_eqb (s2l ann) tm = false \/ True ->
  forallb (has_class (s_types S) ann) names = true ->
  ev_type_list false tm (env_of (user_types S)) ann (gen_type_list tm ann names) = Some names.
Proof.
  intros F _ W. unfold ev_type_list, gen_type_list. destruct names as [|n r].
  - reflexivity.
  - cbn [unthunk]. rewrite as_call_ok by (apply F; in_builtin). cbn [map].
    rewrite gname_ok by (apply F; in_builtin).
    assert (G2 : gname false tm (EName (s2l ann)) ann = true).
    { unfold gname. rewrite chars_eqb_refl. reflexivity. }
    rewrite G2. cbn [andb]. unfold call.
    change (tm_get tm n :: map (tm_get tm) r) with (map (tm_get tm) (n :: r)).
    apply mapM_map. intros x Hin. rewrite ev_tm_get_ok.
    rewrite forallb_forall in W. specialize (W x Hin). unfold has_class in W.
    destruct (user_type (s_types S) x) as [t|] eqn:E; [|discriminate].
    rewrite (user_type_env _ _ _ E). rewrite W. reflexivity.
Qed.

Lemma ev_enum_value_ok tm v : is_atom (ev_value v) && dv_val (ev_value v) = true ->
  ev_enum_value false tm (ev_name v, gen_enum_value v) = Some v.
Proof.
  intro W. unfold ev_enum_value, gen_enum_value. cbn [snd fst].
  rewrite as_call_ok_eager. cbn [map fst snd].
  assert (K1 : kw "value" [(s2l "value", e_val (ev_value v));
      (s2l "description", e_optstr (ev_desc v)); (s2l "deprecation_reason", e_optstr (ev_depr v))]
      = Some (e_val (ev_value v))) by reflexivity.
  apply andb_true_iff in W as [W1 W2]. rewrite K1. unfold e_val. rewrite ev_val_atom by assumption.
  rewrite (kw_optstr_hit "description" _ (ev_desc v)) by reflexivity.
  rewrite (kw_optstr_hit "deprecation_reason" _ (ev_depr v)) by reflexivity.
  destruct v; reflexivity.
Qed.

(* ---------- named types ---------- *)
Local Opaque ev_fields ev_input_fields ev_type_list gen_field_map gen_input_field_map gen_type_list
  ev_enum_value gen_enum_value lit ev_val.

Lemma ev_type_head_ok A tm t :
  ev_type_head (gen_named_type A tm t) = Some (class_of (t_def t), t_name t).
Proof.
  unfold gen_named_type. destruct (t_def t); unfold call; cbn -[mk_dict];
    rewrite ev_str_e_str; reflexivity.
Qed.

Lemma enum_values_ok tm vs :
  nodup_keys (map ev_name vs) = true ->
  forallb (fun v => is_atom (ev_value v) && dv_val (ev_value v)) vs = true ->
  match as_dict (mk_dict (map (fun v => (e_str (ev_name v), gen_enum_value v)) vs)) with
  | Some kv => mapM (ev_enum_value false tm) kv
  | None => None
  end = Some vs.
Proof.
  intros N W. rewrite (as_dict_mk ev_name gen_enum_value) by assumption.
  apply mapM_map. intros v Hin. apply ev_enum_value_ok.
  rewrite forallb_forall in W. apply W. exact Hin.
Qed.

Lemma ev_named_type_ok S tm t : fresh tm -> wf_type dv_val (s_types S) t = true ->
  ev_named_type tm (env_of (user_types S)) (gen_named_type (s_types S) tm t) = Some t.
Proof.
  intros F W. unfold wf_type in W.
  destruct t as [nm ds d]. cbn [t_def t_name t_desc] in *.
  destruct d as [sb|ifs fs|ifs fs|ms|vs|fs];
    (match goal with |- ev_named_type _ _ (gen_named_type ?A ?tm ?t) = _ =>
       assert (HH := ev_type_head_ok A tm t) end);
    unfold gen_named_type in *; cbn [t_def t_name t_desc] in *; unfold call in *;
    cbn [map fst snd] in *; unfold ev_named_type; rewrite HH; cbn [class_of].
  - rewrite (kw_optstr_hit "description" _ ds) by reflexivity.
    cbn -[kw_optstr]. rewrite (kw_optstr_hit "specified_by_url" _ sb) by reflexivity. reflexivity.
  - apply andb_true_iff in W as [W1 W2].
    rewrite (kw_optstr_hit "description" _ ds) by reflexivity.
    cbn -[kw_optstr mk_dict].
    rewrite ev_type_list_ok by auto. rewrite ev_fields_ok by assumption. reflexivity.
  - apply andb_true_iff in W as [W1 W2].
    rewrite (kw_optstr_hit "description" _ ds) by reflexivity.
    cbn -[kw_optstr mk_dict].
    rewrite ev_type_list_ok by auto. rewrite ev_fields_ok by assumption. reflexivity.
  - rewrite (kw_optstr_hit "description" _ ds) by reflexivity.
    cbn -[kw_optstr mk_dict].
    rewrite ev_type_list_ok by auto. reflexivity.
  - apply andb_true_iff in W as [W1 W2].
    rewrite (kw_optstr_hit "description" _ ds) by reflexivity.
    cbn -[kw_optstr mk_dict as_dict].
    assert (EV := enum_values_ok tm vs W1 W2).
    destruct (as_dict (mk_dict (map (fun v : fenumval => (e_str (ev_name v), gen_enum_value v)) vs)));
      [|discriminate EV].
    rewrite EV. reflexivity.
  - rewrite (kw_optstr_hit "description" _ ds) by reflexivity.
    cbn -[kw_optstr mk_dict].
    rewrite ev_input_fields_ok by assumption. reflexivity.
Qed.

(* ---------- directives, roots, the module ---------- *)
Local Transparent lit gen_args ev_optstr.
Lemma ev_optstr_nonconst_dict A tm x r : ev_optstr (gen_args A tm (x :: r)) = None.
Proof. reflexivity. Qed.
Lemma ev_optstr_call f args kws : ev_optstr (ECall f args kws) = None.
Proof. reflexivity. Qed.
Local Opaque lit gen_args ev_optstr.

Lemma ev_directive_ok S tm d : fresh tm -> wf_args dv_val (s_types S) (d_args d) = true ->
  ev_directive tm (env_of (user_types S)) (gen_directive (s_types S) tm d) = Some d.
Proof.
  intros F W. unfold ev_directive, gen_directive.
  rewrite as_call_ok by (apply F; in_builtin). cbn [map fst snd].
  match goal with |- context [kw "name" ?K] =>
    assert (K1 : kw "name" K = Some (e_str (d_name d))) by reflexivity;
    assert (K3 : kw "is_repeatable" K = Some (e_bool (d_rep d))) by reflexivity;
    assert (K4 : kw "locations" K =
      Some (ETuple (map (fun l => EAttr (EName (s2l "DirectiveLocation")) l) (d_locs d)))) by reflexivity;
    assert (K5 : kw "args" K = Some (match d_args d with [] => e_none | _ => gen_args (s_types S) tm (d_args d) end))
      by reflexivity;
    rewrite K1, K3, K4, K5, (kw_optstr_hit "description" K (d_desc d)) by reflexivity
  end.
  rewrite ev_str_e_str, ev_bool_ok.
  assert (L : mapM (ev_location tm) (map (fun l => EAttr (EName (s2l "DirectiveLocation")) l) (d_locs d))
              = Some (d_locs d)).
  { apply mapM_map. intros l _. unfold ev_location. rewrite gname_ok by (apply F; in_builtin). reflexivity. }
  rewrite L.
  assert (AR : match ev_optstr (match d_args d with [] => e_none | _ => gen_args (s_types S) tm (d_args d) end) with
               | Some None => Some []
               | _ => ev_args "GraphQLArgument" true tm (env_of (user_types S))
                        (match d_args d with [] => e_none | _ => gen_args (s_types S) tm (d_args d) end)
               end = Some (d_args d)).
  { destruct (d_args d) as [|x r] eqn:E.
    - change e_none with (e_optstr None). rewrite ev_optstr_ok. reflexivity.
    - rewrite ev_optstr_nonconst_dict. rewrite <- E in *. apply ev_args_ok; assumption. }
  rewrite AR. destruct d; reflexivity.
Qed.

Lemma ev_opt_ref_ok S tm o k kws : fresh tm -> wf_root (s_types S) o = true ->
  kw k kws = Some (gen_opt_ref (s_types S) tm o) ->
  ev_opt_ref tm (env_of (user_types S)) (kw k kws) = Some o.
Proof.
  intros F W K. rewrite K. unfold ev_opt_ref, gen_opt_ref. destruct o as [n|].
  - unfold wf_root in W. destruct (user_type (s_types S) n) as [t|] eqn:E; [|discriminate].
    unfold cast_ref at 1. unfold call at 1. rewrite ev_optstr_call.
    rewrite (ev_cast_ref S tm n t F E). reflexivity.
  - change e_none with (e_optstr None). rewrite ev_optstr_ok. reflexivity.
Qed.

Lemma as_list_mk l : as_list (mk_list l) = Some l.
Proof. reflexivity. Qed.

Theorem schema_roundtrip S tm sn :
  wf_fschema S tm = true -> eval_module (gen_module S tm sn) = Some (strip_std S).
Proof.
  unfold wf_fschema, wf_gen. intro W. apply andb_true_iff in W as [W0 W].
  repeat (apply andb_true_iff in W; destruct W as [W ?]).
  apply negb_true_iff in W0. assert (F := fresh_of_mem tm W0).
  unfold eval_module, gen_module. cbn [m_body as_target as_value].
  unfold gen_type_map.
  rewrite (as_dict_mk t_name (gen_named_type (s_types S) tm)) by assumption.
  rewrite (mapM_map2 _ _ info).
  2:{ intros t _. cbn [snd fst]. rewrite ev_type_head_ok. reflexivity. }
  change (map info (user_types S)) with (env_of (user_types S)).
  rewrite (mapM_map (fun p => ev_named_type tm (env_of (user_types S)) (snd p))
                    (fun t => (t_name t, gen_named_type (s_types S) tm t))).
  2:{ intros t Hin. cbn [snd]. apply ev_named_type_ok; [assumption|].
      match goal with H : forallb (wf_type _ _) _ = true |- _ => rewrite forallb_forall in H; apply H; exact Hin end. }
  unfold gen_schema. rewrite as_call_ok by (apply F; in_builtin). cbn [map fst snd].
  match goal with |- context [kw "types" ?K] =>
    assert (K1 : kw "types" K = Some (ECall (EAttr (EName tm) (s2l "values")) [] [])) by reflexivity;
    assert (K2 : kw "directives" K = Some (mk_list (map (gen_directive (s_types S) tm) (s_directives S))))
      by reflexivity;
    rewrite K1, K2, (kw_optstr_hit "description" K (s_desc S)) by reflexivity;
    rewrite (ev_opt_ref_ok S tm (s_query S) "query" K) by (try assumption; reflexivity);
    rewrite (ev_opt_ref_ok S tm (s_mutation S) "mutation" K) by (try assumption; reflexivity);
    rewrite (ev_opt_ref_ok S tm (s_subscription S) "subscription" K) by (try assumption; reflexivity)
  end.
  rewrite chars_eqb_refl. change (chars_eqb (s2l "values") (s2l "values")) with true. cbn [andb].
  rewrite as_list_mk.
  rewrite (mapM_map (ev_directive tm (env_of (user_types S))) (gen_directive (s_types S) tm)).
  2:{ intros d Hin. apply ev_directive_ok; [assumption|].
      match goal with H : forallb (fun d => wf_args _ _ (d_args d)) _ = true |- _ =>
        rewrite forallb_forall in H; apply H; exact Hin end. }
  reflexivity.
Qed.

(* the configured names are the assignment targets (by construction of gen_module) *)
Lemma names_used S tm sn : assign_targets (gen_module S tm sn) = [tm; sn].
Proof. reflexivity. Qed.

(* ---------- the guard, spelled as "valid and finite" ---------- *)
Lemma forallb_impl {X} (p q : X -> bool) l : (forall x, p x = true -> q x = true) ->
  forallb p l = true -> forallb q l = true.
Proof.
  intros H. induction l; simpl; auto. intro A. apply andb_true_iff in A as [A1 A2].
  rewrite (H _ A1). simpl. auto.
Qed.

Section Mono.
  Variables vok1 vok2 : pyval -> bool.
  Hypothesis Hv : forall v, vok1 v = true -> vok2 v = true.

  Lemma wf_arg_mono U a : wf_arg vok1 U a = true -> wf_arg vok2 U a = true.
  Proof.
    unfold wf_arg. intro H. apply andb_true_iff in H as [A B]. rewrite A. simpl.
    destruct (a_default a); auto.
  Qed.
  Lemma wf_args_mono U l : wf_args vok1 U l = true -> wf_args vok2 U l = true.
  Proof.
    unfold wf_args. intro H. apply andb_true_iff in H as [A B]. rewrite A. simpl.
    eapply forallb_impl; [|exact B]. apply wf_arg_mono.
  Qed.
  Lemma wf_field_mono U f : wf_field vok1 U f = true -> wf_field vok2 U f = true.
  Proof.
    unfold wf_field. intro H. apply andb_true_iff in H as [A B]. rewrite A. simpl. apply wf_args_mono; auto.
  Qed.
  Lemma wf_fields_mono U l : wf_fields vok1 U l = true -> wf_fields vok2 U l = true.
  Proof.
    unfold wf_fields. intro H. apply andb_true_iff in H as [A B]. rewrite A. simpl.
    eapply forallb_impl; [|exact B]. apply wf_field_mono.
  Qed.
  Lemma wf_type_mono U t : wf_type vok1 U t = true -> wf_type vok2 U t = true.
  Proof.
    unfold wf_type. destruct (t_def t); auto.
    - intro H. apply andb_true_iff in H as [A B]. rewrite A. simpl. apply wf_fields_mono; auto.
    - intro H. apply andb_true_iff in H as [A B]. rewrite A. simpl. apply wf_fields_mono; auto.
    - intro H. apply andb_true_iff in H as [A B]. rewrite A. simpl.
      eapply forallb_impl; [|exact B]. intros x Hx. apply andb_true_iff in Hx as [X1 X2].
      rewrite X1, (Hv _ X2). reflexivity.
    - apply wf_args_mono.
  Qed.
  Lemma wf_gen_mono S : wf_gen vok1 S = true -> wf_gen vok2 S = true.
  Proof.
    unfold wf_gen. intro W.
    repeat (apply andb_true_iff in W; destruct W as [W ?]).
    repeat (apply andb_true_iff; split); auto.
    - eapply forallb_impl; [|eassumption]. apply wf_type_mono.
    - eapply forallb_impl; [|eassumption]. intros d. apply wf_args_mono.
  Qed.
End Mono.

(* dv_val is py_val minus nan (and minus the non-repr spellings 1e309 / -1e309) *)
Lemma dv_is_py v : dv_val v = true -> py_val v = true.
Proof.
  induction v using pyval_ind2; cbn [dv_val py_val]; auto.
  - intro D. apply orb_true_iff in D as [D|D].
    + apply andb_true_iff in D as [D _]. rewrite D. reflexivity.
    + unfold inf_lex in D. unfold nonfinite_lex. apply orb_true_iff in D as [D|D]; rewrite D;
        rewrite ?orb_true_r; reflexivity.
  - intro D. rewrite forallb_forall in *. intros x Hin. rewrite Forall_forall in H. apply H; auto.
  - intro D. apply andb_true_iff in D as [N D]. rewrite N. cbn [andb].
    rewrite forallb_forall in *. intros x Hin. rewrite Forall_forall in H. apply H; auto.
Qed.

Theorem schema_roundtrip_guarded S tm sn :
  wf_gen dv_val S = true -> mem_chars tm BUILTIN_NAMES = false ->
  eval_module (gen_module S tm sn) = Some (strip_std S).
Proof.
  intros W F. apply schema_roundtrip. unfold wf_fschema. rewrite F. exact W.
Qed.

Lemma guard_is_valid S : wf_gen dv_val S = true -> valid_fschema S = true.
Proof. apply wf_gen_mono. apply dv_is_py. Qed.

(* ---------- the settings check is what keeps the type-map variable from shadowing an import ---------- *)
Lemma settings_fresh tm sn : settings_ok tm sn = true -> mem_chars tm BUILTIN_NAMES = false.
Proof.
  unfold settings_ok, RESERVED_VARIABLE_NAMES. intro H.
  repeat (apply andb_true_iff in H; destruct H as [H ?]).
  match goal with X : negb (mem_chars tm BUILTIN_NAMES) = true |- _ => apply negb_true_iff in X; exact X end.
Qed.

Theorem schema_roundtrip_settings S tm sn :
  settings_ok tm sn = true -> wf_gen dv_val S = true ->
  eval_module (gen_module S tm sn) = Some (strip_std S).
Proof. intros H W. apply schema_roundtrip_guarded; [exact W|]. eapply settings_fresh; exact H. Qed.

Theorem strategy_roundtrip S tm sn m :
  wf_gen dv_val S = true -> strategy_py S tm sn = Some m -> eval_module m = Some (strip_std S).
Proof.
  unfold strategy_py. intros W H. destruct (settings_ok tm sn) eqn:E; [|discriminate].
  injection H as <-. apply schema_roundtrip_settings; assumption.
Qed.

(* nothing of the schema is lost in the module: two valid schemas with the same module are the same *)
Theorem gen_injective S1 S2 tm sn :
  settings_ok tm sn = true -> wf_gen dv_val S1 = true -> wf_gen dv_val S2 = true ->
  gen_module S1 tm sn = gen_module S2 tm sn -> strip_std S1 = strip_std S2.
Proof.
  intros H W1 W2 E.
  assert (A := schema_roundtrip_settings S1 tm sn H W1).
  assert (B := schema_roundtrip_settings S2 tm sn H W2).
  rewrite E in A. rewrite A in B. congruence.
Qed.

(* ---------- histories: the target's previous content never matters ---------- *)
Theorem step_ignores_target old1 old2 x : settings_ok (st_tm x) (st_sn x) = true ->
  graphql_schema_step old1 x = graphql_schema_step old2 x.
Proof. unfold graphql_schema_step. intros ->. reflexivity. Qed.

Lemma history_snoc old h x : run_history old (h ++ [x]) = graphql_schema_step (run_history old h) x.
Proof. unfold run_history. rewrite fold_left_app. reflexivity. Qed.

(* after any history, the target is the fresh output of the last accepted step *)
Theorem history_is_last_step old h x : settings_ok (st_tm x) (st_sn x) = true ->
  run_history old (h ++ [x]) = Some (fresh_output x).
Proof. intro H. rewrite history_snoc. unfold graphql_schema_step. rewrite H. reflexivity. Qed.

Theorem history_refused_keeps old h x : settings_ok (st_tm x) (st_sn x) = false ->
  run_history old (h ++ [x]) = run_history old h.
Proof. intro H. rewrite history_snoc. unfold graphql_schema_step. rewrite H. reflexivity. Qed.

(* so a .py target always evaluates back to the schema of the last accepted step, whatever came before *)
Theorem history_roundtrip old h x : settings_ok (st_tm x) (st_sn x) = true -> st_format x = FPy ->
  wf_gen dv_val (st_schema x) = true ->
  exists m, run_history old (h ++ [x]) = Some (CModule m) /\ eval_module m = Some (strip_std (st_schema x)).
Proof.
  intros H F W. rewrite (history_is_last_step old h x H). unfold fresh_output. rewrite F.
  eexists. split; [reflexivity|]. apply schema_roundtrip_settings; assumption.
Qed.

(* client() runs interleaved in the same process change nothing for the schema target *)
Theorem process_ignores_clients h : forall old, run_process old h = run_history old (schema_steps h).
Proof.
  induction h as [|e r IH]; intro old; [reflexivity|].
  destruct e as [x|]; simpl.
  - unfold run_process, run_history in *. simpl. apply IH.
  - unfold run_process in *. simpl. apply IH.
Qed.

Theorem process_is_last_step old h x h' : settings_ok (st_tm x) (st_sn x) = true ->
  schema_steps h' = [] ->
  run_process old (h ++ EvSchema x :: h') = Some (fresh_output x).
Proof.
  intros H E. rewrite process_ignores_clients.
  unfold schema_steps in *. rewrite flat_map_app. simpl. fold (schema_steps h'). unfold schema_steps. rewrite E.
  apply history_is_last_step. exact H.
Qed.
