(* Proofs about Model/Convert.v against the coercion specification Gql/Coerce.v. *)
From Coq Require Import List String Ascii ZArith Bool Lia.
From AC Require Import Base.Strs Base.Sexp Base.Json Model.Names Proofs.NamesP Gql.Coerce Model.Args
     Proofs.ArgsP Model.Convert.
Import ListNotations.
Local Open Scope string_scope.

(* ---------- small facts about association lists ---------- *)
Lemma mem_str_In s l : mem_str s l = true <-> In s l.
Proof.
  induction l as [|x l IH]; simpl; [split; [discriminate|tauto]|].
  rewrite orb_true_iff, IH, String.eqb_eq. split; intros [H|H]; auto.
Qed.

Lemma mem_str_false s l : mem_str s l = false <-> ~ In s l.
Proof.
  rewrite <- mem_str_In. destruct (mem_str s l); split; intro H; try reflexivity; try discriminate.
  exfalso; apply H; reflexivity.
Qed.

Lemma nodup_str_NoDup l : nodup_str l = true <-> NoDup l.
Proof.
  induction l as [|x l IH]; simpl.
  - split; [constructor|reflexivity].
  - rewrite andb_true_iff, negb_true_iff, mem_str_false, IH. split.
    + intros [H1 H2]; constructor; assumption.
    + intro H; inversion H; subst; split; assumption.
Qed.

Lemma jlookup_assoc k (kv : list (string * json)) : jlookup k kv = assoc k kv.
Proof. induction kv as [|[k' v] r IH]; simpl; [reflexivity|]. rewrite IH. reflexivity. Qed.

Lemma assoc_In {X} k (l : list (string * X)) v : assoc k l = Some v -> In k (map fst l).
Proof.
  induction l as [|[k' x] r IH]; simpl; [discriminate|].
  destruct (String.eqb k k') eqn:E; intro H.
  - apply String.eqb_eq in E. left; symmetry; exact E.
  - right; apply IH; exact H.
Qed.

Lemma assoc_In_pair {X} k (l : list (string * X)) v : assoc k l = Some v -> In (k, v) l.
Proof.
  induction l as [|[k' x] r IH]; simpl; [discriminate|].
  destruct (String.eqb k k') eqn:E; intro H.
  - apply String.eqb_eq in E. inversion H; subst. left; reflexivity.
  - right; apply IH; exact H.
Qed.

Lemma assoc_None {X} k (l : list (string * X)) : ~ In k (map fst l) -> assoc k l = None.
Proof.
  induction l as [|[k' x] r IH]; simpl; [reflexivity|]. intro H.
  destruct (String.eqb k k') eqn:E.
  - apply String.eqb_eq in E. exfalso; apply H; left; symmetry; exact E.
  - apply IH. intro; apply H; right; assumption.
Qed.

Lemma fwire_is_name snake f : fwire snake f = if_name f.
Proof. unfold fwire, fdecl. rewrite field_wire_name. apply l2s_s2l. Qed.

(* ---------- lists: element-wise results lift to map_opt ---------- *)
Lemma list_delivery {X J C} (D : nat -> X -> option J) (Co : J -> option C) (I : X -> option C) n l :
  (forall x, In x l -> exists j c, (forall m, n <= m -> D m x = Some j) /\ Co j = Some c /\ I x = Some c) ->
  exists js cs, (forall m, n <= m -> map_opt (D m) l = Some js) /\ map_opt Co js = Some cs /\
                map_opt I l = Some cs.
Proof.
  induction l as [|x l IH]; intro H.
  - exists [], []. repeat split; reflexivity.
  - destruct (H x (or_introl eq_refl)) as [j [c [Hd [Hc Hi]]]].
    destruct IH as [js [cs [Hds [Hcs His]]]]; [intros y Hy; apply H; right; exact Hy|].
    exists (j :: js), (c :: cs). repeat split.
    + intros m Hm. simpl. rewrite (Hd m Hm), (Hds m Hm). reflexivity.
    + simpl. rewrite Hc, Hcs. reflexivity.
    + simpl. rewrite Hi, His. reflexivity.
Qed.

(* ---------- the object dumped for a model: keys and lookups ---------- *)
Section DumpFields.
  Variable df : gtype -> pyval -> option json.
  Variable snake : bool.
  Variable kw : list (string * pyval).

  Lemma dump_fields_keys fs o :
    dump_fields df snake fs kw = Some o -> forall k, In k (map fst o) -> In k (map (fwire snake) fs).
  Proof.
    revert o; induction fs as [|f r IH]; simpl; intros o H k Hk.
    - inversion H; subst; exact Hk.
    - destruct (assoc (fpy snake f) kw) as [v|].
      + destruct (df (if_type f) v) as [j|]; [|discriminate].
        destruct (dump_fields df snake r kw) as [o'|]; [|discriminate].
        inversion H; subst; simpl in Hk. destruct Hk as [Hk|Hk]; [left; exact Hk|right; eapply IH; eauto].
      + right; eapply IH; eauto.
  Qed.

  Lemma dump_fields_nodup fs o :
    NoDup (map (fwire snake) fs) -> dump_fields df snake fs kw = Some o -> NoDup (map fst o).
  Proof.
    revert o; induction fs as [|f r IH]; simpl; intros o Hn H.
    - inversion H; constructor.
    - apply NoDup_cons_iff in Hn as [Hnotin Hnd]. destruct (assoc (fpy snake f) kw) as [v|].
      + destruct (df (if_type f) v) as [j|]; [|discriminate].
        destruct (dump_fields df snake r kw) as [o'|] eqn:E; [|discriminate].
        inversion H; subst; simpl. constructor; [|apply IH; auto].
        intro Hin. apply Hnotin. eapply dump_fields_keys; eauto.
      + apply IH; auto.
  Qed.

  Lemma dump_fields_lookup fs o :
    NoDup (map (fwire snake) fs) -> dump_fields df snake fs kw = Some o ->
    forall g, In g fs ->
      jlookup (fwire snake g) o =
      match assoc (fpy snake g) kw with Some v => df (if_type g) v | None => None end.
  Proof.
    revert o; induction fs as [|f r IH]; simpl; intros o Hn H g Hg; [contradiction|].
    apply NoDup_cons_iff in Hn as [Hnotin Hnd].
    destruct (assoc (fpy snake f) kw) as [v|] eqn:Ef.
    - destruct (df (if_type f) v) as [j|] eqn:Ej; [|discriminate].
      destruct (dump_fields df snake r kw) as [o'|] eqn:E; [|discriminate].
      inversion H; subst; simpl.
      destruct Hg as [Hg|Hg].
      + subst g. rewrite String.eqb_refl, Ef. symmetry; exact Ej.
      + destruct (String.eqb (fwire snake g) (fwire snake f)) eqn:Eq.
        * apply String.eqb_eq in Eq. exfalso. apply Hnotin. rewrite <- Eq.
          apply (in_map (fwire snake)). exact Hg.
        * apply IH; auto.
    - destruct Hg as [Hg|Hg].
      + subst g. rewrite Ef. rewrite jlookup_assoc. apply assoc_None.
        intro Hin. apply Hnotin. eapply dump_fields_keys; eauto.
      + apply IH; auto.
  Qed.
End DumpFields.

(* ---------- main development, for arbitrary well-behaved serialize functions ---------- *)
Section Delivery.
  Variable ser : string -> pyval -> pyval.
  (* a serialize function maps a (non-null) JSON-native value to a non-null JSON-native value *)
  Definition ser_wf : Prop :=
    forall f j, not_jnull j = true -> exists j', ser f (PCustom j) = PCustom j' /\ not_jnull j' = true.
  Hypothesis Hser : ser_wf.
  Variable S : schema.
  Variable snake : bool.
  Hypothesis Hinputs : inputs_ok S snake = true.

  Lemma not_jnull_neq j : not_jnull j = true -> j <> JNull.
  Proof. destruct j; simpl; intros H E; discriminate. Qed.

  Lemma lookup_input_in nm fs : lookup_type S nm = Some (DInput fs) -> In (nm, DInput fs) S.
  Proof.
    unfold lookup_type. destruct (builtin_of nm); [discriminate|]. apply assoc_In_pair.
  Qed.

  Lemma input_guards nm fs :
    lookup_type S nm = Some (DInput fs) ->
    NoDup (map (fpy snake) fs) /\ NoDup (map if_name fs).
  Proof.
    intro H. apply lookup_input_in in H.
    unfold inputs_ok in Hinputs. apply andb_true_iff in Hinputs as [Hi _].
    rewrite forallb_forall in Hi. specialize (Hi _ H). simpl in Hi.
    apply andb_true_iff in Hi as [H1 H2].
    split; apply nodup_str_NoDup; assumption.
  Qed.

  Definition DF (m : nat) : gtype -> pyval -> option json := fun t' => dump_field ser m S snake t' true.

  (* fields of one input object, given the statement for each field value *)
  Lemma fields_delivery n fs kw :
    NoDup (map (fpy snake) fs) -> NoDup (map if_name fs) ->
    typed_fields (typed n S snake) snake fs kw = true ->
    (forall f v, In f fs -> assoc (fpy snake f) kw = Some v -> typed n S snake (if_type f) v = true ->
       exists j c, (forall m, n <= m -> DF m (if_type f) v = Some j) /\
                   coerce n S (if_type f) j = Some c /\ intend ser n S snake (if_type f) v = Some c) ->
    exists o cs, (forall m, n <= m -> dump_fields (DF m) snake fs kw = Some o) /\
                 keys_known fs o && nodup_str (map fst o) = true /\
                 coerce_fields (coerce n S) fs o = Some cs /\
                 intend_fields (intend ser n S snake) snake fs kw = Some cs.
  Proof.
    intros Hpy Hnm Hty Hfield.
    unfold typed_fields in Hty. apply andb_true_iff in Hty as [Hty Hall].
    apply andb_true_iff in Hty as [_ _].
    rewrite forallb_forall in Hall.
    (* 1. the dumped object exists, uniformly in the fuel *)
    assert (Hex : forall fs', incl fs' fs ->
              exists o, forall m, n <= m -> dump_fields (DF m) snake fs' kw = Some o).
    { induction fs' as [|f r IH]; intro Hincl.
      - exists []. reflexivity.
      - destruct IH as [o' Ho']; [intros x Hx; apply Hincl; right; exact Hx|].
        assert (Hf : In f fs) by (apply Hincl; left; reflexivity).
        destruct (assoc (fpy snake f) kw) as [v|] eqn:Ev.
        + specialize (Hall f Hf). rewrite Ev in Hall.
          destruct (Hfield f v Hf Ev Hall) as [j [c [Hd _]]].
          exists ((fwire snake f, j) :: o'). intros m Hm. simpl. rewrite Ev, (Hd m Hm), (Ho' m Hm). reflexivity.
        + exists o'. intros m Hm. simpl. rewrite Ev. apply Ho'; exact Hm. }
    destruct (Hex fs (incl_refl _)) as [o Ho].
    assert (Hwire : NoDup (map (fwire snake) fs)).
    { rewrite (map_ext (fwire snake) if_name (fwire_is_name snake)). exact Hnm. }
    pose proof (Ho n (le_n n)) as Hon.
    exists o.
    (* 2. coerce_fields over the whole object agrees with intend_fields *)
    assert (Hco : forall fs', incl fs' fs ->
              exists cs, coerce_fields (coerce n S) fs' o = Some cs /\
                         intend_fields (intend ser n S snake) snake fs' kw = Some cs).
    { induction fs' as [|f r IH]; intro Hincl.
      - exists []. split; reflexivity.
      - destruct IH as [cs [Hc Hi]]; [intros x Hx; apply Hincl; right; exact Hx|].
        assert (Hf : In f fs) by (apply Hincl; left; reflexivity).
        pose proof (dump_fields_lookup (DF n) snake kw fs o Hwire Hon f Hf) as Hl.
        rewrite fwire_is_name in Hl. simpl. rewrite Hl.
        specialize (Hall f Hf).
        destruct (assoc (fpy snake f) kw) as [v|] eqn:Ev.
        + destruct (Hfield f v Hf Ev Hall) as [j [c [Hd [Hcj Hiv]]]].
          rewrite (Hd n (le_n n)), Hcj, Hc, Hiv, Hi. exists ((if_name f, c) :: cs). split; reflexivity.
        + destruct (if_default f) as [d|] eqn:Ed.
          * rewrite Hc, Hi. exists ((if_name f, d) :: cs). split; reflexivity.
          * apply negb_true_iff in Hall. rewrite Hall. exists cs. split; assumption. }
    destruct (Hco fs (incl_refl _)) as [cs [Hc Hi]].
    exists cs. repeat split; try assumption.
    apply andb_true_iff. split.
    - unfold keys_known. apply forallb_forall. intros [k j] Hk. simpl.
      apply mem_str_In.
      assert (In k (map (fwire snake) fs)).
      { eapply dump_fields_keys; [exact Hon|]. apply in_map_iff. exists (k, j). split; [reflexivity|exact Hk]. }
      rewrite (map_ext (fwire snake) if_name (fwire_is_name snake)) in H. exact H.
    - apply nodup_str_NoDup. eapply dump_fields_nodup; eauto.
  Qed.

  Lemma typed_nonnull_not_none n t v : typed n S snake (TNonNull t) v = true -> v <> PNone.
  Proof. destruct n; simpl; [discriminate|]. destruct v; intros H E; discriminate. Qed.

  (* a value inside an input model: what pydantic dumps coerces to what the caller meant *)
  Lemma field_delivery : forall n t nl v,
    typed n S snake t v = true -> (nl = false -> v <> PNone) ->
    exists j c, (forall m, n <= m -> dump_field ser m S snake t nl v = Some j) /\
                coerce n S t j = Some c /\ intend ser n S snake t v = Some c /\
                (v <> PNone -> j <> JNull).
  Proof.
    induction n as [|n IH]; intros t nl v Hty Hnl; [discriminate|].
    destruct t as [nm|t'|t'].
    - (* named *)
      destruct v as [| |z|fl|s|b|ty s|j0|l|cls kw];
        [ | simpl in Hty; destruct (lookup_type S nm) as [[bi|c|vals|fs]|] eqn:El; try discriminate .. ].
      + (* None *)
        assert (nl = true) by (destruct nl; [reflexivity|exfalso; apply Hnl; reflexivity]). subst nl.
        exists JNull, CNull. repeat split; try reflexivity.
        * intros [|m] Hm; [lia|]. reflexivity.
        * intro H; exfalso; apply H; reflexivity.
      + destruct bi; discriminate.
      + (* int *)
        destruct bi; try discriminate. simpl in Hty.
        exists (JInt z), (CInt z). repeat split; try discriminate.
        * intros [|m] Hm; [lia|]. simpl. rewrite El. reflexivity.
        * simpl. rewrite El. simpl. rewrite Hty. reflexivity.
        * simpl. rewrite El. reflexivity.
      + destruct bi; try discriminate.
        exists (JFloat fl), (CFloat fl). repeat split; try discriminate.
        * intros [|m] Hm; [lia|]. simpl. rewrite El. reflexivity.
        * simpl. rewrite El. reflexivity.
        * simpl. rewrite El. reflexivity.
      + destruct bi; try discriminate; exists (JStr s), (CStr s); repeat split; try discriminate;
          try (intros [|m] Hm; [lia|]; simpl; rewrite El; reflexivity); simpl; rewrite El; reflexivity.
      + destruct bi; try discriminate.
        exists (JBool b), (CBool b). repeat split; try discriminate.
        * intros [|m] Hm; [lia|]. simpl. rewrite El. reflexivity.
        * simpl. rewrite El. reflexivity.
        * simpl. rewrite El. reflexivity.
      + destruct bi; discriminate.
      + (* enum *)
        apply andb_true_iff in Hty as [_ Hmem].
        exists (JStr s), (CEnum s). repeat split; try discriminate.
        * intros [|m] Hm; [lia|]. simpl. rewrite El. reflexivity.
        * simpl. rewrite El, Hmem. reflexivity.
        * simpl. rewrite El. reflexivity.
      + destruct bi; discriminate.
      + (* custom scalar *)
        unfold dump_custom.
        destruct (cfg_ser c) as [f|] eqn:Ec.
        * destruct (Hser f j0 Hty) as [j' [Hs Hj']].
          exists j', (CCustom j'). repeat split.
          -- intros [|m] Hm; [lia|]. simpl. rewrite El. unfold dump_custom. rewrite Ec, Hs. reflexivity.
          -- simpl. rewrite El. destruct j'; try reflexivity; discriminate.
          -- simpl. rewrite El. unfold dump_custom. rewrite Ec, Hs. reflexivity.
          -- intros _. apply not_jnull_neq; exact Hj'.
        * exists j0, (CCustom j0). repeat split.
          -- intros [|m] Hm; [lia|]. simpl. rewrite El. unfold dump_custom. rewrite Ec. reflexivity.
          -- simpl. rewrite El. destruct j0; try reflexivity; discriminate.
          -- simpl. rewrite El. unfold dump_custom. rewrite Ec. reflexivity.
          -- intros _. apply not_jnull_neq; exact Hty.
      + destruct bi; discriminate.
      + destruct bi; discriminate.
      + (* model *)
        apply andb_true_iff in Hty as [_ Hfs].
        destruct (input_guards nm fs El) as [Hpy Hnm].
        destruct (fields_delivery n fs kw Hpy Hnm Hfs) as [o [cs [Hd [Hk [Hc Hi]]]]].
        { intros f v Hf Ev Htv.
          destruct (IH (if_type f) true v Htv) as [j [c [H1 [H2 [H3 _]]]]]; [discriminate|].
          exists j, c. repeat split; assumption. }
        exists (JObj o), (CObj cs). repeat split; try discriminate.
        * intros [|m] Hm; [lia|]. simpl. rewrite El. unfold DF in Hd. rewrite (Hd m); [reflexivity|lia].
        * simpl. rewrite El, Hk, Hc. reflexivity.
        * simpl. rewrite El, Hi. reflexivity.
    - (* list *)
      destruct v as [| |z|fl|s|b|ty s|j0|l|cls kw]; try discriminate.
      + assert (nl = true) by (destruct nl; [reflexivity|exfalso; apply Hnl; reflexivity]). subst nl.
        exists JNull, CNull. repeat split; try reflexivity.
        * intros [|m] Hm; [lia|]. reflexivity.
        * intro H; exfalso; apply H; reflexivity.
      + simpl in Hty. rewrite forallb_forall in Hty.
        destruct (list_delivery (fun m => dump_field ser m S snake t' true) (coerce n S t')
                                (intend ser n S snake t') n l) as [js [cs [Hd [Hc Hi]]]].
        { intros x Hx. destruct (IH t' true x (Hty x Hx)) as [j [c [H1 [H2 [H3 _]]]]]; [discriminate|].
          exists j, c. repeat split; assumption. }
        exists (JArr js), (CList cs). repeat split; try discriminate.
        * intros [|m] Hm; [lia|]. simpl. rewrite (Hd m); [reflexivity|lia].
        * simpl. rewrite Hc. reflexivity.
        * simpl. rewrite Hi. reflexivity.
    - (* non-null *)
      assert (Hv : v <> PNone) by (eapply typed_nonnull_not_none; exact Hty).
      assert (Hty' : negb (is_nonnull t') && typed n S snake t' v = true).
      { simpl in Hty. destruct v; try exact Hty. exfalso; apply Hv; reflexivity. }
      apply andb_true_iff in Hty' as [Hnn Hty']. apply negb_true_iff in Hnn.
      destruct (IH t' false v Hty' (fun _ => Hv)) as [j [c [H1 [H2 [H3 H4]]]]].
      exists j, c. repeat split; try assumption.
      + intros [|m] Hm; [lia|]. simpl. apply H1. lia.
      + simpl. rewrite Hnn. specialize (H4 Hv). destruct j; try exact H2. exfalso; apply H4; reflexivity.
      + simpl. destruct v; try exact H3. exfalso; apply Hv; reflexivity.
  Qed.

  (* the generated input classes accept every schema-valid value *)
  Lemma typed_constructible : forall n t nl v,
    typed n S snake t v = true -> (nl = false -> v <> PNone) ->
    constructible n S snake t nl v = true.
  Proof.
    induction n as [|n IH]; intros t nl v Hty Hnl; [discriminate|].
    destruct t as [nm|t'|t'].
    - destruct v as [| |z|fl|s|b|ty s|j0|l|cls kw];
        [ | simpl in Hty; destruct (lookup_type S nm) as [[bi|c|vals|fs]|] eqn:El; try discriminate .. ];
        try (simpl; rewrite El; reflexivity).
      + simpl. destruct nl; [reflexivity|exfalso; apply Hnl; reflexivity].
      + destruct bi; discriminate.
      + apply andb_true_iff in Hty as [_ Hfs]. simpl. rewrite El.
        unfold typed_fields in Hfs. apply andb_true_iff in Hfs as [_ Hall].
        rewrite forallb_forall in Hall. apply forallb_forall. intros f Hf.
        specialize (Hall f Hf). destruct (assoc (fpy snake f) kw) as [x|]; [|reflexivity].
        apply IH; [exact Hall | discriminate].
    - destruct v as [| |z|fl|s|b|ty s|j0|l|cls kw]; try discriminate.
      + simpl. destruct nl; [reflexivity|exfalso; apply Hnl; reflexivity].
      + simpl in Hty. rewrite forallb_forall in Hty.
        simpl. apply forallb_forall. intros x Hx. apply IH; [apply Hty; exact Hx | discriminate].
    - assert (Hv : v <> PNone) by (eapply typed_nonnull_not_none; exact Hty).
      assert (Hty' : negb (is_nonnull t') && typed n S snake t' v = true).
      { simpl in Hty. destruct v; try exact Hty. exfalso; apply Hv; reflexivity. }
      apply andb_true_iff in Hty' as [_ Hty']. simpl. apply IH; [exact Hty' | intros _; exact Hv].
  Qed.

  (* ---------- a top-level argument: serialize wrapping + value-directed _convert_value ---------- *)
  Definition wrap_arg (t : gtype) (v : pyval) : pyval :=
    match var_ser S t with Some f => ser f v | None => v end.

  Lemma to_json_custom_free_of_ser : forall j, to_json (PCustom j) = Some j.
  Proof. reflexivity. Qed.

  Lemma arg_delivery : forall n t v,
    typed n S snake t v = true -> g_f10 S t = true ->
    exists j c, (forall m, n <= m -> convert_value ser m S snake (wrap_arg t v) = Some j) /\
                coerce n S t j = Some c /\ intend ser n S snake t v = Some c /\
                (v <> PNone -> j <> JNull).
  Proof.
    intros n t v Hty Hg. unfold wrap_arg. unfold g_f10 in Hg.
    destruct (var_ser S t) as [f|] eqn:Ev.
    - (* serialize configured: the guard leaves T! only *)
      destruct t as [nm|t'|t']; try discriminate. destruct t' as [nm| |]; try discriminate.
      unfold var_ser in Ev. simpl in Ev.
      destruct (lookup_type S nm) as [[bi|c|vals|fs]|] eqn:El; try discriminate.
      destruct n as [|n]; [discriminate|]. destruct n as [|n]; [destruct v; discriminate|].
      assert (Hv : exists j0, v = PCustom j0 /\ not_jnull j0 = true).
      { destruct v; simpl in Hty; try discriminate; rewrite El in Hty; try discriminate.
        eexists; split; [reflexivity|exact Hty]. }
      destruct Hv as [j0 [-> Hj0]].
      destruct (Hser f j0 Hj0) as [j' [Hs Hj']].
      exists j', (CCustom j'). repeat split.
      + intros [|m] Hm; [lia|]. rewrite Hs. reflexivity.
      + simpl. rewrite El. destruct j'; try reflexivity; discriminate.
      + simpl. rewrite El. unfold dump_custom. rewrite Ev, Hs. reflexivity.
      + intros _. apply not_jnull_neq; exact Hj'.
    - (* no serialize at the named type: by induction on the fuel, following the type *)
      clear Hg. revert t v Hty Ev.
      induction n as [|n IH]; intros t v Hty Ev; [discriminate|].
      destruct t as [nm|t'|t'].
      + destruct v as [| |z|fl|s|b|ty s|j0|l|cls kw];
          [ | simpl in Hty; destruct (lookup_type S nm) as [[bi|c|vals|fs]|] eqn:El; try discriminate .. ].
        * exists JNull, CNull. repeat split; try reflexivity.
          -- intros [|m] Hm; [lia|]. reflexivity.
          -- intro H; exfalso; apply H; reflexivity.
        * destruct bi; discriminate.
        * destruct bi; try discriminate. simpl in Hty.
          exists (JInt z), (CInt z). repeat split; try discriminate.
          -- intros [|m] Hm; [lia|]. reflexivity.
          -- simpl. rewrite El. simpl. rewrite Hty. reflexivity.
          -- simpl. rewrite El. reflexivity.
        * destruct bi; try discriminate.
          exists (JFloat fl), (CFloat fl). repeat split; try discriminate.
          -- intros [|m] Hm; [lia|]. reflexivity.
          -- simpl. rewrite El. reflexivity.
          -- simpl. rewrite El. reflexivity.
        * destruct bi; try discriminate; exists (JStr s), (CStr s); repeat split; try discriminate;
            try (intros [|m] Hm; [lia|]; reflexivity); simpl; rewrite El; reflexivity.
        * destruct bi; try discriminate.
          exists (JBool b), (CBool b). repeat split; try discriminate.
          -- intros [|m] Hm; [lia|]. reflexivity.
          -- simpl. rewrite El. reflexivity.
          -- simpl. rewrite El. reflexivity.
        * destruct bi; discriminate.
        * apply andb_true_iff in Hty as [_ Hmem].
          exists (JStr s), (CEnum s). repeat split; try discriminate.
          -- intros [|m] Hm; [lia|]. reflexivity.
          -- simpl. rewrite El, Hmem. reflexivity.
          -- simpl. rewrite El. reflexivity.
        * destruct bi; discriminate.
        * unfold var_ser in Ev. simpl in Ev. rewrite El in Ev.
          exists j0, (CCustom j0). repeat split.
          -- intros [|m] Hm; [lia|]. reflexivity.
          -- simpl. rewrite El. destruct j0; try reflexivity; discriminate.
          -- simpl. rewrite El. unfold dump_custom. rewrite Ev. reflexivity.
          -- intros _. apply not_jnull_neq; exact Hty.
        * destruct bi; discriminate.
        * destruct bi; discriminate.
        * apply andb_true_iff in Hty as [Hcls Hfs]. apply String.eqb_eq in Hcls. subst cls.
          destruct (input_guards nm fs El) as [Hpy Hnm].
          destruct (fields_delivery n fs kw Hpy Hnm Hfs) as [o [cs [Hd [Hk [Hc Hi]]]]].
          { intros f v Hf Evv Htv.
            destruct (field_delivery n (if_type f) true v Htv) as [j [c [H1 [H2 [H3 _]]]]];
              [discriminate|].
            exists j, c. repeat split; assumption. }
          exists (JObj o), (CObj cs). repeat split; try discriminate.
          -- intros [|m] Hm; [lia|]. simpl. rewrite El. unfold DF in Hd. rewrite (Hd m); [reflexivity|lia].
          -- simpl. rewrite El, Hk, Hc. reflexivity.
          -- simpl. rewrite El, Hi. reflexivity.
      + destruct v as [| |z|fl|s|b|ty s|j0|l|cls kw]; try discriminate.
        * exists JNull, CNull. repeat split; try reflexivity.
          -- intros [|m] Hm; [lia|]. reflexivity.
          -- intro H; exfalso; apply H; reflexivity.
        * simpl in Hty. rewrite forallb_forall in Hty.
          destruct (list_delivery (fun m => convert_value ser m S snake) (coerce n S t')
                                  (intend ser n S snake t') n l) as [js [cs [Hd [Hc Hi]]]].
          { intros x Hx. destruct (IH t' x (Hty x Hx)) as [j [c [H1 [H2 [H3 _]]]]].
            - unfold var_ser in *. simpl in Ev. exact Ev.
            - exists j, c. repeat split; assumption. }
          exists (JArr js), (CList cs). repeat split; try discriminate.
          -- intros [|m] Hm; [lia|]. simpl. rewrite (Hd m); [reflexivity|lia].
          -- simpl. rewrite Hc. reflexivity.
          -- simpl. rewrite Hi. reflexivity.
      + assert (Hv : v <> PNone) by (eapply typed_nonnull_not_none; exact Hty).
        assert (Hty' : negb (is_nonnull t') && typed n S snake t' v = true).
        { simpl in Hty. destruct v; try exact Hty. exfalso; apply Hv; reflexivity. }
        apply andb_true_iff in Hty' as [Hnn Hty']. apply negb_true_iff in Hnn.
        destruct (IH t' v Hty') as [j [c [H1 [H2 [H3 H4]]]]].
        { unfold var_ser in *. simpl in Ev. exact Ev. }
        exists j, c. repeat split; try assumption.
        * intros m Hm. apply H1. lia.
        * simpl. rewrite Hnn. specialize (H4 Hv). destruct j; try exact H2. exfalso; apply H4; reflexivity.
        * simpl. destruct v; try exact H3. exfalso; apply Hv; reflexivity.
  Qed.
End Delivery.

(* ---------- the variables dict after UNSET filtering ---------- *)
Section Dict.
  Variable ser : string -> pyval -> pyval.
  Variable S : schema.
  Variable snake : bool.

  Lemma convert_dict_keys n d kv :
    convert_dict ser n S snake d = Some kv -> forall k, In k (map fst kv) -> In k (map fst d).
  Proof.
    revert kv; induction d as [|[k0 v] r IH]; simpl; intros kv H k Hk.
    - inversion H; subst; exact Hk.
    - assert (Hgen : forall kv', (match convert_value ser n S snake v, convert_dict ser n S snake r with
                                  | Some j, Some o => Some ((k0, j) :: o) | _, _ => None end) = Some kv' ->
                                 In k (map fst kv') -> k0 = k \/ In k (map fst r)).
      { intros kv' H' Hk'. destruct (convert_value ser n S snake v); [|discriminate].
        destruct (convert_dict ser n S snake r) as [o|]; [|discriminate].
        inversion H'; subst; simpl in Hk'. destruct Hk' as [E|E]; [left; exact E|right; eapply IH; eauto]. }
      destruct v; try (eapply Hgen; eassumption).
      right. eapply IH; eauto.
  Qed.

  (* an omitted optional argument (bound to UNSET, not wrapped) leaves no key in the payload *)
  Lemma convert_dict_unset_absent n d kv k :
    convert_dict ser n S snake d = Some kv -> NoDup (map fst d) -> In (k, PUnset) d ->
    jlookup k kv = None.
  Proof.
    revert kv; induction d as [|[k0 v] r IH]; simpl; intros kv H Hn Hin; [contradiction|].
    apply NoDup_cons_iff in Hn as [Hnotin Hnd].
    destruct Hin as [E|Hin].
    - inversion E; subst. rewrite jlookup_assoc. apply assoc_None.
      intro Hk. apply Hnotin. eapply convert_dict_keys; eauto.
    - assert (Hk0 : k0 <> k).
      { intro; subst. apply Hnotin. apply (in_map fst) in Hin. exact Hin. }
      assert (Hgen : forall kv', (match convert_value ser n S snake v, convert_dict ser n S snake r with
                                  | Some j, Some o => Some ((k0, j) :: o) | _, _ => None end) = Some kv' ->
                                 jlookup k kv' = None).
      { intros kv' H'. destruct (convert_value ser n S snake v); [|discriminate].
        destruct (convert_dict ser n S snake r) as [o|] eqn:Eo; [|discriminate].
        inversion H'; subst; simpl.
        destruct (String.eqb k k0) eqn:Ek; [apply String.eqb_eq in Ek; congruence|].
        apply IH; auto. }
      destruct v; try (apply Hgen; exact H). apply IH; auto.
  Qed.

  (* an explicit None travels as null *)
  Lemma convert_dict_none_null n d kv k :
    convert_dict ser n S snake d = Some kv -> NoDup (map fst d) -> In (k, PNone) d ->
    jlookup k kv = Some JNull.
  Proof.
    revert kv; induction d as [|[k0 v] r IH]; simpl; intros kv H Hn Hin; [contradiction|].
    apply NoDup_cons_iff in Hn as [Hnotin Hnd].
    destruct Hin as [E|Hin].
    - inversion E; subst. destruct n; simpl in H; [discriminate|].
      destruct (convert_dict ser (Datatypes.S n) S snake r); [|discriminate].
      inversion H; subst; simpl. rewrite String.eqb_refl. reflexivity.
    - assert (Hk0 : k0 <> k).
      { intro; subst. apply Hnotin. apply (in_map fst) in Hin. exact Hin. }
      assert (Hgen : forall kv', (match convert_value ser n S snake v, convert_dict ser n S snake r with
                                  | Some j, Some o => Some ((k0, j) :: o) | _, _ => None end) = Some kv' ->
                                 jlookup k kv' = Some JNull).
      { intros kv' H'. destruct (convert_value ser n S snake v); [|discriminate].
        destruct (convert_dict ser n S snake r) as [o|] eqn:Eo; [|discriminate].
        inversion H'; subst; simpl.
        destruct (String.eqb k k0) eqn:Ek; [apply String.eqb_eq in Ek; congruence|].
        apply IH; auto. }
      destruct v; try (apply Hgen; exact H). apply IH; auto.
  Qed.

  Lemma bind_missing ps kwargs p :
    In p ps -> p_required p = true -> assoc (p_name p) kwargs = None -> bind ps kwargs = None.
  Proof.
    induction ps as [|q r IH]; simpl; intros Hin Hr Ha; [contradiction|].
    destruct Hin as [E|Hin].
    - subst q. rewrite Ha, Hr. reflexivity.
    - rewrite (IH Hin Hr Ha). destruct (assoc (p_name q) kwargs); [reflexivity|].
      destruct (p_required q); reflexivity.
  Qed.

  (* a required parameter cannot be omitted: the call fails before anything is sent *)
  Lemma required_cannot_be_omitted n vs kwargs g p :
    generate S snake vs = Some g -> sig_ok g = true ->
    In p (g_params g) -> p_required p = true -> assoc (p_name p) kwargs = None ->
    call_method ser n S snake vs kwargs = PyMissingArg.
  Proof.
    intros Hg Hs Hin Hr Ha. unfold call_method. rewrite Hg, Hs. simpl.
    rewrite (bind_missing _ _ _ Hin Hr Ha). reflexivity.
  Qed.
End Dict.
