(* Proofs about Model/Convert.v against the coercion specification Gql/Coerce.v. *)
From Coq Require Import List String Ascii ZArith Bool Lia Permutation.
From AC Require Gql.InSchema Model.Inputs Proofs.FreshP.
From AC Require Import Base.Strs Base.Sexp Base.Json Model.Names Proofs.NamesP Gql.Coerce Model.Args
     Proofs.ArgsP Model.Convert.
Import ListNotations.
Local Open Scope string_scope.

(* ---------- small facts about association lists ---------- *)
Lemma mem_str_In s l : mem_str s l = true <-> In s l.
Proof.
  induction l as [|x l IH]; simpl; [split; [discriminate|tauto]|].
  rewrite orb_true_iff, IH, String.eqb_eq. split; intros [H|H]; auto.
Qed.

Lemma mem_str_false s l : mem_str s l = false <-> ~ In s l.
Proof.
  rewrite <- mem_str_In. destruct (mem_str s l); split; intro H; try reflexivity; try discriminate.
  exfalso; apply H; reflexivity.
Qed.

Lemma nodup_str_NoDup l : nodup_str l = true <-> NoDup l.
Proof.
  induction l as [|x l IH]; simpl.
  - split; [constructor|reflexivity].
  - rewrite andb_true_iff, negb_true_iff, mem_str_false, IH. split.
    + intros [H1 H2]; constructor; assumption.
    + intro H; inversion H; subst; split; assumption.
Qed.

Lemma jlookup_assoc k (kv : list (string * json)) : jlookup k kv = assoc k kv.
Proof. induction kv as [|[k' v] r IH]; simpl; [reflexivity|]. rewrite IH. reflexivity. Qed.

Lemma assoc_In {X} k (l : list (string * X)) v : assoc k l = Some v -> In k (map fst l).
Proof.
  induction l as [|[k' x] r IH]; simpl; [discriminate|].
  destruct (String.eqb k k') eqn:E; intro H.
  - apply String.eqb_eq in E. left; symmetry; exact E.
  - right; apply IH; exact H.
Qed.

Lemma assoc_In_pair {X} k (l : list (string * X)) v : assoc k l = Some v -> In (k, v) l.
Proof.
  induction l as [|[k' x] r IH]; simpl; [discriminate|].
  destruct (String.eqb k k') eqn:E; intro H.
  - apply String.eqb_eq in E. inversion H; subst. left; reflexivity.
  - right; apply IH; exact H.
Qed.

Lemma assoc_None {X} k (l : list (string * X)) : ~ In k (map fst l) -> assoc k l = None.
Proof.
  induction l as [|[k' x] r IH]; simpl; [reflexivity|]. intro H.
  destruct (String.eqb k k') eqn:E.
  - apply String.eqb_eq in E. exfalso; apply H; left; symmetry; exact E.
  - apply IH. intro; apply H; right; assumption.
Qed.

Lemma fwire_is_name snake all f : fwire snake all f = if_name f.
Proof.
  unfold fwire. destruct (String.eqb (fpy snake all f) (if_name f)) eqn:E; [apply String.eqb_eq; exact E|reflexivity].
Qed.

(* distinct GraphQL field names give distinct Python field names (C06: Proofs/FreshP.v fname_nodup) *)
Lemma fpy_nodup snake fs : NoDup (map if_name fs) -> NoDup (map (fpy snake fs) fs).
Proof.
  intro H. pose proof (FreshP.fname_nodup snake (map stub fs)) as L.
  rewrite !map_map in L. simpl in L. apply L. exact H.
Qed.

(* ---------- lists: element-wise results lift to map_opt ---------- *)
Lemma list_delivery {X J C} (D : nat -> X -> option J) (Co : J -> option C) (I : X -> option C) n l :
  (forall x, In x l -> exists j c, (forall m, n <= m -> D m x = Some j) /\ Co j = Some c /\ I x = Some c) ->
  exists js cs, (forall m, n <= m -> map_opt (D m) l = Some js) /\ map_opt Co js = Some cs /\
                map_opt I l = Some cs.
Proof.
  induction l as [|x l IH]; intro H.
  - exists [], []. repeat split; reflexivity.
  - destruct (H x (or_introl eq_refl)) as [j [c [Hd [Hc Hi]]]].
    destruct IH as [js [cs [Hds [Hcs His]]]]; [intros y Hy; apply H; right; exact Hy|].
    exists (j :: js), (c :: cs). repeat split.
    + intros m Hm. simpl. rewrite (Hd m Hm), (Hds m Hm). reflexivity.
    + simpl. rewrite Hc, Hcs. reflexivity.
    + simpl. rewrite Hi, His. reflexivity.
Qed.

(* ---------- the object dumped for a model: keys and lookups ---------- *)
Section DumpFields.
  Variable df : gtype -> pyval -> option json.
  Variable snake : bool.
  Variable all : list ifield.
  Variable kw : list (string * pyval).

  Lemma dump_fields_keys fs o :
    dump_fields df snake all fs kw = Some o -> forall k, In k (map fst o) -> In k (map (fwire snake all) fs).
  Proof.
    revert o; induction fs as [|f r IH]; simpl; intros o H k Hk.
    - inversion H; subst; exact Hk.
    - destruct (assoc (fpy snake all f) kw) as [v|].
      + destruct (df (if_type f) v) as [j|]; [|discriminate].
        destruct (dump_fields df snake all r kw) as [o'|]; [|discriminate].
        inversion H; subst; simpl in Hk. destruct Hk as [Hk|Hk]; [left; exact Hk|right; eapply IH; eauto].
      + right; eapply IH; eauto.
  Qed.

  Lemma dump_fields_nodup fs o :
    NoDup (map (fwire snake all) fs) -> dump_fields df snake all fs kw = Some o -> NoDup (map fst o).
  Proof.
    revert o; induction fs as [|f r IH]; simpl; intros o Hn H.
    - inversion H; constructor.
    - apply NoDup_cons_iff in Hn as [Hnotin Hnd]. destruct (assoc (fpy snake all f) kw) as [v|].
      + destruct (df (if_type f) v) as [j|]; [|discriminate].
        destruct (dump_fields df snake all r kw) as [o'|] eqn:E; [|discriminate].
        inversion H; subst; simpl. constructor; [|apply IH; auto].
        intro Hin. apply Hnotin. eapply dump_fields_keys; eauto.
      + apply IH; auto.
  Qed.

  Lemma dump_fields_lookup fs o :
    NoDup (map (fwire snake all) fs) -> dump_fields df snake all fs kw = Some o ->
    forall g, In g fs ->
      jlookup (fwire snake all g) o =
      match assoc (fpy snake all g) kw with Some v => df (if_type g) v | None => None end.
  Proof.
    revert o; induction fs as [|f r IH]; simpl; intros o Hn H g Hg; [contradiction|].
    apply NoDup_cons_iff in Hn as [Hnotin Hnd].
    destruct (assoc (fpy snake all f) kw) as [v|] eqn:Ef.
    - destruct (df (if_type f) v) as [j|] eqn:Ej; [|discriminate].
      destruct (dump_fields df snake all r kw) as [o'|] eqn:E; [|discriminate].
      inversion H; subst; simpl.
      destruct Hg as [Hg|Hg].
      + subst g. rewrite String.eqb_refl, Ef. symmetry; exact Ej.
      + destruct (String.eqb (fwire snake all g) (fwire snake all f)) eqn:Eq.
        * apply String.eqb_eq in Eq. exfalso. apply Hnotin. rewrite <- Eq.
          apply (in_map (fwire snake all)). exact Hg.
        * apply IH; auto.
    - destruct Hg as [Hg|Hg].
      + subst g. rewrite Ef. rewrite jlookup_assoc. apply assoc_None.
        intro Hin. apply Hnotin. eapply dump_fields_keys; eauto.
      + apply IH; auto.
  Qed.
End DumpFields.

(* ---------- main development, for arbitrary well-behaved serialize functions ---------- *)
Section Delivery.
  Variable ser : string -> pyval -> pyval.
  (* a serialize function maps a (non-null) JSON-native value to a non-null JSON-native value *)
  Definition ser_wf : Prop :=
    forall f j, not_jnull j = true -> exists j', ser f (PCustom j) = PCustom j' /\ not_jnull j' = true.
  Hypothesis Hser : ser_wf.
  Variable S : schema.
  Variable snake : bool.
  Hypothesis Hinputs : inputs_ok S snake = true.

  Lemma not_jnull_neq j : not_jnull j = true -> j <> JNull.
  Proof. destruct j; simpl; intros H E; discriminate. Qed.

  Lemma lookup_input_in nm fs : lookup_type S nm = Some (DInput fs) -> In (nm, DInput fs) S.
  Proof.
    unfold lookup_type. destruct (builtin_of nm); [discriminate|]. apply assoc_In_pair.
  Qed.

  Lemma input_guards nm fs :
    lookup_type S nm = Some (DInput fs) ->
    NoDup (map (fpy snake fs) fs) /\ NoDup (map if_name fs).
  Proof.
    intro H. apply lookup_input_in in H.
    unfold inputs_ok in Hinputs. apply andb_true_iff in Hinputs as [Hi _].
    rewrite forallb_forall in Hi. specialize (Hi _ H). simpl in Hi.
    apply nodup_str_NoDup in Hi. split; [apply fpy_nodup; exact Hi|exact Hi].
  Qed.

  Definition DF (m : nat) : gtype -> pyval -> option json := fun t' => dump_field ser m S snake t' true.

  (* fields of one input object, given the statement for each field value *)
  Lemma fields_delivery n fs kw :
    NoDup (map (fpy snake fs) fs) -> NoDup (map if_name fs) ->
    typed_fields (typed n S snake) snake fs kw = true ->
    (forall f v, In f fs -> assoc (fpy snake fs f) kw = Some v -> typed n S snake (if_type f) v = true ->
       exists j c, (forall m, n <= m -> DF m (if_type f) v = Some j) /\
                   coerce n S (if_type f) j = Some c /\ intend ser n S snake (if_type f) v = Some c) ->
    exists o cs, (forall m, n <= m -> dump_fields (DF m) snake fs fs kw = Some o) /\
                 keys_known fs o && nodup_str (map fst o) = true /\
                 coerce_fields (coerce n S) fs o = Some cs /\
                 intend_fields (intend ser n S snake) snake fs fs kw = Some cs.
  Proof.
    intros Hpy Hnm Hty Hfield.
    unfold typed_fields in Hty. apply andb_true_iff in Hty as [Hty Hall].
    apply andb_true_iff in Hty as [_ _].
    rewrite forallb_forall in Hall.
    (* 1. the dumped object exists, uniformly in the fuel *)
    assert (Hex : forall fs', incl fs' fs ->
              exists o, forall m, n <= m -> dump_fields (DF m) snake fs fs' kw = Some o).
    { induction fs' as [|f r IH]; intro Hincl.
      - exists []. reflexivity.
      - destruct IH as [o' Ho']; [intros x Hx; apply Hincl; right; exact Hx|].
        assert (Hf : In f fs) by (apply Hincl; left; reflexivity).
        destruct (assoc (fpy snake fs f) kw) as [v|] eqn:Ev.
        + specialize (Hall f Hf). rewrite Ev in Hall.
          destruct (Hfield f v Hf Ev Hall) as [j [c [Hd _]]].
          exists ((fwire snake fs f, j) :: o'). intros m Hm. simpl. rewrite Ev, (Hd m Hm), (Ho' m Hm). reflexivity.
        + exists o'. intros m Hm. simpl. rewrite Ev. apply Ho'; exact Hm. }
    destruct (Hex fs (incl_refl _)) as [o Ho].
    assert (Hwire : NoDup (map (fwire snake fs) fs)).
    { rewrite (map_ext (fwire snake fs) if_name (fwire_is_name snake fs)). exact Hnm. }
    pose proof (Ho n (le_n n)) as Hon.
    exists o.
    (* 2. coerce_fields over the whole object agrees with intend_fields *)
    assert (Hco : forall fs', incl fs' fs ->
              exists cs, coerce_fields (coerce n S) fs' o = Some cs /\
                         intend_fields (intend ser n S snake) snake fs fs' kw = Some cs).
    { induction fs' as [|f r IH]; intro Hincl.
      - exists []. split; reflexivity.
      - destruct IH as [cs [Hc Hi]]; [intros x Hx; apply Hincl; right; exact Hx|].
        assert (Hf : In f fs) by (apply Hincl; left; reflexivity).
        pose proof (dump_fields_lookup (DF n) snake fs kw fs o Hwire Hon f Hf) as Hl.
        rewrite fwire_is_name in Hl. simpl. rewrite Hl.
        specialize (Hall f Hf).
        destruct (assoc (fpy snake fs f) kw) as [v|] eqn:Ev.
        + destruct (Hfield f v Hf Ev Hall) as [j [c [Hd [Hcj Hiv]]]].
          rewrite (Hd n (le_n n)), Hcj, Hc, Hiv, Hi. exists ((if_name f, c) :: cs). split; reflexivity.
        + destruct (if_default f) as [d|] eqn:Ed.
          * rewrite Hc, Hi. exists ((if_name f, d) :: cs). split; reflexivity.
          * apply negb_true_iff in Hall. rewrite Hall. exists cs. split; assumption. }
    destruct (Hco fs (incl_refl _)) as [cs [Hc Hi]].
    exists cs. repeat split; try assumption.
    apply andb_true_iff. split.
    - unfold keys_known. apply forallb_forall. intros [k j] Hk. simpl.
      apply mem_str_In.
      assert (In k (map (fwire snake fs) fs)).
      { eapply dump_fields_keys; [exact Hon|]. apply in_map_iff. exists (k, j). split; [reflexivity|exact Hk]. }
      rewrite (map_ext (fwire snake fs) if_name (fwire_is_name snake fs)) in H. exact H.
    - apply nodup_str_NoDup. eapply dump_fields_nodup; eauto.
  Qed.

  Lemma typed_nonnull_not_none n t v : typed n S snake (TNonNull t) v = true -> v <> PNone.
  Proof. destruct n; simpl; [discriminate|]. destruct v; intros H E; discriminate. Qed.

  (* a value inside an input model: what pydantic dumps coerces to what the caller meant *)
  Lemma field_delivery : forall n t nl v,
    typed n S snake t v = true -> (nl = false -> v <> PNone) ->
    exists j c, (forall m, n <= m -> dump_field ser m S snake t nl v = Some j) /\
                coerce n S t j = Some c /\ intend ser n S snake t v = Some c /\
                (v <> PNone -> j <> JNull).
  Proof.
    induction n as [|n IH]; intros t nl v Hty Hnl; [discriminate|].
    destruct t as [nm|t'|t'].
    - (* named *)
      destruct v as [| |z|fl|s|b|ty s|j0|l|cls kw];
        [ | simpl in Hty; destruct (lookup_type S nm) as [[bi|c|vals|fs]|] eqn:El; try discriminate .. ].
      + (* None *)
        assert (nl = true) by (destruct nl; [reflexivity|exfalso; apply Hnl; reflexivity]). subst nl.
        exists JNull, CNull. repeat split; try reflexivity.
        * intros [|m] Hm; [lia|]. reflexivity.
        * intro H; exfalso; apply H; reflexivity.
      + destruct bi; discriminate.
      + (* int *)
        destruct bi; try discriminate. simpl in Hty.
        exists (JInt z), (CInt z). repeat split; try discriminate.
        * intros [|m] Hm; [lia|]. simpl. rewrite El. reflexivity.
        * simpl. rewrite El. simpl. rewrite Hty. reflexivity.
        * simpl. rewrite El. reflexivity.
      + destruct bi; try discriminate.
        exists (JFloat fl), (CFloat fl). repeat split; try discriminate.
        * intros [|m] Hm; [lia|]. simpl. rewrite El. reflexivity.
        * simpl. rewrite El. reflexivity.
        * simpl. rewrite El. reflexivity.
      + destruct bi; try discriminate; exists (JStr s), (CStr s); repeat split; try discriminate;
          try (intros [|m] Hm; [lia|]; simpl; rewrite El; reflexivity); simpl; rewrite El; reflexivity.
      + destruct bi; try discriminate.
        exists (JBool b), (CBool b). repeat split; try discriminate.
        * intros [|m] Hm; [lia|]. simpl. rewrite El. reflexivity.
        * simpl. rewrite El. reflexivity.
        * simpl. rewrite El. reflexivity.
      + destruct bi; discriminate.
      + (* enum *)
        apply andb_true_iff in Hty as [_ Hmem].
        exists (JStr s), (CEnum s). repeat split; try discriminate.
        * intros [|m] Hm; [lia|]. simpl. rewrite El. reflexivity.
        * simpl. rewrite El, Hmem. reflexivity.
        * simpl. rewrite El. reflexivity.
      + destruct bi; discriminate.
      + (* custom scalar *)
        unfold dump_custom.
        destruct (cfg_ser c) as [f|] eqn:Ec.
        * destruct (Hser f j0 Hty) as [j' [Hs Hj']].
          exists j', (CCustom j'). repeat split.
          -- intros [|m] Hm; [lia|]. simpl. rewrite El. unfold dump_custom. rewrite Ec, Hs. reflexivity.
          -- simpl. rewrite El. destruct j'; try reflexivity; discriminate.
          -- simpl. rewrite El. unfold dump_custom. rewrite Ec, Hs. reflexivity.
          -- intros _. apply not_jnull_neq; exact Hj'.
        * exists j0, (CCustom j0). repeat split.
          -- intros [|m] Hm; [lia|]. simpl. rewrite El. unfold dump_custom. rewrite Ec. reflexivity.
          -- simpl. rewrite El. destruct j0; try reflexivity; discriminate.
          -- simpl. rewrite El. unfold dump_custom. rewrite Ec. reflexivity.
          -- intros _. apply not_jnull_neq; exact Hty.
      + destruct bi; discriminate.
      + destruct bi; discriminate.
      + (* model *)
        apply andb_true_iff in Hty as [_ Hfs].
        destruct (input_guards nm fs El) as [Hpy Hnm].
        destruct (fields_delivery n fs kw Hpy Hnm Hfs) as [o [cs [Hd [Hk [Hc Hi]]]]].
        { intros f v Hf Ev Htv.
          destruct (IH (if_type f) true v Htv) as [j [c [H1 [H2 [H3 _]]]]]; [discriminate|].
          exists j, c. repeat split; assumption. }
        exists (JObj o), (CObj cs). repeat split; try discriminate.
        * intros [|m] Hm; [lia|]. simpl. rewrite El. unfold DF in Hd. rewrite (Hd m); [reflexivity|lia].
        * simpl. rewrite El, Hk, Hc. reflexivity.
        * simpl. rewrite El, Hi. reflexivity.
    - (* list *)
      destruct v as [| |z|fl|s|b|ty s|j0|l|cls kw]; try discriminate.
      + assert (nl = true) by (destruct nl; [reflexivity|exfalso; apply Hnl; reflexivity]). subst nl.
        exists JNull, CNull. repeat split; try reflexivity.
        * intros [|m] Hm; [lia|]. reflexivity.
        * intro H; exfalso; apply H; reflexivity.
      + simpl in Hty. rewrite forallb_forall in Hty.
        destruct (list_delivery (fun m => dump_field ser m S snake t' true) (coerce n S t')
                                (intend ser n S snake t') n l) as [js [cs [Hd [Hc Hi]]]].
        { intros x Hx. destruct (IH t' true x (Hty x Hx)) as [j [c [H1 [H2 [H3 _]]]]]; [discriminate|].
          exists j, c. repeat split; assumption. }
        exists (JArr js), (CList cs). repeat split; try discriminate.
        * intros [|m] Hm; [lia|]. simpl. rewrite (Hd m); [reflexivity|lia].
        * simpl. rewrite Hc. reflexivity.
        * simpl. rewrite Hi. reflexivity.
    - (* non-null *)
      assert (Hv : v <> PNone) by (eapply typed_nonnull_not_none; exact Hty).
      assert (Hty' : negb (is_nonnull t') && typed n S snake t' v = true).
      { simpl in Hty. destruct v; try exact Hty. exfalso; apply Hv; reflexivity. }
      apply andb_true_iff in Hty' as [Hnn Hty']. apply negb_true_iff in Hnn.
      destruct (IH t' false v Hty' (fun _ => Hv)) as [j [c [H1 [H2 [H3 H4]]]]].
      exists j, c. repeat split; try assumption.
      + intros [|m] Hm; [lia|]. simpl. apply H1. lia.
      + simpl. rewrite Hnn. specialize (H4 Hv). destruct j; try exact H2. exfalso; apply H4; reflexivity.
      + simpl. destruct v; try exact H3. exfalso; apply Hv; reflexivity.
  Qed.

  (* the generated input classes accept every schema-valid value *)
  Lemma typed_constructible : forall n t nl v,
    typed n S snake t v = true -> (nl = false -> v <> PNone) ->
    constructible n S snake t nl v = true.
  Proof.
    induction n as [|n IH]; intros t nl v Hty Hnl; [discriminate|].
    destruct t as [nm|t'|t'].
    - destruct v as [| |z|fl|s|b|ty s|j0|l|cls kw];
        [ | simpl in Hty; destruct (lookup_type S nm) as [[bi|c|vals|fs]|] eqn:El; try discriminate .. ];
        try (simpl; rewrite El; reflexivity).
      + simpl. destruct nl; [reflexivity|exfalso; apply Hnl; reflexivity].
      + destruct bi; discriminate.
      + apply andb_true_iff in Hty as [_ Hfs]. simpl. rewrite El.
        unfold typed_fields in Hfs. apply andb_true_iff in Hfs as [_ Hall].
        rewrite forallb_forall in Hall. apply forallb_forall. intros f Hf.
        specialize (Hall f Hf). destruct (assoc (fpy snake fs f) kw) as [x|]; [|reflexivity].
        apply IH; [exact Hall | discriminate].
    - destruct v as [| |z|fl|s|b|ty s|j0|l|cls kw]; try discriminate.
      + simpl. destruct nl; [reflexivity|exfalso; apply Hnl; reflexivity].
      + simpl in Hty. rewrite forallb_forall in Hty.
        simpl. apply forallb_forall. intros x Hx. apply IH; [apply Hty; exact Hx | discriminate].
    - assert (Hv : v <> PNone) by (eapply typed_nonnull_not_none; exact Hty).
      assert (Hty' : negb (is_nonnull t') && typed n S snake t' v = true).
      { simpl in Hty. destruct v; try exact Hty. exfalso; apply Hv; reflexivity. }
      apply andb_true_iff in Hty' as [_ Hty']. simpl. apply IH; [exact Hty' | intros _; exact Hv].
  Qed.

  (* ---------- a top-level argument: serialize expression + value-directed _convert_value ---------- *)
  Definition wrap_arg (t : gtype) (v : pyval) : option pyval :=
    match var_ser S t with Some f => option_map fst (ser_arg ser f t true true v) | None => Some v end.

  Lemma list_delivery2 {X W L J C} (F : X -> option (W * L)) (CV : nat -> W -> option J)
        (Co : J -> option C) (I : X -> option C) n l :
    (forall x, In x l -> exists w lg j c, F x = Some (w, lg) /\ (forall m, n <= m -> CV m w = Some j) /\
                                         Co j = Some c /\ I x = Some c) ->
    exists rs js cs, map_opt F l = Some rs /\ (forall m, n <= m -> map_opt (CV m) (map fst rs) = Some js) /\
                     map_opt Co js = Some cs /\ map_opt I l = Some cs.
  Proof.
    induction l as [|x l IH]; intro H.
    - exists [], [], []. repeat split; reflexivity.
    - destruct (H x (or_introl eq_refl)) as [w [lg [j [c [Hf [Hd [Hc Hi]]]]]]].
      destruct IH as [rs [js [cs [Hfs [Hds [Hcs His]]]]]]; [intros y Hy; apply H; right; exact Hy|].
      exists ((w, lg) :: rs), (j :: js), (c :: cs). repeat split.
      + simpl. rewrite Hf, Hfs. reflexivity.
      + intros m Hm. simpl. rewrite (Hd m Hm), (Hds m Hm). reflexivity.
      + simpl. rewrite Hc, Hcs. reflexivity.
      + simpl. rewrite Hi, His. reflexivity.
  Qed.

  (* a scalar with serialize, under any wrapper nesting: serialize hits every non-None occurrence and the
     result coerces to the caller's value *)
  Lemma ser_delivery f : forall n t nl top v,
    typed n S snake t v = true -> var_ser S t = Some f -> (nl = false -> v <> PNone) ->
    exists w lg j c, ser_arg ser f t nl top v = Some (w, lg) /\
                (forall m, n <= m -> convert_value ser m S snake w = Some j) /\
                coerce n S t j = Some c /\ intend ser n S snake t v = Some c /\
                (v <> PNone -> j <> JNull).
  Proof.
    induction n as [|n IH]; intros t nl top v Hty Ev Hnl; [discriminate|].
    destruct t as [nm|t'|t'].
    - unfold var_ser in Ev. simpl in Ev.
      destruct (lookup_type S nm) as [[bi|c|vals|fs]|] eqn:El; try discriminate.
      destruct v as [| |z|fl|s|b|ty s|j0|l|cls kw]; simpl in Hty; rewrite ?El in Hty; try discriminate.
      + assert (nl = true) by (destruct nl; [reflexivity|exfalso; apply Hnl; reflexivity]). subst nl.
        exists PNone, [], JNull, CNull. repeat split; try reflexivity.
        * intros [|m] Hm; [lia|]. reflexivity.
        * intro H; exfalso; apply H; reflexivity.
      + destruct (Hser f j0 Hty) as [j' [Hs Hj']].
        exists (ser f (PCustom j0)), [(f, PCustom j0)], j', (CCustom j'). repeat split.
        * simpl. destruct nl, top; reflexivity.
        * intros [|m] Hm; [lia|]. rewrite Hs. reflexivity.
        * simpl. rewrite El. destruct j'; try reflexivity; discriminate.
        * simpl. rewrite El. unfold dump_custom. rewrite Ev, Hs. reflexivity.
        * intros _. apply not_jnull_neq; exact Hj'.
    - assert (Ev' : var_ser S t' = Some f) by (unfold var_ser in *; simpl in Ev; exact Ev).
      destruct v as [| |z|fl|s|b|ty s|j0|l|cls kw]; try discriminate.
      + assert (nl = true) by (destruct nl; [reflexivity|exfalso; apply Hnl; reflexivity]). subst nl.
        exists PNone, [], JNull, CNull. repeat split; try reflexivity.
        * intros [|m] Hm; [lia|]. reflexivity.
        * intro H; exfalso; apply H; reflexivity.
      + simpl in Hty. rewrite forallb_forall in Hty.
        destruct (list_delivery2 (ser_arg ser f t' true false) (fun m => convert_value ser m S snake)
                                 (coerce n S t') (intend ser n S snake t') n l)
          as [rs [js [cs [Hf [Hd [Hc Hi]]]]]].
        { intros x Hx. destruct (IH t' true false x (Hty x Hx) Ev') as [w [lg [j [c [H1 [H2 [H3 [H4 _]]]]]]]];
            [discriminate|]. exists w, lg, j, c. repeat split; assumption. }
        exists (PList (map fst rs)), (List.concat (map snd rs)), (JArr js), (CList cs). repeat split; try discriminate.
        * simpl. rewrite Hf. destruct nl, top; reflexivity.
        * intros [|m] Hm; [lia|]. simpl. rewrite (Hd m); [reflexivity|lia].
        * simpl. rewrite Hc. reflexivity.
        * simpl. rewrite Hi. reflexivity.
    - assert (Ev' : var_ser S t' = Some f) by (unfold var_ser in *; simpl in Ev; exact Ev).
      assert (Hv : v <> PNone) by (eapply typed_nonnull_not_none; exact Hty).
      assert (Hty' : negb (is_nonnull t') && typed n S snake t' v = true).
      { simpl in Hty. destruct v; try exact Hty. exfalso; apply Hv; reflexivity. }
      apply andb_true_iff in Hty' as [Hnn Hty']. apply negb_true_iff in Hnn.
      destruct (IH t' false top v Hty' Ev' (fun _ => Hv)) as [w [lg [j [c [H0 [H1 [H2 [H3 H4]]]]]]]].
      exists w, lg, j, c. repeat split; try assumption.
      + intros m Hm. apply H1. lia.
      + simpl. rewrite Hnn. specialize (H4 Hv). destruct j; try exact H2. exfalso; apply H4; reflexivity.
      + simpl. destruct v; try exact H3. exfalso; apply Hv; reflexivity.
  Qed.

  Lemma arg_delivery : forall n t v,
    typed n S snake t v = true ->
    exists w j c, wrap_arg t v = Some w /\
                (forall m, n <= m -> convert_value ser m S snake w = Some j) /\
                coerce n S t j = Some c /\ intend ser n S snake t v = Some c /\
                (v <> PNone -> j <> JNull).
  Proof.
    intros n t v Hty. unfold wrap_arg.
    destruct (var_ser S t) as [f|] eqn:Ev.
    - destruct (ser_delivery f n t true true v Hty Ev) as [w [lg [j [c [H0 [H1 [H2 [H3 H4]]]]]]]]; [discriminate|].
      exists w, j, c. rewrite H0. repeat split; assumption.
    - cut (exists j c, (forall m, n <= m -> convert_value ser m S snake v = Some j) /\
                coerce n S t j = Some c /\ intend ser n S snake t v = Some c /\ (v <> PNone -> j <> JNull)).
      { intros [j [c H]]. exists v, j, c. split; [reflexivity|exact H]. }
      revert t v Hty Ev.
      induction n as [|n IH]; intros t v Hty Ev; [discriminate|].
      destruct t as [nm|t'|t'].
      + destruct v as [| |z|fl|s|b|ty s|j0|l|cls kw];
          [ | simpl in Hty; destruct (lookup_type S nm) as [[bi|c|vals|fs]|] eqn:El; try discriminate .. ].
        * exists JNull, CNull. repeat split; try reflexivity.
          -- intros [|m] Hm; [lia|]. reflexivity.
          -- intro H; exfalso; apply H; reflexivity.
        * destruct bi; discriminate.
        * destruct bi; try discriminate. simpl in Hty.
          exists (JInt z), (CInt z). repeat split; try discriminate.
          -- intros [|m] Hm; [lia|]. reflexivity.
          -- simpl. rewrite El. simpl. rewrite Hty. reflexivity.
          -- simpl. rewrite El. reflexivity.
        * destruct bi; try discriminate.
          exists (JFloat fl), (CFloat fl). repeat split; try discriminate.
          -- intros [|m] Hm; [lia|]. reflexivity.
          -- simpl. rewrite El. reflexivity.
          -- simpl. rewrite El. reflexivity.
        * destruct bi; try discriminate; exists (JStr s), (CStr s); repeat split; try discriminate;
            try (intros [|m] Hm; [lia|]; reflexivity); simpl; rewrite El; reflexivity.
        * destruct bi; try discriminate.
          exists (JBool b), (CBool b). repeat split; try discriminate.
          -- intros [|m] Hm; [lia|]. reflexivity.
          -- simpl. rewrite El. reflexivity.
          -- simpl. rewrite El. reflexivity.
        * destruct bi; discriminate.
        * apply andb_true_iff in Hty as [_ Hmem].
          exists (JStr s), (CEnum s). repeat split; try discriminate.
          -- intros [|m] Hm; [lia|]. reflexivity.
          -- simpl. rewrite El, Hmem. reflexivity.
          -- simpl. rewrite El. reflexivity.
        * destruct bi; discriminate.
        * unfold var_ser in Ev. simpl in Ev. rewrite El in Ev.
          exists j0, (CCustom j0). repeat split.
          -- intros [|m] Hm; [lia|]. reflexivity.
          -- simpl. rewrite El. destruct j0; try reflexivity; discriminate.
          -- simpl. rewrite El. unfold dump_custom. rewrite Ev. reflexivity.
          -- intros _. apply not_jnull_neq; exact Hty.
        * destruct bi; discriminate.
        * destruct bi; discriminate.
        * apply andb_true_iff in Hty as [Hcls Hfs]. apply String.eqb_eq in Hcls. subst cls.
          destruct (input_guards nm fs El) as [Hpy Hnm].
          destruct (fields_delivery n fs kw Hpy Hnm Hfs) as [o [cs [Hd [Hk [Hc Hi]]]]].
          { intros f v Hf Evv Htv.
            destruct (field_delivery n (if_type f) true v Htv) as [j [c [H1 [H2 [H3 _]]]]];
              [discriminate|].
            exists j, c. repeat split; assumption. }
          exists (JObj o), (CObj cs). repeat split; try discriminate.
          -- intros [|m] Hm; [lia|]. simpl. rewrite El. unfold DF in Hd. rewrite (Hd m); [reflexivity|lia].
          -- simpl. rewrite El, Hk, Hc. reflexivity.
          -- simpl. rewrite El, Hi. reflexivity.
      + destruct v as [| |z|fl|s|b|ty s|j0|l|cls kw]; try discriminate.
        * exists JNull, CNull. repeat split; try reflexivity.
          -- intros [|m] Hm; [lia|]. reflexivity.
          -- intro H; exfalso; apply H; reflexivity.
        * simpl in Hty. rewrite forallb_forall in Hty.
          destruct (list_delivery (fun m => convert_value ser m S snake) (coerce n S t')
                                  (intend ser n S snake t') n l) as [js [cs [Hd [Hc Hi]]]].
          { intros x Hx. destruct (IH t' x (Hty x Hx)) as [j [c [H1 [H2 [H3 _]]]]].
            - unfold var_ser in *. simpl in Ev. exact Ev.
            - exists j, c. repeat split; assumption. }
          exists (JArr js), (CList cs). repeat split; try discriminate.
          -- intros [|m] Hm; [lia|]. simpl. rewrite (Hd m); [reflexivity|lia].
          -- simpl. rewrite Hc. reflexivity.
          -- simpl. rewrite Hi. reflexivity.
      + assert (Hv : v <> PNone) by (eapply typed_nonnull_not_none; exact Hty).
        assert (Hty' : negb (is_nonnull t') && typed n S snake t' v = true).
        { simpl in Hty. destruct v; try exact Hty. exfalso; apply Hv; reflexivity. }
        apply andb_true_iff in Hty' as [Hnn Hty']. apply negb_true_iff in Hnn.
        destruct (IH t' v Hty') as [j [c [H1 [H2 [H3 H4]]]]].
        { unfold var_ser in *. simpl in Ev. exact Ev. }
        exists j, c. repeat split; try assumption.
        * intros m Hm. apply H1. lia.
        * simpl. rewrite Hnn. specialize (H4 Hv). destruct j; try exact H2. exfalso; apply H4; reflexivity.
        * simpl. destruct v; try exact H3. exfalso; apply Hv; reflexivity.
  Qed.
End Delivery.

(* ---------- the variables dict after UNSET filtering ---------- *)
Section Dict.
  Variable ser : string -> pyval -> pyval.
  Variable S : schema.
  Variable snake : bool.

  Lemma convert_dict_keys n d kv :
    convert_dict ser n S snake d = Some kv -> forall k, In k (map fst kv) -> In k (map fst d).
  Proof.
    revert kv; induction d as [|[k0 v] r IH]; simpl; intros kv H k Hk.
    - inversion H; subst; exact Hk.
    - assert (Hgen : forall kv', (match convert_value ser n S snake v, convert_dict ser n S snake r with
                                  | Some j, Some o => Some ((k0, j) :: o) | _, _ => None end) = Some kv' ->
                                 In k (map fst kv') -> k0 = k \/ In k (map fst r)).
      { intros kv' H' Hk'. destruct (convert_value ser n S snake v); [|discriminate].
        destruct (convert_dict ser n S snake r) as [o|]; [|discriminate].
        inversion H'; subst; simpl in Hk'. destruct Hk' as [E|E]; [left; exact E|right; eapply IH; eauto]. }
      destruct v; try (eapply Hgen; eassumption).
      right. eapply IH; eauto.
  Qed.

  (* an omitted optional argument (bound to UNSET, not wrapped) leaves no key in the payload *)
  Lemma convert_dict_unset_absent n d kv k :
    convert_dict ser n S snake d = Some kv -> NoDup (map fst d) -> In (k, PUnset) d ->
    jlookup k kv = None.
  Proof.
    revert kv; induction d as [|[k0 v] r IH]; simpl; intros kv H Hn Hin; [contradiction|].
    apply NoDup_cons_iff in Hn as [Hnotin Hnd].
    destruct Hin as [E|Hin].
    - inversion E; subst. rewrite jlookup_assoc. apply assoc_None.
      intro Hk. apply Hnotin. eapply convert_dict_keys; eauto.
    - assert (Hk0 : k0 <> k).
      { intro; subst. apply Hnotin. apply (in_map fst) in Hin. exact Hin. }
      assert (Hgen : forall kv', (match convert_value ser n S snake v, convert_dict ser n S snake r with
                                  | Some j, Some o => Some ((k0, j) :: o) | _, _ => None end) = Some kv' ->
                                 jlookup k kv' = None).
      { intros kv' H'. destruct (convert_value ser n S snake v); [|discriminate].
        destruct (convert_dict ser n S snake r) as [o|] eqn:Eo; [|discriminate].
        inversion H'; subst; simpl.
        destruct (String.eqb k k0) eqn:Ek; [apply String.eqb_eq in Ek; congruence|].
        apply IH; auto. }
      destruct v; try (apply Hgen; exact H). apply IH; auto.
  Qed.

  (* an explicit None travels as null *)
  Lemma convert_dict_none_null n d kv k :
    convert_dict ser n S snake d = Some kv -> NoDup (map fst d) -> In (k, PNone) d ->
    jlookup k kv = Some JNull.
  Proof.
    revert kv; induction d as [|[k0 v] r IH]; simpl; intros kv H Hn Hin; [contradiction|].
    apply NoDup_cons_iff in Hn as [Hnotin Hnd].
    destruct Hin as [E|Hin].
    - inversion E; subst. destruct n; simpl in H; [discriminate|].
      destruct (convert_dict ser (Datatypes.S n) S snake r); [|discriminate].
      inversion H; subst; simpl. rewrite String.eqb_refl. reflexivity.
    - assert (Hk0 : k0 <> k).
      { intro; subst. apply Hnotin. apply (in_map fst) in Hin. exact Hin. }
      assert (Hgen : forall kv', (match convert_value ser n S snake v, convert_dict ser n S snake r with
                                  | Some j, Some o => Some ((k0, j) :: o) | _, _ => None end) = Some kv' ->
                                 jlookup k kv' = Some JNull).
      { intros kv' H'. destruct (convert_value ser n S snake v); [|discriminate].
        destruct (convert_dict ser n S snake r) as [o|] eqn:Eo; [|discriminate].
        inversion H'; subst; simpl.
        destruct (String.eqb k k0) eqn:Ek; [apply String.eqb_eq in Ek; congruence|].
        apply IH; auto. }
      destruct v; try (apply Hgen; exact H). apply IH; auto.
  Qed.

  Lemma bind_missing ps kwargs p :
    In p ps -> p_required p = true -> assoc (p_name p) kwargs = None -> bind ps kwargs = None.
  Proof.
    induction ps as [|q r IH]; simpl; intros Hin Hr Ha; [contradiction|].
    destruct Hin as [E|Hin].
    - subst q. rewrite Ha, Hr. reflexivity.
    - rewrite (IH Hin Hr Ha). destruct (assoc (p_name q) kwargs); [reflexivity|].
      destruct (p_required q); reflexivity.
  Qed.

  (* a required parameter cannot be omitted: the call fails before anything is sent *)
  Lemma required_cannot_be_omitted n nm vs kwargs g p :
    generate S nm vs = Some g -> sig_ok g = true ->
    In p (g_params g) -> p_required p = true -> assoc (p_name p) kwargs = None ->
    call_method ser n S snake nm vs kwargs = PyMissingArg.
  Proof.
    intros Hg Hs Hin Hr Ha. unfold call_method. rewrite Hg, Hs. simpl.
    rewrite (bind_missing _ _ _ Hin Hr Ha). reflexivity.
  Qed.
End Dict.

(* ---------- evaluating the generated serialize expression ---------- *)
Section EvalGen.
  Variable ser : string -> pyval -> pyval.

  Lemma map_opt_ext {X Y} (F G : X -> option Y) l : (forall a, F a = G a) -> map_opt F l = map_opt G l.
  Proof. intro H. induction l as [|x l IH]; simpl; [reflexivity|]. rewrite H, IH. reflexivity. Qed.

  Lemma unset_not_item f d : String.eqb "UNSET" (item_for f d) = false.
  Proof. unfold item_for. destruct (String.eqb (item_name d) f); reflexivity. Qed.

  Lemma eqb_append_us f : String.eqb f (f ++ "_") = false.
  Proof.
    apply String.eqb_neq. intro E. apply (f_equal String.length) in E. rewrite length_append in E. simpl in E. lia.
  Qed.

  (* the comprehension variable never has the name of the serialize function (since /repo 6bef770) *)
  Lemma item_for_neq f d : String.eqb f (item_for f d) = false.
  Proof.
    unfold item_for. destruct (String.eqb (item_name d) f) eqn:E.
    - apply String.eqb_eq in E. rewrite E. apply eqb_append_us.
    - rewrite String.eqb_sym. exact E.
  Qed.

  (* the expression computes ser_arg (value AND call log), whatever the wrapper nesting *)
  Lemma eval_gen f :
    forall t env x nl depth v,
      assoc x env = Some v -> assoc f env = None -> assoc "UNSET" env = None ->
      eval_se ser env (gen_se t x f nl depth) = ser_arg ser f t nl (Nat.eqb depth 0) v.
  Proof.
    induction t as [nm|t' IH|t' IH]; intros env x nl depth v Hx Hfe Hu.
    - simpl. destruct nl; simpl.
      + rewrite Hx. unfold is_unset_test. rewrite Hu.
        destruct (is_none v || (Nat.eqb depth 0 && is_unset v)); [reflexivity|].
        simpl. rewrite ?Hfe, ?Hx. reflexivity.
      + rewrite ?Hfe, ?Hx. reflexivity.
    - assert (Hcomp : eval_se ser env (EComp (item_for f depth)
                         (gen_se t' (item_for f depth) f true (Datatypes.S depth)) x) =
                      match v with
                      | PList l => option_map (fun rs => (PList (map fst rs), List.concat (map snd rs)))
                                              (map_opt (ser_arg ser f t' true false) l)
                      | _ => None end).
      { simpl. rewrite Hx. destruct v; try reflexivity. f_equal. apply map_opt_ext. intro a.
        apply (IH ((item_for f depth, a) :: env) (item_for f depth) true (Datatypes.S depth) a).
        - simpl. rewrite String.eqb_refl. reflexivity.
        - change (assoc f ((item_for f depth, a) :: env)) with
            (if String.eqb f (item_for f depth) then Some a else assoc f env).
          rewrite item_for_neq. exact Hfe.
        - change (assoc "UNSET" ((item_for f depth, a) :: env)) with
            (if String.eqb "UNSET" (item_for f depth) then Some a else assoc "UNSET" env).
          rewrite unset_not_item. exact Hu. }
      simpl gen_se. destruct nl.
      + simpl eval_se. rewrite Hx. unfold is_unset_test. rewrite Hu. simpl ser_arg.
        destruct (is_none v || (Nat.eqb depth 0 && is_unset v)); [reflexivity|].
        rewrite <- Hcomp. simpl. rewrite Hx. reflexivity.
      + rewrite Hcomp. reflexivity.
    - simpl. apply IH; assumption.
  Qed.

  (* the custom-operation expression computes cu_arg (value AND call log), whatever the wrapper nesting *)
  Lemma eval_gen_cu f : (forall d, String.eqb f (item_name d) = false) ->
    forall t env x nl depth v,
      assoc x env = Some v -> assoc f env = None ->
      eval_se ser env (gen_cu t x f nl depth) = cu_arg ser f t nl (Nat.eqb depth 0) v.
  Proof.
    intros Hf. induction t as [nm|t' IH|t' IH]; intros env x nl depth v Hx Hfe.
    - simpl. destruct (nl || Nat.eqb depth 0); simpl.
      + rewrite Hx. destruct (is_none v); [reflexivity|]. simpl. rewrite ?Hfe, ?Hx. reflexivity.
      + rewrite ?Hfe, ?Hx. reflexivity.
    - assert (Hcomp : eval_se ser env (EComp (item_name depth)
                         (gen_cu t' (item_name depth) f true (Datatypes.S depth)) x) =
                      match v with
                      | PList l => option_map (fun rs => (PList (map fst rs), List.concat (map snd rs)))
                                              (map_opt (cu_arg ser f t' true false) l)
                      | _ => None end).
      { simpl. rewrite Hx. destruct v; try reflexivity. f_equal. apply map_opt_ext. intro a.
        apply (IH ((item_name depth, a) :: env) (item_name depth) true (Datatypes.S depth) a).
        - simpl. rewrite String.eqb_refl. reflexivity.
        - simpl. rewrite Hf. exact Hfe. }
      simpl gen_cu. simpl cu_arg. destruct (nl || Nat.eqb depth 0).
      + simpl eval_se. rewrite Hx. simpl andb. destruct (is_none v); [reflexivity|].
        rewrite <- Hcomp. simpl. rewrite Hx. reflexivity.
      + simpl andb. rewrite Hcomp. reflexivity.
    - simpl. apply IH; assumption.
  Qed.

  Lemma ser_arg_unset f t : is_nonnull t = false -> ser_arg ser f t true true PUnset = Some (PUnset, []).
  Proof. destruct t; simpl; intro H; try reflexivity; discriminate. Qed.
End EvalGen.

(* ---------- generic facts about _convert_dict_to_json_serializable ---------- *)
Section DictLookup.
  Variable ser : string -> pyval -> pyval.
  Variable S : schema.
  Variable snake : bool.

  Lemma convert_dict_exists n d :
    (forall k w, In (k, w) d -> w = PUnset \/ exists j, forall m, n <= m -> convert_value ser m S snake w = Some j) ->
    exists kv, forall m, n <= m -> convert_dict ser m S snake d = Some kv.
  Proof.
    induction d as [|[k w] r IH]; intro H.
    - exists []. reflexivity.
    - destruct IH as [kv Hkv]; [intros k' w' Hin; apply (H k' w'); right; exact Hin|].
      destruct (H k w (or_introl eq_refl)) as [E|[j Hj]].
      + subst w. exists kv. intros m Hm. simpl. apply Hkv; exact Hm.
      + exists ((k, j) :: kv). intros m Hm. simpl.
        assert (Hw : w <> PUnset).
        { intro E; subst w. specialize (Hj (Datatypes.S n) (le_S _ _ (le_n n))). discriminate. }
        rewrite (Hj m Hm), (Hkv m Hm). destruct w; try reflexivity. exfalso; apply Hw; reflexivity.
  Qed.

  Lemma convert_dict_lookup n d kv k w :
    convert_dict ser n S snake d = Some kv -> NoDup (map fst d) -> In (k, w) d ->
    jlookup k kv = match w with PUnset => None | _ => convert_value ser n S snake w end.
  Proof.
    revert kv; induction d as [|[k0 v] r IH]; simpl; intros kv H Hn Hin; [contradiction|].
    apply NoDup_cons_iff in Hn as [Hnotin Hnd].
    assert (Hgen : forall kv', (match convert_value ser n S snake v, convert_dict ser n S snake r with
                                | Some j, Some o => Some ((k0, j) :: o) | _, _ => None end) = Some kv' ->
                     (k0, v) = (k, w) \/ In (k, w) r ->
                     jlookup k kv' = match (if String.eqb k k0 then convert_value ser n S snake v
                                             else jlookup k kv') with x => x end).
    { intros kv' H' _. destruct (convert_value ser n S snake v) as [j|] eqn:Ej; [|discriminate].
      destruct (convert_dict ser n S snake r) as [o|]; [|discriminate].
      inversion H'; subst; simpl. destruct (String.eqb k k0); reflexivity. }
    destruct Hin as [E|Hin].
    - inversion E; subst k0 v. clear Hgen.
      destruct w;
        try (match type of H with
             | context [convert_value ser n S snake ?a] =>
                 destruct (convert_value ser n S snake a) as [jj|] eqn:Ej; [|discriminate]
             end;
             destruct (convert_dict ser n S snake r) as [o|]; [|discriminate];
             inversion H; subst; simpl; rewrite String.eqb_refl; reflexivity).
      rewrite jlookup_assoc. apply assoc_None. intro Hk. apply Hnotin.
      eapply convert_dict_keys; eauto.
    - assert (Hk0 : String.eqb k k0 = false).
      { apply String.eqb_neq. intro; subst. apply Hnotin. apply (in_map fst) in Hin. exact Hin. }
      assert (Hstep : forall kv', (match convert_value ser n S snake v, convert_dict ser n S snake r with
                                   | Some j, Some o => Some ((k0, j) :: o) | _, _ => None end) = Some kv' ->
                        jlookup k kv' = match w with PUnset => None | _ => convert_value ser n S snake w end).
      { intros kv' H'. destruct (convert_value ser n S snake v) as [j|]; [|discriminate].
        destruct (convert_dict ser n S snake r) as [o|] eqn:Eo; [|discriminate].
        inversion H'; subst; simpl. rewrite Hk0. apply IH; auto. }
      destruct v; try (apply Hstep; exact H). apply IH; auto.
  Qed.
End DictLookup.

(* ---------- the whole call ---------- *)
Section Call.
  Variable ser : string -> pyval -> pyval.
  Hypothesis Hser : ser_wf ser.
  Variable S : schema.
  Variable snake : bool.
  Hypothesis Hinputs : inputs_ok S snake = true.
  Variable nm : string -> string.
  Variable vs : list vardef.
  Variable kwargs : list (string * pyval).
  Variable n : nat.
  Variable g : generated.
  Hypothesis Hgen : generate S nm vs = Some g.
  Hypothesis Hnames : names_wf S nm vs = true.
  Hypothesis Hvn : NoDup (map v_name vs).
  Hypothesis Hcall : typed_call n S snake nm vs kwargs = true.

  Definition py (v : vardef) : string := nm (v_name v).
  Definition argof (k : string) : pyval := match assoc k kwargs with Some a => a | None => PUnset end.
  Definition W (v : vardef) : pyval :=
    match wrap_arg ser S (v_type v) (argof (py v)) with Some w => w | None => PNone end.

  (* --- names_wf unpacked --- *)
  Lemma names_facts :
    (forall k, In k (map py vs) -> py_ok_name k = true) /\ NoDup (map py vs) /\
    ~ In "gql" (map py vs) /\ ~ In "UNSET" (map py vs) /\
    (forall v f, In v vs -> var_ser S (v_type v) = Some f -> ~ In f (map py vs)).
  Proof.
    pose proof Hnames as Hn. unfold names_wf in Hn. fold py in Hn.
    apply andb_true_iff in Hn as [Hn H5].
    apply andb_true_iff in Hn as [Hn H4]. apply andb_true_iff in Hn as [Hn H3].
    apply andb_true_iff in Hn as [H1 H2].
    split; [|split; [|split; [|split]]].
    - intros k Hk. rewrite forallb_forall in H1. apply H1; exact Hk.
    - apply nodup_str_NoDup; exact H2.
    - apply mem_str_false. apply negb_true_iff; exact H3.
    - apply mem_str_false. apply negb_true_iff; exact H4.
    - intros v f Hv Hf. rewrite forallb_forall in H5. specialize (H5 v Hv). rewrite Hf in H5.
      apply mem_str_false. apply negb_true_iff; exact H5.
  Qed.

  (* --- the generator's output --- *)
  Lemma gen_struct : exists l, map_opt (gen_one S nm) vs = Some l /\ g_dict g = map snd l.
  Proof.
    unfold generate in Hgen. destruct (map_opt (gen_one S nm) vs) as [l|] eqn:E; [|discriminate].
    inversion Hgen; subst. exists l. split; reflexivity.
  Qed.

  Lemma shape : exists ps, map p_name ps = map py vs /\
                           map p_required ps = map (fun v => is_nonnull (v_type v)) vs /\
                           Permutation (g_params g) ps.
  Proof. destruct (signature_shape _ _ _ _ Hgen) as [ps [H1 [H2 [_ H4]]]]. exists ps. repeat split; assumption. Qed.

  Lemma params_names k : In k (map p_name (g_params g)) <-> In k (map py vs).
  Proof.
    destruct shape as [ps [Hn [_ Hp]]]. rewrite <- Hn. split; apply Permutation_in; apply Permutation_map;
      [exact Hp | apply Permutation_sym; exact Hp].
  Qed.

  Lemma sig_ok_holds : sig_ok g = true.
  Proof.
    destruct names_facts as [N1 [N2 _]]. unfold sig_ok. apply andb_true_iff. split.
    - apply forallb_forall. intros p Hp. apply N1. apply params_names. apply in_map. exact Hp.
    - apply nodup_str_NoDup. destruct shape as [ps [Hn [_ Hp]]].
      eapply Permutation_NoDup; [apply Permutation_map; apply Permutation_sym; exact Hp|]. rewrite Hn. exact N2.
  Qed.

  Lemma two_maps {X Y A B} (f1 : X -> A) (g1 : Y -> A) (f2 : X -> B) (g2 : Y -> B) xs ys :
    map f1 xs = map g1 ys -> map f2 xs = map g2 ys ->
    forall x, In x xs -> exists y, In y ys /\ f1 x = g1 y /\ f2 x = g2 y.
  Proof.
    revert ys; induction xs as [|a xs IH]; intros [|b ys] H1 H2 x Hx; try contradiction; try discriminate.
    simpl in *. inversion H1. inversion H2. destruct Hx as [E|Hx].
    - subst. exists b. repeat split; auto.
    - destruct (IH ys H3 H5 x Hx) as [y [Hy Hr]]. exists y. split; [right; exact Hy|exact Hr].
  Qed.

  (* --- typed_call unpacked --- *)
  Lemma call_facts v : In v vs ->
    match assoc (py v) kwargs with
    | Some a => typed n S snake (v_type v) a = true
    | None => is_nonnull (v_type v) = false
    end.
  Proof.
    intro Hv. pose proof Hcall as Hc. unfold typed_call in Hc. apply andb_true_iff in Hc as [_ Hc].
    rewrite forallb_forall in Hc. specialize (Hc v Hv). fold (py v) in Hc.
    destruct (assoc (py v) kwargs); [exact Hc|]. apply negb_true_iff; exact Hc.
  Qed.

  Lemma bind_ok ps :
    (forall p, In p ps -> p_required p = true -> assoc (p_name p) kwargs <> None) ->
    bind ps kwargs = Some (map (fun p => (p_name p, argof (p_name p))) ps).
  Proof.
    induction ps as [|a ps IH]; simpl; intro H; [reflexivity|].
    rewrite IH; [|intros p Hp; apply H; right; exact Hp].
    assert (Ea : argof (p_name a) = match assoc (p_name a) kwargs with Some x => x | None => PUnset end)
      by reflexivity.
    destruct (assoc (p_name a) kwargs) eqn:E; simpl; [rewrite Ea; reflexivity|].
    destruct (p_required a) eqn:R; [|simpl; rewrite Ea; reflexivity].
    exfalso. apply (H a (or_introl eq_refl) R E).
  Qed.

  Definition env0 : list (string * pyval) := map (fun p => (p_name p, argof (p_name p))) (g_params g).

  Lemma bind_holds : bind (g_params g) kwargs = Some env0.
  Proof.
    apply bind_ok. intros p Hp Hr Ha.
    destruct shape as [ps [Hn [Hq Hperm]]].
    assert (Hps : In p ps) by (eapply Permutation_in; eauto).
    destruct (two_maps _ _ _ _ _ _ Hn Hq p Hps) as [v [Hv [E1 E2]]].
    pose proof (call_facts v Hv) as Hc. rewrite <- E1, Ha in Hc. rewrite Hc in E2. congruence.
  Qed.

  Lemma assoc_keymap (A : string -> pyval) ps k :
    assoc k (map (fun p => (p_name p, A (p_name p))) ps) =
    if mem_str k (map p_name ps) then Some (A k) else None.
  Proof.
    induction ps as [|a ps IH]; simpl; [reflexivity|].
    destruct (String.eqb k (p_name a)) eqn:E; simpl; [apply String.eqb_eq in E; subst; reflexivity|exact IH].
  Qed.

  Lemma env0_in k : In k (map py vs) -> assoc k env0 = Some (argof k).
  Proof.
    intro H. unfold env0. rewrite assoc_keymap.
    assert (mem_str k (map p_name (g_params g)) = true) by (apply mem_str_In; apply params_names; exact H).
    rewrite H0. reflexivity.
  Qed.

  Lemma env0_out k : ~ In k (map py vs) -> assoc k env0 = None.
  Proof.
    intro H. unfold env0. rewrite assoc_keymap.
    assert (mem_str k (map p_name (g_params g)) = false).
    { apply mem_str_false. intro Hk. apply H. apply params_names. exact Hk. }
    rewrite H0. reflexivity.
  Qed.

  Definition qv : string := hd "query" (variable_names S g).
  Definition env1 : list (string * pyval) := (qv, query_text) :: env0.

  Lemma fresh_local_query_like : forall m names x, query_like x = true -> query_like (fresh_local m names x) = true.
  Proof.
    induction m as [|m IH]; intros names x H; simpl; [exact H|].
    destruct (mem_str x names); [|exact H]. apply IH. exact H.
  Qed.

  (* the method's `query` local is renamed until it is neither a parameter nor a name the body calls; it always looks
     like _..._query *)
  Lemma qv_free : ~ In qv (map py vs) /\ query_like qv = true /\ ~ In qv (called_names S).
  Proof.
    unfold qv, variable_names. cbn [map hd].
    pose proof (local_name_free (("self" :: map p_name (g_params g)) ++ called_names S) "query") as Hfree.
    split; [|split].
    - intro H. apply params_names in H. apply Hfree. apply in_or_app. left. right. exact H.
    - unfold local_name. apply fresh_local_query_like. reflexivity.
    - intro H. apply Hfree. apply in_or_app. right. exact H.
  Qed.

  Lemma env1_other k : k <> qv -> assoc k env1 = assoc k env0.
  Proof. intro H. unfold env1. simpl. destruct (String.eqb k qv) eqn:E; [apply String.eqb_eq in E; contradiction|reflexivity]. Qed.

  Lemma env1_py k : In k (map py vs) -> assoc k env1 = Some (argof k).
  Proof.
    intro Hk. rewrite env1_other; [apply env0_in; exact Hk|].
    intro; subst k. apply (proj1 qv_free). exact Hk.
  Qed.

  Lemma env1_free k : ~ In k (map py vs) -> k <> qv -> assoc k env1 = None.
  Proof. intros Hk Hq. rewrite env1_other; [apply env0_out; exact Hk|exact Hq]. Qed.

  Lemma var_ser_called t f : var_ser S t = Some f -> In f (called_names S).
  Proof.
    unfold var_ser, called_names. intro H.
    destruct (lookup_type S (named_of t)) as [[b|[c|]|vals|fs]|] eqn:El; try discriminate.
    simpl in H. destruct (sc_ser c) as [f0|] eqn:Es; [|discriminate]. inversion H; subst.
    unfold lookup_type in El. destruct (builtin_of (named_of t)); [discriminate|].
    apply assoc_In_pair in El. right. apply in_flat_map.
    exists (named_of t, DCustom (Some c)). split; [exact El|]. simpl. rewrite Es. left; reflexivity.
  Qed.

  (* --- the serialize function chosen by the generator is the one of the variable's named type --- *)
  Lemma ser_name_var_ser : forall t nl a u, parse_type_node S t nl = Some (a, u) -> ser_name S u = var_ser S t.
  Proof.
    induction t as [tn|t' IH|t' IH]; intros nl a u H.
    - simpl in H. unfold parse_named in H. unfold var_ser. simpl.
      destruct (lookup_type S tn) as [[b|[c|]|vals|fs]|] eqn:El; inversion H; subst; try reflexivity.
      unfold ser_name. unfold lookup_type in El. destruct (builtin_of tn); [discriminate|]. rewrite El. reflexivity.
    - simpl in H. destruct (parse_type_node S t' true) as [[a' u']|] eqn:E; [|discriminate].
      inversion H; subst. unfold var_ser. simpl. apply (IH true a' u E).
    - simpl in H. unfold var_ser. simpl. apply (IH false a u H).
  Qed.

  Lemma item_prefix d : String.prefix "_item" (item_name d) = true.
  Proof. unfold item_name. simpl. destruct (z_to_string (Z.of_nat d)); reflexivity. Qed.

  (* --- every variable: the wrapped value and what becomes of it --- *)
  Lemma W_passed v a : In v vs -> assoc (py v) kwargs = Some a ->
    exists j c, wrap_arg ser S (v_type v) (argof (py v)) = Some (W v) /\
                (forall m, n <= m -> convert_value ser m S snake (W v) = Some j) /\
                coerce n S (v_type v) j = Some c /\ intend ser n S snake (v_type v) a = Some c /\
                (a = PNone -> W v = PNone).
  Proof.
    intros Hv Ha. pose proof (call_facts v Hv) as Hc. rewrite Ha in Hc.
    destruct (arg_delivery ser Hser S snake Hinputs n (v_type v) a Hc) as [w [j [c [H0 [H1 [H2 [H3 _]]]]]]].
    unfold W, argof. rewrite Ha, H0. exists j, c. repeat split; try assumption.
    intro E; subst a. unfold wrap_arg in H0. destruct (var_ser S (v_type v)) as [f|]; [|congruence].
    destruct (v_type v) as [tn|t'|t']; simpl in H0; try (inversion H0; reflexivity).
    destruct n; [discriminate|]. simpl in Hc. discriminate.
  Qed.

  Lemma W_omitted v : In v vs -> assoc (py v) kwargs = None ->
    wrap_arg ser S (v_type v) (argof (py v)) = Some (W v) /\ W v = PUnset.
  Proof.
    intros Hv Ha. pose proof (call_facts v Hv) as Hc. rewrite Ha in Hc.
    assert (H : wrap_arg ser S (v_type v) PUnset = Some PUnset).
    { unfold wrap_arg. destruct (var_ser S (v_type v)); [|reflexivity]. rewrite ser_arg_unset; [reflexivity|exact Hc]. }
    unfold W, argof. rewrite Ha, H. split; reflexivity.
  Qed.

  Lemma W_wrap v : In v vs -> wrap_arg ser S (v_type v) (argof (py v)) = Some (W v).
  Proof.
    intro Hv. destruct (assoc (py v) kwargs) as [a|] eqn:Ha.
    - destruct (W_passed v a Hv Ha) as [j [c [H _]]]. exact H.
    - apply (W_omitted v Hv Ha).
  Qed.

  Lemma eval_entry v p e : In v vs -> gen_one S nm v = Some (p, e) ->
    exists lg, eval_se ser env1 (snd e) = Some (W v, lg).
  Proof.
    intros Hv Hg. destruct (gen_one_dictval _ _ _ _ _ Hg) as [a [u [Hp He]]]. rewrite He.
    fold (py v). unfold dict_value. rewrite (ser_name_var_ser _ _ _ _ Hp).
    pose proof (W_wrap v Hv) as Hw. unfold wrap_arg in Hw.
    assert (Hpy : In (py v) (map py vs)) by (apply in_map; exact Hv).
    destruct (var_ser S (v_type v)) as [f|] eqn:Ef.
    - destruct names_facts as [_ [_ [_ [N5 N6]]]].
      pose proof (N6 v f Hv Ef) as F1.
      destruct qv_free as [_ [Hql Hqc]].
      rewrite (eval_gen ser f) with (v := argof (py v)).
      + simpl Nat.eqb. destruct (ser_arg ser f (v_type v) true true (argof (py v))) as [[w lg]|]; [|discriminate].
        simpl in Hw. inversion Hw; subst. exists lg. reflexivity.
      + apply env1_py; exact Hpy.
      + apply env1_free; [exact F1|]. intro E. apply Hqc. rewrite <- E. eapply var_ser_called; exact Ef.
      + apply env1_free; [exact N5|]. intro E. rewrite <- E in Hql. discriminate.
    - inversion Hw. exists []. change (eval_se ser env1 (EVar (py v))) with
        (option_map (fun x => (x, @nil (string * pyval))) (assoc (py v) env1)).
      rewrite (env1_py _ Hpy). reflexivity.
  Qed.

  Lemma eval_dict_map env vs' : forall l',
    map_opt (gen_one S nm) vs' = Some l' ->
    (forall v p e, In v vs' -> gen_one S nm v = Some (p, e) -> exists lg, eval_se ser env (snd e) = Some (W v, lg)) ->
    eval_dict ser env (map snd l') = Some (map (fun v => (v_name v, W v)) vs').
  Proof.
    induction vs' as [|a vs' IH]; simpl; intros l' H Hall.
    - inversion H; reflexivity.
    - destruct (gen_one S nm a) as [[p e]|] eqn:E; [|discriminate].
      destruct (map_opt (gen_one S nm) vs') as [l|] eqn:E2; [|discriminate].
      inversion H; subst; simpl. destruct e as [k dv].
      destruct (Hall a p (k, dv) (or_introl eq_refl) E) as [lg Hlg]. simpl in Hlg. rewrite Hlg.
      rewrite (IH l eq_refl); [|intros v p' e' Hv; apply Hall; right; exact Hv].
      destruct (gen_one_name _ _ _ _ _ E) as [_ Hk]. simpl in Hk. subst k. reflexivity.
  Qed.

  Definition dct : list (string * pyval) := map (fun v => (v_name v, W v)) vs.

  Lemma dct_keys : map fst dct = map v_name vs.
  Proof. unfold dct. rewrite map_map. reflexivity. Qed.

  (* the call sends a payload; for every variable, what is found under its GraphQL name *)
  Lemma call_shape : exists sent,
    (forall m, n <= m -> call_method ser m S snake nm vs kwargs = Sent sent) /\
    (forall v, In v vs -> jlookup (v_name v) sent =
                          match W v with PUnset => None | _ => convert_value ser n S snake (W v) end).
  Proof.
    destruct gen_struct as [l [Hl Hd]].
    assert (Hev : eval_dict ser env1 (g_dict g) = Some dct).
    { rewrite Hd. apply eval_dict_map; [exact Hl|]. intros v p e Hv Hg. apply (eval_entry v p e Hv Hg). }
    destruct (convert_dict_exists ser S snake n dct) as [kv Hkv].
    { intros k w Hin. unfold dct in Hin. apply in_map_iff in Hin as [v [E Hv]]. inversion E; subst.
      destruct (assoc (py v) kwargs) as [a|] eqn:Ha.
      - right. destruct (W_passed v a Hv Ha) as [j [c [_ [H _]]]]. exists j. exact H.
      - left. apply (W_omitted v Hv Ha). }
    exists kv. split.
    - intros m Hm. unfold call_method. rewrite Hgen, sig_ok_holds. cbn [negb]. rewrite bind_holds.
      destruct names_facts as [_ [_ [N3 _]]]. rewrite (env0_out "gql" N3).
      change (hd "query" (variable_names S g)) with qv. change ((qv, query_text) :: env0) with env1.
      rewrite Hev, (Hkv m Hm). reflexivity.
    - intros v Hv. apply (convert_dict_lookup ser S snake n dct kv (v_name v) (W v)).
      + apply Hkv. apply le_n.
      + rewrite dct_keys. exact Hvn.
      + unfold dct. apply in_map_iff. exists v. split; [reflexivity|exact Hv].
  Qed.

  (* END TO END: the payload coerces, under the operation's variable definitions, to exactly the caller's values *)
  Theorem call_delivery : exists sent cs,
    (forall m, n <= m -> call_method ser m S snake nm vs kwargs = Sent sent) /\
    coerce_vars n S vs sent = Some cs /\ intended_vars ser n S snake nm vs kwargs = Some cs.
  Proof.
    destruct call_shape as [sent [Hsent Hlook]]. exists sent.
    assert (H : forall vs', incl vs' vs -> exists cs, coerce_vars n S vs' sent = Some cs /\
                                              intended_vars ser n S snake nm vs' kwargs = Some cs).
    { induction vs' as [|v r IH]; intro Hincl.
      - exists []. split; reflexivity.
      - destruct IH as [cs [Hc Hi]]; [intros x Hx; apply Hincl; right; exact Hx|].
        assert (Hv : In v vs) by (apply Hincl; left; reflexivity).
        simpl. rewrite (Hlook v Hv). fold (py v).
        destruct (assoc (py v) kwargs) as [a|] eqn:Ha.
        + destruct (W_passed v a Hv Ha) as [j [c [_ [Hcv [Hco [Hin _]]]]]].
          pose proof (Hcv n (le_n n)) as Hn.
          assert (Hw : W v <> PUnset).
          { intro E. rewrite E in Hn. destruct n; discriminate. }
          assert (Hl : match W v with PUnset => None | _ => convert_value ser n S snake (W v) end = Some j).
          { destruct (W v); try exact Hn. exfalso; apply Hw; reflexivity. }
          rewrite Hl, Hco, Hc, Hin, Hi. exists ((v_name v, c) :: cs). split; reflexivity.
        + destruct (W_omitted v Hv Ha) as [_ Hw]. rewrite Hw.
          pose proof (call_facts v Hv) as Hcf. rewrite Ha in Hcf.
          destruct (v_default v) as [d|].
          * rewrite Hc, Hi. exists ((v_name v, d) :: cs). split; reflexivity.
          * rewrite Hcf. exists cs. split; assumption. }
    destruct (H vs (incl_refl _)) as [cs [Hc Hi]]. exists cs. repeat split; assumption.
  Qed.

  (* an omitted optional argument leaves no key in the payload of the call *)
  Theorem call_omitted_absent v : In v vs -> assoc (py v) kwargs = None ->
    exists sent, (forall m, n <= m -> call_method ser m S snake nm vs kwargs = Sent sent) /\
                 jlookup (v_name v) sent = None.
  Proof.
    intros Hv Ha. destruct call_shape as [sent [Hsent Hlook]]. exists sent. split; [exact Hsent|].
    rewrite (Hlook v Hv). destruct (W_omitted v Hv Ha) as [_ Hw]. rewrite Hw. reflexivity.
  Qed.

  (* an explicit None travels as null *)
  Theorem call_none_is_null v : In v vs -> assoc (py v) kwargs = Some PNone ->
    exists sent, (forall m, n <= m -> call_method ser m S snake nm vs kwargs = Sent sent) /\
                 jlookup (v_name v) sent = Some JNull.
  Proof.
    intros Hv Ha. destruct call_shape as [sent [Hsent Hlook]]. exists sent. split; [exact Hsent|].
    rewrite (Hlook v Hv). destruct (W_passed v PNone Hv Ha) as [j [c [_ [_ [_ [_ Hw]]]]]]. rewrite (Hw eq_refl).
    pose proof (call_facts v Hv) as Hc. rewrite Ha in Hc. destruct n; [discriminate|]. reflexivity.
  Qed.
End Call.

(* ---------- the generator's naming (suffix loop) satisfies what the method needs ---------- *)
Section Naming.
  Variable S : schema.
  Variable snake : bool.

  Lemma s2l_app a b : s2l (a ++ b) = (s2l a ++ s2l b)%list.
  Proof. unfold s2l. induction a as [|c a IH]; simpl; [reflexivity|]. rewrite IH. reflexivity. Qed.

  Definition ends_us (l : chars) : bool := match rev l with c :: _ => is_us c | [] => false end.

  Lemma no_keyword_ends_us : forallb (fun k => negb (ends_us k)) kwlist = true.
  Proof. vm_compute. reflexivity. Qed.

  Lemma ident_ok_us b : ident_ok b = true -> ident_ok (b ++ "_") = true.
  Proof.
    unfold ident_ok. intro H. apply andb_true_iff in H as [Hi _]. rewrite s2l_app. apply andb_true_iff. split.
    - unfold py_identifier, gql_name in *. destruct (s2l b) as [|c r]; [discriminate|].
      simpl. apply andb_true_iff in Hi as [H1 H2]. rewrite H1. simpl in H2. simpl.
      apply andb_true_iff in H2 as [H2 H3]. rewrite H2. simpl. rewrite forallb_app, H3. reflexivity.
    - apply negb_true_iff. unfold iskeyword. destruct (mem_chars (s2l b ++ s2l "_")%list kwlist) eqn:E; [|reflexivity].
      apply mem_chars_In in E. pose proof no_keyword_ends_us as Hk. rewrite forallb_forall in Hk.
      specialize (Hk _ E). unfold ends_us in Hk. rewrite rev_app_distr in Hk. simpl in Hk. discriminate.
  Qed.

  Lemma ident_ok_usk b k : ident_ok b = true -> ident_ok (b ++ us k) = true.
  Proof.
    intro H. induction k as [|k IH]; simpl; [rewrite append_nil_r; exact H|].
    replace (b ++ String "_" (us k))%string with ((b ++ us k) ++ "_")%string.
    - apply ident_ok_us. exact IH.
    - rewrite append_assoc'. f_equal. symmetry. apply (us_comm k).
  Qed.

  Lemma var_ser_reserved t f : var_ser S t = Some f -> In f (reserved_names S).
  Proof.
    unfold var_ser, reserved_names. intro H.
    destruct (lookup_type S (named_of t)) as [[b|[c|]|vals|fs]|] eqn:El; try discriminate.
    simpl in H. destruct (sc_ser c) as [f0|] eqn:Es; [|discriminate]. inversion H; subst.
    unfold lookup_type in El. destruct (builtin_of (named_of t)); [discriminate|].
    apply assoc_In_pair in El. apply in_or_app. right. apply in_flat_map.
    exists (named_of t, DCustom (Some c)). split; [exact El|]. simpl. rewrite Es. left; reflexivity.
  Qed.

  (* distinct GraphQL variable names + mangled names that are identifiers (+ sane serialize function names):
     the assigned parameters are valid, pairwise distinct, never reserved *)
  (* ---- the mangled name of a GraphQL name is always an identifier and no keyword (since /repo 70630f0) ---- *)
  Lemma forallb_suffix_if b x : forallb is_name_char x = true -> forallb is_name_char (suffix_if b x) = true.
  Proof. intro H. unfold suffix_if. destruct b; [|exact H]. rewrite forallb_app, H. reflexivity. Qed.

  Lemma arg_name_chars n : gql_name n = true -> forallb is_name_char (process_name (arg_flags snake) n) = true.
  Proof.
    intro Hg. destruct (gql_name_chars n Hg) as [Hc Hne].
    unfold process_name, process_name_with, arg_flags. simpl.
    set (p1 := if snake then Names.snake n else n).
    assert (H1 : forallb is_name_char p1 = true).
    { unfold p1. destruct snake; [apply snake_go_name_chars|exact Hc]. }
    set (p3 := suffix_if (iskeyword p1) p1).
    assert (H3 : forallb is_name_char p3 = true) by (apply forallb_suffix_if; exact H1).
    destruct n as [|c r]; [exact H3|]. destruct p3 as [|c3 r3] eqn:E3; [|exact H3].
    destruct (all_us (c :: r)); [reflexivity|reflexivity].
  Qed.

  Definition starts_with_us (l : chars) : bool := match l with c :: _ => is_us c | [] => false end.

  Lemma no_keyword_starts_us : forallb (fun k => negb (starts_with_us k)) kwlist = true.
  Proof. vm_compute. reflexivity. Qed.

  Lemma base_ident x : gql_name (s2l x) = true -> ident_ok (base_name snake x) = true.
  Proof.
    intro Hg. unfold base_name, ident_ok.
    destruct (py_identifier (process_name (arg_flags snake) (s2l x))) eqn:Ei.
    - rewrite s2l_l2s, Ei. rewrite (process_not_keyword (arg_flags snake) (s2l x) Hg). reflexivity.
    - rewrite s2l_app, s2l_l2s. simpl s2l. apply andb_true_iff. split.
      + unfold py_identifier, gql_name. simpl. apply (arg_name_chars (s2l x) Hg).
      + apply negb_true_iff. unfold iskeyword.
        destruct (mem_chars ("_"%char :: process_name (arg_flags snake) (s2l x)) kwlist) eqn:E; [|reflexivity].
        apply mem_chars_In in E. pose proof no_keyword_starts_us as Hk. rewrite forallb_forall in Hk.
        specialize (Hk _ E). simpl in Hk. discriminate.
  Qed.

  Lemma naming_wf extra vs :
    NoDup (map v_name vs) -> forallb (fun v => gql_name (s2l (v_name v))) vs = true ->
    names_wf S (naming S snake extra vs) vs = true.
  Proof.
    intros Hnd Hgql.
    assert (Hid : forallb (fun v => ident_ok (base_name snake (v_name v))) vs = true).
    { apply forallb_forall. intros v Hv. rewrite forallb_forall in Hgql. apply base_ident. apply Hgql; exact Hv. }
    unfold names_wf. rewrite (naming_names S snake extra vs Hnd).
    set (bases := map (base_name snake) (map v_name vs)).
    set (used := (reserved_names S ++ extra)%list).
    destruct (assign_free bases used) as [Hnodup Hfree].
    pose proof (assign_form bases used) as Hform.
    assert (Hres : forall r, In r (reserved_names S) -> mem_str r (assign used bases) = false).
    { intros r Hr. apply mem_str_false. intro Hin. apply (Hfree r Hin). apply in_or_app. left; exact Hr. }
    assert (Hbases : Forall (fun b => ident_ok b = true) bases).
    { unfold bases. rewrite map_map. apply Forall_forall. intros b Hb. apply in_map_iff in Hb as [v [E Hv]].
      subst b. rewrite forallb_forall in Hid. apply Hid; exact Hv. }
    repeat (apply andb_true_iff; split).
    - apply forallb_forall. intros p Hp.
      assert (Hident : ident_ok p = true).
      { clear - Hform Hbases Hp. induction Hform as [|b q bs qs Hbq Hrest IH]; [contradiction|].
        inversion Hbases; subst. destruct Hp as [E|Hp]; [|apply IH; assumption].
        subst q. destruct Hbq as [k Hk]. rewrite Hk. apply ident_ok_usk. assumption. }
      unfold ident_ok in Hident. apply andb_true_iff in Hident as [H1 H2].
      unfold py_ok_name. rewrite H1, H2. simpl.
      assert (Hs : ~ In p (reserved_names S)).
      { intro Hr. apply (Hfree p Hp). apply in_or_app. left; exact Hr. }
      destruct (String.eqb p "self") eqn:E1; [apply String.eqb_eq in E1; subst; exfalso; apply Hs; left; reflexivity|].
      destruct (String.eqb p "kwargs") eqn:E2; [apply String.eqb_eq in E2; subst; exfalso; apply Hs; right; left; reflexivity|].
      reflexivity.
    - apply nodup_str_NoDup. exact Hnodup.
    - rewrite Hres; [reflexivity|]. right; right; left; reflexivity.
    - rewrite Hres; [reflexivity|]. right; right; right; left; reflexivity.
    - apply forallb_forall. intros v Hv. destruct (var_ser S (v_type v)) as [f|] eqn:Ef; [|reflexivity].
      rewrite Hres; [reflexivity|]. eapply var_ser_reserved; exact Ef.
  Qed.
End Naming.

(* the subscription path sends exactly the variables the HTTP path sends *)
Lemma ws_same_variables_as_http ser n S snake nm vs kwargs :
  call_subscribe ser n S snake nm vs kwargs = call_method ser n S snake nm vs kwargs.
Proof.
  unfold call_subscribe, call_method.
  destruct (generate S nm vs) as [g|]; [|reflexivity].
  destruct (negb (sig_ok g)); [reflexivity|].
  destruct (bind (g_params g) kwargs) as [env0|]; [|reflexivity].
  destruct (assoc "gql" env0); [reflexivity|].
  destruct (eval_dict ser ((hd "query" (variable_names S g), query_text) :: env0) (g_dict g)) as [[|e d]|];
    reflexivity.
Qed.
