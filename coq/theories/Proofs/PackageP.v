(* Lemmas about Model/Package.v. *)
From Coq Require Import List String Ascii Bool Arith Lia Sorted Permutation.
From AC Require Import Base.Strs Model.Names Model.Init Model.Package Proofs.InitP.
Import ListNotations.

(* ---- one operation ---- *)
Lemma add_operation_refused c o st r :
  add_operation c o st = Refused r <-> op_refusal c o = Some r.
Proof.
  unfold add_operation, op_refusal. destruct (o_name o) as [n|].
  - destruct (o_bad_mixin o).
    + split; intro H; inversion H; reflexivity.
    + destruct (is_sub (o_kind o) && negb (c_async c)).
      * split; intro H; inversion H; reflexivity.
      * split; intro H; discriminate.
  - split; intro H; inversion H; reflexivity.
Qed.

Lemma add_operation_ok c o st st' :
  add_operation c o st = Ok st' ->
  op_refusal c o = None /\
  exists n, o_name o = Some n /\
    ps_files st' = dict_add (py (op_module n)) (ps_files st) /\
    ps_init st' = add_import (o_public o) (op_module n) (ps_init st) /\
    ps_methods st' = ps_methods st ++ [op_module n].
Proof.
  unfold add_operation, op_refusal. destruct (o_name o) as [n|]; [|discriminate].
  destruct (o_bad_mixin o); [discriminate|].
  destruct (is_sub (o_kind o) && negb (c_async c)); [discriminate|].
  intro H. inversion H; subst; simpl. split; [reflexivity|]. exists n. repeat split.
Qed.

Lemma add_operation_total c o st :
  op_refusal c o = None -> exists st', add_operation c o st = Ok st'.
Proof.
  unfold add_operation, op_refusal. destruct (o_name o) as [n|]; [|discriminate].
  destruct (o_bad_mixin o); [discriminate|].
  destruct (is_sub (o_kind o) && negb (c_async c)); [discriminate|].
  intros _. eexists. reflexivity.
Qed.

(* ---- the operations in document order: the first refusing one decides ---- *)
Definition first_refusing (c : cfg) (ops : list op) (r : refusal) : Prop :=
  exists pre o post, ops = pre ++ o :: post /\
    Forall (fun o' => op_refusal c o' = None) pre /\ op_refusal c o = Some r.

Lemma add_operations_refused c ops : forall st r,
  add_operations c ops st = Refused r <-> first_refusing c ops r.
Proof.
  induction ops as [|o ops IH]; intros st r; simpl.
  - split; [discriminate|]. intros (pre & o & post & E & _). destruct pre; discriminate.
  - destruct (add_operation c o st) as [st'|r'] eqn:E.
    + apply add_operation_ok in E as [E0 _]. rewrite IH. split.
      * intros (pre & o' & post & E1 & F & R). exists (o :: pre), o', post.
        subst. repeat split; [constructor; assumption | assumption].
      * intros (pre & o' & post & E1 & F & R). destruct pre as [|p pre]; simpl in E1; inversion E1; subst.
        -- congruence.
        -- inversion F; subst. exists pre, o', post. repeat split; assumption.
    + apply add_operation_refused in E. split.
      * intro H. inversion H; subst. exists [], o, ops. repeat split; [constructor | assumption].
      * intros (pre & o' & post & E1 & F & R). destruct pre as [|p pre]; simpl in E1; inversion E1; subst.
        -- congruence.
        -- inversion F; subst. congruence.
Qed.

Lemma add_operations_ok_iff c ops : forall st,
  (exists st', add_operations c ops st = Ok st') <-> Forall (fun o => op_refusal c o = None) ops.
Proof.
  induction ops as [|o ops IH]; intro st; simpl.
  - split; [constructor | eexists; reflexivity].
  - destruct (add_operation c o st) as [st'|r'] eqn:E.
    + pose proof (add_operation_ok _ _ _ _ E) as [E0 _]. rewrite IH. split.
      * intro F. constructor; assumption.
      * intro F. inversion F; assumption.
    + apply add_operation_refused in E. split.
      * intros [st' H]. discriminate.
      * intro F. inversion F; subst. congruence.
Qed.

Lemma add_operations_state c ops : forall st st',
  add_operations c ops st = Ok st' ->
  ps_files st' = result_files_from ops (ps_files st) /\
  imported_names (ps_init st') = imported_names (ps_init st) ++ flat_map o_public ops.
Proof.
  induction ops as [|o ops IH]; intros st st' H; simpl in *.
  - inversion H; subst. rewrite app_nil_r. split; reflexivity.
  - destruct (add_operation c o st) as [st1|r'] eqn:E; [|discriminate].
    apply add_operation_ok in E as (_ & n & En & Ef & Ei & _).
    apply IH in H as [H1 H2]. unfold result_files_from in *. simpl. rewrite En. rewrite <- Ef. split; [exact H1|].
    rewrite H2, Ei, add_import_names, <- app_assoc. reflexivity.
Qed.

(* ---- dict keys ---- *)
Lemma dict_add_nodup k l : NoDup l -> NoDup (dict_add k l).
Proof.
  unfold dict_add. intro H. destruct (mem_chars k l) eqn:E; [exact H|].
  assert (~ In k l) as N by (intro I; apply mem_chars_In in I; congruence).
  apply NoDup_rev in H. rewrite <- (rev_involutive (l ++ [k])). apply NoDup_rev.
  rewrite rev_app_distr. simpl. constructor; [|exact H]. rewrite <- in_rev. exact N.
Qed.

Lemma dict_add_in k l x : In x (dict_add k l) <-> x = k \/ In x l.
Proof.
  unfold dict_add. destruct (mem_chars k l) eqn:E.
  - apply mem_chars_In in E. split; [tauto|]. intros [->|H]; assumption.
  - rewrite in_app_iff. simpl. split; [intros [H|[H|[]]]; auto | intros [->|H]; auto].
Qed.

Lemma result_files_from_nodup ops : forall acc, NoDup acc -> NoDup (result_files_from ops acc).
Proof.
  unfold result_files_from. induction ops as [|o ops IH]; intros acc H; simpl; [exact H|].
  apply IH. destruct (o_name o); [apply dict_add_nodup, H | exact H].
Qed.

Lemma result_files_nodup ops : NoDup (result_files ops).
Proof. apply result_files_from_nodup. constructor. Qed.

Lemma result_files_from_in ops : forall acc x,
  In x (result_files_from ops acc) <->
  In x acc \/ exists o n, In o ops /\ o_name o = Some n /\ x = py (op_module n).
Proof.
  unfold result_files_from. induction ops as [|o ops IH]; intros acc x; simpl.
  - split; [auto|]. intros [H|(o & n & [] & _)]. exact H.
  - rewrite IH. destruct (o_name o) as [n|] eqn:E.
    + rewrite dict_add_in. split.
      * intros [[->|H]|(o' & n' & I & E' & X)]; auto.
        -- right. exists o, n. auto.
        -- right. exists o', n'. auto.
      * intros [H|(o' & n' & [<-|I] & E' & X)]; auto.
        -- left. left. congruence.
        -- right. exists o', n'. auto.
    + split.
      * intros [H|(o' & n' & I & E' & X)]; auto. right. exists o', n'. auto.
      * intros [H|(o' & n' & [<-|I] & E' & X)]; auto; [congruence|]. right. exists o', n'. auto.
Qed.

(* ---- generate ---- *)
Lemma generate_refused c s ops r :
  generate c s ops = Refused r <->
  (s_frag_bad_mixin s = true /\ r = BadMixinArgs) \/
  (s_frag_bad_mixin s = false /\ first_refusing c ops r) \/
  (s_frag_bad_mixin s = false /\ Forall (fun o => op_refusal c o = None) ops /\
   r = DuplicateFiles /\ ~ NoDup (checked_names c (result_files ops))).
Proof.
  unfold generate. destruct (s_frag_bad_mixin s) eqn:B.
  - split.
    + intro H. inversion H. left. auto.
    + intros [[_ ->]|[[H _]|[H _]]]; [reflexivity | discriminate | discriminate].
  - destruct (add_operations c ops pstate0) as [st|r'] eqn:E.
    + pose proof (add_operations_state _ _ _ _ E) as [Ef _]. simpl in Ef. fold (result_files ops) in Ef.
      assert (Forall (fun o => op_refusal c o = None) ops) as F
        by (apply (add_operations_ok_iff c ops pstate0); eexists; exact E).
      rewrite Ef. destruct (has_dup (checked_names c (result_files ops))) eqn:D.
      * split.
        -- intro H. inversion H. right. right. repeat split; auto. apply has_dup_true_iff, D.
        -- intros [[H _]|[[_ H]|[_ (_ & -> & _)]]]; [discriminate | | reflexivity].
           apply (add_operations_refused c ops pstate0) in H. congruence.
      * split; [discriminate|].
        intros [[H _]|[[_ H]|[_ (_ & _ & N)]]]; [discriminate | |].
        -- apply (add_operations_refused c ops pstate0) in H. congruence.
        -- apply has_dup_false_iff in D. contradiction.
    + split.
      * intro H. inversion H; subst. right. left. split; [reflexivity|].
        apply (add_operations_refused c ops pstate0), E.
      * intros [[H _]|[[_ H]|[_ (F & _)]]]; [discriminate | |].
        -- apply (add_operations_refused c ops pstate0) in H. congruence.
        -- apply (add_operations_ok_iff c ops pstate0) in F as [st' F]. congruence.
Qed.

Lemma generate_ok_iff c s ops :
  (exists p, generate c s ops = Ok p) <->
  s_frag_bad_mixin s = false /\ Forall (fun o => op_refusal c o = None) ops /\
  NoDup (checked_names c (result_files ops)).
Proof.
  unfold generate. destruct (s_frag_bad_mixin s) eqn:B.
  - split; [intros [p H]; discriminate | intros [H _]; discriminate].
  - destruct (add_operations c ops pstate0) as [st|r'] eqn:E.
    + pose proof (add_operations_state _ _ _ _ E) as [Ef _]. simpl in Ef. fold (result_files ops) in Ef.
      assert (Forall (fun o => op_refusal c o = None) ops) as F
        by (apply (add_operations_ok_iff c ops pstate0); eexists; exact E).
      rewrite Ef. destruct (has_dup (checked_names c (result_files ops))) eqn:D.
      * split; [intros [p H]; discriminate|]. intros (_ & _ & N). apply has_dup_false_iff in N. congruence.
      * split; [|intros _; eexists; reflexivity]. intros _. repeat split; auto. apply has_dup_false_iff, D.
    + split; [intros [p H]; discriminate|]. intros (_ & F & _).
      apply (add_operations_ok_iff c ops pstate0) in F as [st' F]. congruence.
Qed.

(* names __init__ imports, as a function of the inputs *)
Definition expected_exports (c : cfg) (s : summary) (ops : list op) : list chars :=
  flat_map o_public ops
  ++ (if bc_default (base_of c) then exception_names else [])
  ++ s_inputs_public s
  ++ (if frags_written s then s_frag_public s else [])
  ++ [bc_class (base_of c)] ++ base_model_names ++ [c_client_name c] ++ s_enums_public s.

Lemma final_imports_names c s i0 :
  imported_names (final_imports c s i0) =
  imported_names i0
  ++ (if bc_default (base_of c) then exception_names else [])
  ++ s_inputs_public s
  ++ (if frags_written s then s_frag_public s else [])
  ++ [bc_class (base_of c)] ++ base_model_names ++ [c_client_name c] ++ s_enums_public s.
Proof.
  unfold final_imports. rewrite !add_import_names.
  destruct (bc_default (base_of c)); destruct (frags_written s);
    rewrite ?add_import_names, ?app_nil_r; repeat rewrite <- app_assoc; reflexivity.
Qed.

Lemma generate_ok_shape c s ops p :
  generate c s ops = Ok p ->
  written p = written_files c s (result_files ops) /\
  reported p = sort_chars (written p) /\
  p_all p = sort_chars (imported_names (init_imports p)) /\
  imported_names (init_imports p) = expected_exports c s ops /\
  NoDup (checked_names c (result_files ops)).
Proof.
  unfold generate. destruct (s_frag_bad_mixin s); [discriminate|].
  destruct (add_operations c ops pstate0) as [st|r'] eqn:E; [|discriminate].
  pose proof (add_operations_state _ _ _ _ E) as [Ef Ei]. simpl in Ef, Ei. fold (result_files ops) in Ef.
  rewrite Ef. destruct (has_dup (checked_names c (result_files ops))) eqn:D; [discriminate|].
  intro H. inversion H; subst; simpl. repeat split.
  - rewrite final_imports_names, Ei. reflexivity.
  - apply has_dup_false_iff, D.
Qed.

(* ---- uniqueness of the written file names ---- *)
Lemma NoDup_app_intro {X} (a b : list X) :
  NoDup a -> NoDup b -> (forall x, In x a -> ~ In x b) -> NoDup (a ++ b).
Proof.
  induction a as [|x a IH]; simpl; intros Ha Hb H; [exact Hb|].
  inversion Ha; subst. constructor.
  - rewrite in_app_iff. intros [I|I]; [contradiction | apply (H x); auto].
  - apply IH; auto.
Qed.

Lemma g_c04_files_spec c s ops st :
  add_operations c ops pstate0 = Ok st -> g_c04_files c s ops = true ->
  NoDup (unchecked_files c s) /\
  forall f, In f (unchecked_files c s) -> ~ In f (checked_names c (ps_files st)).
Proof.
  unfold g_c04_files. intros E. rewrite E. rewrite andb_true_iff, negb_true_iff. intros [H1 H2]. split.
  - apply has_dup_false_iff, H2.
  - intros f I N. rewrite forallb_forall in H1. specialize (H1 f I). rewrite negb_true_iff in H1.
    apply mem_chars_In in N. congruence.
Qed.

Lemma written_nodup c s rf :
  NoDup (checked_names c rf) -> NoDup (unchecked_files c s) ->
  (forall f, In f (unchecked_files c s) -> ~ In f (checked_names c rf)) ->
  NoDup (written_files c s rf).
Proof.
  unfold checked_names, written_files, unchecked_files.
  set (cl := py (c_client_file c)). set (bc := bc_file (base_of c)). set (bm := py base_model_stem).
  set (en := py (c_enums_mod c)). set (inp := py (c_inputs_mod c)). set (fr := py (c_frags_mod c)).
  set (inc := includes c). set (cu := custom_files c s).
  intros N U D.
  destruct (frags_written s).
  - apply NoDup_incl_NoDup with (l := ([cl; bc; bm; en; inp; fr] ++ rf ++ inc) ++ cu ++ [init_file]).
    + apply NoDup_app_intro; auto. intros x I J. apply (D x J I).
    + repeat (rewrite app_length; simpl). lia.
    + intros x. repeat (rewrite in_app_iff; simpl). tauto.
  - assert (NoDup ([cl; bc; bm; en; inp] ++ rf ++ inc)) as N'.
    { change ([cl; bc; bm; en; inp; fr] ++ rf ++ inc) with ([cl; bc; bm; en; inp] ++ fr :: rf ++ inc) in N.
      apply NoDup_remove_1 in N. exact N. }
    apply NoDup_incl_NoDup with (l := ([cl; bc; bm; en; inp] ++ rf ++ inc) ++ cu ++ [init_file]).
    + apply NoDup_app_intro; auto. intros x I J. apply (D x J).
      revert I. repeat (rewrite in_app_iff; simpl). tauto.
    + repeat (rewrite app_length; simpl). lia.
    + intros x. repeat (rewrite in_app_iff; simpl). tauto.
Qed.

Theorem written_unique c s ops p :
  generate c s ops = Ok p -> g_c04_files c s ops = true -> NoDup (written p).
Proof.
  intros H G. pose proof (generate_ok_shape _ _ _ _ H) as (W & _ & _ & _ & N).
  unfold generate in H. destruct (s_frag_bad_mixin s); [discriminate|].
  destruct (add_operations c ops pstate0) as [st|r'] eqn:E; [|discriminate].
  pose proof (add_operations_state _ _ _ _ E) as [Ef _]. simpl in Ef. fold (result_files ops) in Ef.
  destruct (g_c04_files_spec _ s _ _ E G) as [U D]. rewrite Ef in D.
  rewrite W. apply written_nodup; assumption.
Qed.

(* every operation's module, the client, enums, inputs and __init__ are among the written files *)
Lemma written_has c s rf x :
  In x rf \/ In x [py (c_inputs_mod c); py (c_client_file c); py (c_enums_mod c); init_file;
                   bc_file (base_of c); py base_model_stem] \/ In x (includes c) \/ In x (custom_files c s) ->
  In x (written_files c s rf).
Proof.
  unfold written_files. repeat (rewrite in_app_iff; simpl). tauto.
Qed.
