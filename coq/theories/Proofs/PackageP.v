(* Lemmas about Model/Package.v. *)
From Coq Require Import List String Ascii Bool Arith Lia Sorted Permutation.
From AC Require Import Base.Strs Model.Names Model.Init Model.Package Proofs.InitP.
Import ListNotations.

(* ---- one operation ---- *)
Lemma op_file_named o n : o_name o = Some n -> op_file o = py (op_module n).
Proof. unfold op_file. intros ->. reflexivity. Qed.

Lemma add_operation_refused c o st r :
  add_operation c o st = Refused r <-> op_refusal c (ps_files st) o = Some r.
Proof.
  unfold add_operation, op_refusal, op_static_refusal, op_file. destruct (o_name o) as [n|].
  - destruct (mem_chars (py (op_module n)) (ps_files st)).
    + split; intro H; inversion H; reflexivity.
    + destruct (o_bad_mixin o).
      * split; intro H; inversion H; reflexivity.
      * destruct (is_sub (o_kind o) && negb (c_async c)).
        -- split; intro H; inversion H; reflexivity.
        -- split; intro H; discriminate.
  - split; intro H; inversion H; reflexivity.
Qed.

Lemma add_operation_ok c o st st' :
  add_operation c o st = Ok st' ->
  op_refusal c (ps_files st) o = None /\
  exists n, o_name o = Some n /\
    ps_files st' = ps_files st ++ [op_file o] /\
    ps_init st' = add_import (o_public o) (op_module n) (ps_init st) /\
    ps_methods st' = ps_methods st ++ [op_module n].
Proof.
  unfold add_operation, op_refusal, op_static_refusal, op_file. destruct (o_name o) as [n|]; [|discriminate].
  destruct (mem_chars (py (op_module n)) (ps_files st)); [discriminate|].
  destruct (o_bad_mixin o); [discriminate|].
  destruct (is_sub (o_kind o) && negb (c_async c)); [discriminate|].
  intro H. inversion H; subst; simpl. split; [reflexivity|]. exists n. repeat split.
Qed.

Lemma add_operation_total c o st :
  op_refusal c (ps_files st) o = None -> exists st', add_operation c o st = Ok st'.
Proof.
  unfold add_operation, op_refusal, op_static_refusal, op_file. destruct (o_name o) as [n|]; [|discriminate].
  destruct (mem_chars (py (op_module n)) (ps_files st)); [discriminate|].
  destruct (o_bad_mixin o); [discriminate|].
  destruct (is_sub (o_kind o) && negb (c_async c)); [discriminate|].
  intros _. eexists. reflexivity.
Qed.

Lemma op_refusal_none c seen o :
  op_refusal c seen o = None <-> op_static_refusal c o = None /\ ~ In (op_file o) seen.
Proof.
  unfold op_refusal, op_static_refusal. destruct (o_name o) as [n|].
  - destruct (mem_chars (op_file o) seen) eqn:E.
    + apply mem_chars_In in E. split; [discriminate | intros [_ N]; contradiction].
    + assert (~ In (op_file o) seen) by (intro I; apply mem_chars_In in I; congruence). tauto.
  - split; [discriminate | intros [H _]; discriminate].
Qed.

(* ---- the operations in document order ---- *)
(* every operation of the list passes its tests, given the module files already taken *)
Fixpoint accepted (c : cfg) (seen : list chars) (ops : list op) : Prop :=
  match ops with
  | [] => True
  | o :: r => op_refusal c seen o = None /\ accepted c (seen ++ [op_file o]) r
  end.

Definition first_refusing (c : cfg) (seen : list chars) (ops : list op) (r : refusal) : Prop :=
  exists pre o post, ops = pre ++ o :: post /\ accepted c seen pre /\
    op_refusal c (seen ++ result_files pre) o = Some r.

(* declarative reading of [accepted]: no operation refuses on its own, the module files are pairwise
   distinct and new *)
Lemma accepted_iff c ops : forall seen,
  accepted c seen ops <->
  Forall (fun o => op_static_refusal c o = None) ops /\ NoDup (result_files ops) /\
  (forall f, In f (result_files ops) -> ~ In f seen).
Proof.
  induction ops as [|o ops IH]; intro seen; simpl.
  - split; [intros _; repeat split; [constructor | constructor | intros f []] | auto].
  - rewrite IH, op_refusal_none. split.
    + intros [[S N] (F & D & X)]. repeat split.
      * constructor; assumption.
      * constructor; [|exact D]. intro I. apply (X _ I). rewrite in_app_iff. right. left. reflexivity.
      * intros f [<-|I]; [exact N|]. intro J. apply (X _ I). rewrite in_app_iff. left. exact J.
    + intros (F & D & X). inversion F as [|? ? S F']; subst. inversion D as [|? ? Nf D']; subst.
      split; [split; [exact S | apply X; left; reflexivity]|].
      split; [exact F'|]. split; [exact D'|].
      intros f I. rewrite in_app_iff. intros [J|[E|[]]].
      * apply (X f); [right; exact I | exact J].
      * subst. contradiction.
Qed.

Lemma add_operations_refused c ops : forall st r,
  add_operations c ops st = Refused r <-> first_refusing c (ps_files st) ops r.
Proof.
  induction ops as [|o ops IH]; intros st r; simpl.
  - split; [discriminate|]. intros (pre & o & post & E & _). destruct pre; discriminate.
  - destruct (add_operation c o st) as [st'|r'] eqn:E.
    + apply add_operation_ok in E as (E0 & n & _ & Ef & _). rewrite IH, Ef. split.
      * intros (pre & o' & post & E1 & F & R). exists (o :: pre), o', post.
        subst. simpl. rewrite <- app_assoc in R. simpl in R. repeat split; assumption.
      * intros (pre & o' & post & E1 & F & R). destruct pre as [|p pre]; simpl in E1; inversion E1; subst.
        -- simpl in R. rewrite app_nil_r in R. congruence.
        -- destruct F as [_ F]. exists pre, o', post. simpl in R. rewrite <- app_assoc. simpl.
           repeat split; assumption.
    + apply add_operation_refused in E. split.
      * intro H. inversion H; subst. exists [], o, ops. simpl. rewrite app_nil_r. repeat split; assumption.
      * intros (pre & o' & post & E1 & F & R). destruct pre as [|p pre]; simpl in E1; inversion E1; subst.
        -- simpl in R. rewrite app_nil_r in R. congruence.
        -- destruct F as [F _]. congruence.
Qed.

Lemma add_operations_ok_iff c ops : forall st,
  (exists st', add_operations c ops st = Ok st') <-> accepted c (ps_files st) ops.
Proof.
  induction ops as [|o ops IH]; intro st; simpl.
  - split; [auto | eexists; reflexivity].
  - destruct (add_operation c o st) as [st'|r'] eqn:E.
    + pose proof (add_operation_ok _ _ _ _ E) as (E0 & n & _ & Ef & _). rewrite IH, Ef. tauto.
    + apply add_operation_refused in E. split.
      * intros [st' H]. discriminate.
      * intros [F _]. congruence.
Qed.

Lemma add_operations_state c ops : forall st st',
  add_operations c ops st = Ok st' ->
  ps_files st' = ps_files st ++ result_files ops /\
  imported_names (ps_init st') = imported_names (ps_init st) ++ flat_map o_public ops.
Proof.
  induction ops as [|o ops IH]; intros st st' H; simpl in *.
  - inversion H; subst. rewrite !app_nil_r. split; reflexivity.
  - destruct (add_operation c o st) as [st1|r'] eqn:E; [|discriminate].
    apply add_operation_ok in E as (_ & n & En & Ef & Ei & _).
    apply IH in H as [H1 H2]. split.
    + rewrite H1, Ef, <- app_assoc. reflexivity.
    + rewrite H2, Ei, add_import_names, <- app_assoc. reflexivity.
Qed.

(* ---- generate ---- *)
Lemma generate_refused c s ops r :
  generate c s ops = Refused r <->
  (s_frag_bad_mixin s = true /\ r = BadMixinArgs) \/
  (s_frag_bad_mixin s = false /\ first_refusing c [] ops r) \/
  (s_frag_bad_mixin s = false /\ accepted c [] ops /\
   r = DuplicateFiles /\ ~ NoDup (checked_names c s (result_files ops))).
Proof.
  unfold generate. destruct (s_frag_bad_mixin s) eqn:B.
  - split.
    + intro H. inversion H. left. auto.
    + intros [[_ ->]|[[H _]|[H _]]]; [reflexivity | discriminate | discriminate].
  - destruct (add_operations c ops pstate0) as [st|r'] eqn:E.
    + pose proof (add_operations_state _ _ _ _ E) as [Ef _]. simpl in Ef.
      assert (accepted c [] ops) as F
        by (apply (add_operations_ok_iff c ops pstate0); eexists; exact E).
      rewrite Ef. destruct (has_dup (checked_names c s (result_files ops))) eqn:D.
      * split.
        -- intro H. inversion H. right. right. repeat split; auto. apply has_dup_true_iff, D.
        -- intros [[H _]|[[_ H]|[_ (_ & -> & _)]]]; [discriminate | | reflexivity].
           apply (add_operations_refused c ops pstate0) in H. congruence.
      * split; [discriminate|].
        intros [[H _]|[[_ H]|[_ (_ & _ & N)]]]; [discriminate | |].
        -- apply (add_operations_refused c ops pstate0) in H. congruence.
        -- apply has_dup_false_iff in D. contradiction.
    + split.
      * intro H. inversion H; subst. right. left. split; [reflexivity|].
        apply (add_operations_refused c ops pstate0), E.
      * intros [[H _]|[[_ H]|[_ (F & _)]]]; [discriminate | |].
        -- apply (add_operations_refused c ops pstate0) in H. congruence.
        -- apply (add_operations_ok_iff c ops pstate0) in F as [st' F]. congruence.
Qed.

Lemma NoDup_app_l {X} (a b : list X) : NoDup (a ++ b) -> NoDup a.
Proof.
  induction a as [|x a IH]; simpl; intro H; [constructor|].
  inversion H; subst. constructor; [|apply IH; assumption].
  intro I. apply H2. rewrite in_app_iff. auto.
Qed.

Lemma NoDup_app_r {X} (a b : list X) : NoDup (a ++ b) -> NoDup b.
Proof. induction a as [|x a IH]; simpl; intro H; [exact H|]. inversion H; subst. auto. Qed.

Lemma checked_nodup_files c s rf : NoDup (checked_names c s rf) -> NoDup rf.
Proof.
  unfold checked_names. intro H. apply NoDup_app_r in H. apply NoDup_app_l in H. exact H.
Qed.

(* generation succeeds exactly when no condition holds; the in-operation collision test is subsumed
   by pairwise distinctness of ALL the checked names *)
Lemma generate_ok_iff c s ops :
  (exists p, generate c s ops = Ok p) <->
  s_frag_bad_mixin s = false /\ Forall (fun o => op_static_refusal c o = None) ops /\
  NoDup (checked_names c s (result_files ops)).
Proof.
  assert (forall X : Prop, (accepted c [] ops /\ X) <->
            (Forall (fun o => op_static_refusal c o = None) ops /\ NoDup (result_files ops) /\ X)) as A.
  { intro X. rewrite accepted_iff. split; [tauto|]. intros (F & D & x). repeat split; auto. }
  unfold generate. destruct (s_frag_bad_mixin s) eqn:B.
  - split; [intros [p H]; discriminate | intros [H _]; discriminate].
  - destruct (add_operations c ops pstate0) as [st|r'] eqn:E.
    + pose proof (add_operations_state _ _ _ _ E) as [Ef _]. simpl in Ef.
      assert (accepted c [] ops) as F
        by (apply (add_operations_ok_iff c ops pstate0); eexists; exact E).
      rewrite Ef. destruct (has_dup (checked_names c s (result_files ops))) eqn:D.
      * split; [intros [p H]; discriminate|]. intros (_ & _ & N). apply has_dup_false_iff in N. congruence.
      * split; [|intros _; eexists; reflexivity]. intros _.
        apply has_dup_false_iff in D. apply accepted_iff in F as (F & _ & _). auto.
    + split; [intros [p H]; discriminate|]. intros (_ & F & N).
      assert (accepted c [] ops) as Acc.
      { apply accepted_iff. repeat split; auto. eapply checked_nodup_files, N. }
      apply (add_operations_ok_iff c ops pstate0) in Acc as [st' Acc]. congruence.
Qed.

(* names __init__ imports, as a function of the inputs *)
Definition expected_exports (c : cfg) (s : summary) (ops : list op) : list chars :=
  flat_map o_public ops
  ++ (if bc_default (base_of c) then exception_names else [])
  ++ s_inputs_public s
  ++ (if frags_written s then s_frag_public s else [])
  ++ [bc_class (base_of c)] ++ base_model_names ++ [c_client_name c] ++ s_enums_public s.

Lemma final_imports_names c s i0 :
  imported_names (final_imports c s i0) =
  imported_names i0
  ++ (if bc_default (base_of c) then exception_names else [])
  ++ s_inputs_public s
  ++ (if frags_written s then s_frag_public s else [])
  ++ [bc_class (base_of c)] ++ base_model_names ++ [c_client_name c] ++ s_enums_public s.
Proof.
  unfold final_imports. rewrite !add_import_names.
  destruct (bc_default (base_of c)); destruct (frags_written s);
    rewrite ?add_import_names, ?app_nil_r; repeat rewrite <- app_assoc; reflexivity.
Qed.

Lemma generate_ok_shape c s ops p :
  generate c s ops = Ok p ->
  written p = written_files c s (result_files ops) /\
  reported p = sort_chars (written p) /\
  p_all p = sort_chars (imported_names (init_imports p)) /\
  imported_names (init_imports p) = expected_exports c s ops /\
  NoDup (checked_names c s (result_files ops)) /\
  accepted c [] ops.
Proof.
  unfold generate. destruct (s_frag_bad_mixin s); [discriminate|].
  destruct (add_operations c ops pstate0) as [st|r'] eqn:E; [|discriminate].
  pose proof (add_operations_state _ _ _ _ E) as [Ef Ei]. simpl in Ef, Ei.
  assert (accepted c [] ops) as F by (apply (add_operations_ok_iff c ops pstate0); eexists; exact E).
  rewrite Ef. destruct (has_dup (checked_names c s (result_files ops))) eqn:D; [discriminate|].
  intro H. inversion H; subst; simpl. repeat split.
  - rewrite final_imports_names, Ei. reflexivity.
  - apply has_dup_false_iff, D.
  - exact F.
Qed.

(* ---- uniqueness of the written file names ---- *)
Lemma written_nodup c s rf : NoDup (checked_names c s rf) -> NoDup (written_files c s rf).
Proof.
  unfold checked_names, written_files.
  set (cl := py (c_client_file c)). set (bc := bc_file (base_of c)). set (bm := py base_model_stem).
  set (en := py (c_enums_mod c)). set (inp := py (c_inputs_mod c)). set (fr := py (c_frags_mod c)).
  set (inc := includes c). set (cu := custom_files c s).
  intros N.
  destruct (frags_written s).
  - apply NoDup_incl_NoDup with (l := [cl; bc; bm; en; inp; fr] ++ rf ++ inc ++ [init_file] ++ cu).
    + exact N.
    + repeat (rewrite app_length; simpl). lia.
    + intros x. repeat (rewrite in_app_iff; simpl). tauto.
  - assert (NoDup ([cl; bc; bm; en; inp] ++ rf ++ inc ++ [init_file] ++ cu)) as N'.
    { change ([cl; bc; bm; en; inp; fr] ++ rf ++ inc ++ [init_file] ++ cu)
        with ([cl; bc; bm; en; inp] ++ fr :: rf ++ inc ++ [init_file] ++ cu) in N.
      apply NoDup_remove_1 in N. exact N. }
    apply NoDup_incl_NoDup with (l := [cl; bc; bm; en; inp] ++ rf ++ inc ++ [init_file] ++ cu).
    + exact N'.
    + repeat (rewrite app_length; simpl). lia.
    + intros x. repeat (rewrite in_app_iff; simpl). tauto.
Qed.

Theorem written_unique c s ops p : generate c s ops = Ok p -> NoDup (written p).
Proof.
  intros H. pose proof (generate_ok_shape _ _ _ _ H) as (W & _ & _ & _ & N & _).
  rewrite W. apply written_nodup, N.
Qed.

(* two operations at different positions never share a module *)
Lemma NoDup_map_nth {X Y} (f : X -> Y) (l : list X) i j a b :
  NoDup (map f l) -> nth_error l i = Some a -> nth_error l j = Some b -> i <> j -> f a <> f b.
Proof.
  intros N Ha Hb Hij E. apply Hij.
  assert (i < List.length (map f l)) as Li.
  { rewrite map_length. apply nth_error_Some. congruence. }
  apply (proj1 (NoDup_nth_error (map f l)) N i j Li).
  rewrite !nth_error_map, Ha, Hb. simpl. congruence.
Qed.

Lemma accepted_named c ops : forall seen, accepted c seen ops ->
  forall o, In o ops -> exists n, o_name o = Some n.
Proof.
  intros seen A. apply accepted_iff in A as (F & _ & _). rewrite Forall_forall in F.
  intros o I. specialize (F o I). unfold op_static_refusal in F.
  destruct (o_name o) as [n|]; [eexists; reflexivity | discriminate].
Qed.

Theorem modules_distinct c s ops p : generate c s ops = Ok p ->
  forall i j a b, nth_error ops i = Some a -> nth_error ops j = Some b -> i <> j ->
  option_map op_module (o_name a) <> option_map op_module (o_name b).
Proof.
  intros H i j a b Ha Hb Hij. pose proof (generate_ok_shape _ _ _ _ H) as (_ & _ & _ & _ & _ & A).
  pose proof (accepted_named _ _ _ A) as Nm.
  destruct (Nm a (nth_error_In _ _ Ha)) as [na Ea]. destruct (Nm b (nth_error_In _ _ Hb)) as [nb Eb].
  apply accepted_iff in A as (_ & D & _). unfold result_files in D.
  pose proof (NoDup_map_nth op_file ops i j a b D Ha Hb Hij) as Ne.
  rewrite (op_file_named _ _ Ea), (op_file_named _ _ Eb) in Ne. rewrite Ea, Eb. simpl.
  intro E. inversion E as [E']. apply Ne. rewrite E'. reflexivity.
Qed.

(* every operation's module, the client, enums, inputs and __init__ are among the written files *)
Lemma written_has c s rf x :
  In x rf \/ In x [py (c_inputs_mod c); py (c_client_file c); py (c_enums_mod c); init_file;
                   bc_file (base_of c); py base_model_stem] \/ In x (includes c) \/ In x (custom_files c s) ->
  In x (written_files c s rf).
Proof.
  unfold written_files. repeat (rewrite in_app_iff; simpl). tauto.
Qed.
