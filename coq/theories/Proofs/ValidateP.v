(* Link between the full pydantic-like validate (builds the instance, calls defaults of omitted fields) and its
   shape part accepts: validate succeeds only on accepted values, and on every accepted value as soon as the
   defaults it has to call evaluate. *)
From Coq Require Import List String Ascii ZArith Bool Lia.
From AC Require Import Base.Sexp Base.Json Base.Strs Gql.InSchema Model.Names Model.Defaults Model.Inputs
  Py.PyEval Proofs.AcceptsP.
Import ListNotations.
Local Open Scope string_scope.

Lemma validate_opt n E a j : validate n E (AOpt a) j = match j with JNull => Ok VNone | _ => validate n E a j end.
Proof. destruct n; reflexivity. Qed.

Lemma validate_list n E a j :
  validate n E (AList a) j =
  match j with
  | JArr l => match n with 0 => Err EFuel | S n' => res_map VList (collect (map (validate n' E a) l)) end
  | _ => Err EValidation
  end.
Proof. destruct n; reflexivity. Qed.

Definition field_result (n' : nat) (E : env) (kv : list (string * json)) (f : pfield) :=
  match field_input f kv with
  | Some v => keep f (validate n' E (p_ann f) v)
  | None =>
      match rhs_default (p_value f) with
      | DRequired => Err EValidation
      | DValue e => keep f (eval n' E e)
      | DFactory e => keep f (eval n' E e)
      end
  end.

Lemma validate_class n E c j :
  validate n E (AClass c) j =
  match j with
  | JObj kv =>
      match n with
      | 0 => Err EFuel
      | S n' =>
          match find_class c (e_classes E) with
          | None => Err EName
          | Some cl => res_map (VModel c) (collect (map (field_result n' E kv) (effective (c_fields cl))))
          end
      end
  | _ => Err EValidation
  end.
Proof. destruct n; reflexivity. Qed.

Lemma validate_leaf n E a j :
  match a with AOpt _ | AList _ | AClass _ => False | _ => True end ->
  validate n E a j = leaf_validate E a j.
Proof. destruct n, a; simpl; intros H; try reflexivity; contradiction. Qed.

Lemma res_map_ok {X Y} (f : X -> Y) r y : res_map f r = Ok y -> exists x, r = Ok x.
Proof. destruct r; simpl; [eauto | discriminate]. Qed.

Lemma collect_ok {X} (l : list (res X)) xs : collect l = Ok xs -> forall r, In r l -> exists x, r = Ok x.
Proof.
  revert xs. induction l as [|h t IH]; simpl; intros xs H r Hr; [contradiction|].
  destruct h as [x|e].
  - apply res_map_ok in H as [ys Hy]. destruct Hr as [<-|Hr]; [eauto | eapply IH; eauto].
  - destruct (is_validation e); [destruct (collect t); [discriminate | destruct (is_validation e0); discriminate] | discriminate].
Qed.

Lemma collect_all_ok {X} (l : list (res X)) : (forall r, In r l -> exists x, r = Ok x) -> exists xs, collect l = Ok xs.
Proof.
  induction l as [|h t IH]; intros H; [exists []; reflexivity|].
  destruct (H h (or_introl eq_refl)) as [x ->].
  destruct IH as [xs Hx]; [intros r Hr; apply H; right; exact Hr|]. simpl. rewrite Hx. eexists. reflexivity.
Qed.

(* validate succeeds only on values of accepted shape *)
Theorem validate_accepts E : forall n a j v, validate n E a j = Ok v -> accepts n E a j = true.
Proof.
  induction n as [n IHn] using lt_wf_ind.
  induction a as [| | | | | |e|c|ty ser|a IH|a IH|]; intros j v H;
    try (rewrite accepts_leaf by exact I; rewrite validate_leaf in H by exact I;
         unfold leaf_accepts; rewrite H; reflexivity).
  - (* class *)
    rewrite validate_class in H. rewrite accepts_class.
    destruct j; try discriminate. destruct n as [|n']; [discriminate|].
    destruct (find_class c (e_classes E)) as [cl|]; [|discriminate].
    apply res_map_ok in H as [xs H]. apply forallb_forall. intros f Hf.
    destruct (collect_ok _ _ H (field_result n' E kv f) (in_map _ _ _ Hf)) as [x Hx].
    unfold field_result in Hx. destruct (field_input f kv) as [w|].
    + unfold keep in Hx. apply res_map_ok in Hx as [y Hy].
      apply (IHn n' (Nat.lt_succ_diag_r n') _ _ _ Hy).
    + unfold has_default. destruct (rhs_default (p_value f)); [discriminate | reflexivity | reflexivity].
  - (* optional *)
    rewrite validate_opt in H. rewrite accepts_opt. destruct j; try reflexivity; eapply IH; exact H.
  - (* list *)
    rewrite validate_list in H. rewrite accepts_list. destruct j; try discriminate.
    destruct n as [|n']; [discriminate|]. apply res_map_ok in H as [xs H].
    apply forallb_forall. intros x Hx.
    destruct (collect_ok _ _ H (validate n' E a x) (in_map _ _ _ Hx)) as [y Hy].
    apply (IHn n' (Nat.lt_succ_diag_r n') _ _ _ Hy).
Qed.

(* conversely: an accepted value validates provided every default the validation has to call evaluates
   (defaults_ok: at every fuel below n, every default expression of every class evaluates) *)
Definition defaults_ok (n : nat) (E : env) : Prop :=
  forall m cl f e, m < n -> In cl (e_classes E) -> In f (effective (c_fields cl)) ->
    (rhs_default (p_value f) = DValue e \/ rhs_default (p_value f) = DFactory e) ->
    exists v, eval m E e = Ok v.

Lemma find_class_in c cl x : find_class c cl = Some x -> In x cl.
Proof.
  induction cl as [|h t IH]; simpl; [discriminate|].
  destruct (c =? c_name h); [intros H; inversion H; auto | auto].
Qed.

Theorem accepts_validate E : forall n, defaults_ok n E ->
  forall a j, accepts n E a j = true -> exists v, validate n E a j = Ok v.
Proof.
  induction n as [n IHn] using lt_wf_ind. intros DOK.
  induction a as [| | | | | |e|c|ty ser|a IH|a IH|]; intros j H;
    try (rewrite accepts_leaf in H by exact I; rewrite validate_leaf by exact I;
         unfold leaf_accepts in H; destruct (leaf_validate E _ j); [eauto | discriminate]).
  - rewrite accepts_class in H. rewrite validate_class.
    destruct j; try discriminate. destruct n as [|n']; [discriminate|].
    destruct (find_class c (e_classes E)) as [cl|] eqn:FC; [|discriminate].
    rewrite forallb_forall in H.
    destruct (collect_all_ok (map (field_result n' E kv) (effective (c_fields cl)))) as [xs Hxs].
    + intros r Hr. apply in_map_iff in Hr as [f [<- Hf]]. specialize (H f Hf).
      unfold field_result. destruct (field_input f kv) as [w|].
      * assert (D' : defaults_ok n' E) by (intros m cl0 f0 e0 Hm; apply DOK; lia).
        destruct (IHn n' (Nat.lt_succ_diag_r n') D' _ _ H) as [y Hy]. unfold keep. rewrite Hy. simpl. eauto.
      * unfold has_default in H. destruct (rhs_default (p_value f)) as [|e0|e0] eqn:RD; [discriminate| |];
          (destruct (DOK n' cl f e0 (Nat.lt_succ_diag_r n') (find_class_in _ _ _ FC) Hf) as [y Hy];
           [auto | unfold keep; rewrite Hy; simpl; eauto]).
    + rewrite Hxs. simpl. eauto.
  - rewrite accepts_opt in H. rewrite validate_opt. destruct j; eauto.
  - rewrite accepts_list in H. rewrite validate_list. destruct j; try discriminate.
    destruct n as [|n']; [discriminate|]. rewrite forallb_forall in H.
    assert (D' : defaults_ok n' E) by (intros m cl0 f0 e0 Hm; apply DOK; lia).
    destruct (collect_all_ok (map (validate n' E a) l)) as [xs Hxs].
    + intros r Hr. apply in_map_iff in Hr as [x [<- Hx]].
      apply (IHn n' (Nat.lt_succ_diag_r n') D' _ _ (H x Hx)).
    + rewrite Hxs. simpl. eauto.
Qed.
