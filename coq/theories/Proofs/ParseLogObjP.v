(* Hereditary uniqueness (Py/ParseLog.v [uniq]) of a conformant, duplicate-free response against the classes
   Model/Results.v generates for an operation of the sub-language [op_ok g true]: a third instantiation of the
   Level section of Proofs/ResultsObjP.v (after acceptance and key coverage).  With it the operation-level
   parse-once theorem needs no evaluated guard. *)
From Coq Require Import List String Ascii Bool ZArith Permutation Lia.
From AC Require Import Base.Sexp Base.Json Gql.Schema Gql.Exec Py.Ann Py.Pydantic Py.ParseLog Model.Results.
From AC Require Import Proofs.ResultsRunP Proofs.ResultsAbsP Proofs.ResultsObjP.
From AC Require Proofs.ParseLogP.
Import ListNotations.
Local Open Scope string_scope.
Local Open Scope list_scope.

Lemma NoDup_nodup_s l : NoDup l -> nodup_s l = true.
Proof.
  induction 1 as [|x r Hx _ IH]; simpl; [reflexivity|].
  rewrite IH, andb_true_r. apply negb_true_iff.
  destruct (Schema.mem x r) eqn:E; [| reflexivity]. apply ParseLogP.mem_In in E. contradiction.
Qed.

Lemma jlookup_first k v (kv : list (string * json)) :
  NoDup (map fst kv) -> In (k, v) kv -> jlookup k kv = Some v.
Proof.
  induction kv as [|[k1 v1] r IH]; intros Hnd Hp; [contradiction|]. simpl in *.
  inversion Hnd; subst. destruct Hp as [E | Hp].
  - inversion E; subst. rewrite String.eqb_refl. reflexivity.
  - destruct (String.eqb k k1) eqn:Ek; [| apply IH; auto].
    apply String.eqb_eq in Ek. subst k1. exfalso. apply H1.
    change k with (fst (k, v)). apply in_map, Hp.
Qed.

(* one level: the facts the run gives about each generated field, the alias of each field, and the key guard,
   make the class's own uniqueness check pass *)
Lemma level_uniq C (W : ann -> json -> bool) kv (fns : list fnode) pfl :
  Forall2 (field_facts C W kv) fns pfl ->
  Forall2 (fun f pf => p_alias pf = if String.eqb (py_field_name C (field_key f)) (field_key f)
                                    then None else Some (field_key f)) fns pfl ->
  (forall f, In f fns -> String.eqb (py_field_name C (field_key f)) (field_key f)
                         || negb (Schema.mem (py_field_name C (field_key f)) (map field_key fns)) = true) ->
  NoDup (map field_key fns) -> NoDup (map (fun f => py_field_name C (field_key f)) fns) ->
  NoDup (map fst kv) -> (forall p, In p kv -> In (fst p) (map field_key fns)) ->
  class_uniq W (Some pfl) (JObj kv) = true.
Proof.
  intros H Hal Hkeys Hnk Hnn Hkv Hin. unfold class_uniq.
  assert (Ek : map field_key_of pfl = map field_key fns).
  { eapply Forall2_map_eq; [exact H|]. intros x y [E _]. exact E. }
  assert (En : map p_name pfl = map (fun f => py_field_name C (field_key f)) fns).
  { eapply Forall2_map_eq; [exact H|]. intros x y [_ [E _]]. exact E. }
  rewrite last_wins_nodup by (rewrite En; exact Hnn).
  rewrite Ek, (NoDup_nodup_s _ Hkv), (NoDup_nodup_s _ Hnk). cbn [andb].
  apply andb_true_iff. split.
  - (* no key is reachable through the populate_by_name fallback *)
    apply forallb_forall. intros pf Hpf.
    assert (HF : Forall2 (fun f pf => field_facts C W kv f pf /\
                   p_alias pf = if String.eqb (py_field_name C (field_key f)) (field_key f)
                                then None else Some (field_key f)) fns pfl).
    { clear - H Hal. induction H; inversion Hal; subst; constructor; auto. }
    assert (Hex : exists f, In f fns /\ field_facts C W kv f pf /\
                   p_alias pf = if String.eqb (py_field_name C (field_key f)) (field_key f)
                                then None else Some (field_key f)).
    { clear - HF Hpf. induction HF as [|f0 p0 fr pr H0 _ IH]; [contradiction|].
      destruct Hpf as [E | Hpf].
      - subst p0. exists f0. split; [left; reflexivity | exact H0].
      - destruct (IH Hpf) as [f [Hf Hr]]. exists f. split; [right; exact Hf | exact Hr]. }
    destruct Hex as [f [Hf [[_ [Hname _]] Ha]]]. rewrite Ha, Hname.
    specialize (Hkeys f Hf).
    destruct (String.eqb (py_field_name C (field_key f)) (field_key f)); [reflexivity|].
    simpl in Hkeys. apply negb_true_iff in Hkeys.
    rewrite ParseLogP.jlookup_notin; [reflexivity|].
    intro Hm. apply in_map_iff in Hm. destruct Hm as [p [Hp1 Hp2]].
    apply Hin in Hp2. rewrite Hp1 in Hp2. apply ParseLogP.mem_In in Hp2. rewrite Hp2 in Hkeys. discriminate.
  - (* every member is checked against the one field of its key *)
    apply forallb_forall. intros [k0 v] Hp. cbn [fst snd].
    pose proof (Hin _ Hp) as Hk0. cbn [fst] in Hk0. apply in_map_iff in Hk0. destruct Hk0 as [f [Hf1 Hf2]].
    destruct (Forall2_In_l _ _ _ _ H Hf2) as [pf [Hpf [Hk [_ [_ Hv]]]]].
    rewrite <- Hf1, <- Hk. rewrite find_key_nodup; [| rewrite Ek; exact Hnk | exact Hpf].
    apply Hv. rewrite Hf1. apply jlookup_first; assumption.
Qed.

(* the alias of every field of a run *)
Lemma fields_run_alias P C S frs fuel cn r tv at_ fns pub pfl extra pub' b :
  fields_run P C S frs fuel cn r tv at_ fns pub pfl extra pub' b ->
  Forall2 (fun f pf => p_alias pf = if String.eqb (py_field_name C (field_key f)) (field_key f)
                                    then None else Some (field_key f)) fns pfl.
Proof.
  intro Hrun. pose proof (fields_run_pf _ _ _ _ _ _ _ _ _ _ _ _ _ _ _ Hrun) as HF.
  clear Hrun. induction HF as [|f pf fr pr [ctx Hpf] _ IH]; [constructor|]. constructor; [| exact IH].
  destruct (field_pf_inv _ _ _ _ _ _ _ _ _ _ _ Hpf) as [t [a0 [il [_ [_ E]]]]]. subst pf. reflexivity.
Qed.

Theorem obj_uniq C S frs : forall fuel g mx pub cn rt r sels at_ eb tv out pub' cs fc kv n,
  parse_type_def fuel C S frs pub cn r sels at_ eb tv = Ok (out, pub', false) ->
  sels_ok g true C S frs mx at_ rt r sels = true -> tv_ok rt tv ->
  (at_ = true -> has_typename sels = true) -> table_ok cs out ->
  mx_ok cs mx = true -> harmless cs eb ->
  obj_conf fc S frs rt sels kv = true -> jwf (JObj kv) = true ->
  n >= fuel + 2 ->
  uniq n cs (AClass cn) (JObj kv) = true.
Proof.
  induction fuel as [|fuel IH];
    intros g mx pub cn rt r sels at_ eb tv out pub' cs fc kv n Hp Hok Htv Hat Htab Hmx Heb Hc Hwf Hn;
    [discriminate Hp|].
  destruct (level_inv _ _ _ _ _ _ _ _ _ _ _ _ _ _ _ _ _ Hp Hok Hat)
    as [f2 [g' [fns [pfl [extra [Ef [Eg [Hfl [Hrun Hout]]]]]]]]].
  destruct (sels_ok_inv _ _ _ _ _ _ _ _ _ _ Hok) as [g'' [fns' [Eg' [Hfl' [Hkeys [Hnames Hfields]]]]]].
  rewrite Eg in Eg'. inversion Eg'; subst g''. clear Eg'.
  rewrite Hfl in Hfl'. inversion Hfl'; subst fns'. clear Hfl'.
  cbn [keys_okG] in Hkeys. pose proof (keys_ok_D _ _ Hkeys) as HkeysD.
  destruct (obj_conf_inv _ _ _ _ _ _ C _ _ _ Hc Hfl HkeysD) as [Hkv Hspec].
  destruct n as [|[|[|[|n3]]]]; try lia.
  set (n1 := Datatypes.S (Datatypes.S n3)). set (n' := Datatypes.S n1).
  assert (Hc0 : In {| c_name := cn; c_bases := "BaseModel" :: eb; c_fields := pfl |} out)
    by (rewrite Hout; left; reflexivity).
  destruct (Htab _ Hc0) as [Hl Hnb]. simpl in Hl, Hnb.
  change (class_uniq (uniq n' cs) (mro_fields n' cs cn) (JObj kv) = true).
  unfold n', n1. rewrite (mro_harmless cs cn _ (Datatypes.S n3) eb Hl eq_refl Hnb Heb). simpl c_fields.
  fold n1.
  simpl in Hwf. apply andb_true_iff in Hwf as [Hnd Hmem]. rewrite forallb_forall in Hmem.
  eapply (level_uniq C (uniq (Datatypes.S n1) cs) kv fns pfl).
  - eapply (level_facts C S frs fuel g' true cs (uniq (Datatypes.S n1) cs) (fun j => jwf j = true)
                        class_uniq (uniq n1 cs) (mro_fields n1 cs)
                        (sels_ok g' true C S frs mx) mx (harmless cs) (fun eb0 => mx_ok_harmless cs mx eb0 Hmx)
                        (sels_ok_ok_inv g' true C S frs mx))
      with (K := map field_key fns);
      try eassumption; try reflexivity; auto.
    + intros l Hl' x Hx. simpl in Hl'. rewrite forallb_forall in Hl'. apply Hl', Hx.
    + intros m j _ _. apply scalar_ann_cov.
    + intros c eb0 Hlc Hnc Hbc Hh. unfold n1. eapply mro_harmless; eauto.
    + eauto.
    + intros pb cn2 rt2 r2 sels2 at2 eb2 tvs out2 pub2 fc2 kv2 P0 P1 P2 P3 P4 P5 P6 P7.
      change (uniq (Datatypes.S n1) cs (AClass cn2) (JObj kv2) = true).
      eapply IH; eauto.
      * right. eauto.
      * unfold n1. lia.
    + apply keys_ok_forall, HkeysD.
    + eapply table_ok_incl; [exact Htab|]. rewrite Hout. apply incl_tl, incl_refl.
  - eapply fields_run_alias; exact Hrun.
  - apply keys_ok_forall, HkeysD.
  - eapply keys_ok_nodup; eauto.
  - apply Hnames. reflexivity.
  - apply nodupb_NoDup, Hnd.
  - exact Hkv.
Qed.

Theorem op_uniq C S frs fuel kind name mixins sels root own pub' cls g mx fc j n :
  root_type_name S kind = Ok root ->
  op_parse fuel C S frs kind name mixins sels = Ok (own, pub', false) ->
  all_classes fuel C S frs (DOp kind name mixins sels) = Ok cls ->
  op_ok g true C S frs mx mixins root sels = true -> mx_ok cls mx = true -> no_basemodel own = true ->
  conf_op fc S frs root sels j = true -> jwf j = true ->
  n >= fuel + 2 ->
  uniq n cls (AClass (pascal_s name)) j = true.
Proof.
  intros Hroot Hop Hall Hok Hmx Hnb Hconf Hwf Hn.
  pose proof (op_table _ _ _ _ _ _ _ _ _ _ _ Hop Hall Hnb) as Htab.
  unfold op_ok in Hok. apply andb_true_iff in Hok as [Hobj Hsels]. apply andb_true_iff in Hobj as [Hobj Hmix].
  pose proof (mx_ok_harmless _ _ _ Hmx Hmix) as Hharm.
  destruct (conf_op_obj _ _ _ _ _ _ Hobj Hconf) as [kv [k [Ej Hc]]]. subst j.
  unfold op_parse in Hop. rewrite Hroot in Hop. simpl in Hop.
  eapply obj_uniq; eauto; [left; reflexivity | discriminate].
Qed.

(* acceptance, parse exactly on the occurrences present, never on null - for every conformant duplicate-free response *)
Theorem parse_once_op C S frs fuel kind name mixins sels root own pub' cls g mx fc j n :
  root_type_name S kind = Ok root ->
  op_parse fuel C S frs kind name mixins sels = Ok (own, pub', false) ->
  all_classes fuel C S frs (DOp kind name mixins sels) = Ok cls ->
  op_ok g true C S frs mx mixins root sels = true -> mx_ok cls mx = true -> no_basemodel own = true ->
  conf_op fc S frs root sels j = true -> jwf j = true -> n >= fuel + 2 ->
  accepts n cls (schema_enums S) (AClass (pascal_s name)) j = true /\
  Permutation (plog n cls (AClass (pascal_s name)) j) (pocc n cls (AClass (pascal_s name)) j) /\
  Forall (fun e => snd e <> JNull) (plog n cls (AClass (pascal_s name)) j).
Proof.
  intros Hr Hop Hall Hok Hmx Hnb Hconf Hwf Hn.
  assert (Ha := op_accepts C S frs fuel kind name mixins sels root own pub' cls g true mx fc j n
                  Hr Hop Hall Hok Hmx Hnb Hconf Hn).
  assert (Hu := op_uniq C S frs fuel kind name mixins sels root own pub' cls g mx fc j n
                  Hr Hop Hall Hok Hmx Hnb Hconf Hwf Hn).
  split; [exact Ha|]. split; [apply ParseLogP.parse_once_response; exact Hu|].
  eapply ParseLogP.parse_never_null; exact Ha.
Qed.
