(* The "refuses" half beyond missing required fields: on values whose leaves have the canonical JSON kind of their
   type and whose objects carry only known keys (canon), a value the generated model accepts is accepted by the
   schema's coercion.  So the model refuses null at non-null positions, missing required fields, unknown enum values
   and list/object/scalar shape mismatches at least as strictly as the schema does. *)
From Coq Require Import List String Ascii ZArith Bool Lia.
From AC Require Import Base.Sexp Base.Json Base.Strs Gql.InSchema Gql.InCoerce
  Model.Names Model.Defaults Model.Inputs Py.PyEval Proofs.InputsP Proofs.FreshP Proofs.AcceptsP Proofs.ValidateP
  Proofs.ByNameP Proofs.DefaultsP Proofs.ReshapeP.
Import ListNotations.
Local Open Scope string_scope.

Lemma spec_find_field_eq k fs : spec_find_field k fs = find_field k fs.
Proof. induction fs as [|f r IH]; simpl; [reflexivity|]. rewrite IH. reflexivity. Qed.

Lemma coerce_input_mono s : forall n m t j cv, n <= m ->
  coerce_input n s t j = Some cv -> coerce_input m s t j = Some cv.
Proof.
  induction n as [n IHn] using lt_wf_ind. intros m t.
  induction t as [nm|t IH|t IH]; intros j cv LE C.
  - rewrite coerce_named in *. destruct j; try exact C; destruct (kind_of s nm); try exact C.
    destruct n as [|n']; [simpl in C; discriminate|]. destruct m as [|m']; [lia|].
    destruct (known_keys fs kv); [|exact C].
    destruct (fields_with (fun k => jlookup k kv) (coerce_input n' s) (coerced_default n' s) fs) as [r|] eqn:F;
      [|simpl in C; discriminate].
    rewrite (fields_with_mono _ _ (coerce_input m' s) _ (coerced_default m' s) fs r
               (fun t x v H => IHn n' (Nat.lt_succ_diag_r n') m' t x v ltac:(lia) H)
               (fun t d v H => coerced_default_mono s n' m' t d v ltac:(lia) H) F). exact C.
  - rewrite coerce_list in *. destruct j; try exact C.
    destruct n as [|n']; [simpl in C; discriminate|]. destruct m as [|m']; [lia|].
    destruct (map_opt (coerce_input n' s t) l) as [r|] eqn:M; [|simpl in C; discriminate].
    rewrite (map_opt_mono _ (coerce_input m' s t) l r
               (fun x y _ H => IHn n' (Nat.lt_succ_diag_r n') m' t x y ltac:(lia) H) M). exact C.
  - rewrite coerce_nonnull in *. destruct j; try (apply (IH _ _ LE C)). discriminate.
Qed.

Lemma jlookup_in_pair k kv v : jlookup k kv = Some v -> In (k, v) kv.
Proof.
  induction kv as [|[k' v'] r IH]; simpl; [discriminate|].
  destruct (k =? k') eqn:E; intros H.
  - apply String.eqb_eq in E. inversion H. subst. auto.
  - auto.
Qed.

Section Converse.
Variables (s : schema) (cs : customs) (snake : bool).
Hypothesis OK : schema_ok snake s = true.
(* schema validity: every default literal is a valid literal of its type *)
Hypothesis VD : forall nm fs f d, kind_of s nm = KInput fs -> In f fs -> i_default f = Some d ->
  exists m cv, coerced_default m s (i_type f) d = Some cv.
Let E := env_of s cs snake.

(* null at a non-null position is refused by the model (custom scalars, typed Any, are carved out by canon) *)
Lemma null_refused n : forall t, canon s JNull (TNonNull t) = true ->
  accepts n E (fst (parse_input_field_type s cs t false)) JNull = false.
Proof.
  induction t as [nm|t IH|t IH]; intros Cn.
  - simpl in Cn. simpl. unfold leaf. pose proof (kind_of_lookup s nm) as KL.
    destruct (kind_of s nm) eqn:K; try discriminate; simpl;
      try (rewrite accepts_leaf by exact I; reflexivity).
    rewrite accepts_class. reflexivity.
  - simpl. destruct (parse_input_field_type s cs t true). simpl. rewrite accepts_list. reflexivity.
  - simpl. apply IH. simpl in Cn. simpl. exact Cn.
Qed.

Lemma leaf_sound nm j : j <> JNull -> match kind_of s nm with KInput _ => False | _ => True end ->
  canon s j (TNamed nm) = true -> forall n, accepts n E (fst (leaf s cs nm)) j = true ->
  exists cv, leaf_input s nm j = Some cv.
Proof.
  intros NN NI Cn n A. unfold leaf in A. unfold leaf_input. pose proof (kind_of_lookup s nm) as KL.
  destruct (kind_of s nm) as [| | | | | |vals|fs|] eqn:K; try contradiction;
    destruct j; try congruence; simpl in Cn; unfold canon_leaf in Cn; rewrite ?K in Cn;
    try discriminate; try (rewrite Cn); eauto.
  (* enum *)
  simpl in A. rewrite accepts_leaf in A by exact I.
  unfold leaf_accepts, leaf_validate in A. unfold E in A. simpl e_enums in A.
  rewrite (enums_lookup s nm vals KL) in A. destruct (mem s0 vals); [eauto | discriminate].
Qed.

Theorem accepts_sound : forall n t nb j, canon s j t = true ->
  accepts n E (fst (parse_input_field_type s cs t nb)) j = true ->
  exists m cv, coerce_input m s t j = Some cv.
Proof.
  induction n as [n IHn] using lt_wf_ind.
  induction t as [nm|t IH|t IH]; intros nb j Cn A.
  - (* named *)
    destruct (json_null_dec j) as [->|JN]; [exists 0, CNull; rewrite coerce_named; reflexivity|].
    simpl in A. destruct (leaf s cs nm) as [a tn] eqn:LF. simpl in A.
    rewrite accepts_opt_if in A by (intros _; exact JN).
    assert (A' : accepts n E a j = true) by (destruct j; try exact A; congruence). clear A.
    pose proof (kind_of_lookup s nm) as KL.
    destruct (kind_of s nm) as [| | | | | |vals|fs|] eqn:K.
    8: {
      assert (a = AClass nm) as -> by (unfold leaf in LF; rewrite K in LF; inversion LF; reflexivity).
      rewrite accepts_class in A'. destruct j as [| | | | | |kv]; try discriminate.
      destruct n as [|n']; [discriminate|].
      simpl in Cn. rewrite K in Cn. apply andb_true_iff in Cn as [KK CE]. rewrite forallb_forall in CE.
      pose proof (schema_ok_input snake s nm fs OK KL) as NOK.
      unfold E in A'. simpl e_classes in A'. unfold gen_classes in A'.
      rewrite (classes_lookup s cs snake s nm fs KL) in A'. simpl c_fields in A'.
      rewrite (effective_gen s cs snake fs NOK) in A'. rewrite forallb_forall in A'.
      assert (X : forall l, incl l fs -> exists M r,
                  fields_with (fun k => jlookup k kv) (coerce_input M s) (coerced_default M s) l = Some r).
      { induction l as [|f l IHl]; intros INC; [exists 0, []; reflexivity|].
        assert (Hf : In f fs) by (apply INC; left; reflexivity).
        destruct (IHl (fun x Hx => INC x (or_intror Hx))) as [M2 [r2 H2]].
        pose proof (A' (gen_field s cs snake fs f) (in_map _ _ _ Hf)) as Af.
        rewrite (field_input_gen s cs snake fs kv f NOK KK Hf) in Af. simpl.
        destruct (jlookup (i_name f) kv) as [x|] eqn:Lx.
        - pose proof (CE _ (jlookup_in_pair _ _ _ Lx)) as Cx. simpl in Cx. rewrite spec_find_field_eq in Cx.
          rewrite (find_field_self snake fs f NOK Hf) in Cx. rewrite gen_field_ann in Af.
          destruct (IHn n' (Nat.lt_succ_diag_r n') (i_type f) true x Cx Af) as [m1 [v H1]].
          exists (Nat.max m1 M2). eexists.
          rewrite (coerce_input_mono s m1 (Nat.max m1 M2) _ _ v ltac:(lia) H1).
          rewrite (fields_with_mono _ _ (coerce_input (Nat.max m1 M2) s) _ (coerced_default (Nat.max m1 M2) s) l r2
                     (fun t x0 v0 H => coerce_input_mono s M2 (Nat.max m1 M2) t x0 v0 ltac:(lia) H)
                     (fun t d v0 H => coerced_default_mono s M2 (Nat.max m1 M2) t d v0 ltac:(lia) H) H2). reflexivity.
        - rewrite has_default_gen in Af. destruct (i_default f) as [d|] eqn:D.
          + destruct (VD nm fs f d K Hf D) as [m1 [v H1]].
            exists (Nat.max m1 M2). eexists.
            rewrite (coerced_default_mono s m1 (Nat.max m1 M2) _ _ v ltac:(lia) H1).
            rewrite (fields_with_mono _ _ (coerce_input (Nat.max m1 M2) s) _ (coerced_default (Nat.max m1 M2) s) l r2
                       (fun t x0 v0 H => coerce_input_mono s M2 (Nat.max m1 M2) t x0 v0 ltac:(lia) H)
                       (fun t d0 v0 H => coerced_default_mono s M2 (Nat.max m1 M2) t d0 v0 ltac:(lia) H) H2). reflexivity.
          + destruct (is_nonnull (i_type f)); [simpl in Af; discriminate|]. exists M2, r2. exact H2. }
      destruct (X fs (incl_refl fs)) as [M [r HM]].
      exists (S M), (CObj r). rewrite coerce_named, K, KK, HM. reflexivity. }
    all: assert (NI : match kind_of s nm with KInput _ => False | _ => True end) by (rewrite K; exact I);
      replace a with (fst (leaf s cs nm)) in A' by (rewrite LF; reflexivity);
      destruct (leaf_sound nm j JN NI Cn n A') as [cv Hcv];
      exists 0, cv; rewrite coerce_named, K; destruct j; try exact Hcv; congruence.
  - (* list *)
    destruct (json_null_dec j) as [->|JN]; [exists 0, CNull; rewrite coerce_list; reflexivity|].
    simpl in A. destruct (parse_input_field_type s cs t true) as [sl tn] eqn:PE. simpl in A.
    rewrite accepts_opt_if in A by (intros _; exact JN).
    assert (A' : accepts n E (AList sl) j = true) by (destruct j; try exact A; congruence). clear A.
    rewrite accepts_list in A'. destruct j as [| | | | |l|]; try discriminate.
    destruct n as [|n']; [discriminate|]. rewrite forallb_forall in A'.
    simpl in Cn. rewrite forallb_forall in Cn.
    assert (X : forall l0, incl l0 l -> exists M r, map_opt (coerce_input M s t) l0 = Some r).
    { induction l0 as [|x l0 IHl]; intros INC; [exists 0, []; reflexivity|].
      assert (Hx : In x l) by (apply INC; left; reflexivity).
      destruct (IHl (fun y Hy => INC y (or_intror Hy))) as [M2 [r2 H2]].
      pose proof (A' x Hx) as Ax. replace sl with (fst (parse_input_field_type s cs t true)) in Ax by (rewrite PE; reflexivity).
      destruct (IHn n' (Nat.lt_succ_diag_r n') t true x (Cn x Hx) Ax) as [m1 [v H1]].
      exists (Nat.max m1 M2). eexists. simpl.
      rewrite (coerce_input_mono s m1 (Nat.max m1 M2) t x v ltac:(lia) H1).
      rewrite (map_opt_mono _ (coerce_input (Nat.max m1 M2) s t) l0 r2
                 (fun y z _ H => coerce_input_mono s M2 (Nat.max m1 M2) t y z ltac:(lia) H) H2). reflexivity. }
    destruct (X l (incl_refl l)) as [M [r HM]].
    exists (S M), (CList r). rewrite coerce_list, HM. reflexivity.
  - (* non-null *)
    simpl in A. destruct (json_null_dec j) as [->|JN].
    + rewrite (null_refused n t Cn) in A. discriminate.
    + assert (Cn' : canon s j t = true) by (destruct j; try congruence; simpl in Cn; exact Cn).
      destruct (IH false j Cn' A) as [m [cv H]]. exists m, cv. rewrite coerce_nonnull.
      destruct j; try exact H. congruence.
Qed.
End Converse.
