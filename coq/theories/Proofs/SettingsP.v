(* Lemmas about Model/Settings.v (C17). *)
From Coq Require Import List String Ascii ZArith Bool Lia.
From AC Require Import Base.Sexp Base.Json Base.Strs Model.Names Model.Settings.
Import ListNotations.
Local Open Scope string_scope.
Local Open Scope list_scope.

(* ---------- first_err ---------- *)
Lemma first_err_none l : first_err l = None <-> Forall (fun o => o = None) l.
Proof.
  induction l as [|[x|] l IH]; simpl.
  - split; auto.
  - split; [discriminate | intro H; inversion H; discriminate].
  - rewrite IH. split; intro H; [constructor; auto | inversion H; auto].
Qed.

Lemma first_err_app l1 l2 :
  first_err (l1 ++ l2) = match first_err l1 with Some x => Some x | None => first_err l2 end.
Proof. induction l1 as [|[x|] l1 IH]; simpl; auto. Qed.

(* the reported error is the first check that fails: everything before it passed *)
Lemma first_err_split l x : first_err l = Some x <->
  exists pre post, l = pre ++ Some x :: post /\ Forall (fun o => o = None) pre.
Proof.
  split.
  - induction l as [|[y|] l IH]; simpl; intro H; try discriminate.
    + inversion H; subst. exists [], l. split; auto.
    + destruct (IH H) as (pre & post & -> & Hp). exists (None :: pre), post. split; auto.
  - intros (pre & post & -> & Hp). rewrite first_err_app.
    apply first_err_none in Hp. rewrite Hp. reflexivity.
Qed.

Lemma first_err_in l x : first_err l = Some x -> In (Some x) l.
Proof. intro H. apply first_err_split in H as (pre & post & -> & _). apply in_or_app. right. left. auto. Qed.

(* ---------- headers ---------- *)
Lemma get_header_value_not_ill e v : get_header_value e v <> Ill.
Proof.
  unfold get_header_value, invalid. destruct (s2l v); try discriminate.
  destruct (is_dollar a); try discriminate.
  destruct (getenv _ _); try discriminate. destruct (String.eqb _ _); discriminate.
Qed.

Lemma resolve_headers_not_ill e h : resolve_headers e h <> Ill.
Proof.
  induction h as [|[k v] h IH]; simpl; try discriminate.
  pose proof (get_header_value_not_ill e v).
  destruct (get_header_value e v); try congruence.
  destruct (resolve_headers e h); try congruence; discriminate.
Qed.

Lemma resolve_headers_ok_iff e h :
  (exists h', resolve_headers e h = Ok h') <-> headers_resolvable e h = true.
Proof.
  induction h as [|[k v] h IH]; simpl.
  - split; eauto.
  - destruct (get_header_value e v) eqn:E; simpl.
    + rewrite <- IH. destruct (resolve_headers e h); split; intros [h' H]; try discriminate; eauto.
    + split; [intros [h' H]; discriminate | discriminate].
    + split; [intros [h' H]; discriminate | discriminate].
Qed.

Lemma headers_err_none_iff e h : headers_err e h = None <-> headers_resolvable e h = true.
Proof.
  unfold headers_err. rewrite <- resolve_headers_ok_iff.
  pose proof (resolve_headers_not_ill e h).
  destruct (resolve_headers e h); split; intro H1; eauto; try discriminate; try congruence;
    destruct H1; discriminate.
Qed.

Lemma header_value_err_cls e v x : get_header_value e v = Err x -> x_cls x = InvalidConfiguration.
Proof.
  unfold get_header_value, invalid. destruct (s2l v); try discriminate.
  destruct (is_dollar a); try discriminate.
  destruct (getenv _ _); [destruct (String.eqb _ _)|]; intro H; inversion H; reflexivity.
Qed.

Lemma resolve_headers_err_cls e h x : resolve_headers e h = Err x -> x_cls x = InvalidConfiguration.
Proof.
  induction h as [|[k v] h IH]; simpl; try discriminate.
  destruct (get_header_value e v) eqn:E.
  - destruct (resolve_headers e h); intro H; inversion H; subst; auto.
  - intro H; inversion H; subst. eapply header_value_err_cls; eauto.
  - discriminate.
Qed.

(* ---------- base part ---------- *)
Lemma base_post_init_spec e b :
  match first_err (base_checks e b) with
  | Some x => base_post_init e b = Err x
  | None => exists s, base_post_init e b = Ok s
  end.
Proof.
  unfold base_checks, base_post_init, headers_err, invalid. simpl.
  destruct (String.eqb (b_schema_path b) "" && String.eqb (b_url b) ""); [reflexivity|].
  destruct (if String.eqb (b_schema_path b) "" then None else assert_path_exists e (b_schema_path b)); [reflexivity|].
  pose proof (resolve_headers_not_ill e (b_headers b)).
  destruct (resolve_headers e (b_headers b)); try congruence; eauto.
Qed.

(* ---------- the settings functions against the ordered check list ---------- *)
Theorem client_post_init_first_err e r sc :
  match first_err (client_checks e r) with
  | Some x => client_post_init e r sc = Err x
  | None => exists c, client_post_init e r sc = Ok c
  end.
Proof.
  unfold client_checks, client_post_init, missing, invalid.
  rewrite !first_err_app. simpl first_err at 1.
  destruct (String.eqb (r_queries_path r) "" && negb (b_custom_ops (r_base r))); [reflexivity|].
  pose proof (base_post_init_spec e (r_base r)) as HB.
  destruct (first_err (base_checks e (r_base r))).
  - rewrite HB. reflexivity.
  - destruct HB as [s ->]. simpl.
    destruct (valid_comment (r_comments r)); simpl; [|reflexivity].
    destruct (first_err (client_asserts e r)); [reflexivity|].
    destruct (base_client_of e r). eauto.
Qed.

Theorem schema_post_init_first_err e r :
  match first_err (schema_checks e r) with
  | Some x => schema_post_init e r = Err x
  | None => exists g, schema_post_init e r = Ok g
  end.
Proof.
  unfold schema_checks, schema_post_init. rewrite first_err_app.
  pose proof (base_post_init_spec e (gr_base r)) as HB.
  destruct (first_err (base_checks e (gr_base r))).
  - rewrite HB. reflexivity.
  - destruct HB as [s ->]. destruct (first_err (schema_asserts r)); eauto.
Qed.

Lemma client_post_init_not_ill e r sc : client_post_init e r sc <> Ill.
Proof.
  pose proof (client_post_init_first_err e r sc) as H.
  destruct (first_err (client_checks e r)); [rewrite H; discriminate | destruct H as [c ->]; discriminate].
Qed.

(* ---------- accepted iff the enforced constraints hold ---------- *)
Lemma assert_identifier_none n : assert_identifier n = None <-> usable_name n = true.
Proof.
  unfold assert_identifier, usable_name.
  destruct (is_identifier n), (is_kw n); simpl; split; intro; auto; discriminate.
Qed.
Lemma assert_exists_none e p : assert_path_exists e p = None <-> p_exists e p = true.
Proof. unfold assert_path_exists. destruct (p_exists e p); split; intro; auto; discriminate. Qed.
Lemma assert_dir_none e p : assert_path_is_valid_directory e p = None <-> p_is_dir e p = true.
Proof. unfold assert_path_is_valid_directory. destruct (p_is_dir e p); split; intro; auto; discriminate. Qed.
Lemma assert_file_none e p : assert_path_is_valid_file e p = None <-> p_is_file e p = true.
Proof. unfold assert_path_is_valid_file. destruct (p_is_file e p); split; intro; auto; discriminate. Qed.
Lemma is_file_exists e p : p_is_file e p = true -> p_exists e p = true.
Proof. unfold p_is_file, p_exists. destruct (path_kind e p); auto; discriminate. Qed.

Lemma Forall_map_none {X} (f : X -> option err) (p : X -> bool) l :
  (forall x, f x = None <-> p x = true) ->
  (Forall (fun o => o = None) (map f l) <-> forallb p l = true).
Proof.
  intro H. induction l as [|x l IH]; simpl.
  - split; auto.
  - rewrite andb_true_iff, <- IH, <- H. split; intro H1.
    + inversion H1; auto.
    + destruct H1; constructor; auto.
Qed.

Lemma base_checks_iff e b :
  first_err (base_checks e b) = None <-> all_hold (base_constraints e b) = true.
Proof.
  unfold base_checks, base_constraints, all_hold. simpl.
  destruct (String.eqb (b_schema_path b) "" && String.eqb (b_url b) ""); simpl; [split; discriminate|].
  destruct (String.eqb (b_schema_path b) ""); simpl.
  - rewrite andb_true_r. destruct (headers_err e (b_headers b)) eqn:E.
    + split; [discriminate|]. intro H. apply headers_err_none_iff in H. congruence.
    + apply headers_err_none_iff in E. rewrite E. split; auto.
  - unfold assert_path_exists. destruct (p_exists e (b_schema_path b)); simpl; [|split; discriminate].
    rewrite andb_true_r. destruct (headers_err e (b_headers b)) eqn:E.
    + split; [discriminate|]. intro H. apply headers_err_none_iff in H. congruence.
    + apply headers_err_none_iff in E. rewrite E. split; auto.
Qed.

Lemma class_asserts_iff e bp bn :
  (assert_path_exists e bp = None /\ assert_path_is_valid_file e bp = None /\
   (if p_is_file e bp then assert_class_is_defined_in_file e bp bn else None) = None)
  <-> (p_is_file e bp = true /\ class_defined e bp bn = true).
Proof.
  unfold assert_path_exists, assert_path_is_valid_file, assert_class_is_defined_in_file, class_defined,
    p_read, p_is_file, p_exists.
  destruct (path_kind e bp).
  - split; intros (H1 & H2 & H3) || intros (H1 & H2); discriminate.
  - split; intros (H1 & H2 & H3) || intros (H1 & H2); discriminate.
  - destruct (contains _ content); split; intros (H1 & H2 & H3) || intros (H1 & H2);
      repeat split; auto; discriminate.
Qed.

Lemma client_asserts_iff e r :
  first_err (client_asserts e r) = None <->
  let '(bp, bn) := base_client_of e r in
  p_exists e (r_queries_path r) && usable_name (r_pkg_name r) && p_is_dir e (pkg_path_of e r)
  && usable_name (r_client_name r) && usable_name (r_client_file r) && usable_name bn
  && p_is_file e bp && class_defined e bp bn && usable_name (r_enums r) && usable_name (r_inputs r)
  && usable_name (r_fragments r) && forallb (p_is_file e) (r_files r) = true.
Proof.
  unfold client_asserts. destruct (base_client_of e r) as [bp bn].
  rewrite first_err_none. cbn [app].
  repeat rewrite Forall_cons_iff.
  rewrite (Forall_map_none (assert_path_is_valid_file e) (p_is_file e)) by (apply assert_file_none).
  rewrite !assert_identifier_none, assert_exists_none, assert_dir_none.
  rewrite !andb_true_iff.
  pose proof (class_asserts_iff e bp bn) as HC.
  tauto.
Qed.

Theorem client_accept_iff_enforced e r sc :
  (exists c, client_post_init e r sc = Ok c) <-> all_hold (client_constraints e r) = true.
Proof.
  pose proof (client_post_init_first_err e r sc) as H.
  assert (first_err (client_checks e r) = None <-> all_hold (client_constraints e r) = true) as HI.
  { unfold client_checks, client_constraints, all_hold.
    pose proof (client_asserts_iff e r) as HA. destruct (base_client_of e r) as [bp bn].
    rewrite !first_err_app, !forallb_app.
    pose proof (base_checks_iff e (r_base r)) as HBI. unfold all_hold in HBI.
    cbn [first_err forallb snd].
    destruct (String.eqb (r_queries_path r) "" && negb (b_custom_ops (r_base r))); cbn [negb andb];
      [split; discriminate|].
    destruct (first_err (base_checks e (r_base r))).
    - destruct (forallb snd (base_constraints e (r_base r))); [|cbn [andb]; split; discriminate].
      destruct HBI as [_ HBI]. specialize (HBI eq_refl). discriminate.
    - destruct HBI as [HBI _]. rewrite (HBI eq_refl). cbn [andb].
      destruct (valid_comment (r_comments r)); cbn [andb]; [|split; discriminate].
      rewrite HA. rewrite !andb_true_r.
      destruct (p_is_file e bp) eqn:F; cbn [negb orb].
      + rewrite !andb_true_iff. tauto.
      + rewrite !andb_true_iff. split; intro HH; decompose [and] HH; discriminate. }
  destruct (first_err (client_checks e r)).
  - rewrite H. split; [intros [c Hc]; discriminate|].
    intro Hc. apply HI in Hc. discriminate.
  - split; intro; [apply HI; reflexivity | exact H].
Qed.

Lemma assert_not_reserved_none n : assert_not_reserved n = None <-> negb (is_reserved_var n) = true.
Proof. unfold assert_not_reserved. destruct (is_reserved_var n); simpl; split; intro; auto; discriminate. Qed.
Lemma assert_names_differ_none a b : assert_names_differ a b = None <-> negb (String.eqb a b) = true.
Proof. unfold assert_names_differ. destruct (String.eqb a b); simpl; split; intro; auto; discriminate. Qed.

Lemma schema_asserts_iff r :
  first_err (schema_asserts r) = None <->
  (match assert_schema_target_filename (gr_target r) with None => true | Some _ => false end)
  && usable_name (gr_schema_var r) && usable_name (gr_type_map_var r)
  && negb (is_reserved_var (gr_schema_var r)) && negb (is_reserved_var (gr_type_map_var r))
  && negb (String.eqb (gr_schema_var r) (gr_type_map_var r)) = true.
Proof.
  unfold schema_asserts. rewrite first_err_none. repeat rewrite Forall_cons_iff.
  rewrite !assert_identifier_none, !assert_not_reserved_none, assert_names_differ_none, !andb_true_iff.
  destruct (assert_schema_target_filename (gr_target r)); split; intro H; decompose [and] H;
    repeat split; auto; try discriminate; constructor.
Qed.

Theorem schema_accept_iff_enforced e r :
  (exists g, schema_post_init e r = Ok g) <-> all_hold (schema_constraints e r) = true.
Proof.
  pose proof (schema_post_init_first_err e r) as H.
  assert (first_err (schema_checks e r) = None <-> all_hold (schema_constraints e r) = true) as HI.
  { unfold schema_checks, schema_constraints, all_hold. rewrite first_err_app, forallb_app.
    pose proof (base_checks_iff e (gr_base r)) as HBI. unfold all_hold in HBI.
    destruct (first_err (base_checks e (gr_base r))).
    - destruct (forallb snd (base_constraints e (gr_base r))); [|cbn [andb]; split; discriminate].
      destruct HBI as [_ HBI]. specialize (HBI eq_refl). discriminate.
    - destruct HBI as [HBI _]. rewrite (HBI eq_refl). cbn [andb]. rewrite schema_asserts_iff.
      cbn [forallb snd]. rewrite !andb_true_r. rewrite !andb_true_iff. tauto. }
  destruct (first_err (schema_checks e r)).
  - rewrite H. split; [intros [c Hc]; discriminate|]. intro Hc. apply HI in Hc. discriminate.
  - split; intro; [apply HI; reflexivity | exact H].
Qed.

(* ---------- every settings error is an ariadne-codegen configuration exception ---------- *)
Definition config_exn (x : exn) : bool :=
  match x with MissingConfiguration | InvalidConfiguration => true | _ => false end.

Lemma base_checks_cls e b x : In (Some x) (base_checks e b) -> config_exn (x_cls x) = true.
Proof.
  unfold base_checks, headers_err, assert_path_exists. simpl.
  intros [H|[H|[H|[]]]].
  - destruct (_ && _); inversion H; reflexivity.
  - destruct (String.eqb _ _); [discriminate|]. destruct (p_exists _ _); inversion H; reflexivity.
  - destruct (resolve_headers e (b_headers b)) eqn:E; inversion H; subst.
    rewrite (resolve_headers_err_cls _ _ _ E). reflexivity.
Qed.

Lemma assert_identifier_cls n x : assert_identifier n = Some x -> config_exn (x_cls x) = true.
Proof. unfold assert_identifier. destruct (_ || _); intro H; inversion H; reflexivity. Qed.
Lemma assert_file_cls e p x : assert_path_is_valid_file e p = Some x -> config_exn (x_cls x) = true.
Proof. unfold assert_path_is_valid_file. destruct (p_is_file _ _); intro H; inversion H; reflexivity. Qed.

Lemma client_asserts_cls e r x : In (Some x) (client_asserts e r) -> config_exn (x_cls x) = true.
Proof.
  unfold client_asserts. destruct (base_client_of e r) as [bp bn]. intro H.
  apply in_app_or in H as [H|H].
  - simpl in H.
    repeat (destruct H as [H|H]; [try (eapply assert_identifier_cls; eassumption);
                                   try (eapply assert_file_cls; eassumption) | ]); try contradiction.
    + unfold assert_path_exists in H. destruct (p_exists _ _); inversion H; reflexivity.
    + unfold assert_path_is_valid_directory in H. destruct (p_is_dir _ _); inversion H; reflexivity.
    + unfold assert_path_exists in H. destruct (p_exists _ _); inversion H; reflexivity.
    + unfold assert_class_is_defined_in_file, p_read, p_is_file in H.
      destruct (path_kind e bp); try discriminate.
      destruct (contains _ _); inversion H; reflexivity.
  - apply in_map_iff in H as (p & Hp & _). eapply assert_file_cls; eauto.
Qed.

Theorem client_post_init_err_cls e r sc x :
  client_post_init e r sc = Err x -> config_exn (x_cls x) = true.
Proof.
  intro H. pose proof (client_post_init_first_err e r sc) as HF.
  destruct (first_err (client_checks e r)) eqn:E.
  - rewrite HF in H. inversion H; subst. apply first_err_in in E.
    unfold client_checks in E. apply in_app_or in E as [E|E].
    + simpl in E. destruct E as [E|[]]. destruct (_ && _); inversion E; reflexivity.
    + apply in_app_or in E as [E|E]; [eapply base_checks_cls; eauto|].
      apply in_app_or in E as [E|E]; [|eapply client_asserts_cls; eauto].
      simpl in E. destruct E as [E|[]]. destruct (valid_comment _); inversion E; reflexivity.
  - destruct HF as [c Hc]. congruence.
Qed.

Lemma schema_target_cls f x : assert_schema_target_filename f = Some x -> config_exn (x_cls x) = true.
Proof.
  unfold assert_schema_target_filename. destruct (String.eqb (path_suffix f) "").
  - intro H; inversion H; reflexivity.
  - destruct (_ || _); intro H; inversion H; reflexivity.
Qed.

Theorem schema_post_init_err_cls e r x :
  schema_post_init e r = Err x -> config_exn (x_cls x) = true.
Proof.
  intro H. pose proof (schema_post_init_first_err e r) as HF.
  destruct (first_err (schema_checks e r)) eqn:E.
  - rewrite HF in H. inversion H; subst. apply first_err_in in E.
    unfold schema_checks in E. apply in_app_or in E as [E|E]; [eapply base_checks_cls; eauto|].
    simpl in E. destruct E as [E|[E|[E|[E|[E|[E|[]]]]]]].
    + eapply schema_target_cls; eauto.
    + eapply assert_identifier_cls; eauto.
    + eapply assert_identifier_cls; eauto.
    + unfold assert_not_reserved in E. destruct (is_reserved_var _); inversion E; reflexivity.
    + unfold assert_not_reserved in E. destruct (is_reserved_var _); inversion E; reflexivity.
    + unfold assert_names_differ in E. destruct (String.eqb _ _); inversion E; reflexivity.
  - destruct HF as [c Hc]. congruence.
Qed.

Lemma get_section_err_cls cfg x : get_section cfg = Err x -> config_exn (x_cls x) = true.
Proof.
  unfold get_section, missing. destruct cfg; try discriminate.
  assert (forall y, match jlookup "ariadne-codegen" kv with
                    | Some (JObj s) => Ok (SecDeprecated, s) | Some _ => Ill
                    | None => Err (mkerr MissingConfiguration msg_no_section) end = Err y ->
                    config_exn (x_cls y) = true) as HL.
  { intros y. destruct (jlookup "ariadne-codegen" kv) as [[]|]; intro H; inversion H; reflexivity. }
  destruct (jlookup "tool" kv) as [[]|]; try discriminate; auto.
  destruct (jlookup "ariadne-codegen" kv0) as [[]|]; try discriminate; auto.
Qed.

Theorem get_client_settings_err_cls e cfg x :
  get_client_settings e cfg = Err x -> config_exn (x_cls x) = true.
Proof.
  unfold get_client_settings, client_of_section, missing.
  destruct (get_section cfg) as [[src kv]| |] eqn:S; try discriminate.
  - destruct (section_scalars kv); try discriminate.
    + destruct (decode_client kv); try discriminate. apply client_post_init_err_cls.
    + intro H; inversion H; reflexivity.
  - intro H; inversion H; subst. eapply get_section_err_cls; eauto.
Qed.

Theorem get_schema_settings_err_cls e cfg x :
  get_graphql_schema_settings e cfg = Err x -> config_exn (x_cls x) = true.
Proof.
  unfold get_graphql_schema_settings, schema_of_section.
  destruct (get_section cfg) as [[src kv]| |] eqn:S; try discriminate.
  - destruct (decode_schema kv); try discriminate. apply schema_post_init_err_cls.
  - intro H; inversion H; subst. eapply get_section_err_cls; eauto.
Qed.

(* ---------- unknown keys ---------- *)
Lemma jlookup_insert k' k v kv1 kv2 : String.eqb k' k = false ->
  jlookup k' (kv1 ++ (k, v) :: kv2) = jlookup k' (kv1 ++ kv2).
Proof.
  intro H. induction kv1 as [|[a b] kv1 IH]; simpl.
  - rewrite H. reflexivity.
  - destruct (String.eqb k' a); auto.
Qed.

Lemma unknown_neq names k k' : is_known names k = false -> In k' names -> String.eqb k' k = false.
Proof.
  unfold is_known. intros H Hin. destruct (String.eqb k' k) eqn:E; auto.
  apply String.eqb_eq in E. subst.
  assert (existsb (String.eqb k) names = true) as HT.
  { apply existsb_exists. exists k. split; auto. apply String.eqb_refl. }
  congruence.
Qed.

Ltac skip_unknown H :=
  repeat match goal with
  | |- context [jlookup ?key (?a ++ (?k, ?v) :: ?b)] =>
      rewrite (jlookup_insert key k v a b) by (apply (unknown_neq _ _ _ H); simpl; tauto)
  end.

Theorem client_unknown_key_ignored e kv1 kv2 k v : is_known client_field_names k = false ->
  client_of_section e (kv1 ++ (k, v) :: kv2) = client_of_section e (kv1 ++ kv2).
Proof.
  intro H.
  unfold client_of_section, section_scalars, decode_client, decode_base, section_comments,
    get_str, get_bool, get_strlist, get_strdict, get_optpath.
  skip_unknown H. reflexivity.
Qed.

Theorem schema_unknown_key_ignored e kv1 kv2 k v : is_known schema_field_names k = false ->
  schema_of_section e (kv1 ++ (k, v) :: kv2) = schema_of_section e (kv1 ++ kv2).
Proof.
  intro H.
  unfold schema_of_section, decode_schema, decode_base, get_str, get_bool, get_strlist, get_strdict.
  skip_unknown H. reflexivity.
Qed.

(* keys of the configuration file outside the section (other tools, [project], ...) *)
Theorem get_section_other_top_key top1 top2 k v :
  String.eqb "tool" k = false -> String.eqb "ariadne-codegen" k = false ->
  get_section (JObj (top1 ++ (k, v) :: top2)) = get_section (JObj (top1 ++ top2)).
Proof.
  intros H1 H2. unfold get_section. rewrite !jlookup_insert by assumption. reflexivity.
Qed.

(* ---------- the caller's dictionary ---------- *)
Theorem config_after_client_copy cfg : config_after_client true cfg = cfg.
Proof. reflexivity. Qed.
Theorem config_after_schema_id cfg : config_after_schema cfg = cfg.
Proof. reflexivity. Qed.

(* ---------- statements at the level of the configuration dictionary ---------- *)
Theorem client_first_error_reported e r sc pre x post :
  client_checks e r = pre ++ Some x :: post -> Forall (fun o => o = None) pre ->
  client_post_init e r sc = Err x.
Proof.
  intros H HP. pose proof (client_post_init_first_err e r sc) as HF.
  assert (first_err (client_checks e r) = Some x) as E by (apply first_err_split; eauto).
  rewrite E in HF. exact HF.
Qed.

Theorem schema_first_error_reported e r pre x post :
  schema_checks e r = pre ++ Some x :: post -> Forall (fun o => o = None) pre ->
  schema_post_init e r = Err x.
Proof.
  intros H HP. pose proof (schema_post_init_first_err e r) as HF.
  assert (first_err (schema_checks e r) = Some x) as E by (apply first_err_split; eauto).
  rewrite E in HF. exact HF.
Qed.

Theorem get_client_settings_accept_iff e cfg src kv r sc :
  get_section cfg = Ok (src, kv) -> section_scalars kv = ScOk sc -> decode_client kv = Some r ->
  ((exists c, get_client_settings e cfg = Ok c) <-> all_hold (client_constraints e r) = true).
Proof.
  intros H1 H2 H3. unfold get_client_settings, client_of_section. rewrite H1, H2, H3.
  apply client_accept_iff_enforced.
Qed.

Theorem get_schema_settings_accept_iff e cfg src kv r :
  get_section cfg = Ok (src, kv) -> decode_schema kv = Some r ->
  ((exists g, get_graphql_schema_settings e cfg = Ok g) <-> all_hold (schema_constraints e r) = true).
Proof.
  intros H1 H2. unfold get_graphql_schema_settings, schema_of_section. rewrite H1, H2.
  apply schema_accept_iff_enforced.
Qed.

(* a scalar without `type` is refused before anything else is looked at *)
Theorem scalar_without_type_refused e cfg src kv :
  get_section cfg = Ok (src, kv) -> section_scalars kv = ScMissingType ->
  get_client_settings e cfg = Err (mkerr MissingConfiguration msg_no_type).
Proof. intros H1 H2. unfold get_client_settings, client_of_section. rewrite H1, H2. reflexivity. Qed.

(* ---------- the reported error belongs to a constraint that is actually violated ---------- *)
Lemma client_check_rows_checks e r : map snd (client_check_rows e r) = client_checks e r.
Proof.
  unfold client_check_rows, client_checks, client_asserts, base_check_rows.
  destruct (base_client_of e r) as [bp bn]. rewrite !map_app, map_map. simpl. reflexivity.
Qed.
Lemma schema_check_rows_checks e r : map snd (schema_check_rows e r) = schema_checks e r.
Proof. unfold schema_check_rows, schema_checks, base_check_rows. rewrite map_app. reflexivity. Qed.

Ltac pick := repeat (first [left; reflexivity | right]).

Lemma base_rows_violated e b id x : In (id, Some x) (base_check_rows e b) -> In (id, false) (base_constraints e b).
Proof.
  unfold base_check_rows, base_checks, base_constraints. simpl.
  intros [H|[H|[H|[]]]]; inversion H; subst; clear H.
  - destruct (String.eqb (b_schema_path b) "" && String.eqb (b_url b) "") eqn:E; [|discriminate].
    simpl. pick.
  - destruct (String.eqb (b_schema_path b) "") eqn:E; [discriminate|].
    unfold assert_path_exists in H2. destruct (p_exists e (b_schema_path b)) eqn:P; [discriminate|].
    simpl. pick.
  - destruct (headers_resolvable e (b_headers b)) eqn:R.
    + apply headers_err_none_iff in R. congruence.
    + pick.
Qed.

Lemma assert_identifier_some n x : assert_identifier n = Some x -> usable_name n = false.
Proof.
  intro H. destruct (usable_name n) eqn:U; auto. apply assert_identifier_none in U. congruence.
Qed.

Theorem client_rows_violated e r id x :
  In (id, Some x) (client_check_rows e r) -> In (id, false) (client_constraints e r).
Proof.
  unfold client_check_rows, client_constraints. destruct (base_client_of e r) as [bp bn].
  intro H. apply in_app_or in H as [H|H].
  { simpl in H. destruct H as [H|[]]. inversion H; subst; clear H.
    destruct (String.eqb (r_queries_path r) "" && negb (b_custom_ops (r_base r))); [|discriminate].
    simpl. left. reflexivity. }
  apply in_or_app. right.
  apply in_app_or in H as [H|H].
  { apply in_or_app. left. eapply base_rows_violated; eauto. }
  apply in_or_app. right.
  apply in_app_or in H as [H|H].
  - simpl in H.
    repeat (destruct H as [H|H]; [inversion H; subst; clear H|]); try contradiction.
    + destruct (valid_comment (r_comments r)); [discriminate|]. pick.
    + unfold assert_path_exists in *. destruct (p_exists e (r_queries_path r)); [discriminate|]. pick.
    + rewrite (assert_identifier_some _ _ H2). pick.
    + unfold assert_path_is_valid_directory in *. destruct (p_is_dir e (pkg_path_of e r)); [discriminate|]. pick.
    + rewrite (assert_identifier_some _ _ H2). pick.
    + rewrite (assert_identifier_some _ _ H2). pick.
    + rewrite (assert_identifier_some _ _ H2). pick.
    + unfold assert_path_exists in *. destruct (p_exists e bp) eqn:P; [discriminate|].
      assert (p_is_file e bp = false) as -> by (destruct (p_is_file e bp) eqn:F; auto; apply is_file_exists in F; congruence).
      pick.
    + unfold assert_path_is_valid_file in *. destruct (p_is_file e bp); [discriminate|]. pick.
    + destruct (p_is_file e bp) eqn:F; [|discriminate].
      unfold assert_class_is_defined_in_file, class_defined, p_read, p_is_file in *.
      destruct (path_kind e bp); try discriminate.
      destruct (contains _ content); [discriminate|]. simpl. pick.
    + rewrite (assert_identifier_some _ _ H2). pick.
    + rewrite (assert_identifier_some _ _ H2). pick.
    + rewrite (assert_identifier_some _ _ H2). pick.
  - apply in_map_iff in H as (p & Hp & Hin). inversion Hp; subst; clear Hp.
    unfold assert_path_is_valid_file in *. destruct (p_is_file e p) eqn:F; [discriminate|].
    assert (forallb (p_is_file e) (r_files r) = false) as ->.
    { destruct (forallb (p_is_file e) (r_files r)) eqn:FA; auto.
      rewrite forallb_forall in FA. rewrite (FA _ Hin) in F. discriminate. }
    pick.
Qed.

Theorem schema_rows_violated e r id x :
  In (id, Some x) (schema_check_rows e r) -> In (id, false) (schema_constraints e r).
Proof.
  unfold schema_check_rows, schema_constraints. intro H. apply in_app_or in H as [H|H].
  { apply in_or_app. left. eapply base_rows_violated; eauto. }
  apply in_or_app. right. unfold schema_asserts in H. simpl in H.
  repeat (destruct H as [H|H]; [inversion H; subst; clear H|]); try contradiction.
  - rewrite H2. pick.
  - rewrite (assert_identifier_some _ _ H2). pick.
  - rewrite (assert_identifier_some _ _ H2). pick.
  - unfold assert_not_reserved in *. destruct (is_reserved_var (gr_schema_var r)); [|discriminate]. simpl. pick.
  - unfold assert_not_reserved in *. destruct (is_reserved_var (gr_type_map_var r)); [|discriminate]. simpl. pick.
  - unfold assert_names_differ in *. destruct (String.eqb _ _); [|discriminate]. simpl. pick.
Qed.

Lemma in_map_snd {X Y} (l : list (X * Y)) y : In y (map snd l) -> exists x, In (x, y) l.
Proof. intro H. apply in_map_iff in H as ([a b] & <- & Hin). eauto. Qed.

(* the error that is raised names a row of the documented table that is false: no spurious reasons *)
Theorem client_error_names_violated_constraint e r sc x :
  client_post_init e r sc = Err x ->
  exists id, In (id, Some x) (client_check_rows e r) /\ In (id, false) (client_constraints e r).
Proof.
  intro H. pose proof (client_post_init_first_err e r sc) as HF.
  destruct (first_err (client_checks e r)) eqn:E.
  - rewrite HF in H. inversion H; subst. apply first_err_in in E.
    rewrite <- client_check_rows_checks in E. apply in_map_snd in E as [id Hin].
    exists id. split; auto. eapply client_rows_violated; eauto.
  - destruct HF as [c Hc]. congruence.
Qed.

Theorem schema_error_names_violated_constraint e r x :
  schema_post_init e r = Err x ->
  exists id, In (id, Some x) (schema_check_rows e r) /\ In (id, false) (schema_constraints e r).
Proof.
  intro H. pose proof (schema_post_init_first_err e r) as HF.
  destruct (first_err (schema_checks e r)) eqn:E.
  - rewrite HF in H. inversion H; subst. apply first_err_in in E.
    rewrite <- schema_check_rows_checks in E. apply in_map_snd in E as [id Hin].
    exists id. split; auto. eapply schema_rows_violated; eauto.
  - destruct HF as [c Hc]. congruence.
Qed.

(* ---------- header substitution ---------- *)
Lemma resolve_headers_keys e h h' : resolve_headers e h = Ok h' -> map fst h' = map fst h.
Proof.
  revert h'. induction h as [|[k v] h IH]; simpl; intros h' H.
  - inversion H; reflexivity.
  - destruct (get_header_value e v); try discriminate.
    destruct (resolve_headers e h); try discriminate. inversion H; subst. simpl. f_equal. auto.
Qed.

Definition starts_dollar (v : string) : bool :=
  match s2l v with c :: _ => is_dollar c | [] => false end.

(* a value is passed through unless it starts with '$'; then it is the (non-empty) value of the
   environment variable named by what follows the leading '$' characters *)
Lemma header_value_spec e v v' : get_header_value e v = Ok v' ->
  if starts_dollar v
  then v' <> "" /\ getenv e (l2s (drop_while is_dollar (s2l v))) = Some v'
  else v' = v.
Proof.
  unfold get_header_value, starts_dollar, invalid.
  remember (l2s (drop_while is_dollar (s2l v))) as name.
  destruct (s2l v) as [|c l].
  - intro H. inversion H. reflexivity.
  - destruct (is_dollar c).
    + destruct (getenv e name) as [val|]; [|discriminate].
      destruct (String.eqb val "") eqn:Z; [discriminate|]. intro H. inversion H; subst v'.
      split; auto. intro Hs. subst val. discriminate.
    + intro H. inversion H. reflexivity.
Qed.

(* ---------- include_comments is a closed set of values ---------- *)
Lemma int_never_comment_mode z : valid_comment (z_to_string z) = false.
Proof.
  unfold valid_comment, z_to_string. destruct (Z.to_int z) as [d|d]; destruct d; reflexivity.
Qed.

Theorem comment_mode_closed_set kv r v :
  decode_client kv = Some r -> jlookup "include_comments" kv = Some v ->
  valid_comment (r_comments r) = true ->
  (exists s, v = JStr s /\ valid_comment s = true) \/ (exists b, v = JBool b) \/
  (exists l, v = JFloat l /\ valid_comment l = true).
Proof.
  unfold decode_client. intros HD HL.
  destruct (decode_base kv); [|discriminate].
  repeat (match type of HD with (match ?x with Some _ => _ | None => None end) = _ =>
            destruct x eqn:?; [|discriminate] end).
  inversion HD; subst; clear HD. simpl.
  match goal with H : section_comments kv = Some _ |- _ => unfold section_comments in H; rewrite HL in H end.
  destruct v; match goal with H : Some _ = Some _ |- _ => inversion H; subst; clear H end; simpl; intro HV.
  - discriminate.
  - right. left. eauto.
  - rewrite int_never_comment_mode in HV. discriminate.
  - right. right. eauto.
  - left. eauto.
  - discriminate.
  - discriminate.
Qed.
