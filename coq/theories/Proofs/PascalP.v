(* Proofs about Model/Names.v pascal (utils.str_to_pascal_case): the class name of an operation
   (package.py add_operation: return_type_name = str_to_pascal_case(name.value)). *)
From Coq Require Import List String Ascii Bool Arith.
From AC Require Import Base.Strs Model.Names Proofs.NamesP.
Import ListNotations.

Lemma upper_char_facts c : is_us c = false ->
  is_us (to_upper c) = false /\ is_alnum (to_upper c) = is_alnum c /\
  to_lower (to_upper c) = to_lower c /\ to_upper (to_upper c) = to_upper c /\
  is_digit (to_upper c) = is_digit c /\ is_name_char (to_upper c) = is_name_char c.
Proof. ascii_cases c; intros; repeat split; auto. Qed.

Lemma us_facts c : is_us c = true -> is_alnum c = false.
Proof. ascii_cases c. Qed.

(* no underscore survives *)
Lemma pascal_go_no_us st l : forallb (fun c => negb (is_us c)) (pascal_go st l) = true.
Proof.
  revert st; induction l as [|c r IH]; intro st; [reflexivity|].
  cbn [pascal_go]. destruct (is_us c) eqn:Hu; [apply IH|].
  cbn [forallb]. rewrite IH, andb_true_r.
  destruct st; [|rewrite Hu; reflexivity].
  destruct (upper_char_facts c Hu) as [H _]. rewrite H. reflexivity.
Qed.

Lemma pascal_no_us n : forallb (fun c => negb (is_us c)) (pascal n) = true.
Proof. apply pascal_go_no_us. Qed.

(* every letter and digit kept, in order, case-folded *)
Lemma pascal_go_alnum st l :
  map to_lower (filter is_alnum (pascal_go st l)) = map to_lower (filter is_alnum l).
Proof.
  revert st; induction l as [|c r IH]; intro st; [reflexivity|].
  cbn [pascal_go]. destruct (is_us c) eqn:Hu.
  - cbn [filter]. rewrite (us_facts c Hu). apply IH.
  - destruct (upper_char_facts c Hu) as (_ & Ha & Hl & _).
    destruct st; cbn [filter].
    + rewrite Ha. destruct (is_alnum c); cbn [map]; rewrite ?Hl, IH; reflexivity.
    + destruct (is_alnum c); cbn [map]; rewrite IH; reflexivity.
Qed.

Lemma pascal_alnum_preserved n :
  map to_lower (filter is_alnum (pascal n)) = map to_lower (filter is_alnum n).
Proof. apply pascal_go_alnum. Qed.

(* on a string without underscores only the first character can change *)
Lemma pascal_go_false_id l : forallb (fun c => negb (is_us c)) l = true -> pascal_go false l = l.
Proof.
  induction l as [|c r IH]; [reflexivity|]. cbn [forallb pascal_go]. intro H.
  apply andb_true_iff in H as [Hc Hr]. apply negb_true_iff in Hc. rewrite Hc, (IH Hr). reflexivity.
Qed.

Lemma pascal_go_split st l :
  pascal_go st l = match pascal_go st l with [] => [] | c :: r => c :: r end.
Proof. destruct (pascal_go st l); reflexivity. Qed.

Lemma pascal_go_true_head l c r : pascal_go true l = c :: r -> to_upper c = c /\ is_us c = false.
Proof.
  induction l as [|x xs IH]; [discriminate|]. cbn [pascal_go].
  destruct (is_us x) eqn:Hu; [exact IH|]. intro H. injection H as <- _.
  destruct (upper_char_facts x Hu) as (H1 & _ & _ & H4 & _). split; assumption.
Qed.

Theorem pascal_idempotent n : pascal (pascal n) = pascal n.
Proof.
  unfold pascal. pose proof (pascal_go_no_us true n) as N.
  destruct (pascal_go true n) as [|c r] eqn:E; [reflexivity|].
  destruct (pascal_go_true_head _ _ _ E) as [Hup Hu].
  cbn [forallb] in N. apply andb_true_iff in N as [_ Nr].
  cbn [pascal_go]. rewrite Hu, Hup, (pascal_go_false_id r Nr). reflexivity.
Qed.

(* name characters stay name characters *)
Lemma pascal_go_name_chars st l : forallb is_name_char l = true -> forallb is_name_char (pascal_go st l) = true.
Proof.
  revert st; induction l as [|c r IH]; intro st; [reflexivity|].
  cbn [forallb pascal_go]. intro H. apply andb_true_iff in H as [Hc Hr].
  destruct (is_us c) eqn:Hu; [apply IH, Hr|].
  cbn [forallb]. rewrite (IH false Hr), andb_true_r.
  destruct st; [|exact Hc].
  destruct (upper_char_facts c Hu) as (_ & _ & _ & _ & _ & H6). rewrite H6. exact Hc.
Qed.

(* first character of the result: the first non-underscore character of the name, upper-cased *)
Lemma pascal_go_true_first l :
  pascal_go true l = match drop_while is_us l with
                     | [] => []
                     | c :: r => to_upper c :: pascal_go false r end.
Proof.
  induction l as [|c r IH]; [reflexivity|]. cbn [pascal_go drop_while].
  destruct (is_us c) eqn:Hu; [exact IH| reflexivity].
Qed.

Lemma first_alnum_digit_dw l : forallb is_name_char l = true ->
  first_alnum_is_digit l = match drop_while is_us l with c :: _ => is_digit c | [] => false end.
Proof.
  induction l as [|c r IH]; [reflexivity|]. cbn [forallb first_alnum_is_digit drop_while]. intro H.
  apply andb_true_iff in H as [Hc Hr].
  destruct (is_us c) eqn:Hu.
  - rewrite (us_facts c Hu). apply IH, Hr.
  - unfold is_name_char in Hc. rewrite Hu, orb_false_r in Hc. rewrite Hc. reflexivity.
Qed.

(* a valid class name exactly when the name has a letter or digit and the first of them is no digit *)
Theorem pascal_identifier n : gql_name n = true -> all_us n = false -> first_alnum_is_digit n = false ->
  py_identifier (pascal n) = true.
Proof.
  unfold py_identifier, gql_name, pascal. intros G A F.
  destruct n as [|c0 r0]; [discriminate|]. apply andb_true_iff in G as [_ G].
  pose proof (pascal_go_name_chars true _ G) as NC.
  rewrite (first_alnum_digit_dw _ G) in F.
  rewrite pascal_go_true_first in *.
  destruct (drop_while is_us (c0 :: r0)) as [|c r] eqn:E.
  - exfalso. clear - E A. unfold all_us in A.
    assert (H : forall l, drop_while is_us l = [] -> forallb is_us l = true).
    { induction l as [|x xs IH]; [reflexivity|]. cbn [drop_while forallb].
      destruct (is_us x); [exact IH | discriminate]. }
    rewrite (H _ E) in A. discriminate.
  - rewrite NC, andb_true_r.
    assert (Hu : is_us c = false).
    { clear - E. assert (H : forall l d t, drop_while is_us l = d :: t -> is_us d = false).
      { induction l as [|x xs IH]; [discriminate|]. cbn [drop_while]. intros d t.
        destruct (is_us x) eqn:Hx; [apply IH|]. intro H. injection H as <- _. exact Hx. }
      exact (H _ _ _ E). }
    destruct (upper_char_facts c Hu) as (_ & _ & _ & _ & H5 & _). rewrite H5, F. reflexivity.
Qed.

(* two names share a class name only when they agree up to case and underscores *)
Corollary pascal_merge_only_case_us a b : pascal a = pascal b ->
  map to_lower (filter is_alnum a) = map to_lower (filter is_alnum b).
Proof. intro H. rewrite <- (pascal_alnum_preserved a), <- (pascal_alnum_preserved b), H. reflexivity. Qed.
