(* The generated module is closed: every global name it reads is the type-map variable or a name that
   the (pruned) import list still binds; and every import kept is read (or rebound) by the module. *)
From Coq Require Import List String Ascii ZArith Bool Arith Lia.
From AC Require Import Base.Strs Base.Sexp Model.PyRepr Proofs.PyReprP Model.SchemaGen.
Import ListNotations.
Local Open Scope string_scope.
Local Open Scope list_scope.

Section Closed.
  Variable tm : chars.
  Definition okn (n : chars) : Prop := n = tm \/ In n BUILTIN_NAMES.
  Definition closed (e : pyexpr) : Prop := Forall okn (names_of e).

  Ltac builtin := right; vm_compute; repeat (first [left; reflexivity | right]).

  Lemma closed_const s : closed (EConst s).
  Proof. constructor. Qed.
  Lemma closed_name n : okn n -> closed (EName n).
  Proof. intro H. constructor; [exact H|constructor]. Qed.
  Lemma closed_lambda b : closed b -> closed (ELambda b).
  Proof. auto. Qed.
  Lemma closed_attr e a : closed e -> closed (EAttr e a).
  Proof. auto. Qed.
  Lemma closed_sub e k : closed e -> closed k -> closed (ESub e k).
  Proof. intros A B. unfold closed. simpl. apply Forall_app; auto. Qed.

  Lemma closed_flat l : Forall closed l -> Forall okn (flat_map names_of l).
  Proof.
    induction 1; simpl; [constructor|]. apply Forall_app; auto.
  Qed.
  Lemma closed_list l : Forall closed l -> closed (EList l).
  Proof. apply closed_flat. Qed.
  Lemma closed_tuple l : Forall closed l -> closed (ETuple l).
  Proof. apply closed_flat. Qed.

  Lemma closed_dict kv : Forall (fun p => closed (fst p) /\ closed (snd p)) kv -> closed (EDict kv).
  Proof.
    unfold closed. cbn [names_of]. induction 1 as [|[k x] r [A B] _ IH]; [constructor|].
    cbn [fst snd] in *. apply Forall_app; split; [exact A|]. apply Forall_app; split; [exact B|exact IH].
  Qed.

  Lemma closed_ecall f args kws : closed f -> Forall closed args ->
    Forall (fun p : chars * pyexpr => closed (snd p)) kws -> closed (ECall f args kws).
  Proof.
    intros A B C. unfold closed. cbn [names_of]. apply Forall_app; split; [exact A|].
    apply Forall_app; split; [apply closed_flat; exact B|].
    induction C as [|[k x] r Hx _ IH]; [constructor|]. cbn [snd] in Hx. apply Forall_app; split; assumption.
  Qed.

  Lemma closed_call f args kws : In (s2l f) BUILTIN_NAMES -> Forall closed args ->
    Forall (fun p : string * pyexpr => closed (snd p)) kws -> closed (call f args kws).
  Proof.
    intros A B C. unfold call. apply closed_ecall; [apply closed_name; right; exact A|exact B|].
    induction C; constructor; auto.
  Qed.

  Lemma closed_e_str s : closed (e_str s). Proof. apply closed_const. Qed.
  Lemma closed_e_optstr o : closed (e_optstr o). Proof. destruct o; apply closed_const. Qed.
  Lemma closed_e_bool b : closed (e_bool b). Proof. apply closed_const. Qed.
  Lemma closed_e_val v : closed (e_val v). Proof. apply closed_const. Qed.

  Lemma closed_gen_dv v : closed (gen_dv v).
  Proof.
    induction v using pyval_ind2; try apply closed_const.
    - change (gen_dv (PList l)) with (EList (map gen_dv l)). apply closed_list.
      induction H; constructor; auto.
    - cbn [gen_dv]. apply closed_dict.
      induction H as [|[k x] r Hx _ IH]; constructor; auto. split; [apply closed_e_str|exact Hx].
  Qed.

  Lemma closed_e_default d : closed (e_default d).
  Proof. destruct d; [apply closed_gen_dv|]. apply closed_name. builtin. Qed.

  Lemma closed_tm_get n : closed (tm_get tm n).
  Proof. apply closed_sub; [apply closed_name; left; reflexivity|apply closed_e_str]. Qed.

  Lemma class_builtin d : In (class_of d) BUILTIN_NAMES.
  Proof. destruct d; vm_compute; repeat (first [left; reflexivity | right]). Qed.

  Lemma closed_cast_ref U n : closed (cast_ref U tm n).
  Proof.
    unfold cast_ref. apply closed_call; [vm_compute; repeat (first [left; reflexivity | right])| |constructor].
    constructor; [|constructor; [apply closed_tm_get|constructor]].
    apply closed_name. right. destruct (find_type U n); [apply class_builtin|].
    vm_compute; repeat (first [left; reflexivity | right]).
  Qed.

  Lemma std_const_builtin n c : std_const n = Some c -> In c BUILTIN_NAMES.
  Proof.
    unfold std_const, STANDARD_SCALARS. cbn [map fst snd assoc]. intro H.
    repeat match type of H with
    | (if chars_eqb n ?k then _ else _) = _ =>
        destruct (chars_eqb n k);
        [injection H as <-; vm_compute; repeat (first [left; reflexivity | right])|]
    end.
    discriminate H.
  Qed.

  Lemma closed_named_ref U n : closed (gen_named_ref U tm n).
  Proof.
    unfold gen_named_ref. destruct (std_const n) eqn:E; [|apply closed_cast_ref].
    apply closed_name. right. eapply std_const_builtin; eauto.
  Qed.

  Lemma closed_gen_type U t : closed (gen_type U tm t).
  Proof.
    induction t; cbn [gen_type]; [apply closed_named_ref| |];
      (apply closed_call; [vm_compute; repeat (first [left; reflexivity | right])|constructor; auto|constructor]).
  Qed.

  Ltac kws := repeat (constructor; cbn [snd]);
    auto using closed_e_str, closed_e_optstr, closed_e_bool, closed_e_val, closed_e_default.

  Lemma closed_gen_arg cls U a : In (s2l cls) BUILTIN_NAMES -> closed (gen_arg cls U tm a).
  Proof.
    intro H. unfold gen_arg. apply closed_call; [exact H|constructor; [apply closed_gen_type|constructor]|kws].
  Qed.

  Lemma closed_entries {X} (key : X -> chars) (val : X -> pyexpr) l :
    (forall x, closed (val x)) -> closed (EDict (map (fun x => (e_str (key x), val x)) l)).
  Proof.
    intro H. apply closed_dict. induction l; constructor; auto. split; [apply closed_e_str|apply H].
  Qed.

  Lemma closed_gen_args U l : closed (gen_args U tm l).
  Proof.
    unfold gen_args, mk_dict. apply (closed_entries a_name). intro a. apply closed_gen_arg.
    vm_compute; repeat (first [left; reflexivity | right]).
  Qed.

  Lemma closed_gen_field U f : closed (gen_field U tm f).
  Proof.
    unfold gen_field. apply closed_call;
      [vm_compute; repeat (first [left; reflexivity | right])|constructor; [apply closed_gen_type|constructor]|].
    repeat (constructor; cbn [snd]); auto using closed_gen_args, closed_e_optstr.
  Qed.

  Lemma closed_field_map U fs : closed (gen_field_map U tm fs).
  Proof.
    unfold gen_field_map. destruct fs; [constructor|].
    apply closed_lambda. apply (closed_entries f_name). intro. apply closed_gen_field.
  Qed.

  Lemma closed_input_field_map U fs : closed (gen_input_field_map U tm fs).
  Proof.
    unfold gen_input_field_map. destruct fs; [constructor|].
    apply closed_lambda. apply (closed_entries a_name). intro. apply closed_gen_arg.
    vm_compute; repeat (first [left; reflexivity | right]).
  Qed.

  Lemma closed_type_list ann names : In (s2l ann) BUILTIN_NAMES -> closed (gen_type_list tm ann names).
  Proof.
    intro H. unfold gen_type_list. destruct names as [|n r]; [constructor|].
    apply closed_lambda. apply closed_call; [vm_compute; repeat (first [left; reflexivity | right])| |constructor].
    constructor; [apply closed_sub; apply closed_name; right; [|exact H];
                  vm_compute; repeat (first [left; reflexivity | right])|].
    constructor; [|constructor]. apply closed_list.
    induction (n :: r); constructor; auto. apply closed_tm_get.
  Qed.

  Lemma closed_enum_value v : closed (gen_enum_value v).
  Proof.
    unfold gen_enum_value. apply closed_call; [vm_compute; repeat (first [left; reflexivity | right])|constructor|kws].
  Qed.

  Lemma closed_named_type U t : closed (gen_named_type U tm t).
  Proof.
    unfold gen_named_type. destruct (t_def t);
      (apply closed_call; [vm_compute; repeat (first [left; reflexivity | right])|constructor|]);
      repeat (constructor; cbn [snd]);
      auto using closed_e_str, closed_e_optstr, closed_field_map, closed_input_field_map.
    all: try (apply closed_type_list; vm_compute; repeat (first [left; reflexivity | right])).
    unfold mk_dict. apply (closed_entries ev_name). apply closed_enum_value.
  Qed.

  Lemma closed_directive U d : closed (gen_directive U tm d).
  Proof.
    unfold gen_directive. apply closed_call; [vm_compute; repeat (first [left; reflexivity | right])|constructor|].
    repeat (constructor; cbn [snd]); auto using closed_e_str, closed_e_optstr, closed_e_bool.
    - apply closed_tuple. induction (d_locs d); constructor; auto.
      apply closed_attr. apply closed_name. right. vm_compute; repeat (first [left; reflexivity | right]).
    - destruct (d_args d); [apply closed_const|apply closed_gen_args].
  Qed.

  Lemma closed_type_map S : closed (gen_type_map S tm).
  Proof. unfold gen_type_map, mk_dict. apply (closed_entries t_name). intro. apply closed_named_type. Qed.

  Lemma closed_opt_ref U o : closed (gen_opt_ref U tm o).
  Proof. destruct o; [apply closed_cast_ref|apply closed_const]. Qed.

  Lemma closed_schema S : closed (gen_schema S tm).
  Proof.
    unfold gen_schema. apply closed_call; [vm_compute; repeat (first [left; reflexivity | right])|constructor|].
    repeat (constructor; cbn [snd]); auto using closed_opt_ref, closed_e_optstr.
    all: try (apply closed_ecall; [apply closed_attr; apply closed_name; left; reflexivity|constructor|constructor]).
    all: unfold mk_list; apply closed_list; induction (s_directives S); constructor; auto; apply closed_directive.
  Qed.
End Closed.

(* imports kept by autoflake = the declared ones that are used; a used declared name is therefore bound *)
Lemma kept_import used (I : list (chars * list chars)) n :
  In n (flat_map snd I) -> mem_chars n used = true ->
  In n (flat_map snd
          (filter (fun p => match snd p with [] => false | _ => true end)
             (map (fun p => (fst p, filter (fun x => mem_chars x used) (snd p))) I))).
Proof.
  induction I as [|[m ns] r IH]; simpl; [tauto|]. intros Hin Hu.
  apply in_app_or in Hin as [Hin|Hin].
  - assert (K : In n (filter (fun x => mem_chars x used) ns)) by (apply filter_In; auto).
    destruct (filter (fun x => mem_chars x used) ns) as [|c l] eqn:E; [destruct K|].
    cbn [filter snd flat_map]. change (In n ((c :: l) ++ flat_map snd
      (filter (fun p : chars * list chars => match snd p with [] => false | _ => true end)
         (map (fun p : chars * list chars => (fst p, filter (fun x => mem_chars x used) (snd p))) r)))).
    apply in_or_app. left. exact K.
  - destruct (filter (fun x => mem_chars x used) ns) as [|c l]; cbn [filter snd flat_map]; auto.
    change (In n ((c :: l) ++ flat_map snd
      (filter (fun p : chars * list chars => match snd p with [] => false | _ => true end)
         (map (fun p : chars * list chars => (fst p, filter (fun x => mem_chars x used) (snd p))) r)))).
    apply in_or_app. right. auto.
Qed.

Lemma reads_used S tm sn n : In n (reads (gen_module S tm sn)) ->
  mem_chars n (flat_map (fun a => as_target a :: as_ann a :: names_of (as_value a)) (m_body (gen_module S tm sn))) = true.
Proof.
  intro H. apply mem_chars_In. unfold reads in H. cbn [gen_module m_body] in *.
  apply in_flat_map in H as [a [Ha Hn]]. apply in_flat_map. exists a. split; [exact Ha|]. right. exact Hn.
Qed.

Theorem module_closed S tm sn n :
  In n (reads (gen_module S tm sn)) -> n = tm \/ In n (imported (gen_module S tm sn)).
Proof.
  intro H. assert (U := reads_used S tm sn n H).
  assert (O : okn tm n).
  { unfold reads in H. cbn [gen_module m_body flat_map as_ann as_value] in H.
    rewrite app_nil_r in H.
    destruct H as [H|H]; [right; subst; vm_compute; repeat (first [left; reflexivity | right])|].
    apply in_app_or in H as [H|H].
    - exact (proj1 (Forall_forall _ _) (closed_type_map tm S) n H).
    - destruct H as [H|H]; [right; subst; vm_compute; repeat (first [left; reflexivity | right])|].
      exact (proj1 (Forall_forall _ _) (closed_schema tm S) n H). }
  destruct O as [O|O]; [left; exact O|right].
  unfold imported. cbn [gen_module m_imports]. apply kept_import; [exact O|exact U].
Qed.

(* and nothing is imported that the module neither reads nor rebinds *)
Lemma kept_used used (I : list (chars * list chars)) n :
  In n (flat_map snd
          (filter (fun p => match snd p with [] => false | _ => true end)
             (map (fun p => (fst p, filter (fun x => mem_chars x used) (snd p))) I))) ->
  mem_chars n used = true.
Proof.
  intro H. apply in_flat_map in H as [[m ns] [Hp Hn]]. apply filter_In in Hp as [Hp _].
  apply in_map_iff in Hp as [[m' ns'] [E _]]. cbn [fst snd] in *. injection E as _ <-.
  apply filter_In in Hn as [_ Hn]. exact Hn.
Qed.

Definition body_of (S : fschema) (tm sn : chars) : list pyassign :=
  [ {| as_target := tm; as_ann := s2l "TypeMap"; as_value := gen_type_map S tm |};
    {| as_target := sn; as_ann := s2l "GraphQLSchema"; as_value := gen_schema S tm |} ].
Definition used_of (S : fschema) (tm sn : chars) : list chars :=
  flat_map (fun a => as_target a :: as_ann a :: names_of (as_value a)) (body_of S tm sn).

Lemma gen_module_shape S tm sn :
  gen_module S tm sn =
  {| m_imports := filter (fun p => match snd p with [] => false | _ => true end)
                    (map (fun p => (fst p, filter (fun n => mem_chars n (used_of S tm sn)) (snd p))) IMPORTS);
     m_body := body_of S tm sn |}.
Proof. reflexivity. Qed.

Theorem imports_all_used S tm sn n : In n (imported (gen_module S tm sn)) ->
  In n (tm :: sn :: reads (gen_module S tm sn)).
Proof.
  rewrite gen_module_shape. unfold imported, reads. cbn [m_imports m_body]. intro H.
  apply kept_used in H. apply mem_chars_In in H. unfold used_of in H.
  apply in_flat_map in H as [a [Ha Hn]].
  assert (R : forall x, In x (as_ann a :: names_of (as_value a)) ->
                        In x (flat_map (fun a => as_ann a :: names_of (as_value a)) (body_of S tm sn))).
  { intros x Hx. apply in_flat_map. exists a. split; assumption. }
  unfold body_of in Ha. destruct Ha as [Ha|[Ha|[]]]; subst a; cbn [as_target] in Hn.
  - destruct Hn as [<-|Hn]; [left; reflexivity|right; right; apply R; exact Hn].
  - destruct Hn as [<-|Hn]; [right; left; reflexivity|right; right; apply R; exact Hn].
Qed.
