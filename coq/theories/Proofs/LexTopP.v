(* C19 — text level: the definitions of a join of files are the definitions of the files *)
From Coq Require Import List String Ascii Bool Arith Lia.
From AC Require Import Base.Sexp Base.Strs Gql.Lex Model.TopLevel Model.LexTop Model.SchemaSrc Model.Loader
  Proofs.LexP Proofs.LexJoinP Proofs.TopLevelP.
Import ListNotations.
Local Open Scope list_scope.

Theorem doc_of_text_join texts dss :
  Forall2 (fun t ds => doc_of_text t = Some ds) texts dss ->
  doc_of_text (join_chars texts) = Some (List.concat dss).
Proof.
  intro H.
  assert (E : exists tss, Forall2 (fun t ts => tokens t = Some ts) texts tss /\
                          Forall2 (fun d ds => split_doc d = Some ds) (map (map abstract) tss) dss).
  { induction H as [|t ds texts dss Ht _ IH].
    - exists []. split; constructor.
    - destruct IH as [tss [H1 H2]]. unfold doc_of_text, toks_of_text in Ht.
      destruct (tokens t) as [ts|] eqn:Et; [|discriminate].
      exists (ts :: tss). split; constructor; assumption. }
  destruct E as [tss [H1 H2]]. unfold doc_of_text, toks_of_text.
  rewrite (tokens_join_all texts tss H1), concat_map. apply split_concat. exact H2.
Qed.

Theorem summaries_of_text_join texts sss :
  Forall2 (fun t ss => summaries_of_text t = Some ss) texts sss ->
  summaries_of_text (join_chars texts) = Some (List.concat sss).
Proof.
  intro H. unfold summaries_of_text in *.
  assert (E : exists dss, Forall2 (fun t ds => doc_of_text t = Some ds) texts dss /\ sss = map (map summary) dss).
  { induction H as [|t ss texts sss Ht _ IH].
    - exists []. split; constructor.
    - destruct IH as [dss [H1 H2]]. destruct (doc_of_text t) as [ds|] eqn:E; [|discriminate].
      simpl in Ht. inversion Ht; subst. exists (ds :: dss). split; [constructor; assumption | reflexivity]. }
  destruct E as [dss [H1 H2]]. rewrite (doc_of_text_join texts dss H1). simpl. subst sss.
  f_equal. rewrite concat_map. reflexivity.
Qed.

(* str.join of Model/Loader.v is join_chars *)
Lemma s2l_app a b : s2l (a ++ b)%string = s2l a ++ s2l b.
Proof. induction a as [|c a IH]; simpl; [reflexivity|]. unfold s2l in *. simpl. rewrite IH. reflexivity. Qed.

Lemma s2l_join_nl l : s2l (join_nl l) = join_chars (map s2l l).
Proof.
  induction l as [|t r IH]; [reflexivity|]. destruct r as [|t2 r]; [reflexivity|].
  change (join_nl (t :: t2 :: r)) with (t ++ String "010"%char (join_nl (t2 :: r)))%string.
  rewrite s2l_app. change (s2l (String "010"%char (join_nl (t2 :: r)))) with (lnl :: s2l (join_nl (t2 :: r))).
  rewrite IH. reflexivity.
Qed.

(* the loader: when every selected file is (as text) a type-system document, the loaded text is the
   document whose definitions are those of the files, in walk order *)
Theorem loaded_text_definitions tree dss :
  Forall2 (fun e ds => e_isdir e = false /\ e_defs e <> None /\ doc_of_text (s2l (e_text e)) = Some ds)
          (walk_sorted tree) dss ->
  exists text, load_dir tree = inr text /\ doc_of_text (s2l text) = Some (List.concat dss).
Proof.
  intro H. unfold load_dir.
  assert (R : read_all (walk_sorted tree) = inr (map e_text (walk_sorted tree))).
  { induction H as [|e ds es dss [Hd [He _]] _ IH]; [reflexivity|]. simpl. unfold read_file. rewrite Hd.
    destruct (e_defs e); [|contradiction]. rewrite IH. reflexivity. }
  rewrite R. eexists. split; [reflexivity|]. rewrite s2l_join_nl, map_map. apply doc_of_text_join.
  clear R. induction H as [|e ds es dss [_ [_ Ht]] _ IH]; constructor; assumption.
Qed.
