(* Agreement of the two models of ResultTypesGenerator._resolve_selection_set:
   Model/Fragments.v `resolve` (C08: bases + unpacked names) and Model/Results.v `resolve` (C01: field nodes +
   bases), on a shared encoding.  Whatever Fragments.resolve returns as the fragments used as base classes,
   Results.resolve returns the same list, for every selection set (nesting, conditions, fragment chains). *)
From Coq Require Import List String Bool Arith Lia.
From AC Require Gql.Schema Model.Results.
From AC Require Import Model.Prune Model.Fragments Proofs.PruneP.
Import ListNotations.

Module G := AC.Gql.Schema.
Module R := AC.Model.Results.

(* ---- the shared encoding: Fragments' abstract schema / documents as Gql.Schema values ---- *)
Definition tr_fields (fs : list (string * string)) : list (string * G.gtype) :=
  map (fun p => (fst p, G.TNamed (snd p))) fs.

Definition fields_of (sch : aschema) (t : string) : list (string * string) :=
  match lookup t (s_fields sch) with Some fs => fs | None => [] end.

Definition tr_kind (fs : list (string * string)) (k : tkind) : G.tdef :=
  match k with
  | KObj i => G.DObject i (tr_fields fs)
  | KIface i => G.DInterface i (tr_fields fs)
  | KUnion m => G.DUnion m
  | KLeaf => G.DScalar
  end.

Definition tr_schema (sch : aschema) : G.schema :=
  {| G.s_types := map (fun p => (fst p, tr_kind (fields_of sch (fst p)) (snd p))) (s_types sch);
     G.s_query := None; G.s_mutation := None; G.s_subscription := None |}.

Fixpoint tr_sel (s : sel) : G.sel :=
  match s with
  | SField al nm mx sub =>
      G.SField al nm false (map snd mx) (match sub with [] => None | _ => Some (map tr_sel sub) end)
  | SSpread fn c => G.SSpread fn c
  | SInline tc c sub => G.SInline (Some tc) c (map tr_sel sub)
  end.

Definition tr_frag (fd : fragdef) : G.fragdef :=
  {| G.fr_name := fr_name fd; G.fr_on := fr_on fd; G.fr_mixins := map snd (fr_mixins fd);
     G.fr_sel := map tr_sel (fr_sel fd) |}.

(* ---- component agreement ---- *)
Lemma lookup_type_tr sch t :
  G.lookup_type (tr_schema sch) t =
  match lookup t (s_types sch) with Some k => Some (tr_kind (fields_of sch t) k) | None => None end.
Proof.
  unfold G.lookup_type, tr_schema. simpl. induction (s_types sch) as [|[k v] r IH]; simpl; [reflexivity|].
  destruct (String.eqb t k) eqn:E; [apply String.eqb_eq in E; subst; reflexivity | exact IH].
Qed.

Lemma lookup_frag_tr frags n :
  G.lookup_frag (map tr_frag frags) n = option_map tr_frag (find_frag n frags).
Proof.
  unfold G.lookup_frag, find_frag. induction frags as [|h r IH]; simpl; [reflexivity|].
  destruct (String.eqb (fr_name h) n); [reflexivity | exact IH].
Qed.

Lemma existsb_inline_tr ss :
  existsb (fun s => match s with G.SInline _ _ _ => true | _ => false end) (map tr_sel ss) = existsb is_inline ss.
Proof. induction ss as [|s r IH]; simpl; [reflexivity|]. rewrite IH. destruct s; reflexivity. Qed.

Lemma unpack_tr sch fd root :
  R.unpack_fragment (tr_schema sch) (tr_frag fd) root = unpack_fragment sch fd root.
Proof.
  unfold R.unpack_fragment, unpack_fragment. simpl. rewrite lookup_type_tr, existsb_inline_tr.
  unfold is_union, kind_of. destruct (lookup (fr_on fd) (s_types sch)) as [[i|i|m|]|]; reflexivity.
Qed.

Lemma sub_type_tr sch a t : G.is_sub_type (tr_schema sch) a t = is_sub_type sch a t.
Proof.
  unfold G.is_sub_type, is_sub_type, ifaces_of, kind_of. rewrite !lookup_type_tr.
  destruct (lookup a (s_types sch)) as [[i|i|m|]|]; simpl; try reflexivity.
  destruct (lookup t (s_types sch)) as [[j|j|n|]|]; reflexivity.
Qed.

Lemma inline_root_tr sch tc root : R.inline_root_type (tr_schema sch) tc root = inline_root sch tc root.
Proof.
  unfold R.inline_root_type, inline_root. rewrite lookup_type_tr.
  destruct (lookup root (s_types sch)) as [[i|i|m|]|]; reflexivity.
Qed.

(* ---- Results.resolve_step only appends to its accumulator ---- *)
Section Shift.
Variable rec : bool -> list G.sel -> string -> R.res (list R.fnode * list string).
Variable S : G.schema.
Variable frs : list G.fragdef.
Variable root : string.
Variable under : bool.
Let st := R.resolve_step rec S frs root under.

Definition shifted (a : list R.fnode) (b : list string) (r : R.res (list R.fnode * list string)) :=
  match r with R.Ok (x, y) => R.Ok (a ++ x, b ++ y)%list | R.Err m => R.Err m end.

Lemma st_shift a b s : st (R.Ok (a, b)) s = shifted a b (st (R.Ok ([], [])) s).
Proof.
  unfold st, R.resolve_step, R.bind, shifted. simpl.
  destruct s as [al n c ms sub|n c|tc c sub].
  - now rewrite app_nil_r.
  - destruct (G.lookup_frag frs n) as [f|]; [|reflexivity].
    destruct (G.lookup_type S root); [|reflexivity].
    destruct (G.lookup_type S (G.fr_on f)) as [fd|]; [|reflexivity].
    destruct (negb (under || c) && negb (R.unpack_fragment S f (Some root))); [now rewrite app_nil_r|].
    destruct (String.eqb (G.fr_on f) root || (G.is_abstract fd && G.is_sub_type S (G.fr_on f) root)).
    + destruct (rec (under || c) (G.fr_sel f) root) as [[x y]|m]; reflexivity.
    + now rewrite !app_nil_r.
  - destruct (R.inline_root_type S match tc with Some t => t | None => root end root) as [r|].
    + destruct (rec (under || c) sub r) as [[x y]|m]; reflexivity.
    + now rewrite !app_nil_r.
Qed.

Lemma fold_err l m : fold_left st l (R.Err m) = R.Err m.
Proof. induction l as [|s l IH]; cbn [fold_left]; [reflexivity | exact IH]. Qed.

Lemma fold_shift l : forall a b, fold_left st l (R.Ok (a, b)) = shifted a b (fold_left st l (R.Ok ([], []))).
Proof.
  induction l as [|s l IH]; intros a b; cbn [fold_left].
  - simpl. now rewrite !app_nil_r.
  - rewrite st_shift. destruct (st (R.Ok ([], [])) s) as [[x y]|m]; cbn [shifted].
    + rewrite (IH (a ++ x)%list (b ++ y)%list). rewrite (IH x y).
      destruct (fold_left st l (R.Ok ([], []))) as [[A B]|m]; cbn [shifted]; [now rewrite !app_assoc | reflexivity].
    + now rewrite !fold_err.
Qed.
End Shift.

(* ---- the agreement ---- *)
Definition known (sch : aschema) (t : string) : Prop := lookup t (s_types sch) <> None.

Record wf_doc (sch : aschema) (frags : list fragdef) : Prop := {
  wf_frag_types : forall fd, In fd frags -> known sch (fr_on fd);
  wf_ifaces : forall t i, lookup t (s_types sch) = Some (KObj i) \/ lookup t (s_types sch) = Some (KIface i) ->
                          forall x, In x i -> known sch x
}.

Lemma find_frag_In n frags fd : find_frag n frags = Some fd -> In fd frags.
Proof. unfold find_frag. intro H. apply find_some in H. tauto. Qed.

Theorem resolve_agrees sch frags : wf_doc sch frags ->
  forall f under ss root unp fields mix unp',
  resolve f sch frags under ss root unp = Some (fields, mix, unp') -> known sch root ->
  forall F, f <= F ->
  exists fns, R.resolve F (tr_schema sch) (map tr_frag frags) under (map tr_sel ss) root = R.Ok (fns, mix).
Proof.
  intros Hwf. induction f as [|f IH]; intros under ss root unp fields mix unp' H Hk F HF; [discriminate|].
  destruct F as [|F0]; [lia|]. assert (HF0 : f <= F0) by lia.
  simpl in H. destruct ss as [|s rest].
  - inversion H; subst. simpl. eexists; reflexivity.
  - simpl in H. match type of H with match ?r1 with _ => _ end = _ => destruct r1 as [[[f1 m1] u1]|] eqn:E1; [|discriminate] end.
    destruct (resolve f sch frags under rest root u1) as [[[f2 m2] u2]|] eqn:E2; [|discriminate].
    inversion H; subst. clear H.
    destruct (IH _ _ _ _ _ _ _ E2 Hk (S F0)) as [A HA]; [lia|].
    set (st := R.resolve_step (R.resolve F0 (tr_schema sch) (map tr_frag frags)) (tr_schema sch)
                              (map tr_frag frags) root under).
    change (R.resolve (S F0) (tr_schema sch) (map tr_frag frags) under (map tr_sel rest) root)
      with (fold_left st (map tr_sel rest) (R.Ok ([], []))) in HA.
    change (exists fns, fold_left st (map tr_sel rest) (st (R.Ok ([], [])) (tr_sel s)) = R.Ok (fns, (m1 ++ m2)%list)).
    assert (Hs : exists x, st (R.Ok ([], [])) (tr_sel s) = R.Ok (x, m1)).
    { unfold st, R.resolve_step, R.bind. simpl.
      destruct s as [al nm mx sub|fn c|tc c sub]; simpl.
      - inversion E1; subst. eexists; reflexivity.
      - rewrite lookup_frag_tr. destruct (find_frag fn frags) as [fd|] eqn:Ef; [|discriminate]. simpl.
        rewrite !lookup_type_tr.
        destruct (lookup root (s_types sch)) as [kr|] eqn:Er; [|exfalso; apply Hk; exact Er].
        pose proof (wf_frag_types _ _ Hwf fd (find_frag_In _ _ _ Ef)) as Hkf. unfold known in Hkf.
        destruct (lookup (fr_on fd) (s_types sch)) as [kf|] eqn:Eo; [|exfalso; apply Hkf; reflexivity].
        rewrite unpack_tr.
        destruct (negb (under || c) && negb (unpack_fragment sch fd (Some root))).
        + inversion E1; subst. eexists; reflexivity.
        + rewrite sub_type_tr.
          assert (Ha : G.is_abstract (tr_kind (fields_of sch (fr_on fd)) kf) = is_abstract sch (fr_on fd)).
          { unfold is_abstract, kind_of. rewrite Eo. destruct kf; reflexivity. }
          rewrite Ha.
          destruct (String.eqb (fr_on fd) root || (is_abstract sch (fr_on fd) && is_sub_type sch (fr_on fd) root)).
          * destruct (IH _ _ _ _ _ _ _ E1 Hk F0 HF0) as [q Hq]. rewrite Hq. simpl. eexists; reflexivity.
          * inversion E1; subst. eexists; reflexivity.
      - rewrite inline_root_tr. destruct (inline_root sch tc root) as [rt|] eqn:Ei.
        + assert (Hkr : known sch rt).
          { unfold inline_root in Ei. destruct (lookup root (s_types sch)) as [k|] eqn:Er; [|discriminate].
            destruct (match k with KObj i | KIface i => mem tc i | _ => false end) eqn:Em.
            - inversion Ei; subst. destruct k as [i|i| |]; try discriminate.
              + eapply (wf_ifaces _ _ Hwf); [left; exact Er | apply mem_In; exact Em].
              + eapply (wf_ifaces _ _ Hwf); [right; exact Er | apply mem_In; exact Em].
            - destruct (String.eqb tc root); [|discriminate]. inversion Ei; subst. exact Hk. }
          destruct (IH _ _ _ _ _ _ _ E1 Hkr F0 HF0) as [q Hq]. rewrite Hq. simpl. eexists; reflexivity.
        + inversion E1; subst. eexists; reflexivity. }
    destruct Hs as [x Hx]. rewrite Hx. unfold st. rewrite fold_shift. fold st. rewrite HA. simpl.
    eexists; reflexivity.
Qed.
