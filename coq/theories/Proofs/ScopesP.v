(* Proofs about Model/Scopes.v (C18, scope level): the de-duplication loops of arguments.py and
   input_types.py always end, hand out pairwise distinct names, and keep every law of process_name. *)
From Coq Require Import List Ascii Bool Arith Lia.
From AC Require Import Base.Strs Model.Names Model.Scopes Proofs.NamesP.
Import ListNotations.

Local Arguments mem_chars : simpl never.
Local Arguments iskeyword : simpl never.
Local Arguments kwlist : simpl never.
Local Arguments pydantic_reserved : simpl never.
Local Arguments process_name : simpl never.

(* ---------- the loop ends: a counting argument ---------- *)
(* names of B at least as long as n: the only ones the loop can still meet *)
Definition cnt (B : list chars) (n : chars) : nat :=
  length (filter (fun u => length n <=? length u) B).

Lemma filter_len_le {A} (P Q : A -> bool) l :
  (forall x, P x = true -> Q x = true) -> length (filter P l) <= length (filter Q l).
Proof.
  intro H. induction l as [|a l IH]; simpl; [lia|].
  destruct (P a) eqn:Pa.
  - rewrite (H a Pa). simpl. lia.
  - destruct (Q a); simpl; lia.
Qed.

Lemma filter_len_lt {A} (P Q : A -> bool) l x :
  (forall y, P y = true -> Q y = true) -> In x l -> Q x = true -> P x = false ->
  length (filter P l) < length (filter Q l).
Proof.
  intros H Hin Qx Px. induction l as [|a l IH]; [destruct Hin|].
  simpl. destruct Hin as [->|Hin].
  - rewrite Px, Qx. simpl. pose proof (filter_len_le P Q l H). lia.
  - specialize (IH Hin). destruct (P a) eqn:Pa.
    + rewrite (H a Pa). simpl. lia.
    + destruct (Q a); simpl; lia.
Qed.

Lemma filter_len_all {A} (P : A -> bool) l : length (filter P l) <= length l.
Proof. induction l as [|a l IH]; simpl; [lia|]. destruct (P a); simpl; lia. Qed.

Lemma cnt_le B n : cnt B n <= length B.
Proof. unfold cnt. apply filter_len_all. Qed.

Lemma cnt_step B n : In n B -> cnt B (n ++ ["_"%char]) < cnt B n.
Proof.
  intro Hin. unfold cnt. apply filter_len_lt with (x := n); [| exact Hin | |].
  - intros y Hy. apply Nat.leb_le in Hy. apply Nat.leb_le. rewrite app_length in Hy. simpl in Hy. lia.
  - apply Nat.leb_le. lia.
  - apply Nat.leb_gt. rewrite app_length. simpl. lia.
Qed.

Theorem fresh_go_ok bad B : (forall x, bad x = true -> In x B) ->
  forall fuel n, cnt B n < fuel -> bad (fresh_go fuel bad n) = false.
Proof.
  intros HB fuel. induction fuel as [|f IH]; intros n Hc; [lia|].
  simpl. destruct (bad n) eqn:Hb; [| exact Hb].
  apply IH. pose proof (cnt_step B n (HB n Hb)). lia.
Qed.

(* the loop only appends underscores *)
Lemma repeat_snoc {A} (a : A) k : repeat a (S k) = repeat a k ++ [a].
Proof. induction k as [|k IH]; [reflexivity|]. simpl in *. rewrite <- IH. reflexivity. Qed.

Lemma fresh_go_shape fuel bad : forall n, exists k, fresh_go fuel bad n = n ++ repeat "_"%char k.
Proof.
  induction fuel as [|f IH]; intro n; simpl.
  - exists 0. simpl. symmetry. apply app_nil_r.
  - destruct (bad n).
    + destruct (IH (n ++ ["_"%char])) as [k Hk]. exists (S k). rewrite Hk, <- app_assoc. reflexivity.
    + exists 0. simpl. symmetry. apply app_nil_r.
Qed.

(* ---------- `while name in used_names` ---------- *)
Theorem fresh_not_used n used : mem_chars (fresh n used) used = false.
Proof.
  unfold fresh. apply (fresh_go_ok (fun x => mem_chars x used) used).
  - intros x Hx. apply mem_chars_In. exact Hx.
  - pose proof (cnt_le used n). lia.
Qed.

Lemma fresh_shape n used : exists k, fresh n used = n ++ repeat "_"%char k.
Proof. apply fresh_go_shape. Qed.

Theorem assign_spec base : forall names used,
  NoDup (assign base names used) /\
  (forall x, In x (assign base names used) -> ~ In x used) /\
  length (assign base names used) = length names /\
  Forall2 (fun n p => exists k, p = base n ++ repeat "_"%char k) names (assign base names used).
Proof.
  induction names as [|n ns IH]; intro used; simpl.
  - repeat split; [constructor | intros x [] | constructor].
  - set (p := fresh (base n) used).
    destruct (IH (p :: used)) as (Hnd & Hdis & Hlen & Hsh).
    assert (Hp : ~ In p used).
    { intro H. apply mem_chars_In in H. unfold p in H. rewrite fresh_not_used in H. discriminate. }
    repeat split.
    + constructor; [| exact Hnd]. intro H. apply (Hdis p H). left. reflexivity.
    + intros x [<- | Hx]; [exact Hp|]. intro H. apply (Hdis x Hx). right. exact H.
    + rewrite Hlen. reflexivity.
    + constructor; [apply fresh_shape | exact Hsh].
Qed.

(* ---------- input fields: `while name in used_names or (name != org and name in fields)` ---------- *)
Theorem input_fresh_ok org n all used : input_bad org all used (input_fresh org n all used) = false.
Proof.
  unfold input_fresh. apply (fresh_go_ok (input_bad org all used) (used ++ all)).
  - intros x Hx. unfold input_bad in Hx. apply in_or_app. apply orb_true_iff in Hx as [H|H].
    + left. apply mem_chars_In. exact H.
    + right. apply andb_true_iff in H as [_ H]. apply mem_chars_In. exact H.
  - pose proof (cnt_le (used ++ all) n). rewrite app_length in H. lia.
Qed.

Theorem assign_input_spec base all : forall names used,
  NoDup (assign_input base all names used) /\
  (forall x, In x (assign_input base all names used) -> ~ In x used) /\
  Forall2 (fun n p => (In p all -> p = n) /\ exists k, p = base n ++ repeat "_"%char k)
          names (assign_input base all names used).
Proof.
  induction names as [|n ns IH]; intro used; simpl.
  - repeat split; [constructor | intros x [] | constructor].
  - set (p := input_fresh n (base n) all used).
    destruct (IH (p :: used)) as (Hnd & Hdis & Hsh).
    pose proof (input_fresh_ok n (base n) all used) as Hb. fold p in Hb.
    unfold input_bad in Hb. apply orb_false_iff in Hb as [Hu Ha].
    assert (Hp : ~ In p used).
    { intro H. apply mem_chars_In in H. rewrite Hu in H. discriminate. }
    repeat split.
    + constructor; [| exact Hnd]. intro H. apply (Hdis p H). left. reflexivity.
    + intros x [<- | Hx]; [exact Hp|]. intro H. apply (Hdis x Hx). right. exact H.
    + constructor; [| exact Hsh]. split.
      * intro Hin. apply mem_chars_In in Hin. rewrite Hin, andb_true_r in Ha.
        apply negb_false_iff in Ha. apply chars_eqb_eq. exact Ha.
      * apply fresh_go_shape.
Qed.

(* ---------- appended underscores keep every law of process_name ---------- *)
Lemma app_us_identifier x k : py_identifier x = true -> py_identifier (x ++ repeat "_"%char k) = true.
Proof.
  intro H. induction k as [|k IH]; [simpl; rewrite app_nil_r; exact H|].
  rewrite repeat_snoc, app_assoc. exact (py_identifier_suffix true _ IH).
Qed.

Lemma app_us_not_keyword x k : iskeyword x = false -> iskeyword (x ++ repeat "_"%char k) = false.
Proof.
  intro H. destruct k as [|k]; [simpl; rewrite app_nil_r; exact H|].
  rewrite repeat_snoc, app_assoc. apply suffix_not_keyword.
Qed.

Lemma app_us_not_reserved x k : mem_chars x pydantic_reserved = false ->
  mem_chars (x ++ repeat "_"%char k) pydantic_reserved = false.
Proof.
  intro H. destruct k as [|k]; [simpl; rewrite app_nil_r; exact H|].
  rewrite repeat_snoc, app_assoc. apply suffix_not_reserved.
Qed.

Lemma app_us_alnum x k : filter is_alnum (x ++ repeat "_"%char k) = filter is_alnum x.
Proof.
  rewrite filter_app. induction k as [|k IH]; simpl; [apply app_nil_r|]. exact IH.
Qed.

(* ---------- variables: the identifier repair removes the F18 guard ---------- *)
Lemma forallb_drop_while (P : ascii -> bool) q x : forallb P x = true -> forallb P (drop_while q x) = true.
Proof.
  induction x as [|c r IH]; simpl; [auto|]. intro H. apply andb_true_iff in H as [Hc Hr].
  destruct (q c); [apply IH, Hr|]. simpl. rewrite Hc, Hr. reflexivity.
Qed.

Lemma forallb_suffix_if b x : forallb is_name_char x = true -> forallb is_name_char (suffix_if b x) = true.
Proof. destruct b; simpl; [| auto]. intro H. rewrite forallb_app, H. reflexivity. Qed.

Lemma process_name_chars fl n : gql_name n = true -> forallb is_name_char (process_name fl n) = true.
Proof.
  intro Hg. destruct (process_name_cases fl n Hg) as [-> | ->]; [| vm_compute; reflexivity].
  unfold p3_of, step3, step2, trimmed. apply forallb_suffix_if, forallb_suffix_if.
  assert (H1 : forallb is_name_char (if f_snake fl then snake n else n) = true).
  { destruct (f_snake fl); [apply snake_go_name_chars | apply (gql_name_chars n Hg)]. }
  destruct (f_trim fl); [apply forallb_drop_while, H1 | exact H1].
Qed.

Theorem var_base_identifier snake n : gql_name n = true -> py_identifier (var_base snake n) = true.
Proof.
  intro Hg. unfold var_base. destruct (py_identifier (process_name (var_flags snake) n)) eqn:E; [exact E|].
  unfold py_identifier, gql_name. simpl forallb. rewrite (process_name_chars _ n Hg). reflexivity.
Qed.

Lemma keyword_not_starts_us x : iskeyword x = true -> starts_us x = false.
Proof.
  intro H. apply negb_true_iff.
  apply (forallb_mem (fun k => negb (starts_us k)) kwlist x); [vm_compute; reflexivity | exact H].
Qed.

Theorem var_base_not_keyword snake n : gql_name n = true -> iskeyword (var_base snake n) = false.
Proof.
  intro Hg. unfold var_base. destruct (py_identifier (process_name (var_flags snake) n)).
  - apply process_not_keyword, Hg.
  - destruct (iskeyword ("_"%char :: process_name (var_flags snake) n)) eqn:E; [| reflexivity].
    apply keyword_not_starts_us in E. discriminate.
Qed.

Lemma var_base_alnum snake n :
  filter is_alnum (var_base snake n) = filter is_alnum (process_name (var_flags snake) n).
Proof. unfold var_base. destruct (py_identifier _); reflexivity. Qed.

(* every variable of one operation: a valid identifier, no keyword, outside the reserved names, pairwise
   distinct, letters and digits of the original in order -- for EVERY list of GraphQL names, no guard *)
Theorem var_names_lawful snake reserved names :
  Forall (fun n => gql_name n = true) names ->
  let out := var_names snake reserved names in
  NoDup out /\ length out = length names /\
  (forall x, In x out -> ~ In x reserved) /\
  Forall (fun p => py_identifier p = true /\ iskeyword p = false) out /\
  Forall2 (fun n p => all_us n = false ->
             map to_lower (filter is_alnum p) = map to_lower (filter is_alnum n)) names out.
Proof.
  intros Hn out. unfold out, var_names.
  destruct (assign_spec (var_base snake) names reserved) as (Hnd & Hdis & Hlen & Hsh).
  repeat split; [exact Hnd | exact Hlen | exact Hdis | |].
  - clear Hnd Hdis Hlen out. revert Hn. induction Hsh as [|n p ns ps [k ->] _ IH]; intro Hn; [constructor|].
    inversion Hn as [|? ? Hg Hns]; subst. constructor; [| apply IH, Hns]. split.
    + apply app_us_identifier, var_base_identifier, Hg.
    + apply app_us_not_keyword, var_base_not_keyword, Hg.
  - clear Hn Hnd Hdis Hlen out. induction Hsh as [|n p ns ps [k ->] _ IH]; constructor; [| exact IH].
    intro Hu. rewrite app_us_alnum, var_base_alnum. apply process_alnum_preserved, Hu.
Qed.

Lemma Forall2_impl_Forall {A B} (P : A -> Prop) (R R' : A -> B -> Prop) l l' :
  Forall P l -> Forall2 R l l' -> (forall a b, P a -> R a b -> R' a b) -> Forall2 R' l l'.
Proof.
  intros HP HR Himp. induction HR as [|a b l l' Hab _ IH]; [constructor|].
  inversion HP; subst. constructor; [apply Himp; assumption | apply IH; assumption].
Qed.

(* every field of one input type: pairwise distinct Python names, none of them the GraphQL name of ANOTHER
   field (so, with populate_by_name, building by Python name and by GraphQL name never cross), no keyword,
   no pydantic attribute, letters and digits kept; a valid identifier under the remaining F18 guard *)
Theorem input_names_lawful snake names :
  Forall (fun n => gql_name n = true) names ->
  let out := input_field_names snake names in
  NoDup out /\
  Forall2 (fun n p => (In p names -> p = n) /\
                      iskeyword p = false /\ mem_chars p pydantic_reserved = false /\
                      (g_c18 (input_flags snake) n = true -> py_identifier p = true) /\
                      (all_us n = false ->
                         map to_lower (filter is_alnum p) = map to_lower (filter is_alnum n)))
          names out.
Proof.
  intros Hn out. unfold out, input_field_names.
  destruct (assign_input_spec (input_base snake) names names []) as (Hnd & _ & Hsh).
  split; [exact Hnd|].
  apply (Forall2_impl_Forall _ _ _ _ _ Hn Hsh).
  intros n p Hg [Hown [k ->]]. unfold input_base. repeat split.
  - exact Hown.
  - apply app_us_not_keyword, process_not_keyword, Hg.
  - apply app_us_not_reserved, process_not_reserved; [reflexivity | exact Hg].
  - intro Hgd. apply app_us_identifier, process_valid_identifier; assumption.
  - intro Hu. rewrite app_us_alnum. apply process_alnum_preserved, Hu.
Qed.

(* the original name stays the wire name of every declared input field *)
Theorem input_decls_wire snake names :
  map wire_name (input_decls snake names) =
  firstn (length (input_field_names snake names)) names.
Proof.
  unfold input_decls. generalize (input_field_names snake names) as ps.
  intro ps. revert names. induction ps as [|p ps IH]; intros [|n ns]; simpl; try reflexivity.
  f_equal; [| apply IH]. unfold wire_name. simpl.
  destruct (chars_eqb p n) eqn:E; simpl; [apply chars_eqb_eq, E | reflexivity].
Qed.

Lemma assign_input_length base all : forall names used,
  length (assign_input base all names used) = length names.
Proof. induction names as [|n ns IH]; intro used; simpl; [reflexivity|]. rewrite IH. reflexivity. Qed.

Theorem input_decls_wire_names snake names : map wire_name (input_decls snake names) = names.
Proof.
  rewrite input_decls_wire. unfold input_field_names. rewrite assign_input_length. apply firstn_all.
Qed.
