(* C04 well_scoped: every class named in an annotation of a generated result class is a class of the same
   module; every enum named is an enum of the schema; every base is BaseModel, a fragment that has a class in
   the fragments module, or a @mixin import.  Over Model/Results.v (result_fields.py / result_types.py). *)
From Coq Require Import List String Ascii Bool Arith Lia.
From AC Require Import Base.Strs Gql.Schema Gql.Exec Py.Ann Py.Pydantic Model.Names Model.Results
  Proofs.ResultsP Proofs.ResultsRunP Proofs.ResultsAbsP.
Import ListNotations.
Local Open Scope string_scope.
Local Open Scope list_scope.

(* names an annotation refers to *)
Fixpoint ann_classes (a : ann) : list string :=
  match a with
  | AClass n => [n]
  | AOpt x | AList x => ann_classes x
  | AUnion l => flat_map ann_classes l
  | _ => []
  end.

Fixpoint ann_enums (a : ann) : list string :=
  match a with
  | AEnum n => [n]
  | AOpt x | AList x => ann_enums x
  | AUnion l => flat_map ann_enums l
  | _ => []
  end.

Lemma ann_classes_opt_if b a : ann_classes (opt_if b a) = ann_classes a.
Proof. destruct b; reflexivity. Qed.
Lemma ann_enums_opt_if b a : ann_enums (opt_if b a) = ann_enums a.
Proof. destruct b; reflexivity. Qed.

Definition is_enum (S : schema) (n : string) : Prop := exists vs, lookup_type S n = Some (DEnum vs).

(* what an annotation may mention: classes listed in the context, enums of the schema *)
Definition ann_ctx_ok (S : schema) (a : ann) (c : fctx) : Prop :=
  incl (ann_classes a) (map r_class (x_related c)) /\ (forall e, In e (ann_enums a) -> is_enum S e).

Lemma flat_map_class_names (h : string -> string) l :
  flat_map ann_classes (map (fun t => AClass (h t)) l) = map h l.
Proof. induction l; simpl; congruence. Qed.
Lemma flat_map_class_enums (h : string -> string) l :
  flat_map ann_enums (map (fun t => AClass (h t)) l) = [].
Proof. induction l; simpl; auto. Qed.

Section Named.
  Variables (C : cfg) (S : schema) (frs : list fragdef) (fuel0 : nat) (fsub : option (list sel)).

  Lemma scalar_ann_ok n nl : ann_ctx_ok S (fst (scalar_ann C n nl)) (snd (scalar_ann C n nl)) /\
                             x_related (snd (scalar_ann C n nl)) = [].
  Proof.
    unfold scalar_ann, ann_ctx_ok. destruct (simple_type n) as [a|] eqn:E.
    - unfold simple_type in E.
      repeat match type of E with (if ?b then _ else _) = _ => destruct b end; inversion E; subst;
        destruct nl; simpl; repeat split; try apply incl_nil_l; intros e [].
    - destruct (find _ (cf_scalars C)); destruct nl; simpl; repeat split; try apply incl_nil_l; intros e [].
  Qed.

  Lemma interface_ann_ok tn nl cn add a c :
    interface_ann S frs fuel0 fsub tn nl cn add = Ok (a, c) -> ann_ctx_ok S a c.
  Proof.
    unfold interface_ann, ann_ctx_ok. destruct fsub as [sels|].
    - destruct (inline_conds fuel0 frs sels) as [ics|m]; simpl; [|discriminate].
      destruct (spreads_on_subtypes S frs sels tn) as [fos|m]; simpl; [|discriminate].
      assert (forall (l : list string) a c,
        (if existsb (fun o : option string => match o with None => true | Some _ => false end) ics
         then Err "AttributeError: inline fragment without type condition"
         else Ok (opt_if nl (AUnion (map (fun t => AClass (cn +++ t)) (tn :: sorted_set l))),
                  {| x_related := map (fun t => {| r_class := cn +++ t; r_type := t |}) (tn :: sorted_set l);
                     x_abstract := true; x_enums := []; x_scalars := [] |})) = Ok (a, c) ->
        incl (ann_classes a) (map r_class (x_related c)) /\ (forall e, In e (ann_enums a) -> is_enum S e)) as U.
      { intros l a' c'. destruct (existsb _ ics); [discriminate|]. intro H. inversion H; subst; clear H.
        rewrite ann_classes_opt_if, ann_enums_opt_if. simpl.
        rewrite (flat_map_class_names (fun t => cn +++ t)), (flat_map_class_enums (fun t => cn +++ t)).
        rewrite map_map. simpl. split; [apply incl_refl | intros e []]. }
      destruct ics as [|i ics']; [destruct fos as [|f fos']|]; try (apply U).
      intro H. inversion H; subst. rewrite ann_classes_opt_if, ann_enums_opt_if. simpl.
      split; [apply incl_refl | intros e []].
    - intro H. inversion H; subst. rewrite ann_classes_opt_if, ann_enums_opt_if. simpl.
      split; [apply incl_refl | intros e []].
  Qed.

  Lemma union_fold_ok cn : forall ms al cc al' cc',
    incl (flat_map ann_classes al) (map r_class (x_related cc)) -> flat_map ann_enums al = [] ->
    fold_left (fun acc m =>
               p <- acc ;;
               match lookup_type S m with
               | Some (DObject _ _) =>
                   let '(a, c) := object_ann m false cn true in
                   Ok (fst p ++ [a], ctx_app (snd p) c)
               | _ => Err "ParsingError: Invalid field type."
               end) ms (Ok (al, cc)) = Ok (al', cc') ->
    incl (flat_map ann_classes al') (map r_class (x_related cc')) /\ flat_map ann_enums al' = [].
  Proof.
    induction ms as [|m ms IH]; intros al cc al' cc' H1 H2 H; simpl in H.
    - inversion H; subst. auto.
    - destruct (lookup_type S m) as [[| | ifs fs | | |]|];
        try (exfalso; clear - H; induction ms; simpl in H; [discriminate | auto]).
      simpl in H. apply IH in H; auto.
      + rewrite flat_map_app. simpl. rewrite map_app. simpl. 
        apply incl_app; [apply incl_appl, H1 | apply incl_appr, incl_refl].
      + rewrite flat_map_app, H2. reflexivity.
  Qed.

  Lemma named_ann_ok n nl cn add a c :
    named_ann C S frs fuel0 fsub n nl cn add = Ok (a, c) -> ann_ctx_ok S a c.
  Proof.
    unfold named_ann. destruct (lookup_type S n) as [[| vs | ifs fs | ifs fs | ms |]|] eqn:L; try discriminate.
    - intro H. inversion H. destruct (scalar_ann_ok n nl) as [K _]. rewrite H1 in K. exact K.
    - intro H. inversion H; subst. unfold ann_ctx_ok. rewrite ann_classes_opt_if, ann_enums_opt_if. simpl.
      split; [apply incl_nil_l|]. intros e [<-|[]]. exists vs. exact L.
    - unfold object_ann. intro H. inversion H; subst. unfold ann_ctx_ok.
      rewrite ann_classes_opt_if, ann_enums_opt_if. simpl. split; [apply incl_refl | intros e []].
    - apply interface_ann_ok.
    - match goal with |- context [fold_left ?f ms ?i] => destruct (fold_left f ms i) as [[al cc]|m] eqn:F end;
        simpl; [|discriminate].
      intro H. inversion H; subst; clear H. apply union_fold_ok in F; [| apply incl_nil_l | reflexivity].
      destruct F as [F1 F2]. unfold ann_ctx_ok. rewrite ann_classes_opt_if, ann_enums_opt_if. simpl.
      split; [exact F1 | rewrite F2; intros e []].
  Qed.

  Lemma field_type_ann_ok cn : forall t nl add a c,
    field_type_ann C S frs fuel0 fsub t nl cn add = Ok (a, c) -> ann_ctx_ok S a c.
  Proof.
    induction t as [n | t IH | t IH]; intros nl add a c H; simpl in H.
    - eapply named_ann_ok; eauto.
    - apply bind_ok in H. destruct H as [[a' c'] [H1 H2]]. inversion H2; subst.
      apply IH in H1. unfold ann_ctx_ok in *. rewrite ann_classes_opt_if, ann_enums_opt_if. exact H1.
    - eapply IH; eauto.
  Qed.

  (* a leaf type (scalar or enum) has no related classes *)
  Definition leaf_name (n : string) : bool :=
    match lookup_type S n with Some DScalar | Some (DEnum _) => true | _ => false end.

  Lemma named_ann_leaf n nl cn add a c :
    leaf_name n = true -> named_ann C S frs fuel0 fsub n nl cn add = Ok (a, c) -> x_related c = [].
  Proof.
    unfold leaf_name, named_ann. destruct (lookup_type S n) as [[| vs | | | |]|]; try discriminate; intros _ H.
    - injection H as E. destruct (scalar_ann_ok n nl) as [_ K]. rewrite E in K. exact K.
    - inversion H; subst. reflexivity.
  Qed.

  Lemma field_type_ann_leaf cn t nl a c :
    leaf_name (base_name t) = true -> field_type_ann C S frs fuel0 fsub t nl cn false = Ok (a, c) ->
    x_related c = [].
  Proof.
    intros L H. destruct (field_type_ann_ctx C S frs fuel0 fsub cn t nl (a, c) H) as [a0 H0]. simpl in H0.
    eapply named_ann_leaf; eauto.
  Qed.
End Named.

(* ---- field nodes occurring in a selection list: at any depth, through sub-selections, inline fragments
   and fragment spreads ---- *)
Inductive occ (frs : list fragdef) : list sel -> string -> option (list sel) -> Prop :=
| occ_here sels al n c ms sub : In (SField al n c ms sub) sels -> occ frs sels n sub
| occ_field sels al n c ms sub' n0 s0 :
    In (SField al n c ms (Some sub')) sels -> occ frs sub' n0 s0 -> occ frs sels n0 s0
| occ_inline sels tc c sub' n0 s0 : In (SInline tc c sub') sels -> occ frs sub' n0 s0 -> occ frs sels n0 s0
| occ_spread sels fn c f n0 s0 :
    In (SSpread fn c) sels -> lookup_frag frs fn = Some f -> occ frs (fr_sel f) n0 s0 -> occ frs sels n0 s0.

Lemma occ_trans frs sels n sub : occ frs sels n (Some sub) ->
  forall n0 s0, occ frs sub n0 s0 -> occ frs sels n0 s0.
Proof.
  intro H. remember (Some sub) as so eqn:E. revert sub E.
  induction H as [sels al n c ms sub0 I | sels al n c ms sub' n1 s1 I H IH | sels tc c sub' n1 s1 I H IH
                  | sels fn c f n1 s1 I L H IH]; intros sub E n0 s0 O; subst.
  - eapply occ_field; eauto.
  - eapply occ_field; [exact I|]. eapply IH; eauto.
  - eapply occ_inline; [exact I|]. eapply IH; eauto.
  - eapply occ_spread; [exact I | exact L |]. eapply IH; eauto.
Qed.

Lemma occ_incl frs sels all n s : incl sels all -> occ frs sels n s -> occ frs all n s.
Proof.
  intros I H. inversion H; subst.
  - eapply occ_here; apply I; eauto.
  - eapply occ_field; [apply I|]; eauto.
  - eapply occ_inline; [apply I|]; eauto.
  - eapply occ_spread; [apply I| |]; eauto.
Qed.

Definition occ_inv (frs : list fragdef) (rec : bool -> list sel -> string -> res (list fnode * list string)) : Prop :=
  forall u s r fs ms, rec u s r = Ok (fs, ms) -> forall f, In f fs -> occ frs s (fn_name f) (fn_sub f).

Lemma resolve_fold_occ rec S frs root under (Hrec : occ_inv frs rec) : forall sels all fields0 mixins0 fields mixins,
  incl sels all ->
  (forall f, In f fields0 -> occ frs all (fn_name f) (fn_sub f)) ->
  fold_left (resolve_step rec S frs root under) sels (Ok (fields0, mixins0)) = Ok (fields, mixins) ->
  forall f, In f fields -> occ frs all (fn_name f) (fn_sub f).
Proof.
  induction sels as [|s sels IH]; intros all fields0 mixins0 fields mixins I H0 H; simpl in H.
  - inversion H; subst. exact H0.
  - assert (In s all) as Is by (apply I; left; reflexivity).
    assert (incl sels all) as I' by (intros x Hx; apply I; right; exact Hx).
    destruct s as [al n c ms sub | fn c | tc c sub]; simpl in H.
    + eapply IH; [exact I' | | exact H]. intros f Hf. apply in_app_or in Hf as [Hf|[<-|[]]]; [auto|].
      simpl. eapply occ_here. exact Is.
    + destruct (lookup_frag frs fn) as [fd|] eqn:L; [| rewrite resolve_fold_err in H; discriminate].
      destruct (lookup_type S root); [| rewrite resolve_fold_err in H; discriminate].
      destruct (lookup_type S (fr_on fd)) as [fdd|]; [| rewrite resolve_fold_err in H; discriminate].
      destruct (negb (under || c) && negb (unpack_fragment S fd (Some root))).
      * eapply IH; [exact I' | exact H0 | exact H].
      * destruct (String.eqb (fr_on fd) root || (is_abstract fdd && is_sub_type S (fr_on fd) root)).
        -- destruct (rec (under || c) (fr_sel fd) root) as [[qf qm]|m] eqn:Q; simpl in H;
             [| rewrite resolve_fold_err in H; discriminate].
           eapply IH; [exact I' | | exact H]. intros f Hf. apply in_app_or in Hf as [Hf|Hf]; [auto|].
           eapply occ_spread; [exact Is | exact L |]. eapply Hrec; eauto.
        -- eapply IH; [exact I' | exact H0 | exact H].
    + destruct (inline_root_type S match tc with Some t => t | None => root end root) as [r|].
      * destruct (rec (under || c) sub r) as [[qf qm]|m] eqn:Q; simpl in H;
          [| rewrite resolve_fold_err in H; discriminate].
        eapply IH; [exact I' | | exact H]. intros f Hf. apply in_app_or in Hf as [Hf|Hf]; [auto|].
        eapply occ_inline; [exact Is |]. eapply Hrec; eauto.
      * eapply IH; [exact I' | exact H0 | exact H].
Qed.

Lemma resolve_occ S frs : forall fuel, occ_inv frs (fun u s r => resolve fuel S frs u s r).
Proof.
  induction fuel as [|fuel IH]; intros u s r fs ms H; [discriminate|]. simpl in H.
  apply (resolve_fold_occ _ S frs r u IH s s [] [] fs ms); [apply incl_refl | intros f [] | exact H].
Qed.

(* ---- the leaf discipline (GraphQL's ScalarLeafs rule, by field name): a field selected without a
   sub-selection has a scalar or enum type in every type that declares it ---- *)
Definition leaf_gtype (S : schema) (t : gtype) : bool := leaf_name S (base_name t).

Definition leaf_disc (S : schema) (frs : list fragdef) (sels : list sel) : Prop :=
  forall n, n = "__typename" \/ occ frs sels n None ->
  forall tn t, schema_field_type S tn n = Ok t -> leaf_gtype S t = true.

Lemma leaf_disc_sub S frs sels n sub : leaf_disc S frs sels -> occ frs sels n (Some sub) -> leaf_disc S frs sub.
Proof.
  intros H O n0 [E|O0]; [apply H; left; exact E|]. apply H. right. eapply occ_trans; eauto.
Qed.

(* ---- one field ---- *)
Lemma ann_classes_cond il c a : ann_classes (cond_ann il c a) = ann_classes a.
Proof. unfold cond_ann. destruct il; [reflexivity|]. destruct c; [|reflexivity]. destruct (is_opt a); reflexivity. Qed.
Lemma ann_enums_cond il c a : ann_enums (cond_ann il c a) = ann_enums a.
Proof. unfold cond_ann. destruct il; [reflexivity|]. destruct c; [|reflexivity]. destruct (is_opt a); reflexivity. Qed.

Lemma field_pf_scope C S frs fuel' cn tn tv at_ f pf ctx :
  field_pf C S frs fuel' cn tn tv at_ f = Ok (pf, ctx) ->
  incl (ann_classes (p_ann pf)) (map r_class (x_related ctx)) /\
  (forall e, In e (ann_enums (p_ann pf)) -> is_enum S e) /\
  ((forall t, schema_field_type S tn (fn_name f) = Ok t -> leaf_gtype S t = true) -> x_related ctx = []).
Proof.
  intro H. apply field_pf_inv in H. destruct H as (t & a0 & il & Ht & Ha & ->).
  unfold mk_pfield; simpl. rewrite ann_classes_cond, ann_enums_cond.
  unfold field_ann_lit in Ha.
  assert (forall r, field_type_ann C S frs fuel' (fn_sub f) t true
                      (cn +++ pascal_s (py_field_name C (field_key f))) false = Ok r ->
                    Ok (fst r, snd r, false) = Ok (a0, ctx, il) ->
          incl (ann_classes a0) (map r_class (x_related ctx)) /\
          (forall e, In e (ann_enums a0) -> is_enum S e) /\
          ((forall t0, schema_field_type S tn (fn_name f) = Ok t0 -> leaf_gtype S t0 = true) -> x_related ctx = [])) as G.
  { intros [a c] Hr E. simpl in E. inversion E; subst.
    destruct (field_type_ann_ok C S frs fuel' (fn_sub f) _ t true false a0 ctx Hr) as [K1 K2].
    repeat split; auto. intro L. eapply field_type_ann_leaf; [apply (L t Ht) | exact Hr]. }
  destruct tv as [[|v vs]|].
  - apply bind_ok in Ha. destruct Ha as [r [Hr E]]. eapply G; eauto.
  - destruct (String.eqb (fn_name f) "__typename").
    + inversion Ha; subst. simpl. repeat split; [apply incl_nil_l | intros e []].
    + apply bind_ok in Ha. destruct Ha as [r [Hr E]]. eapply G; eauto.
  - apply bind_ok in Ha. destruct Ha as [r [Hr E]]. eapply G; eauto.
Qed.

(* ---- the scoping invariant of parse_type_def ---- *)
Definition refs_in (pub : list string) (c : pclass) : Prop :=
  forall pf n, In pf (c_fields c) -> In n (ann_classes (p_ann pf)) -> In n pub.

Lemma refs_in_mono pub pub' c : refs_in pub c -> incl pub pub' -> refs_in pub' c.
Proof. intros H I pf n H1 H2. apply I. eapply H; eauto. Qed.

(* ---- the typed leaf discipline: GraphQL's ScalarLeafs rule along the generator's own typed traversal.
   H tn sels reads "the selection list sels is selected on type tn and obeys the rule":
   a field selected without sub-selection has a scalar/enum type IN tn; a field selected with a sub-selection
   hands the rule on to that sub-selection at every type a class is generated for. ---- *)
Definition typed_leafs (C : cfg) (S : schema) (frs : list fragdef) (H : string -> list sel -> Prop) : Prop :=
  forall tn sels, H tn sels ->
    (forall t, schema_field_type S tn "__typename" = Ok t -> leaf_gtype S t = true) /\
    forall fuel fields mixins, resolve fuel S frs false sels tn = Ok (fields, mixins) ->
    forall f, In f fields ->
      (fn_sub f = None -> forall t, schema_field_type S tn (fn_name f) = Ok t -> leaf_gtype S t = true) /\
      (forall sub, fn_sub f = Some sub ->
         forall fuel' cn tv at0 pf ctx, field_pf C S frs fuel' cn tn tv at0 f = Ok (pf, ctx) ->
         forall rc, In rc (x_related ctx) -> H (r_type rc) sub).

Definition scope_inv (H : string -> list sel -> Prop) (rec : ptd_fun) : Prop :=
  forall pub cn tn sels at_ eb tv out pub' sk,
    rec pub cn tn sels at_ eb tv = Ok (out, pub', sk) ->
    incl pub pub' /\ In cn pub' /\
    (forall n, In n pub' -> In n pub \/ In n (map c_name out)) /\
    (forall c, In c out -> In (c_name c) pub') /\
    (H tn sels -> forall c, In c out -> refs_in pub' c).

Ltac split5 := split; [|split; [|split; [|split]]].
Ltac split4 := split; [|split; [|split]].

Section ScopeInv.
  Variable rec : ptd_fun.
  Variables (C : cfg) (S : schema) (frs : list fragdef) (fuel' : nat).
  Variable H : string -> list sel -> Prop.
  Hypothesis HH : typed_leafs C S frs H.
  Hypothesis Hrec : scope_inv H rec.

  Lemma subs_run_scope ctx f sub : forall rcs pub cls pub' sk,
    subs_run rec S ctx f sub rcs pub cls pub' sk ->
    incl pub pub' /\ (forall rc, In rc rcs -> In (r_class rc) pub') /\
    (forall n, In n pub' -> In n pub \/ In n (map c_name cls)) /\
    (forall c, In c cls -> In (c_name c) pub') /\
    ((forall rc, In rc rcs -> H (r_type rc) sub) -> forall c, In c cls -> refs_in pub' c).
  Proof.
    intros rcs pub cls pub' sk R.
    induction R as [pub | rc rcs pub qc qp qs cls pub' sk Hq Hrun IH].
    - split5; [apply incl_refl | intros ? [] | auto | intros ? [] | intros _ ? []].
    - apply Hrec in Hq. destruct Hq as (Q1 & Q2 & Q3 & Q4 & Q5). destruct IH as (I1 & I2 & I3 & I4 & I5).
      split5.
      + eapply incl_tran; eauto.
      + intros rc' [<-|Hin]; [apply I1, Q2 | apply I2, Hin].
      + intros n Hn. rewrite map_app, in_app_iff. destruct (I3 n Hn) as [Hn'|Hn']; [|auto].
        destruct (Q3 n Hn'); auto.
      + intros c Hc. apply in_app_or in Hc as [Hc|Hc]; [apply I1, Q4, Hc | apply I4, Hc].
      + intros L c Hc. apply in_app_or in Hc as [Hc|Hc].
        * eapply refs_in_mono; [apply Q5; [apply L; left; reflexivity | exact Hc] | exact I1].
        * apply I5; auto. intros rc' Hrc. apply L. right. exact Hrc.
  Qed.

  Definition field_hyp (tn : string) (f : fnode) : Prop :=
    (fn_sub f = None -> forall t, schema_field_type S tn (fn_name f) = Ok t -> leaf_gtype S t = true) /\
    (forall sub, fn_sub f = Some sub ->
       forall fuel0 cn tv at0 pf ctx, field_pf C S frs fuel0 cn tn tv at0 f = Ok (pf, ctx) ->
       forall rc, In rc (x_related ctx) -> H (r_type rc) sub).

  Lemma fields_run_scope cn tn tv at_ : forall fs pub pfl extra pub' sk,
    fields_run rec C S frs fuel' cn tn tv at_ fs pub pfl extra pub' sk ->
    incl pub pub' /\
    (forall n, In n pub' -> In n pub \/ In n (map c_name extra)) /\
    (forall c, In c extra -> In (c_name c) pub') /\
    ((forall f, In f fs -> field_hyp tn f) ->
     (forall c, In c extra -> refs_in pub' c) /\
     (forall pf n, In pf pfl -> In n (ann_classes (p_ann pf)) -> In n pub')).
  Proof.
    intros fs pub pfl extra pub' sk R.
    induction R as [pub | f fs pub pf ctx exc exp exs pfl extra pub' sk Hpf Hsub Hrun IH].
    - split4; [apply incl_refl | auto | intros ? [] | intros _; split; [intros ? [] | intros ? ? []]].
    - destruct IH as (I1 & I2 & I3 & I4).
      destruct (field_pf_scope _ _ _ _ _ _ _ _ _ _ _ Hpf) as (P1 & _ & P3).
      apply parse_subs_inv in Hsub. destruct Hsub as [(Hn & -> & -> & _) | (sub & Hs & Hr)].
      + simpl. split4; auto.
        intro Hall. destruct (I4 (fun f0 Hf0 => Hall f0 (or_intror Hf0))) as [J1 J2]. split; [exact J1|].
        intros pf0 n [<-|Hin] Hn0; [|eapply J2; eauto].
        destruct (Hall f (or_introl eq_refl)) as [L _]. rewrite (P3 (L Hn)) in P1. apply P1 in Hn0. destruct Hn0.
      + apply subs_run_scope in Hr. destruct Hr as (R1 & R2 & R3 & R4 & R5).
        split4.
        * eapply incl_tran; eauto.
        * intros n Hn. rewrite map_app, in_app_iff. destruct (I2 n Hn) as [Hn'|Hn']; [|auto].
          destruct (R3 n Hn'); auto.
        * intros c Hc. apply in_app_or in Hc as [Hc|Hc]; [apply I1, R4, Hc | apply I3, Hc].
        * intro Hall. destruct (I4 (fun f0 Hf0 => Hall f0 (or_intror Hf0))) as [J1 J2].
          destruct (Hall f (or_introl eq_refl)) as [_ L]. split.
          -- intros c Hc. apply in_app_or in Hc as [Hc|Hc]; [|apply J1, Hc].
             eapply refs_in_mono; [apply R5; [intros rc Hrc; eapply L; eauto | exact Hc] | exact I1].
          -- intros pf0 n [<-|Hin] Hn0; [|eapply J2; eauto].
             apply P1 in Hn0. apply in_map_iff in Hn0 as (rc & <- & Hrc). apply I1, R2, Hrc.
  Qed.

  Lemma body_scope : scope_inv H (parse_body rec C S frs fuel').
  Proof.
    intros pub cn tn sels at_ eb tv out pub' sk E.
    apply body_inv in E.
    destruct E as [(M & -> & -> & _) | (M & fields0 & mixins & pfl & extra & Hres & Hr & kept & _ & ->)].
    - apply mem_In in M. split5; [apply incl_refl | exact M | auto | intros ? [] | intros _ ? []].
    - apply fields_run_scope in Hr. destruct Hr as (R1 & R2 & R3 & R4).
      assert (incl pub pub') as Ipub by (intros x Hx; apply R1; apply in_or_app; left; exact Hx).
      assert (In cn pub') as Icn by (apply R1; apply in_or_app; right; left; reflexivity).
      split5; auto.
      + intros n Hn. simpl. destruct (R2 n Hn) as [Hn'|Hn']; [|auto].
        apply in_app_or in Hn' as [Hn'|[<-|[]]]; auto.
      + intros c [<-|Hc]; [exact Icn | apply R3, Hc].
      + intros L. destruct (HH tn sels L) as [Lt Lf].
        assert (forall f, In f (add_typename_field at_ fields0) -> field_hyp tn f) as Hall.
        { intros f Hf.
          assert (f = typename_node \/ In f fields0) as [->|Hf0].
          { unfold add_typename_field in Hf. destruct (at_ && negb _); [destruct Hf; auto | auto]. }
          - split; [| discriminate]. intros _ t Ht. apply Lt. exact Ht.
          - exact (Lf _ _ _ Hres f Hf0). }
        destruct (R4 Hall) as [J1 J2].
        intros c [<-|Hc]; [| apply J1, Hc]. intros pf n Hpf Hn. simpl in Hpf. eapply J2; eauto.
  Qed.
End ScopeInv.

Lemma ptd_scope C S frs H : typed_leafs C S frs H -> forall fuel, scope_inv H (parse_type_def fuel C S frs).
Proof.
  intro HH. induction fuel as [|fuel IH].
  - intros pub cn tn sels at_ eb tv out pub' sk E. discriminate E.
  - intros pub cn tn sels at_ eb tv out pub' sk E. simpl in E. eapply body_scope; eauto.
Qed.

(* started from empty _public_names: every class an annotation names is a class of the same output *)
Theorem ptd_well_scoped_typed C S frs H fuel cn tn sels at_ eb tv out pub' sk :
  typed_leafs C S frs H -> H tn sels ->
  parse_type_def fuel C S frs [] cn tn sels at_ eb tv = Ok (out, pub', sk) ->
  forall c pf n, In c out -> In pf (c_fields c) -> In n (ann_classes (p_ann pf)) -> In n (map c_name out).
Proof.
  intros HH L E c pf n Hc Hpf Hn. apply (ptd_scope C S frs H HH) in E. destruct E as (_ & _ & H3 & _ & H5).
  destruct (H3 n (H5 L c Hc pf n Hpf Hn)) as [[]|K]. exact K.
Qed.

(* the by-name discipline is one instance of the typed one *)
Lemma leaf_disc_typed C S frs : typed_leafs C S frs (fun _ sels => leaf_disc S frs sels).
Proof.
  intros tn sels L. split.
  - intros t Ht. eapply L; [left; reflexivity | exact Ht].
  - intros fuel fields mixins Hres f Hf.
    pose proof (resolve_occ S frs fuel _ _ _ _ _ Hres f Hf) as O. split.
    + intros Hn t Ht. rewrite Hn in O. eapply L; [right; exact O | exact Ht].
    + intros sub Hs fuel' cn tv at0 pf ctx _ rc _. rewrite Hs in O. eapply leaf_disc_sub; eauto.
Qed.

Theorem ptd_well_scoped C S frs fuel cn tn sels at_ eb tv out pub' sk :
  parse_type_def fuel C S frs [] cn tn sels at_ eb tv = Ok (out, pub', sk) ->
  leaf_disc S frs sels ->
  forall c pf n, In c out -> In pf (c_fields c) -> In n (ann_classes (p_ann pf)) -> In n (map c_name out).
Proof.
  intros E L. eapply (ptd_well_scoped_typed C S frs (fun _ sels0 => leaf_disc S frs sels0)); eauto.
  apply leaf_disc_typed.
Qed.

Theorem ptd_enums_in_schema C S frs : forall fuel pub cn tn sels at_ eb tv out pub' sk,
  parse_type_def fuel C S frs pub cn tn sels at_ eb tv = Ok (out, pub', sk) ->
  forall c pf e, In c out -> In pf (c_fields c) -> In e (ann_enums (p_ann pf)) -> is_enum S e.
Proof.
  induction fuel as [|fuel IH]; intros pub cn tn sels at_ eb tv out pub' sk H; [discriminate|].
  simpl in H. apply body_inv in H.
  destruct H as [(_ & -> & _) | (_ & fields0 & mixins & pfl & extra & _ & Hr & kept & _ & ->)];
    [intros c pf e []|].
  assert (forall fs pub0 pfl0 extra0 pub1 sk0,
    fields_run (parse_type_def fuel C S frs) C S frs fuel cn tn tv at_ fs pub0 pfl0 extra0 pub1 sk0 ->
    (forall pf e, In pf pfl0 -> In e (ann_enums (p_ann pf)) -> is_enum S e) /\
    (forall c pf e, In c extra0 -> In pf (c_fields c) -> In e (ann_enums (p_ann pf)) -> is_enum S e)) as G.
  { intros fs pub0 pfl0 extra0 pub1 sk0 R.
    induction R as [pub0 | f fs pub0 pf ctx exc exp exs pfl0 extra0 pub1 sk0 Hpf Hsub Hrun IHR].
    - split; [intros ? ? [] | intros ? ? ? []].
    - destruct IHR as [J1 J2]. destruct (field_pf_scope _ _ _ _ _ _ _ _ _ _ _ Hpf) as (_ & P2 & _). split.
      + intros pf0 e [<-|Hin] He; [apply P2, He | eapply J1; eauto].
      + intros c pf0 e Hc. apply in_app_or in Hc as [Hc|Hc]; [| eapply J2; eauto].
        apply parse_subs_inv in Hsub. destruct Hsub as [(_ & -> & _) | (sub & _ & Hs)]; [destruct Hc|].
        clear - IH Hs Hc. revert c Hc.
        induction Hs as [pub | rc rcs pub qc qp qs cls pub' sk Hq Hrun' IHs]; intros c Hc; [destruct Hc|].
        apply in_app_or in Hc as [Hc|Hc]; [| apply IHs, Hc]. intros Hpf0 He. eapply IH; eauto. }
  destruct (G _ _ _ _ _ _ Hr) as [J1 J2].
  intros c pf e [<-|Hc]; [simpl; apply J1 | apply J2, Hc].
Qed.

(* ---- bases: BaseModel, or fragments that have a class in the fragments module, then @mixin imports ---- *)
Definition frag_class (S : schema) (frs : list fragdef) (n : string) : Prop :=
  exists f, lookup_frag frs n = Some f /\ unpack_fragment S f None = false.

Lemma unpack_none S f root : unpack_fragment S f (Some root) = false -> unpack_fragment S f None = false.
Proof.
  unfold unpack_fragment. intro H. apply orb_false_elim in H as [H H3]. apply orb_false_elim in H as [H1 _].
  rewrite H1, H3. reflexivity.
Qed.

Definition mix_inv (S : schema) (frs : list fragdef)
  (rec : bool -> list sel -> string -> res (list fnode * list string)) : Prop :=
  forall u s r fs ms, rec u s r = Ok (fs, ms) -> forall n, In n ms -> frag_class S frs n.

Lemma resolve_fold_mix rec S frs root under (Hrec : mix_inv S frs rec) : forall sels fields0 mixins0 fields mixins,
  (forall n, In n mixins0 -> frag_class S frs n) ->
  fold_left (resolve_step rec S frs root under) sels (Ok (fields0, mixins0)) = Ok (fields, mixins) ->
  forall n, In n mixins -> frag_class S frs n.
Proof.
  induction sels as [|s sels IH]; intros fields0 mixins0 fields mixins H0 H; simpl in H.
  - inversion H; subst. exact H0.
  - destruct s as [al n c ms sub | fn c | tc c sub]; simpl in H.
    + eapply IH; [exact H0 | exact H].
    + destruct (lookup_frag frs fn) as [fd|] eqn:L; [| rewrite resolve_fold_err in H; discriminate].
      destruct (lookup_type S root); [| rewrite resolve_fold_err in H; discriminate].
      destruct (lookup_type S (fr_on fd)) as [fdd|]; [| rewrite resolve_fold_err in H; discriminate].
      destruct (negb (under || c) && negb (unpack_fragment S fd (Some root))) eqn:B.
      * eapply IH; [| exact H]. intros n Hn. apply in_app_or in Hn as [Hn|[<-|[]]]; [auto|].
        apply andb_true_iff in B as [_ B]. apply negb_true_iff in B. exists fd. split; [exact L|].
        eapply unpack_none; eauto.
      * destruct (String.eqb (fr_on fd) root || (is_abstract fdd && is_sub_type S (fr_on fd) root)).
        -- destruct (rec (under || c) (fr_sel fd) root) as [[qf qm]|m] eqn:Q; simpl in H;
             [| rewrite resolve_fold_err in H; discriminate].
           eapply IH; [| exact H]. intros n Hn. apply in_app_or in Hn as [Hn|Hn]; [auto|]. eapply Hrec; eauto.
        -- eapply IH; [exact H0 | exact H].
    + destruct (inline_root_type S match tc with Some t => t | None => root end root) as [r|].
      * destruct (rec (under || c) sub r) as [[qf qm]|m] eqn:Q; simpl in H;
          [| rewrite resolve_fold_err in H; discriminate].
        eapply IH; [| exact H]. intros n Hn. apply in_app_or in Hn as [Hn|Hn]; [auto|]. eapply Hrec; eauto.
      * eapply IH; [exact H0 | exact H].
Qed.

Lemma resolve_mix S frs : forall fuel, mix_inv S frs (fun u s r => resolve fuel S frs u s r).
Proof.
  induction fuel as [|fuel IH]; intros u s r fs ms H; [discriminate|]. simpl in H.
  apply (resolve_fold_mix _ S frs r u IH s [] [] fs ms); [intros n [] | exact H].
Qed.

Definition bases_ok (S : schema) (frs : list fragdef) (c : pclass) : Prop :=
  exists ms kept eb, c_bases c = class_bases ms kept eb /\ incl kept ms /\ forall n, In n ms -> frag_class S frs n.

Theorem ptd_bases C S frs : forall fuel pub cn tn sels at_ eb tv out pub' sk,
  parse_type_def fuel C S frs pub cn tn sels at_ eb tv = Ok (out, pub', sk) ->
  forall c, In c out -> bases_ok S frs c.
Proof.
  induction fuel as [|fuel IH]; intros pub cn tn sels at_ eb tv out pub' sk H; [discriminate|].
  simpl in H. apply body_inv in H.
  destruct H as [(_ & -> & _) | (_ & fields0 & mixins & pfl & extra & Hres & Hr & kept & Hk & ->)];
    [intros c []|].
  assert (forall fs pub0 pfl0 extra0 pub1 sk0,
    fields_run (parse_type_def fuel C S frs) C S frs fuel cn tn tv at_ fs pub0 pfl0 extra0 pub1 sk0 ->
    forall c, In c extra0 -> bases_ok S frs c) as G.
  { intros fs pub0 pfl0 extra0 pub1 sk0 R.
    induction R as [pub0 | f fs pub0 pf ctx exc exp exs pfl0 extra0 pub1 sk0 Hpf Hsub Hrun IHR]; [intros c []|].
    intros c Hc. apply in_app_or in Hc as [Hc|Hc]; [| apply IHR, Hc].
    apply parse_subs_inv in Hsub. destruct Hsub as [(_ & -> & _) | (sub & _ & Hs)]; [destruct Hc|].
    clear - IH Hs Hc. revert c Hc.
    induction Hs as [pub | rc rcs pub qc qp qs cls pub' sk Hq Hrun' IHs]; intros c Hc; [destruct Hc|].
    apply in_app_or in Hc as [Hc|Hc]; [| apply IHs, Hc]. eapply IH; eauto. }
  intros c [<-|Hc]; [| eapply G; eauto].
  exists mixins, kept, eb. simpl. split; [reflexivity|]. split.
  - unfold remove_inherited in Hk. apply bind_ok in Hk. destruct Hk as [inh [_ E]]. inversion E; subst.
    intros x Hx. apply filter_In in Hx. apply Hx.
  - eapply resolve_mix; eauto.
Qed.
