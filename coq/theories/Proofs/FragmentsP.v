(* Proofs about Model/Fragments.v (C08). *)
From Coq Require Import List String Ascii Bool Arith Lia Permutation.
From AC Require Import Base.Strs Model.Names Model.Prune Model.Fragments Proofs.PruneP.
Import ListNotations.

(* ---- sorting is a rearrangement ---- *)
Lemma insert_perm x l : Permutation (insert x l) (x :: l).
Proof.
  induction l as [|y r IH]; simpl; [apply Permutation_refl|].
  destruct (sleb x y); [apply Permutation_refl|].
  eapply perm_trans; [apply perm_skip; exact IH | apply perm_swap].
Qed.

Lemma isort_perm l : Permutation (isort l) l.
Proof.
  induction l as [|x l IH]; simpl; [constructor|].
  eapply perm_trans; [apply insert_perm | apply perm_skip; exact IH].
Qed.

Lemma sort_uniq_In x l : In x (sort_uniq l) <-> In x l.
Proof.
  unfold sort_uniq. split; intro H.
  - apply (Permutation_in _ (isort_perm _)) in H. apply nodup_In in H. exact H.
  - apply (Permutation_in _ (Permutation_sym (isort_perm _))). apply nodup_In. exact H.
Qed.

Lemma sort_uniq_NoDup l : NoDup (sort_uniq l).
Proof.
  unfold sort_uniq. eapply Permutation_NoDup; [apply Permutation_sym; apply isort_perm|]. apply NoDup_nodup.
Qed.

(* ================= topological order of the fragments module ================= *)
Section Topo.
Variable tbl : list (string * list string).
Variable dict : list string.
Variable o : oracle.
Hypothesis o_perm : forall n l, Permutation (o n l) l.

Definition D (n : string) : list string := sort_uniq (deps_of tbl n).

Lemma o_In n d : In d (o n (D n)) <-> In d (D n).
Proof. split; apply Permutation_in; [apply o_perm | apply Permutation_sym; apply o_perm]. Qed.

(* n ->+ m  and  n ->* m  along mixin edges *)
Inductive tc : string -> string -> Prop :=
| tc1 a b : In b (D a) -> tc a b
| tcS a b c : In b (D a) -> tc b c -> tc a c.
Definition rt (a b : string) : Prop := a = b \/ tc a b.

Lemma tc_snoc a b c : tc a b -> In c (D b) -> tc a c.
Proof. induction 1; intro H1; [eapply tcS; [eassumption | apply tc1; assumption]|]. eapply tcS; eauto. Qed.

Lemma rt_step a b c : rt a b -> In c (D b) -> tc a c.
Proof. intros [->|H] Hc; [apply tc1; exact Hc | eapply tc_snoc; eauto]. Qed.

Definition acyclic : Prop := forall n, ~ tc n n.

Fixpoint ordered_rev (l : list string) : Prop :=
  match l with [] => True | x :: r => incl (D x) r /\ ordered_rev r end.

Definition Inv (vis out : list string) : Prop :=
  incl out vis /\ ordered_rev (rev out) /\ NoDup out.

Record Post (vis out vis' out' : list string) (n : string) : Prop := {
  q_vis : incl vis vis';
  q_out : incl out out';
  q_n : In n vis';
  q_gray : forall x, In x vis' -> ~ In x out' -> In x vis /\ ~ In x out;
  q_new : forall x, In x out' -> In x out \/ ~ In x vis;
  q_reach : forall x, In x vis' -> In x vis \/ rt n x;
  q_inv : Inv vis' out'
}.

Record FPost (vis out vis' out' : list string) (l : list string) : Prop := {
  f_vis : incl vis vis';
  f_out : incl out out';
  f_all : forall d, In d l -> In d vis';
  f_gray : forall x, In x vis' -> ~ In x out' -> In x vis /\ ~ In x out;
  f_new : forall x, In x out' -> In x out \/ ~ In x vis;
  f_reach : forall x, In x vis' -> In x vis \/ exists d, In d l /\ rt d x;
  f_inv : Inv vis' out'
}.

Hypothesis Hacyc : acyclic.

Lemma fold_post f :
  (forall vis out n vis' out', visit f tbl dict o (vis, out) n = Some (vis', out') ->
     Inv vis out -> (forall x, In x vis -> ~ In x out -> rt x n) -> Post vis out vis' out' n) ->
  forall l vis out vis' out', fold_opt (visit f tbl dict o) l (vis, out) = Some (vis', out') ->
     Inv vis out -> (forall x d, In x vis -> ~ In x out -> In d l -> rt x d) ->
     FPost vis out vis' out' l.
Proof.
  intros IH l. induction l as [|b r IHl]; intros vis out vis' out' H HI Hpre; simpl in H.
  - inversion H; subst. constructor; auto using incl_refl.
    + intros d [].
  - destruct (visit f tbl dict o (vis, out) b) as [[v1 o1]|] eqn:E; [|discriminate].
    apply IH in E; [|exact HI | intros x Hx Hn; apply (Hpre x b Hx Hn); left; reflexivity].
    destruct E. apply IHl in H; [|exact q_inv0|].
    + destruct H. constructor.
      * eapply incl_tran; eauto.
      * eapply incl_tran; eauto.
      * intros d [->|Hd]; [apply f_vis0; exact q_n0 | apply f_all0; exact Hd].
      * intros x Hx Hn. destruct (f_gray0 x Hx Hn) as [H1 H2]. apply q_gray0; assumption.
      * intros x Hx. destruct (f_new0 x Hx) as [H1|H1].
        -- apply q_new0; exact H1.
        -- right. intro Hv. apply H1. apply q_vis0. exact Hv.
      * intros x Hx. destruct (f_reach0 x Hx) as [H1|[d [Hd Hr]]].
        -- destruct (q_reach0 x H1) as [H2|H2]; [left; exact H2|].
           right. exists b. split; [left; reflexivity | exact H2].
        -- right. exists d. split; [right; exact Hd | exact Hr].
      * exact f_inv0.
    + intros x d Hx Hn Hd. destruct (q_gray0 x Hx Hn) as [H1 H2].
      apply (Hpre x d H1 H2). right. exact Hd.
Qed.

Lemma visit_post f : forall vis out n vis' out',
  visit f tbl dict o (vis, out) n = Some (vis', out') ->
  Inv vis out -> (forall x, In x vis -> ~ In x out -> rt x n) -> Post vis out vis' out' n.
Proof.
  induction f as [|f IH]; intros vis out n vis' out' H HI Hpre; simpl in H; [discriminate|].
  destruct (mem n vis) eqn:M.
  - inversion H; subst. apply mem_In in M. constructor; auto using incl_refl.
  - destruct (negb (mem n dict)); [discriminate|].
    destruct (fold_opt (visit f tbl dict o) (o n (sort_uniq (deps_of tbl n))) ((vis ++ [n])%list, out))
      as [[v1 o1]|] eqn:E; [|discriminate].
    injection H as Hv Ho. subst vis' out'. apply mem_false in M.
    destruct HI as [HI1 [HI2 HI3]].
    assert (Hnout : ~ In n out) by (intro Hx; apply M; apply HI1; exact Hx).
    apply (fold_post f IH) in E.
    + destruct E. destruct f_inv0 as [J1 [J2 J3]].
      assert (Hn1 : In n v1) by (apply f_vis0; apply in_or_app; right; left; reflexivity).
      assert (Hno1 : ~ In n o1).
      { intro Hx. destruct (f_new0 n Hx) as [H1|H1]; [contradiction|].
        apply H1. apply in_or_app. right. left. reflexivity. }
      assert (Hdeps : incl (D n) o1).
      { intros d Hd. destruct (in_dec string_dec d o1) as [Hi|Hi]; [exact Hi|]. exfalso.
        assert (Hdv : In d v1) by (apply f_all0; apply o_In; exact Hd).
        destruct (f_gray0 d Hdv Hi) as [H1 H2]. apply in_app_or in H1.
        destruct H1 as [H1|[H1|[]]].
        - destruct (Hpre d H1 H2) as [Heq|Ht].
          + subst d. apply (Hacyc n). apply tc1. exact Hd.
          + apply (Hacyc n). eapply tcS; [exact Hd | exact Ht].
        - subst d. apply (Hacyc n). apply tc1. exact Hd. }
      constructor.
      * intros x Hx. apply f_vis0. apply in_or_app. left. exact Hx.
      * intros x Hx. apply in_or_app. left. apply f_out0. exact Hx.
      * exact Hn1.
      * intros x Hx Hn. assert (Hxo : ~ In x o1) by (intro Hy; apply Hn; apply in_or_app; left; exact Hy).
        destruct (f_gray0 x Hx Hxo) as [H1 H2]. split; [|exact H2].
        apply in_app_or in H1. destruct H1 as [H1|[H1|[]]]; [exact H1|].
        subst x. exfalso. apply Hn. apply in_or_app. right. left. reflexivity.
      * intros x Hx. apply in_app_or in Hx. destruct Hx as [Hx|[Hx|[]]].
        -- destruct (f_new0 x Hx) as [H1|H1]; [left; exact H1|]. right. intro Hv. apply H1.
           apply in_or_app. left. exact Hv.
        -- subst x. right. exact M.
      * intros x Hx. destruct (f_reach0 x Hx) as [H1|[d [Hd Hr]]].
        -- apply in_app_or in H1. destruct H1 as [H1|[H1|[]]]; [left; exact H1|]. subst. right. left. reflexivity.
        -- right. right. apply o_In in Hd. destruct Hr as [->|Hr]; [apply tc1; exact Hd | eapply tcS; eauto].
      * split; [|split].
        -- intros x Hx. apply in_app_or in Hx. destruct Hx as [Hx|[Hx|[]]]; [apply J1; exact Hx | subst; exact Hn1].
        -- rewrite rev_app_distr. simpl. split; [|exact J2]. intros d Hd. apply in_rev. rewrite rev_involutive.
           apply Hdeps. exact Hd.
        -- apply NoDup_snoc; assumption.
    + split; [|split; [exact HI2 | exact HI3]]. intros x Hx. apply in_or_app. left. apply HI1. exact Hx.
    + intros x d Hx Hn Hd. apply o_In in Hd. right. apply in_app_or in Hx.
      destruct Hx as [Hx|[Hx|[]]].
      * eapply rt_step; [apply (Hpre x Hx Hn) | exact Hd].
      * subst x. apply tc1. exact Hd.
Qed.

(* ---- totality: no KeyError, fuel suffices ---- *)
Lemma fold_mono f :
  (forall s n s', visit f tbl dict o s n = Some s' -> incl (fst s) (fst s')) ->
  forall l s s', fold_opt (visit f tbl dict o) l s = Some s' -> incl (fst s) (fst s').
Proof.
  intros IH l. induction l as [|b r IHl]; intros s s' H; simpl in H.
  - inversion H; subst. apply incl_refl.
  - destruct (visit f tbl dict o s b) as [s1|] eqn:E; [|discriminate].
    eapply incl_tran; [eapply IH; eassumption | eapply IHl; eassumption].
Qed.

Lemma visit_mono f : forall s n s', visit f tbl dict o s n = Some s' -> incl (fst s) (fst s').
Proof.
  induction f as [|f IH]; intros [vis out] n s' H; simpl in H; [discriminate|].
  destruct (mem n vis); [inversion H; subst; apply incl_refl|].
  destruct (negb (mem n dict)); [discriminate|].
  destruct (fold_opt _ _ _) as [[v1 o1]|] eqn:E; [|discriminate]. inversion H; subst. simpl.
  apply (fold_mono f IH) in E. simpl in E. intros x Hx. apply E. apply in_or_app. left. exact Hx.
Qed.

Variable U : list string.
Hypothesis U_dict : incl U dict.
Hypothesis U_closed : forall n, In n U -> incl (D n) U.

Lemma visit_total : forall f s n, In n U -> unvis U (fst s) < f -> exists s', visit f tbl dict o s n = Some s'.
Proof.
  induction f as [|f IH]; intros [vis out] n Hn Hlt; [lia|]. simpl in *.
  destruct (mem n vis) eqn:M; [eexists; reflexivity|].
  assert (Hd : mem n dict = true) by (apply mem_In; apply U_dict; exact Hn). rewrite Hd. simpl.
  assert (Hlt' : unvis U (vis ++ [n]) < f) by (pose proof (unvis_strict U vis n Hn M); lia).
  assert (Hs : incl (o n (sort_uniq (deps_of tbl n))) U).
  { intros d Hd'. apply o_In in Hd'. apply (U_closed n Hn). exact Hd'. }
  assert (G : forall l s0, incl l U -> unvis U (fst s0) < f ->
              exists s1, fold_opt (visit f tbl dict o) l s0 = Some s1).
  { clear - IH. induction l as [|b r IHl]; intros s0 Hl Hlt; simpl; [eexists; reflexivity|].
    destruct (IH s0 b) as [s1 E]; [apply Hl; left; reflexivity | exact Hlt|]. rewrite E.
    apply IHl; [intros y Hy; apply Hl; right; exact Hy|].
    apply visit_mono in E. pose proof (unvis_mono U _ _ E). lia. }
  destruct (G _ ((vis ++ [n])%list, out) Hs Hlt') as [[v1 o1] E]. rewrite E. eexists; reflexivity.
Qed.

Lemma fold_total : forall f l s0, incl l U -> unvis U (fst s0) < f ->
  exists s1, fold_opt (visit f tbl dict o) l s0 = Some s1.
Proof.
  intros f l. induction l as [|b r IHl]; intros s0 Hl Hlt; simpl; [eexists; reflexivity|].
  destruct (visit_total f s0 b) as [s1 E]; [apply Hl; left; reflexivity | exact Hlt|]. rewrite E.
  apply IHl; [intros y Hy; apply Hl; right; exact Hy|].
  apply visit_mono in E. pose proof (unvis_mono U _ _ E). lia.
Qed.

Lemma rt_closed a x : In a U -> rt a x -> In x U.
Proof.
  intros Ha [->|Ht]; [exact Ha|]. induction Ht as [a b Hb|a b c Hb Ht IH].
  - apply (U_closed a Ha). exact Hb.
  - apply IH. apply (U_closed a Ha). exact Hb.
Qed.

Lemma ordered_rev_split out : ordered_rev (rev out) -> forall n, In n out ->
  exists a b, out = (a ++ n :: b)%list /\ incl (D n) a.
Proof.
  induction out as [|x l IH] using rev_ind; intros Ho n Hn; [destruct Hn|].
  rewrite rev_app_distr in Ho. simpl in Ho. destruct Ho as [Hx Ho].
  apply in_app_or in Hn. destruct Hn as [Hn|[Hn|[]]].
  - destruct (IH Ho n Hn) as [a [b [E Ha]]]. exists a, (b ++ [x])%list. split; [|exact Ha].
    rewrite E. rewrite <- app_assoc. reflexivity.
  - subst x. exists l, []. split; [reflexivity|]. intros d Hd. apply in_rev. apply Hx. exact Hd.
Qed.
End Topo.

Theorem toposort_sound_lemma tbl dict o names :
  (forall n l, Permutation (o n l) l) -> acyclic tbl -> NoDup names -> incl names dict ->
  (forall n, In n names -> incl (D tbl n) names) ->
  exists out, toposort tbl dict o names = Some out /\ Permutation out names /\
    forall n d, In n names -> In d (D tbl n) -> exists a b, out = (a ++ n :: b)%list /\ In d a.
Proof.
  intros Hp Hac Hnd Hdict Hcl. unfold toposort.
  assert (Hroots : incl (isort names) names).
  { intros x Hx. apply (Permutation_in _ (isort_perm names)). exact Hx. }
  destruct (fold_total tbl dict o Hp names Hdict Hcl (2 + List.length names) (isort names) ([], []) Hroots)
    as [[vis' out'] E].
  { simpl. rewrite unvis_nil. lia. }
  rewrite E. exists out'. split; [reflexivity|].
  apply (fold_post tbl dict o _ (visit_post tbl dict o Hp Hac _)) in E.
  - destruct E. destruct f_inv0 as [J1 [J2 J3]].
    assert (Hall : forall x, In x vis' -> In x out').
    { intros x Hx. destruct (in_dec string_dec x out') as [Hi|Hi]; [exact Hi|].
      destruct (f_gray0 x Hx Hi) as [[] _]. }
    assert (Hin : forall x, In x out' <-> In x names).
    { intro x. split; intro Hx.
      - apply J1 in Hx. destruct (f_reach0 x Hx) as [[]|[d [Hd Hr]]].
        eapply (rt_closed tbl names Hcl); [apply Hroots; exact Hd | exact Hr].
      - apply Hall. apply f_all0. apply (Permutation_in _ (Permutation_sym (isort_perm names))). exact Hx. }
    split; [apply NoDup_Permutation; assumption|].
    intros n d Hn Hd. apply Hin in Hn. destruct (ordered_rev_split tbl out' J2 n Hn) as [a [b [Eo Ha]]].
    exists a, b. split; [exact Eo | apply Ha; exact Hd].
  - split; [intros x []|split; [exact I | constructor]].
  - intros x d [].
Qed.

(* ================= the worklist of FragmentsGenerator.generate (F11 fix) ================= *)
Lemma add_new_spec : forall cands names added names',
  add_new cands names = (added, names') ->
  names' = (names ++ added)%list /\ incl added cands /\ (forall c, In c cands -> In c names').
Proof.
  induction cands as [|c r IH]; intros names added names' H; simpl in H.
  - inversion H; subst. split; [now rewrite app_nil_r|]. split; [apply incl_refl | intros c []].
  - destruct (mem c names) eqn:M.
    + destruct (IH _ _ _ H) as [E [Hi Hc]]. split; [exact E|]. split.
      * intros x Hx. right. apply Hi. exact Hx.
      * intros x [->|Hx]; [|apply Hc; exact Hx]. subst names'. apply in_or_app. left. apply mem_In. exact M.
    + destruct (add_new r (names ++ [c])%list) as [a n'] eqn:E1. inversion H; subst.
      destruct (IH _ _ _ E1) as [E [Hi Hc]]. split; [|split].
      * rewrite E. rewrite <- app_assoc. reflexivity.
      * intros x [->|Hx]; [left; reflexivity | right; apply Hi; exact Hx].
      * intros x [->|Hx]; [|apply Hc; exact Hx]. rewrite E. apply in_or_app. left. apply in_or_app. right. left. reflexivity.
Qed.

Lemma work_spec tbl : forall fuel queue names done names' done',
  work fuel tbl queue names done = Some (names', done') ->
  (forall x, In x names <-> In x done \/ In x queue) ->
  (forall n, In n done -> incl (D tbl n) names) ->
  incl names names' /\ (forall x, In x names' <-> In x done') /\
  (forall n, In n names' -> incl (D tbl n) names').
Proof.
  induction fuel as [|f IH]; intros queue names done names' done' H Hset Hcl.
  - destruct queue as [|n q]; simpl in H; [|discriminate]. inversion H; subst.
    split; [apply incl_refl|]. split.
    + intro x. rewrite Hset. split; [intros [H1|[]]; exact H1 | intro H1; left; exact H1].
    + intros n Hn. apply Hcl. apply Hset in Hn. destruct Hn as [Hn|[]]. exact Hn.
  - destruct queue as [|n q]; simpl in H.
    + inversion H; subst. split; [apply incl_refl|]. split.
      * intro x. rewrite Hset. split; [intros [H1|[]]; exact H1 | intro H1; left; exact H1].
      * intros n Hn. apply Hcl. apply Hset in Hn. destruct Hn as [Hn|[]]. exact Hn.
    + destruct (add_new (sort_uniq (deps_of tbl n)) names) as [added names1] eqn:E.
      destruct (add_new_spec _ _ _ _ E) as [E1 [Hi Hc]].
      apply IH in H.
      * destruct H as [H1 [H2 H3]]. split; [|split; assumption].
        intros x Hx. apply H1. rewrite E1. apply in_or_app. left. exact Hx.
      * intro x. rewrite E1. rewrite !in_app_iff. rewrite Hset. simpl. tauto.
      * intros m Hm. apply in_app_or in Hm. destruct Hm as [Hm|[Hm|[]]].
        -- intros d Hd. rewrite E1. apply in_or_app. left. apply (Hcl m Hm). exact Hd.
        -- subst m. intros d Hd. apply Hc. exact Hd.
Qed.

(* every fragment some operation uses as a base class, every fragment nobody unpacks, and every mixin of
   a fragment of the module (transitively) is in the module; the generated set = the name set *)
Theorem fragment_present_lemma tbl names unp mix fuel names' done' :
  let start := start_names names (exclude_of unp mix) in
  work fuel tbl start start [] = Some (names', done') ->
  (forall f, In f names -> In f mix -> In f names') /\
  (forall f, In f names -> ~ In f unp -> In f names') /\
  (forall n, In n names' -> forall d, In d (deps_of tbl n) -> In d names') /\
  (forall x, In x names' <-> In x done').
Proof.
  intros start H. apply work_spec in H.
  - destruct H as [H1 [H2 H3]].
    assert (Hstart : forall f, In f names -> ~ In f (exclude_of unp mix) -> In f names').
    { intros f Hf Hn. apply H1. unfold start, start_names.
      apply (Permutation_in _ (Permutation_sym (isort_perm _))). apply filter_In. split.
      - apply nodup_In. exact Hf.
      - apply negb_true_iff. apply mem_false. exact Hn. }
    split; [|split; [|split]].
    + intros f Hf Hm. apply Hstart; [exact Hf|]. unfold exclude_of. intro Hx. apply filter_In in Hx.
      destruct Hx as [_ Hx]. apply andb_true_iff in Hx. destruct Hx as [_ Hx]. apply negb_true_iff in Hx.
      apply mem_false in Hx. contradiction.
    + intros f Hf Hu. apply Hstart; [exact Hf|]. unfold exclude_of. intro Hx. apply filter_In in Hx.
      destruct Hx as [Hx _]. apply nodup_In in Hx. contradiction.
    + intros n Hn d Hd. apply (H3 n Hn). unfold D. apply sort_uniq_In. exact Hd.
    + exact H2.
  - intro x. simpl. tauto.
  - intros n [].
Qed.

(* ================= mixin decision and bases ================= *)
Lemma unpack_false sch fd root :
  is_union sch (fr_on fd) = false -> fr_on fd = root -> existsb is_inline (fr_sel fd) = false ->
  unpack_fragment sch fd (Some root) = false.
Proof.
  intros H1 H2 H3. unfold unpack_fragment. rewrite H1, H3. subst root. rewrite String.eqb_refl. reflexivity.
Qed.

Lemma resolve_direct_mixin sch frags fn fd : find_frag fn frags = Some fd ->
  forall fuel ss root unp fields mix unp',
  resolve fuel sch frags false ss root unp = Some (fields, mix, unp') ->
  In (SSpread fn false) ss -> unpack_fragment sch fd (Some root) = false -> In fn mix.
Proof.
  intros Hf. induction fuel as [|f IH]; intros ss root unp fields mix unp' H Hin Hu; [discriminate|].
  simpl in H. destruct ss as [|s rest]; [destruct Hin|].
  match type of H with match ?r1 with _ => _ end = _ => destruct r1 as [[[f1 m1] u1]|] eqn:E1; [|discriminate] end.
  destruct (resolve f sch frags false rest root u1) as [[[f2 m2] u2]|] eqn:E2; [|discriminate].
  inversion H; subst. apply in_or_app. destruct Hin as [->|Hin].
  - left. rewrite Hf in E1. rewrite Hu in E1. simpl in E1. inversion E1; subst. left. reflexivity.
  - right. eapply IH; eassumption.
Qed.

(* a spread carrying @skip/@include, or lying under a conditional container, is never a base *)
Lemma resolve_under_no_mixin sch frags : forall fuel ss root unp fields mix unp',
  resolve fuel sch frags true ss root unp = Some (fields, mix, unp') -> mix = [].
Proof.
  induction fuel as [|f IH]; intros ss root unp fields mix unp' H; [discriminate|].
  simpl in H. destruct ss as [|s rest]; [inversion H; reflexivity|].
  match type of H with match ?r1 with _ => _ end = _ => destruct r1 as [[[f1 m1] u1]|] eqn:E1; [|discriminate] end.
  destruct (resolve f sch frags true rest root u1) as [[[f2 m2] u2]|] eqn:E2; [|discriminate].
  inversion H; subst. apply IH in E2. subst m2. rewrite app_nil_r.
  destruct s as [al nm mx sub|fn c|tc c sub].
  - inversion E1; reflexivity.
  - destruct (find_frag fn frags) as [fd|]; [|discriminate]. simpl in E1.
    destruct (String.eqb (fr_on fd) root || (is_abstract sch (fr_on fd) && is_sub_type sch (fr_on fd) root)).
    + eapply IH; exact E1.
    + inversion E1; reflexivity.
  - destruct (inline_root sch tc root) as [rt|]; [eapply IH; exact E1 | inversion E1; reflexivity].
Qed.

(* ---------- the base graph: inherited fragments, reduced bases (fix 959c464) ---------- *)
Section Bases.
Variable g : graph.

Lemma reach_spec b x : In x (reach g b) <-> reachable g b x.
Proof. unfold reach. destruct (dfs_is_reachability g b) as [l [E [H _]]]. rewrite E. apply H. Qed.

Lemma reach_nodup b : NoDup (reach g b).
Proof. unfold reach. destruct (dfs_is_reachability g b) as [l [E [_ H]]]. rewrite E. exact H. Qed.

(* a ->+ x : x is inherited by the class of fragment a *)
Definition tcr (a x : string) : Prop := exists b, In b (succs g a) /\ reachable g b x.

Lemma frag_bases_spec f x : In x (frag_bases g f) <-> tcr f x.
Proof.
  unfold frag_bases, tcr. rewrite in_flat_map. split; intros [b [Hb Hx]]; exists b; split; auto;
    apply reach_spec; exact Hx.
Qed.

Lemma inherited_spec mix x : In x (inherited g mix) <-> exists f, In f mix /\ tcr f x.
Proof.
  unfold inherited. rewrite in_flat_map. split; intros [f [Hf Hx]]; exists f; split; auto;
    apply frag_bases_spec; exact Hx.
Qed.

Lemma reduced_spec mix f : In f (reduced g mix) <-> In f mix /\ ~ exists f', In f' mix /\ tcr f' f.
Proof.
  unfold reduced. rewrite filter_In. rewrite negb_true_iff. rewrite mem_false. rewrite inherited_spec. reflexivity.
Qed.

Lemma reduced_incl mix : incl (reduced g mix) mix.
Proof. intros x Hx. apply reduced_spec in Hx. tauto. Qed.

Lemma tcr_reach a x : tcr a x -> reachable g a x.
Proof. intros [b [Hb Hr]]. eapply r_step; eauto. Qed.

Lemma reach_tcr a b x : reachable g a b -> tcr b x -> tcr a x.
Proof.
  intros Hab Hbx. destruct Hab as [a|a c b Hc Hcb]; [exact Hbx|].
  exists c. split; [exact Hc|]. eapply reachable_trans; [exact Hcb | apply tcr_reach; exact Hbx].
Qed.

Lemma tcr_then_reach a b x : tcr a b -> reachable g b x -> tcr a x.
Proof. intros [c [Hc Hcb]] Hbx. exists c. split; [exact Hc | eapply reachable_trans; eauto]. Qed.

Definition acyclic_g : Prop := forall a, ~ tcr a a.
Definition mu (a : string) : nat := List.length (reach g a).

Lemma mu_strict a b : acyclic_g -> tcr a b -> mu b < mu a.
Proof.
  intros Hac Hab. unfold mu.
  assert (Hnd : NoDup (a :: reach g b)).
  { constructor; [|apply reach_nodup]. intro Hx. apply reach_spec in Hx. apply (Hac a).
    eapply tcr_then_reach; eauto. }
  assert (Hin : incl (a :: reach g b) (reach g a)).
  { intros x [<-|Hx]; apply reach_spec; [constructor|]. apply reach_spec in Hx.
    eapply reachable_trans; [apply tcr_reach; exact Hab | exact Hx]. }
  pose proof (NoDup_incl_length Hnd Hin) as H. simpl in H. lia.
Qed.

Lemma reachable_nodes a x : reachable g a x -> x = a \/ In x (nodes g).
Proof.
  induction 1 as [n|a b c Hb Hr IH]; [left; reflexivity|]. right.
  destruct IH as [->|IH]; [eapply succs_in_nodes; eauto | exact IH].
Qed.

Lemma mu_bound a : mu a <= S (List.length (nodes g)).
Proof.
  unfold mu. apply (NoDup_incl_length (l' := a :: nodes g) (reach_nodup a)).
  intros x Hx. apply reach_spec in Hx. destruct (reachable_nodes _ _ Hx) as [->|H]; [left; reflexivity | right; exact H].
Qed.

(* every fragment of mix is a listed base or inherited through a listed base *)
Lemma covered : acyclic_g -> forall mix n F, In F mix -> S (List.length (nodes g)) - mu F <= n ->
  exists b, In b (reduced g mix) /\ reachable g b F.
Proof.
  intros Hac mix. induction n as [|n IH]; intros F HF Hn;
    (destruct (mem F (inherited g mix)) eqn:M;
     [ apply mem_In in M; apply inherited_spec in M; destruct M as [f [Hf Ht]];
       pose proof (mu_strict _ _ Hac Ht); pose proof (mu_bound f)
     | exists F; split; [apply filter_In; split; [exact HF | now rewrite M] | constructor] ]).
  - lia.
  - destruct (IH f Hf) as [b [Hb Hr]]; [lia|]. exists b. split; [exact Hb|].
    eapply reachable_trans; [exact Hr | apply tcr_reach; exact Ht].
Qed.

Lemma covered' : acyclic_g -> forall mix F, In F mix -> exists b, In b (reduced g mix) /\ reachable g b F.
Proof. intros Hac mix F HF. eapply covered; eauto. Qed.

(* no listed base is inherited by (an ancestor of) another fragment of the set: the pattern
   `class X(A, B)` with B a subclass of A cannot be emitted, in either order *)
Lemma bases_no_ancestor mix a b : In a (reduced g mix) -> In b mix -> ~ tcr b a.
Proof. intros Ha Hb Ht. apply reduced_spec in Ha. destruct Ha as [_ Ha]. apply Ha. exists b. split; assumption. Qed.

(* the class hierarchy actually emitted: every fragment class lists reduced bases *)
Definition rgraph : graph := map (fun kv => (fst kv, reduced g (snd kv))) g.

Lemma succs_map (F : list string -> list string) (l : graph) a : F [] = [] ->
  succs (map (fun kv => (fst kv, F (snd kv))) l) a = F (succs l a).
Proof.
  intro H0. induction l as [|[k v] r IH]; simpl; [symmetry; exact H0|].
  destruct (String.eqb k a); [reflexivity | exact IH].
Qed.

Lemma succs_rgraph a : succs rgraph a = reduced g (succs g a).
Proof. unfold rgraph. apply succs_map. reflexivity. Qed.

Lemma rgraph_sub a x : reachable rgraph a x -> reachable g a x.
Proof.
  induction 1 as [n|a b c Hb Hr IH]; [constructor|]. rewrite succs_rgraph in Hb.
  eapply r_step; [apply reduced_incl; exact Hb | exact IH].
Qed.

Lemma reach_reduced : acyclic_g -> forall n a, mu a < n -> forall x, reachable g a x -> reachable rgraph a x.
Proof.
  intros Hac. induction n as [|n IH]; intros a Hn x Hr; [lia|].
  destruct Hr as [a|a b c Hb Hbc]; [constructor|].
  destruct (covered' Hac (succs g a) b Hb) as [b' [Hb' Hr']].
  assert (Ht : tcr a b') by (exists b'; split; [apply reduced_incl; exact Hb' | constructor]).
  pose proof (mu_strict _ _ Hac Ht).
  eapply r_step; [rewrite succs_rgraph; exact Hb'|].
  apply IH; [lia|]. eapply reachable_trans; eauto.
Qed.

Lemma covered_reduced : acyclic_g -> forall mix F, In F mix ->
  exists b, In b (reduced g mix) /\ reachable rgraph b F.
Proof.
  intros Hac mix F HF. destruct (covered' Hac mix F HF) as [b [Hb Hr]]. exists b. split; [exact Hb|].
  eapply reach_reduced; eauto.
Qed.
End Bases.

Lemma class_bases_extra g mix extra x : In x extra -> In x (class_bases g mix extra).
Proof. intro H. unfold class_bases. apply in_or_app. right. exact H. Qed.

Lemma class_bases_mixin g mix extra fn : In fn (reduced g mix) -> In (pascal_s fn) (class_bases g mix extra).
Proof.
  intro H. unfold class_bases. apply in_or_app. left. destruct mix as [|m r]; [destruct H|].
  apply in_map. apply sort_uniq_In. exact H.
Qed.

Lemma class_bases_exact g mix extra x : In x (class_bases g mix extra) ->
  In x extra \/ (mix = [] /\ x = base_model) \/ exists fn, In fn (reduced g mix) /\ x = pascal_s fn.
Proof.
  unfold class_bases. intro H. apply in_app_or in H. destruct H as [H|H]; [|left; exact H]. right.
  destruct mix as [|m r].
  - left. destruct H as [<-|[]]. split; reflexivity.
  - right. apply in_map_iff in H. destruct H as [fn [E Hfn]]. exists fn. split; [|symmetry; exact E].
    apply (proj1 (sort_uniq_In _ _)) in Hfn. exact Hfn.
Qed.

(* the first class ptd emits for (cn, tn, ss): its name, and its bases as a function of the resolved set *)
Lemma ptd_head fuel sch frags g snake cn tn ss extra s cs s' :
  ptd fuel sch frags g snake cn tn ss extra s = Some (cs, s') -> mem cn (st_public s) = false ->
  exists f fields mix unp' rest, fuel = S f /\
    resolve f sch frags false ss tn (st_unp s) = Some (fields, mix, unp') /\
    cs = {| c_name := cn; c_type := tn; c_bases := class_bases g mix extra; c_frags := sort_uniq mix;
            c_direct := direct_spreads ss; c_bfrags := sort_uniq (reduced g mix);
            c_direct_at := direct_at sch tn ss |} :: rest.
Proof.
  intros H Hm. destruct fuel as [|f]; [discriminate|]. simpl in H. rewrite Hm in H.
  destruct (resolve f sch frags false ss tn (st_unp s)) as [[[fields mix] unp']|] eqn:E; [|discriminate].
  match type of H with match ?gg with _ => _ end = _ => destruct gg as [[extras s2]|]; [|discriminate] end.
  inversion H; subst. exists f, fields, mix, unp', extras. split; [reflexivity|]. split; [exact E | reflexivity].
Qed.

(* EVERY fragment spread directly and UNCONDITIONALLY (no @skip/@include on the spread; the selection set of a
   class is never under a conditional container) in the selection set, defined on exactly the evaluated type (not a
   union) and without inline fragments, is resolved as a base, and its class is a listed base or is
   inherited through a listed base along the emitted (reduced) class hierarchy: the object is an
   instance of it *)
Theorem mixin_instance_lemma fuel sch frags g snake cn tn ss extra s cs s' :
  acyclic_g g ->
  ptd fuel sch frags g snake cn tn ss extra s = Some (cs, s') -> mem cn (st_public s) = false ->
  exists c rest, cs = c :: rest /\ c_name c = cn /\ c_type c = tn /\
    forall fn fd, In (SSpread fn false) ss -> find_frag fn frags = Some fd ->
      is_union sch (fr_on fd) = false -> fr_on fd = tn -> existsb is_inline (fr_sel fd) = false ->
      In fn (c_frags c) /\
      exists b, In b (c_bfrags c) /\ In (pascal_s b) (c_bases c) /\ reachable (rgraph g) b fn.
Proof.
  intros Hac H Hm.
  destruct (ptd_head _ _ _ _ _ _ _ _ _ _ _ _ H Hm) as [f [fields [mix [unp' [rest [-> [E ->]]]]]]].
  eexists; eexists. split; [reflexivity|]. simpl. split; [reflexivity|]. split; [reflexivity|].
  intros fn fd Hin Hf H1 H2 H3.
  assert (Hmix : In fn mix).
  { eapply resolve_direct_mixin; [exact Hf | exact E | exact Hin | apply unpack_false; assumption]. }
  split; [apply sort_uniq_In; exact Hmix|].
  destruct (covered_reduced g Hac mix fn Hmix) as [b [Hb Hr]]. exists b.
  split; [apply sort_uniq_In; exact Hb|]. split; [apply class_bases_mixin; exact Hb | exact Hr].
Qed.

(* the listed fragment bases never contain a fragment that another fragment of the resolved set
   (in particular: another listed base, earlier or later) inherits *)
Theorem bases_no_ancestor_lemma fuel sch frags g snake cn tn ss extra s cs s' :
  ptd fuel sch frags g snake cn tn ss extra s = Some (cs, s') -> mem cn (st_public s) = false ->
  exists c rest, cs = c :: rest /\ incl (c_bfrags c) (c_frags c) /\
    forall a b, In a (c_bfrags c) -> In b (c_frags c) -> ~ tcr g b a.
Proof.
  intros H Hm.
  destruct (ptd_head _ _ _ _ _ _ _ _ _ _ _ _ H Hm) as [f [fields [mix [unp' [rest [-> [E ->]]]]]]].
  eexists; eexists. split; [reflexivity|]. simpl. split.
  - intros x Hx. apply sort_uniq_In. apply (reduced_incl g mix). apply (proj1 (sort_uniq_In _ _)). exact Hx.
  - intros a b Ha Hb. apply (bases_no_ancestor g mix); [apply (proj1 (sort_uniq_In _ _)); exact Ha | apply (proj1 (sort_uniq_In _ _)); exact Hb].
Qed.

(* bases of a generated class: the @mixin imports given for exactly that field / definition are all
   bases; nothing else is a base except BaseModel or classes of listed fragments *)
Theorem mixin_bases_lemma fuel sch frags g snake cn tn ss extra s cs s' :
  ptd fuel sch frags g snake cn tn ss extra s = Some (cs, s') -> mem cn (st_public s) = false ->
  exists c rest, cs = c :: rest /\ c_name c = cn /\
    (forall x, In x extra -> In x (c_bases c)) /\
    (forall x, In x (c_bases c) ->
       In x extra \/ (c_frags c = [] /\ x = base_model) \/ exists fn, In fn (c_bfrags c) /\ x = pascal_s fn).
Proof.
  intros H Hm.
  destruct (ptd_head _ _ _ _ _ _ _ _ _ _ _ _ H Hm) as [f [fields [mix [unp' [rest [-> [E ->]]]]]]].
  eexists; eexists. split; [reflexivity|]. simpl. split; [reflexivity|]. split.
  - intros x Hx. apply class_bases_extra. exact Hx.
  - intros x Hx. apply class_bases_exact in Hx. destruct Hx as [Hx|[[-> ->]|[fn [Hfn ->]]]].
    + left. exact Hx.
    + right. left. split; reflexivity.
    + right. right. exists fn. split; [apply sort_uniq_In; exact Hfn | reflexivity].
Qed.

Theorem mixin_bases_def_lemma fuel sch frags g snake (o : opdef) cs s' from imp :
  gen_op fuel sch frags g snake o = Some (cs, s') -> In (from, imp) (o_mixins o) ->
  exists c rest, cs = c :: rest /\ c_name c = pascal_s (o_name o) /\ In imp (c_bases c).
Proof.
  unfold gen_op. intros H Hin.
  destruct (mixin_bases_lemma _ _ _ _ _ _ _ _ _ _ _ _ H eq_refl) as [c [rest [-> [Hn [Hb _]]]]].
  exists c, rest. split; [reflexivity|]. split; [exact Hn|]. apply Hb. unfold extra_bases.
  apply (in_map snd _ (from, imp)). exact Hin.
Qed.

Theorem mixin_bases_frag_lemma fuel sch frags g snake (fd : fragdef) cs s' from imp :
  gen_frag fuel sch frags g snake fd = Some (cs, s') -> unpack_fragment sch fd None = false ->
  In (from, imp) (fr_mixins fd) ->
  exists c rest, cs = c :: rest /\ c_name c = pascal_s (fr_name fd) /\ In imp (c_bases c).
Proof.
  unfold gen_frag. intros H Hu Hin. rewrite Hu in H.
  destruct (mixin_bases_lemma _ _ _ _ _ _ _ _ _ _ _ _ H eq_refl) as [c [rest [-> [Hn [Hb _]]]]].
  exists c, rest. split; [reflexivity|]. split; [exact Hn|]. apply Hb. unfold extra_bases.
  apply (in_map snd _ (from, imp)). exact Hin.
Qed.

(* ================= the worklist never runs out of fuel ================= *)
Lemma add_new_nodup : forall cands names added names',
  add_new cands names = (added, names') -> NoDup names -> NoDup names'.
Proof.
  induction cands as [|c r IH]; intros names added names' H Hnd; simpl in H.
  - inversion H; subst. exact Hnd.
  - destruct (mem c names) eqn:M; [eapply IH; eauto|].
    destruct (add_new r (names ++ [c])%list) as [a n'] eqn:E1. inversion H; subst.
    eapply IH; [exact E1|]. apply NoDup_snoc; [exact Hnd | apply mem_false; exact M].
Qed.

Lemma work_total tbl U : (forall n, In n U -> incl (deps_of tbl n) U) ->
  forall fuel queue names done, NoDup names -> incl names U -> incl queue names ->
  (List.length U - List.length names) + List.length queue <= fuel ->
  exists r, work fuel tbl queue names done = Some r.
Proof.
  intros HU. induction fuel as [|f IH]; intros queue names done Hnd Hin Hq Hm.
  - destruct queue as [|n q]; simpl in *; [eexists; reflexivity | lia].
  - destruct queue as [|n q]; simpl; [eexists; reflexivity|].
    destruct (add_new (sort_uniq (deps_of tbl n)) names) as [added names1] eqn:E.
    destruct (add_new_spec _ _ _ _ E) as [E1 [Hi Hc]].
    assert (Hnd1 : NoDup names1) by (eapply add_new_nodup; eauto).
    assert (Hin1 : incl names1 U).
    { rewrite E1. intros x Hx. apply in_app_or in Hx. destruct Hx as [Hx|Hx]; [apply Hin; exact Hx|].
      apply Hi in Hx. apply (proj1 (sort_uniq_In _ _)) in Hx.
      apply (HU n); [apply Hin; apply Hq; left; reflexivity | exact Hx]. }
    apply IH; [exact Hnd1 | exact Hin1 | |].
    + rewrite E1. intros x Hx. apply in_app_or in Hx. apply in_or_app.
      destruct Hx as [Hx|Hx]; [left; apply Hq; right; exact Hx | right; exact Hx].
    + pose proof (NoDup_incl_length Hnd1 Hin1) as L1. rewrite E1 in L1. rewrite app_length in L1.
      rewrite E1. rewrite !app_length. simpl in Hm. lia.
Qed.

Theorem fragment_present_total tbl names unp mix :
  (forall n d, In d (deps_of tbl n) -> In d names) ->
  let start := start_names names (exclude_of unp mix) in
  exists names' done', work (1 + List.length names) tbl start start [] = Some (names', done') /\
  (forall f, In f names -> In f mix -> In f names') /\
  (forall f, In f names -> ~ In f unp -> In f names') /\
  (forall n, In n names' -> forall d, In d (deps_of tbl n) -> In d names') /\
  (forall x, In x names' <-> In x done').
Proof.
  intros Hcl start.
  assert (Hs : incl start (nodup string_dec names)).
  { unfold start, start_names. intros x Hx. apply (Permutation_in _ (isort_perm _)) in Hx.
    apply filter_In in Hx. tauto. }
  assert (Hnd : NoDup start).
  { unfold start, start_names. eapply Permutation_NoDup; [apply Permutation_sym; apply isort_perm|].
    apply NoDup_filter. apply NoDup_nodup. }
  destruct (work_total tbl (nodup string_dec names)) with (fuel := 1 + List.length names)
    (queue := start) (names := start) (done := @nil string) as [[names' done'] E].
  - intros n _ d Hd. apply nodup_In. eapply Hcl; eauto.
  - exact Hnd.
  - exact Hs.
  - apply incl_refl.
  - pose proof (NoDup_incl_length Hnd Hs).
    assert (List.length (nodup string_dec names) <= List.length names).
    { apply NoDup_incl_length; [apply NoDup_nodup|]. intros x Hx. apply nodup_In in Hx. exact Hx. }
    lia.
  - exists names', done'. split; [exact E|]. exact (fragment_present_lemma _ _ _ _ _ _ _ E).
Qed.

(* a selection set consisting of conditional containers only (conditional spreads / conditional inline
   fragments) yields no base class at all *)
Lemma conditional_only_no_mixin sch frags : forall fuel ss root unp fields mix unp',
  forallb (fun s => match s with SSpread _ c => c | SInline _ c _ => c | SField _ _ _ _ => true end) ss = true ->
  resolve fuel sch frags false ss root unp = Some (fields, mix, unp') -> mix = [].
Proof.
  induction fuel as [|f IH]; intros ss root unp fields mix unp' Hall H; [discriminate|].
  simpl in H. destruct ss as [|s rest]; [inversion H; reflexivity|].
  simpl in Hall. apply andb_true_iff in Hall. destruct Hall as [Hs Hrest].
  match type of H with match ?r1 with _ => _ end = _ => destruct r1 as [[[f1 m1] u1]|] eqn:E1; [|discriminate] end.
  destruct (resolve f sch frags false rest root u1) as [[[f2 m2] u2]|] eqn:E2; [|discriminate].
  inversion H; subst. apply (IH _ _ _ _ _ _ Hrest) in E2. subst m2. rewrite app_nil_r.
  destruct s as [al nm mx sub|fn c|tc c sub]; simpl in Hs.
  - inversion E1; reflexivity.
  - subst c. destruct (find_frag fn frags) as [fd|]; [|discriminate]. simpl in E1.
    destruct (String.eqb (fr_on fd) root || (is_abstract sch (fr_on fd) && is_sub_type sch (fr_on fd) root)).
    + eapply resolve_under_no_mixin; exact E1.
    + inversion E1; reflexivity.
  - subst c. destruct (inline_root sch tc root) as [rt|];
      [eapply resolve_under_no_mixin; exact E1 | inversion E1; reflexivity].
Qed.

(* the fragments resolve returns as bases are WRITTEN names of defined fragments (keys of
   fragments_definitions), never class names: the dependency relation of the module is on written names *)
Lemma resolve_mix_written sch frags : forall fuel under ss root unp fields mix unp',
  resolve fuel sch frags under ss root unp = Some (fields, mix, unp') ->
  forall fn, In fn mix -> exists fd, find_frag fn frags = Some fd.
Proof.
  induction fuel as [|f IH]; intros under ss root unp fields mix unp' H fn Hin; [discriminate|].
  simpl in H. destruct ss as [|s rest]; [inversion H; subst; destruct Hin|].
  match type of H with match ?r1 with _ => _ end = _ => destruct r1 as [[[f1 m1] u1]|] eqn:E1; [|discriminate] end.
  destruct (resolve f sch frags under rest root u1) as [[[f2 m2] u2]|] eqn:E2; [|discriminate].
  inversion H; subst. apply in_app_or in Hin. destruct Hin as [Hin|Hin]; [|eapply IH; [exact E2 | exact Hin]].
  destruct s as [al nm mx sub|sn c|tc c sub].
  - inversion E1; subst. destruct Hin.
  - destruct (find_frag sn frags) as [fd|] eqn:Ef; [|discriminate].
    destruct (negb (under || c) && negb (unpack_fragment sch fd (Some root))).
    + inversion E1; subst. destruct Hin as [<-|[]]. exists fd. exact Ef.
    + destruct (String.eqb (fr_on fd) root || (is_abstract sch (fr_on fd) && is_sub_type sch (fr_on fd) root)).
      * eapply IH; [exact E1 | exact Hin].
      * inversion E1; subst. destruct Hin.
  - destruct (inline_root sch tc root) as [rt|]; [eapply IH; [exact E1 | exact Hin] | inversion E1; subst; destruct Hin].
Qed.

Lemma top_graph_written_gen fuel sch frags : forall l g',
  all_some (map (fun fd => match resolve fuel sch frags false (fr_sel fd) (fr_on fd) [] with
                           | Some (_, mix, _) => Some (fr_name fd, mix) | None => None end) l) = Some g' ->
  forall n d, In d (succs g' n) -> exists fd, find_frag d frags = Some fd.
Proof.
  induction l as [|h l IHl]; intros g' H n d Hd; simpl in H.
  - inversion H; subst. destruct Hd.
  - destruct (resolve fuel sch frags false (fr_sel h) (fr_on h) []) as [[[fs mix] u]|] eqn:E; [|discriminate].
    destruct (all_some _) as [g0|] eqn:E0; [|discriminate]. inversion H; subst. simpl in Hd.
    destruct (String.eqb (fr_name h) n).
    + eapply resolve_mix_written; eassumption.
    + eapply IHl; [reflexivity | exact Hd].
Qed.

(* every edge of the base graph ends in the written name of a defined fragment *)
Lemma top_graph_written fuel sch frags g : top_graph fuel sch frags = Some g ->
  forall n d, In d (succs g n) -> exists fd, find_frag d frags = Some fd.
Proof. unfold top_graph. apply top_graph_written_gen. Qed.

(* ================= fuel monotonicity: the answer does not depend on the fuel once it suffices ========== *)
Lemma resolve_fuel_mono sch frags : forall f under ss root unp r,
  resolve f sch frags under ss root unp = Some r ->
  forall f', f <= f' -> resolve f' sch frags under ss root unp = Some r.
Proof.
  induction f as [|f IH]; intros under ss root unp r H f' Hle; [discriminate|].
  destruct f' as [|f']; [lia|]. assert (Hle' : f <= f') by lia.
  simpl in H |- *. destruct ss as [|s rest]; [exact H|].
  match type of H with match ?r1 with _ => _ end = _ => destruct r1 as [[[f1 m1] u1]|] eqn:E1; [|discriminate] end.
  destruct (resolve f sch frags under rest root u1) as [[[f2 m2] u2]|] eqn:E2; [|discriminate].
  apply (fun h => IH _ _ _ _ _ h f' Hle') in E2.
  assert (E1' : match s with
                | SField _ _ _ _ => Some ([s], [], unp)
                | SSpread fn c =>
                    match find_frag fn frags with
                    | None => None
                    | Some fd =>
                        if negb (under || c) && negb (unpack_fragment sch fd (Some root)) then Some ([], [fn], unp)
                        else if String.eqb (fr_on fd) root || (is_abstract sch (fr_on fd) && is_sub_type sch (fr_on fd) root)
                        then resolve f' sch frags (under || c) (fr_sel fd) root (unp ++ [fn])%list
                        else Some ([], [], unp)
                    end
                | SInline tc c sub =>
                    match inline_root sch tc root with
                    | Some rt => resolve f' sch frags (under || c) sub rt unp
                    | None => Some ([], [], unp)
                    end
                end = Some (f1, m1, u1)).
  { destruct s as [al nm mx sub|fn c|tc c sub]; [exact E1| |].
    - destruct (find_frag fn frags) as [fd|]; [|discriminate].
      destruct (negb (under || c) && negb (unpack_fragment sch fd (Some root))); [exact E1|].
      destruct (String.eqb (fr_on fd) root || (is_abstract sch (fr_on fd) && is_sub_type sch (fr_on fd) root));
        [eapply IH; eassumption | exact E1].
    - destruct (inline_root sch tc root); [eapply IH; eassumption | exact E1]. }
  rewrite E1'. rewrite E2. exact H.
Qed.

Lemma resolve_fuel_agree sch frags f1 f2 under ss root unp r1 r2 :
  resolve f1 sch frags under ss root unp = Some r1 -> resolve f2 sch frags under ss root unp = Some r2 -> r1 = r2.
Proof.
  intros H1 H2. pose proof (resolve_fuel_mono _ _ _ _ _ _ _ _ H1 (max f1 f2) (Nat.le_max_l _ _)) as A.
  pose proof (resolve_fuel_mono _ _ _ _ _ _ _ _ H2 (max f1 f2) (Nat.le_max_r _ _)) as B. congruence.
Qed.

(* the entry of the base graph for a defined fragment (unique names) *)
Lemma top_graph_entry fuel sch frags : forall l g,
  all_some (map (fun fd => match resolve fuel sch frags false (fr_sel fd) (fr_on fd) [] with
                           | Some (_, mix, _) => Some (fr_name fd, mix) | None => None end) l) = Some g ->
  NoDup (map fr_name l) -> forall fd, In fd l ->
  exists fs mix u, resolve fuel sch frags false (fr_sel fd) (fr_on fd) [] = Some (fs, mix, u) /\
                   succs g (fr_name fd) = mix.
Proof.
  induction l as [|h l IHl]; intros g H Hnd fd Hin; [destruct Hin|]. simpl in H.
  destruct (resolve fuel sch frags false (fr_sel h) (fr_on h) []) as [[[fs mix] u]|] eqn:E; [|discriminate].
  destruct (all_some _) as [g0|] eqn:E0; [|discriminate]. inversion H; subst. inversion Hnd; subst.
  destruct Hin as [->|Hin].
  - exists fs, mix, u. split; [exact E|]. simpl. now rewrite String.eqb_refl.
  - destruct (IHl g0 eq_refl H3 fd Hin) as [fs' [mix' [u' [E' Hs]]]]. exists fs', mix', u'. split; [exact E'|].
    simpl. destruct (String.eqb (fr_name h) (fr_name fd)) eqn:Eq; [|exact Hs].
    apply String.eqb_eq in Eq. exfalso. apply H2. rewrite Eq. apply in_map. exact Hin.
Qed.

(* the base graph handed to the class generator IS the hierarchy the module classes realise: the class generated
   for a fragment resolves exactly succs g name as bases and lists exactly succs (rgraph g) name *)
Theorem top_graph_realised fuel0 fuel sch frags g snake fd cs s' :
  top_graph fuel0 sch frags = Some g -> NoDup (map fr_name frags) -> In fd frags ->
  unpack_fragment sch fd None = false ->
  gen_frag fuel sch frags g snake fd = Some (cs, s') ->
  exists c rest, cs = c :: rest /\ c_name c = pascal_s (fr_name fd) /\
    c_frags c = sort_uniq (succs g (fr_name fd)) /\
    c_bfrags c = sort_uniq (succs (rgraph g) (fr_name fd)).
Proof.
  intros Hg Hnd Hin Hu H. unfold gen_frag in H. rewrite Hu in H.
  destruct (ptd_head _ _ _ _ _ _ _ _ _ _ _ _ H eq_refl) as [f [fields [mix [unp' [rest [-> [E ->]]]]]]].
  simpl in E. unfold top_graph in Hg.
  destruct (top_graph_entry _ _ _ _ _ Hg Hnd fd Hin) as [fs [mix' [u [E' Hs]]]].
  pose proof (resolve_fuel_agree _ _ _ _ _ _ _ _ _ _ E E') as Heq. inversion Heq; subst.
  eexists; eexists. split; [reflexivity|]. simpl. split; [reflexivity|]. split; [reflexivity|].
  rewrite succs_rgraph. reflexivity.
Qed.


(* the module imports what every generated fragment imports (by construction of module_imports_of; the tie
   compares it with the import statements of fragments.py) *)
Lemma module_imports_cover imps generated n l x :
  In n generated -> lookup n imps = Some l -> In x l -> In x (module_imports_of imps generated).
Proof.
  intros Hn Hl Hx. unfold module_imports_of. apply in_flat_map. exists n. split; [exact Hn|]. rewrite Hl. exact Hx.
Qed.

(* ================= the mixins recorded while generating classes are defined fragments ================= *)
Definition defined (frags : list fragdef) (fn : string) : Prop := exists fd, find_frag fn frags = Some fd.
Definition Qmix (frags : list fragdef) (s : st) : Prop := forall fn, In fn (st_mix s) -> defined frags fn.

Lemma go_related_inv frags (rec : ptd_fun) :
  (forall cn tn sub ex s cs s', rec cn tn sub ex s = Some (cs, s') -> Qmix frags s -> Qmix frags s') ->
  forall rel sub ex s cs s', go_related rec rel sub ex s = Some (cs, s') -> Qmix frags s -> Qmix frags s'.
Proof.
  intros Hrec. induction rel as [|[cn' tn'] r IH]; intros sub ex s cs s' H HQ; simpl in H.
  - inversion H; subst. exact HQ.
  - destruct (rec cn' tn' sub ex s) as [[c1 s1]|] eqn:E1; [|discriminate].
    destruct (go_related rec r sub ex s1) as [[c2 s2]|] eqn:E2; [|discriminate].
    inversion H; subst. eapply IH; [exact E2|]. eapply Hrec; eauto.
Qed.

Lemma go_fields_inv frags (rec : ptd_fun) f sch snake cn tn :
  (forall cn tn sub ex s cs s', rec cn tn sub ex s = Some (cs, s') -> Qmix frags s -> Qmix frags s') ->
  forall fs s cs s', go_fields rec f sch frags snake cn tn fs s = Some (cs, s') -> Qmix frags s -> Qmix frags s'.
Proof.
  intros Hrec. induction fs as [|x r IH]; intros s cs s' H HQ; simpl in H.
  - inversion H; subst. exact HQ.
  - destruct x as [al nm mx sub|fn c|tc c sub]; [|eapply IH; eauto|eapply IH; eauto].
    match type of H with match ?rl with _ => _ end = _ => destruct rl as [rl0|]; [|discriminate] end.
    match type of H with match ?gr with _ => _ end = _ => destruct gr as [[c1 s1]|] eqn:E1; [|discriminate] end.
    destruct (go_fields rec f sch frags snake cn tn r s1) as [[c2 s2]|] eqn:E2; [|discriminate].
    inversion H; subst. eapply IH; [exact E2|].
    eapply (go_related_inv frags rec Hrec); [exact E1|]. intros x Hx. apply HQ. exact Hx.
Qed.

Lemma ptd_inv sch frags g snake : forall fuel cn tn ss extra s cs s',
  ptd fuel sch frags g snake cn tn ss extra s = Some (cs, s') -> Qmix frags s -> Qmix frags s'.
Proof.
  induction fuel as [|f IH]; intros cn tn ss extra s cs s' H HQ; [discriminate|]. simpl in H.
  destruct (mem cn (st_public s)); [inversion H; subst; exact HQ|].
  destruct (resolve f sch frags false ss tn (st_unp s)) as [[[fields mix] unp']|] eqn:E; [|discriminate].
  match type of H with match ?gf with _ => _ end = _ => destruct gf as [[extras s2]|] eqn:E2; [|discriminate] end.
  inversion H; subst. eapply (go_fields_inv frags _ f sch snake cn tn (IH)); [exact E2|].
  intros fn Hfn. simpl in Hfn. apply in_app_or in Hfn. destruct Hfn as [Hfn|Hfn]; [apply HQ; exact Hfn|].
  eapply resolve_mix_written; eassumption.
Qed.

Lemma gen_frag_mix_defined fuel sch frags g snake fd cs s' :
  gen_frag fuel sch frags g snake fd = Some (cs, s') -> Qmix frags s'.
Proof.
  unfold gen_frag. destruct (unpack_fragment sch fd None).
  - intro H. inversion H; subst. intros fn [].
  - intro H. eapply ptd_inv; [exact H|]. intros fn [].
Qed.

Lemma gen_op_mix_defined fuel sch frags g snake o cs s' :
  gen_op fuel sch frags g snake o = Some (cs, s') -> Qmix frags s'.
Proof. unfold gen_op. intro H. eapply ptd_inv; [exact H|]. intros fn []. Qed.

Lemma defined_name frags fn : defined frags fn -> In fn (map fr_name frags).
Proof.
  intros [fd H]. unfold find_frag in H. apply find_some in H. destruct H as [Hin He].
  apply String.eqb_eq in He. subst fn. apply in_map. exact Hin.
Qed.

Lemma all_some_In {X Y} (f : X -> option Y) : forall l rs, all_some (map f l) = Some rs ->
  forall r, In r rs -> exists x, In x l /\ f x = Some r.
Proof.
  induction l as [|h l IH]; intros rs H r Hr; simpl in H.
  - inversion H; subst. destruct Hr.
  - destruct (f h) as [y|] eqn:E; [|discriminate]. destruct (all_some (map f l)) as [ys|] eqn:E2; [|discriminate].
    inversion H; subst. destruct Hr as [<-|Hr]; [exists h; split; [left; reflexivity | exact E]|].
    destruct (IH ys eq_refl r Hr) as [x [Hx Hfx]]. exists x. split; [right; exact Hx | exact Hfx].
Qed.

Lemma lookup_combine_In {V} n : forall (ks : list string) (vs : list V) v, lookup n (combine ks vs) = Some v -> In v vs.
Proof.
  induction ks as [|k ks IH]; intros vs v H; simpl in H; [discriminate|].
  destruct vs as [|v0 vs]; [discriminate|]. simpl in H.
  destruct (String.eqb n k); [inversion H; subst; left; reflexivity | right; eapply IH; exact H].
Qed.

(* the dependency table generate_package builds is closed in the fragment names: the hypothesis of
   fragment_present_total is a theorem for it *)
Theorem frag_table_closed fuel sch frags g snake rfrags :
  all_some (map (gen_frag fuel sch frags g snake) frags) = Some rfrags ->
  let tbl := combine (map fr_name frags) (map (fun r => sort_uniq (st_mix (snd r))) rfrags) in
  forall n d, In d (deps_of tbl n) -> In d (map fr_name frags).
Proof.
  intros H tbl n d Hd. unfold deps_of in Hd. destruct (lookup n tbl) as [l|] eqn:El; [|destruct Hd].
  apply lookup_combine_In in El. apply in_map_iff in El. destruct El as [r [Er Hr]]. subst l.
  apply (proj1 (sort_uniq_In _ _)) in Hd.
  destruct (all_some_In _ _ _ H r Hr) as [fd [_ Hg]]. destruct r as [cs s']. simpl in Hd.
  apply defined_name. eapply gen_frag_mix_defined; eassumption.
Qed.

(* ================= NoFragmentCycles implies the base graph is acyclic ================= *)
Lemma succs_spread_graph frags fn fd : find_frag fn frags = Some fd ->
  succs (spread_graph frags) fn = spreads_of (fr_sel fd).
Proof.
  unfold find_frag, spread_graph. induction frags as [|h r IH]; simpl; [discriminate|].
  destruct (String.eqb (fr_name h) fn); [intro H; inversion H; reflexivity | exact IH].
Qed.

Lemma resolve_mix_path sch frags : forall fuel under ss root unp fs mix u,
  resolve fuel sch frags under ss root unp = Some (fs, mix, u) ->
  forall b, In b mix -> exists x, In x (spreads_of ss) /\ reachable (spread_graph frags) x b.
Proof.
  induction fuel as [|f IH]; intros under ss root unp fs mix u H b Hb; [discriminate|].
  simpl in H. destruct ss as [|s rest]; [inversion H; subst; destruct Hb|].
  match type of H with match ?r1 with _ => _ end = _ => destruct r1 as [[[f1 m1] u1]|] eqn:E1; [|discriminate] end.
  destruct (resolve f sch frags under rest root u1) as [[[f2 m2] u2]|] eqn:E2; [|discriminate].
  inversion H; subst. unfold spreads_of. simpl. apply in_app_or in Hb. destruct Hb as [Hb|Hb].
  - destruct s as [al nm mx sub|fn c|tc c sub].
    + inversion E1; subst. destruct Hb.
    + destruct (find_frag fn frags) as [fd|] eqn:Ef; [|discriminate].
      destruct (negb (under || c) && negb (unpack_fragment sch fd (Some root))).
      * inversion E1; subst. destruct Hb as [<-|[]]. exists fn. split; [left; reflexivity | constructor].
      * destruct (String.eqb (fr_on fd) root || (is_abstract sch (fr_on fd) && is_sub_type sch (fr_on fd) root)).
        -- destruct (IH _ _ _ _ _ _ _ E1 b Hb) as [x [Hx Hr]]. exists fn. split; [left; reflexivity|].
           eapply r_step; [|exact Hr]. rewrite (succs_spread_graph _ _ _ Ef). exact Hx.
        -- inversion E1; subst. destruct Hb.
    + destruct (inline_root sch tc root) as [rt|].
      * destruct (IH _ _ _ _ _ _ _ E1 b Hb) as [x [Hx Hr]]. exists x. split; [|exact Hr].
        apply in_or_app. left. exact Hx.
      * inversion E1; subst. destruct Hb.
  - destruct (IH _ _ _ _ _ _ _ E2 b Hb) as [x [Hx Hr]]. exists x. split; [|exact Hr]. apply in_or_app. right. exact Hx.
Qed.

Lemma top_graph_edge_gen fuel sch frags : forall l g',
  all_some (map (fun fd => match resolve fuel sch frags false (fr_sel fd) (fr_on fd) [] with
                           | Some (_, mix, _) => Some (fr_name fd, mix) | None => None end) l) = Some g' ->
  forall a b, In b (succs g' a) ->
  exists fd fs mix u, find_frag a l = Some fd /\
    resolve fuel sch frags false (fr_sel fd) (fr_on fd) [] = Some (fs, mix, u) /\ In b mix.
Proof.
  induction l as [|h l IHl]; intros g' H a b Hb; simpl in H.
  - inversion H; subst. destruct Hb.
  - destruct (resolve fuel sch frags false (fr_sel h) (fr_on h) []) as [[[fs mix] u]|] eqn:E; [|discriminate].
    destruct (all_some _) as [g0|] eqn:E0; [|discriminate]. inversion H; subst. simpl in Hb. unfold find_frag. simpl.
    destruct (String.eqb (fr_name h) a).
    + exists h, fs, mix, u. split; [reflexivity|]. split; [exact E | exact Hb].
    + exact (IHl g0 eq_refl a b Hb).
Qed.

Lemma base_edge_is_spread_path fuel sch frags g : top_graph fuel sch frags = Some g ->
  forall a b, In b (succs g a) -> tcr (spread_graph frags) a b /\ defined frags a.
Proof.
  intros Hg a b Hb. unfold top_graph in Hg.
  destruct (top_graph_edge_gen _ _ _ _ _ Hg a b Hb) as [fd [fs [mix [u [Hf [E Hm]]]]]].
  split; [|exists fd; exact Hf].
  destruct (resolve_mix_path _ _ _ _ _ _ _ _ _ _ E b Hm) as [x [Hx Hr]].
  exists x. split; [rewrite (succs_spread_graph _ _ _ Hf); exact Hx | exact Hr].
Qed.

Lemma base_reach_is_spread_reach fuel sch frags g : top_graph fuel sch frags = Some g ->
  forall a b, reachable g a b -> reachable (spread_graph frags) a b.
Proof.
  intros Hg a b H. induction H as [n|a b c Hb Hr IH]; [constructor|].
  eapply reachable_trans; [|exact IH]. apply tcr_reach.
  exact (proj1 (base_edge_is_spread_path _ _ _ _ Hg a b Hb)).
Qed.

Theorem no_cycles_acyclic fuel sch frags g :
  no_fragment_cycles frags = true -> top_graph fuel sch frags = Some g -> acyclic_g g.
Proof.
  intros Hn Hg a [b [Hb Hr]].
  destruct (base_edge_is_spread_path _ _ _ _ Hg a b Hb) as [Ht [fd Hf]].
  assert (Hc : tcr (spread_graph frags) a a).
  { eapply tcr_then_reach; [exact Ht|]. eapply base_reach_is_spread_reach; eassumption. }
  unfold find_frag in Hf. apply find_some in Hf. destruct Hf as [Hin He]. apply String.eqb_eq in He.
  unfold no_fragment_cycles in Hn. rewrite forallb_forall in Hn. specialize (Hn fd Hin).
  apply negb_true_iff in Hn. apply mem_false in Hn. apply Hn. rewrite He. apply frag_bases_spec. exact Hc.
Qed.


(* the premise of the property, through applicable unconditional inline fragments: a fragment spread (directly)
   in a selection set that is EVALUATED for rt - the class's own selection set, or the selection set of an
   unconditional `... on rt` whose condition applies, nested to any depth - and defined on exactly rt is a base *)
Lemma resolve_direct_at_mixin sch frags fn fd : find_frag fn frags = Some fd ->
  forall fuel ss root unp fields mix unp',
  resolve fuel sch frags false ss root unp = Some (fields, mix, unp') ->
  forall rt, In (fn, rt) (direct_at sch root ss) -> unpack_fragment sch fd (Some rt) = false -> In fn mix.
Proof.
  intros Hf. induction fuel as [|f IH]; intros ss root unp fields mix unp' H rt Hin Hu; [discriminate|].
  simpl in H. destruct ss as [|s rest]; [destruct Hin|].
  match type of H with match ?r1 with _ => _ end = _ => destruct r1 as [[[f1 m1] u1]|] eqn:E1; [|discriminate] end.
  destruct (resolve f sch frags false rest root u1) as [[[f2 m2] u2]|] eqn:E2; [|discriminate].
  inversion H; subst. apply in_or_app. unfold direct_at in Hin. simpl in Hin. apply in_app_or in Hin.
  destruct Hin as [Hin|Hin]; [|right; eapply IH; eassumption]. left.
  destruct s as [al nm mx sub|sn c|tc c sub]; simpl in Hin; [destruct Hin| |].
  - destruct c; [destruct Hin|]. destruct Hin as [Hin|[]]. inversion Hin; subst.
    rewrite Hf in E1. rewrite Hu in E1. simpl in E1. inversion E1; subst. left. reflexivity.
  - destruct c; [destruct Hin|]. destruct (inline_root sch tc root) as [rt'|]; [|destruct Hin].
    simpl in E1. eapply IH; [exact E1 | exact Hin | exact Hu].
Qed.

Theorem mixin_instance_nested_lemma fuel sch frags g snake cn tn ss extra s cs s' :
  acyclic_g g ->
  ptd fuel sch frags g snake cn tn ss extra s = Some (cs, s') -> mem cn (st_public s) = false ->
  exists c rest, cs = c :: rest /\ c_name c = cn /\ c_direct_at c = direct_at sch tn ss /\
    forall fn rt fd, In (fn, rt) (c_direct_at c) -> find_frag fn frags = Some fd ->
      is_union sch (fr_on fd) = false -> fr_on fd = rt -> existsb is_inline (fr_sel fd) = false ->
      In fn (c_frags c) /\
      exists b, In b (c_bfrags c) /\ In (pascal_s b) (c_bases c) /\ reachable (rgraph g) b fn.
Proof.
  intros Hac H Hm.
  destruct (ptd_head _ _ _ _ _ _ _ _ _ _ _ _ H Hm) as [f [fields [mix [unp' [rest [-> [E ->]]]]]]].
  eexists; eexists. split; [reflexivity|]. simpl. split; [reflexivity|]. split; [reflexivity|].
  intros fn rt fd Hin Hf H1 H2 H3.
  assert (Hmix : In fn mix).
  { eapply resolve_direct_at_mixin; [exact Hf | exact E | exact Hin | apply unpack_false; assumption]. }
  split; [apply sort_uniq_In; exact Hmix|].
  destruct (covered_reduced g Hac mix fn Hmix) as [b [Hb Hr]]. exists b.
  split; [apply sort_uniq_In; exact Hb|]. split; [apply class_bases_mixin; exact Hb | exact Hr].
Qed.
