(* Model of the document side of ariadne_codegen/client_generators/result_types.py + package.py:
   which document [get_operation_as_str] yields for every operation of a package.

   - the in-place AST mutation of [_add_typename_field_to_selections] (a __typename FieldNode is
     prepended to the selection set of a field when a class is generated for it at an abstract
     position and its resolved fields do not select __typename yet) is a set [ins] of field ids:
     the current AST is the authored AST + [ins] ([view], [apply_*]);
   - the order of package.py after aaafe85: first one ResultTypesGenerator per fragment definition
     (skipped when [_unpack_fragment] says the fragment has no class of its own), then one per
     operation in document order; the operation string is taken right after the operation's own
     generator ran, so later operations see the insertions made by earlier ones in shared fragments;
   - [_get_node_without_mixin_directive]: RemoveMixinVisitor has [enter_field] and, since b510d04,
     [enter_fragment_definition];
   - [_get_all_related_fragments] = (since ab67ead) the closure of the operation's own selection set
     under "spreads", printed in sorted order after the operation.
   Executable definitions only. *)
From Coq Require Import List String Ascii Bool Arith.
From AC Require Import Base.Strs Base.Sexp Gql.Schema Gql.Doc Py.Ann Model.Names Model.Results.
Import ListNotations.
Local Open Scope string_scope.
Local Open Scope list_scope.

Definition mem_nat (x : nat) (l : list nat) : bool := existsb (Nat.eqb x) l.

(* ---- the AST with the automatic __typename insertions ---- *)
Definition view (ins : list nat) (id : nat) (l : list fsel) : list fsel :=
  if mem_nat id ins then FAuto :: l else l.

Fixpoint apply_sel (ins : list nat) (s : fsel) : fsel :=
  match s with
  | FField id al n args ds sub =>
      FField id al n args ds
             (match sub with
              | Some l => Some (view ins id (map (apply_sel ins) l))
              | None => None
              end)
  | FInline tc ds sub => FInline tc ds (map (apply_sel ins) sub)
  | FSpread n ds => FSpread n ds
  | FAuto => FAuto
  end.

Definition apply_op (ins : list nat) (o : opdef) : opdef :=
  {| o_kind := o_kind o; o_name := o_name o; o_vars := o_vars o; o_dirs := o_dirs o;
     o_sel := map (apply_sel ins) (o_sel o) |}.
Definition apply_fd (ins : list nat) (f : fdef) : fdef :=
  {| fd_name := fd_name f; fd_on := fd_on f; fd_dirs := fd_dirs f;
     fd_sel := map (apply_sel ins) (fd_sel f) |}.

(* ---- RemoveMixinVisitor.enter_field ---- *)
Definition not_mixin (d : directive) : bool := negb (String.eqb (d_name d) "mixin").

Fixpoint strip_sel (s : fsel) : fsel :=
  match s with
  | FField id al n args ds sub =>
      FField id al n args (filter not_mixin ds)
             (match sub with Some l => Some (map strip_sel l) | None => None end)
  | FInline tc ds sub => FInline tc ds (map strip_sel sub)
  | FSpread n ds => FSpread n ds
  | FAuto => FAuto
  end.

Definition strip_op (o : opdef) : opdef :=
  {| o_kind := o_kind o; o_name := o_name o; o_vars := o_vars o; o_dirs := o_dirs o;
     o_sel := map strip_sel (o_sel o) |}.
Definition strip_fd (f : fdef) : fdef :=
  {| fd_name := fd_name f; fd_on := fd_on f; fd_dirs := filter not_mixin (fd_dirs f);
     fd_sel := map strip_sel (fd_sel f) |}.

(* ---- _resolve_selection_set, instrumented: (fields, mixins, unpacked) ---- *)
Record fnode' := { n_id : nat; n_alias : option string; n_name : string; n_sub : option (list fsel) }.

Definition auto_node : fnode' := {| n_id := 0; n_alias := None; n_name := "__typename"; n_sub := None |}.

(* [cond]: some enclosing inline fragment / spread carries @skip or @include (e47d9e8: such a spread is
   never a mixin base class, it is unpacked; the collected fields are copies that share their
   selection sets with the authored nodes, so the __typename insertion still lands in the document) *)
Fixpoint resolve' (fuel : nat) (Sc : schema) (frs : list fdef) (cond : bool) (sels : list fsel) (root : string)
  : res (list fnode' * list string * list string) :=
  match fuel with
  | O => Err "fuel"
  | S fuel' =>
      fold_left (fun acc s =>
        p <- acc ;;
        let '(fields, mixins, unp) := p in
        match s with
        | FAuto => Ok (fields ++ [auto_node], mixins, unp)
        | FField id al n _ _ sub =>
            Ok (fields ++ [{| n_id := id; n_alias := al; n_name := n; n_sub := sub |}], mixins, unp)
        | FSpread n ds =>
            let sub_cond := cond || has_cond ds in
            match lookup_fdef frs n with
            | None => Err "KeyError: fragment"
            | Some f =>
                match lookup_type Sc root, lookup_type Sc (fd_on f) with
                | Some _, Some fd =>
                    if negb sub_cond && negb (unpack_fragment Sc (proj_frag f) (Some root))
                    then Ok (fields, mixins ++ [n], unp)
                    else if String.eqb (fd_on f) root || (is_abstract fd && is_sub_type Sc (fd_on f) root)
                    then q <- resolve' fuel' Sc frs sub_cond (fd_sel f) root ;;
                         let '(f2, m2, u2) := q in
                         Ok (fields ++ f2, mixins ++ m2, unp ++ n :: u2)
                    else Ok (fields, mixins, unp)
                | _, _ => Err "KeyError: type"
                end
            end
        | FInline tc ds sub =>
            (* since 7309cba a missing type condition means the enclosing type *)
            match inline_root_type Sc (match tc with Some tc => tc | None => root end) root with
            | Some r => q <- resolve' fuel' Sc frs (cond || has_cond ds) sub r ;;
                        let '(f2, m2, u2) := q in
                        Ok (fields ++ f2, mixins ++ m2, unp ++ u2)
            | None => Ok (fields, mixins, unp)
            end
        end) sels (Ok ([], [], []))
  end.

(* ---- _parse_type_definition, instrumented ---- *)
Record pst := { ps_pub : list string;      (* _public_names *)
                ps_ins : list nat;         (* selection sets that got the automatic __typename *)
                ps_mix : list string;      (* _fragments_used_as_mixins *)
                ps_unp : list string }.    (* _unpacked_fragments *)

Definition node_key (f : fnode') : string := match n_alias f with Some a => a | None => n_name f end.

Fixpoint ptd (fuel : nat) (C : cfg) (Sc : schema) (frs : list fdef) (pfrs : list fragdef)
         (st : pst) (class_name type_name : string) (sid : option nat) (raw : list fsel)
         (add_typename : bool) : res pst :=
  match fuel with
  | O => Err "fuel"
  | S fuel' =>
      if mem class_name (ps_pub st) then Ok st
      else
        let sels := match sid with Some id => view (ps_ins st) id raw | None => raw end in
        rf <- resolve' fuel' Sc frs false sels type_name ;;
        let '(fields0, mix, unp) := rf in
        let insert := add_typename
                      && negb (existsb (fun f => String.eqb (n_name f) "__typename") fields0) in
        let ins' := match sid with
                    | Some id => if insert then ps_ins st ++ [id] else ps_ins st
                    | None => ps_ins st
                    end in
        let fields := if insert then auto_node :: fields0 else fields0 in
        let st1 := {| ps_pub := ps_pub st ++ [class_name]; ps_ins := ins';
                      ps_mix := ps_mix st ++ mix; ps_unp := ps_unp st ++ unp |} in
        fold_left (fun acc f =>
          st <- acc ;;
          t <- schema_field_type Sc type_name (n_name f) ;;
          match n_sub f with
          | None => Ok st
          | Some sub =>
              let sub_class := class_name +++ pascal_s (py_field_name C (node_key f)) in
              r <- field_type_ann C Sc pfrs fuel' (Some (map proj_sel sub)) t true sub_class false ;;
              let ctx := snd r in
              fold_left (fun acc2 rc =>
                st2 <- acc2 ;;
                ptd fuel' C Sc frs pfrs st2 (r_class rc) (r_type rc) (Some (n_id f)) sub (x_abstract ctx))
                (x_related ctx) (Ok st)
          end) fields (Ok st1)
  end.

Definition fresh (ins : list nat) : pst := {| ps_pub := []; ps_ins := ins; ps_mix := []; ps_unp := [] |}.

(* package.py _add_typename_to_fragments_definitions *)
Definition prepass (fuel : nat) (C : cfg) (Sc : schema) (frs : list fdef) : res (list nat) :=
  let pfrs := map proj_frag frs in
  fold_left (fun acc f =>
    ins <- acc ;;
    if unpack_fragment Sc (proj_frag f) None then Ok ins
    else st <- ptd fuel C Sc frs pfrs (fresh ins) (pascal_s (fd_name f)) (fd_on f) None (fd_sel f) false ;;
         Ok (ps_ins st)) frs (Ok []).

(* ---- _get_fragments_names / _get_all_related_fragments ---- *)
Fixpoint spreads_of (s : fsel) : list string :=
  match s with
  | FSpread n _ => [n]
  | FField _ _ _ _ _ (Some l) => flat_map spreads_of l
  | FField _ _ _ _ _ None => []
  | FInline _ _ l => flat_map spreads_of l
  | FAuto => []
  end.

Definition sel_spreads (sels : list fsel) : list string := flat_map spreads_of sels.

(* None = a spread names no fragment (KeyError) or the fuel ran out (cyclic fragments: RecursionError) *)
Fixpoint frag_names (fuel : nat) (frs : list fdef) (names : list string) : option (list string) :=
  match fuel with
  | O => match names with [] => Some [] | _ => None end
  | S fuel' =>
      (fix go (ns : list string) : option (list string) :=
         match ns with
         | [] => Some []
         | n :: r =>
             match lookup_fdef frs n with
             | None => None
             | Some f =>
                 match frag_names fuel' frs (sel_spreads (fd_sel f)), go r with
                 | Some a, Some b => Some (n :: a ++ b)
                 | _, _ => None
                 end
             end
         end) names
  end.

(* _get_all_related_fragments: everything the operation spreads, transitively *)
Definition related (fuel : nat) (frs : list fdef) (o : opdef) : option (list string) :=
  match frag_names fuel frs (sel_spreads (o_sel o)) with
  | Some l => Some (sorted_set l)
  | None => None
  end.

Fixpoint lookup_all (frs : list fdef) (names : list string) : option (list fdef) :=
  match names with
  | [] => Some []
  | n :: r => match lookup_fdef frs n, lookup_all frs r with
              | Some f, Some fs => Some (f :: fs) | _, _ => None end
  end.

(* the document of one operation, given the insertions made so far; returns the new insertions *)
Definition op_document (fuel : nat) (C : cfg) (Sc : schema) (frs : list fdef) (ins : list nat) (o : opdef)
  : res (list ddef * list nat) :=
  if String.eqb (o_name o) "" then Err "NotSupported: Operations without name are not supported."
  else
  tn <- root_type_name Sc (o_kind o) ;;
  st <- ptd fuel C Sc frs (map proj_frag frs) (fresh ins) (pascal_s (o_name o)) tn None (o_sel o) false ;;
  match related fuel frs o with
  | None => Err "KeyError: fragment"
  | Some rel =>
      match lookup_all frs rel with
      | None => Err "KeyError: fragment"
      | Some defs =>
          Ok (XOp (strip_op (apply_op (ps_ins st) o))
                  :: map (fun f => XFrag (strip_fd (apply_fd (ps_ins st) f))) defs,
              ps_ins st)
      end
  end.

(* the sets recorded by the operation's generator (same traversal as op_document) *)
Definition op_sets (fuel : nat) (C : cfg) (Sc : schema) (frs : list fdef) (ins : list nat) (o : opdef)
  : res (list string * list string) :=
  tn <- root_type_name Sc (o_kind o) ;;
  st <- ptd fuel C Sc frs (map proj_frag frs) (fresh ins) (pascal_s (o_name o)) tn None (o_sel o) false ;;
  Ok (ps_mix st, ps_unp st).

Definition doc_fragment_names (doc : list ddef) : list string :=
  flat_map (fun d => match d with XFrag f => [fd_name f] | XOp _ => [] end) doc.

(* every operation of the package, in document order *)
Definition package_documents (fuel : nat) (C : cfg) (Sc : schema) (frs : list fdef) (ops : list opdef)
  : res (list (list ddef)) :=
  ins0 <- prepass fuel C Sc frs ;;
  r <- fold_left (fun acc o =>
         p <- acc ;;
         let '(docs, ins) := p in
         q <- op_document fuel C Sc frs ins o ;;
         Ok (docs ++ [fst q], snd q)) ops (Ok ([], ins0)) ;;
  Ok (fst r).

(* client.py: operation_name=definition.name.value *)
Definition method_opname (o : opdef) : string := o_name o.

(* ---- the specification side ---- *)
(* reachable fragments: least fixed point of "spread from" *)
Inductive reach (frs : list fdef) (names : list string) : string -> Prop :=
| reach_direct n : In n names -> reach frs names n
| reach_step m f n : reach frs names m -> lookup_fdef frs m = Some f ->
                     In n (sel_spreads (fd_sel f)) -> reach frs names n.

(* erase the automatic __typename nodes *)
Fixpoint erase_sel (s : fsel) : list fsel :=
  match s with
  | FField id al n args ds sub =>
      [FField id al n args ds (match sub with Some l => Some (flat_map erase_sel l) | None => None end)]
  | FInline tc ds sub => [FInline tc ds (flat_map erase_sel sub)]
  | FSpread n ds => [FSpread n ds]
  | FAuto => []
  end.
Definition erase_sels (l : list fsel) : list fsel := flat_map erase_sel l.

Definition erase_ddef (d : ddef) : ddef :=
  match d with
  | XOp o => XOp {| o_kind := o_kind o; o_name := o_name o; o_vars := o_vars o; o_dirs := o_dirs o;
                    o_sel := erase_sels (o_sel o) |}
  | XFrag f => XFrag {| fd_name := fd_name f; fd_on := fd_on f; fd_dirs := fd_dirs f;
                        fd_sel := erase_sels (fd_sel f) |}
  end.

(* authored selections contain no FAuto *)
Fixpoint authored_sel (s : fsel) : bool :=
  match s with
  | FField _ _ _ _ _ (Some l) => forallb authored_sel l
  | FField _ _ _ _ _ None => true
  | FInline _ _ l => forallb authored_sel l
  | FSpread _ _ => true
  | FAuto => false
  end.

(* the documented rewrite "@mixin is removed": everywhere a directive can stand *)
Definition strip_dirs (ds : list directive) : list directive := filter not_mixin ds.
Fixpoint strip_all_sel (s : fsel) : fsel :=
  match s with
  | FField id al n args ds sub =>
      FField id al n args (strip_dirs ds)
             (match sub with Some l => Some (map strip_all_sel l) | None => None end)
  | FInline tc ds sub => FInline tc (strip_dirs ds) (map strip_all_sel sub)
  | FSpread n ds => FSpread n (strip_dirs ds)
  | FAuto => FAuto
  end.
Definition strip_all_ddef (d : ddef) : ddef :=
  match d with
  | XOp o => XOp {| o_kind := o_kind o; o_name := o_name o;
                    o_vars := map (fun v => {| v_name := v_name v; v_type := v_type v;
                                               v_default := v_default v; v_dirs := strip_dirs (v_dirs v) |})
                                  (o_vars o);
                    o_dirs := strip_dirs (o_dirs o); o_sel := map strip_all_sel (o_sel o) |}
  | XFrag f => XFrag {| fd_name := fd_name f; fd_on := fd_on f; fd_dirs := strip_dirs (fd_dirs f);
                        fd_sel := map strip_all_sel (fd_sel f) |}
  end.

(* validity of the input: @mixin stands only where the tool declares it (FIELD, FRAGMENT_DEFINITION);
   get_graphql_queries rejects every other placement (KnownDirectives rule) *)
Fixpoint mixin_located_sel (s : fsel) : bool :=
  match s with
  | FField _ _ _ _ _ (Some l) => forallb mixin_located_sel l
  | FField _ _ _ _ _ None => true
  | FInline _ ds l => forallb not_mixin ds && forallb mixin_located_sel l
  | FSpread _ ds => forallb not_mixin ds
  | FAuto => true
  end.
Definition mixin_located (d : ddef) : bool :=
  match d with
  | XOp o => forallb not_mixin (o_dirs o) && forallb (fun v => forallb not_mixin (v_dirs v)) (o_vars o)
             && forallb mixin_located_sel (o_sel o)
  | XFrag f => forallb mixin_located_sel (fd_sel f)
  end.

(* what the generator recorded is reachable from the operation (auxiliary; feeds imports, C08) *)
Definition recorded_reachable (fuel : nat) (frs : list fdef) (o : opdef) (mix unp : list string) : bool :=
  match frag_names fuel frs (sel_spreads (o_sel o)) with
  | Some r => forallb (fun n => mem n r) (mix ++ unp)
  | None => false
  end.

(* ---- sexp interface ---- *)
Definition e_doc (d : list ddef) : sexp := L (map e_ddef d).

Definition run_opstr (e : sexp) : sexp :=
  match e with
  | L [A "docs"; fuel; snake; s; fs; os] =>
      match dNat fuel, dB snake, d_schema s, dList d_fdef fs, dList d_opdef os with
      | Some fuel, Some snake, Some s, Some fs, Some os =>
          match package_documents fuel {| cf_snake := snake; cf_scalars := [] |} s fs os with
          | Ok docs => L [A "ok"; L (map e_doc docs)]
          | Err m => L [A "err"; A m]
          end
      | _, _, _, _, _ => sErr "opstr: cannot decode arguments"
      end
  | L [A "sets"; fuel; snake; s; fs; os] =>
      (* per operation: mixins, unpacked, related, recorded_reachable *)
      match dNat fuel, dB snake, d_schema s, dList d_fdef fs, dList d_opdef os with
      | Some fuel, Some snake, Some s, Some fs, Some os =>
          let C := {| cf_snake := snake; cf_scalars := [] |} in
          match prepass fuel C s fs with
          | Ok ins0 =>
              let r := fold_left (fun acc o =>
                         p <- acc ;;
                         let '(out, ins) := p in
                         tn <- root_type_name s (o_kind o) ;;
                         st <- ptd fuel C s fs (map proj_frag fs) (fresh ins) (pascal_s (o_name o)) tn None
                                   (o_sel o) false ;;
                         Ok (out ++ [L [L (map A (sorted_set (ps_mix st))); L (map A (sorted_set (ps_unp st)));
                                        sOpt (fun l => L (map A l)) (related fuel fs o);
                                        sB (recorded_reachable fuel fs o (ps_mix st) (ps_unp st))]],
                             ps_ins st)) os (Ok ([], ins0)) in
              match r with
              | Ok (out, _) => L [A "ok"; L out]
              | Err m => L [A "err"; A m]
              end
          | Err m => L [A "err"; A m]
          end
      | _, _, _, _, _ => sErr "opstr: cannot decode arguments"
      end
  | L [A "closure"; fuel; fs; L names] =>
      match dNat fuel, dList d_fdef fs, dAll dStr names with
      | Some fuel, Some fs, Some names =>
          sOpt (fun l => L (map A (sorted_set l))) (frag_names fuel fs names)
      | _, _, _ => sErr "opstr: cannot decode arguments"
      end
  | _ => sErr "opstr: bad command"
  end.
