(* Model of ariadne_codegen/settings.py and ariadne_codegen/config.py (C17).
   Executable definitions only.  The configuration is the JSON image of the TOML dictionary; the
   file system, the process environment and the working directory are the finite record [env].
   Every check is in the order of the Python code (as of /repo 0631414: keywords are refused by
   assert_string_is_valid_python_identifier, fragments_module_name is checked like the other names).
   Scope: configurations whose known keys carry values of the expected TOML type ([Ill] otherwise);
   ASCII names; paths as literal strings (the harness keys [e_paths] by the string in the config). *)
From Coq Require Import List String Ascii ZArith Bool.
From AC Require Import Base.Sexp Base.Json Base.Strs Model.Names.
Import ListNotations.
Local Open Scope string_scope.

(* ---------- environment ---------- *)
Inductive pkind := PMissing | PDir | PFile (content : string).

Record env := {
  e_paths : list (string * pkind);      (* Path(p).exists()/is_dir()/is_file()/read_text(), by literal p *)
  e_vars : list (string * string);      (* os.environ *)
  e_cwd : string;                       (* Path.cwd().as_posix() *)
  e_deps : string                       (* .../client_generators/dependencies (as_posix) *)
}.

Fixpoint alookup {V} (k : string) (l : list (string * V)) : option V :=
  match l with
  | [] => None
  | (k', v) :: r => if String.eqb k k' then Some v else alookup k r
  end.

Definition path_kind (e : env) (p : string) : pkind :=
  match alookup p (e_paths e) with Some k => k | None => PMissing end.
Definition p_exists (e : env) (p : string) : bool :=
  match path_kind e p with PMissing => false | _ => true end.
Definition p_is_dir (e : env) (p : string) : bool :=
  match path_kind e p with PDir => true | _ => false end.
Definition p_is_file (e : env) (p : string) : bool :=
  match path_kind e p with PFile _ => true | _ => false end.
Definition p_read (e : env) (p : string) : option string :=
  match path_kind e p with PFile c => Some c | _ => None end.
Definition getenv (e : env) (n : string) : option string := alookup n (e_vars e).

(* ---------- exceptions ---------- *)
Inductive exn :=
| ConfigFileNotFound | MissingConfiguration | InvalidConfiguration | InvalidGraphqlSyntax
| InvalidOperationForSchema | NotSupported | ParsingError | IntrospectionError | PluginImportError
| Other (cls : string).          (* anything that is not an ariadne_codegen.exceptions class *)

Definition exn_name (x : exn) : string :=
  match x with
  | ConfigFileNotFound => "ConfigFileNotFound" | MissingConfiguration => "MissingConfiguration"
  | InvalidConfiguration => "InvalidConfiguration" | InvalidGraphqlSyntax => "InvalidGraphqlSyntax"
  | InvalidOperationForSchema => "InvalidOperationForSchema" | NotSupported => "NotSupported"
  | ParsingError => "ParsingError" | IntrospectionError => "IntrospectionError"
  | PluginImportError => "PluginImportError" | Other c => "other:" ++ c
  end.

Definition is_codegen_exn (x : exn) : bool := match x with Other _ => false | _ => true end.

(* the message is the text of the exception, or the fixed prefix of it where the rest is unordered *)
Record err := { x_cls : exn; x_msg : string }.
Definition mkerr (c : exn) (m : string) : err := {| x_cls := c; x_msg := m |}.

Inductive res (A : Type) :=
| Ok (a : A)
| Err (e : err)
| Ill.                      (* configuration outside the typed scope of the model *)
Arguments Ok {A} a.
Arguments Err {A} e.
Arguments Ill {A}.

Definition invalid {A} (m : string) : res A := Err (mkerr InvalidConfiguration m).
Definition missing {A} (m : string) : res A := Err (mkerr MissingConfiguration m).

(* ---------- the assert_* helpers ---------- *)
Definition is_identifier (s : string) : bool := py_identifier (s2l s).   (* str.isidentifier(), ASCII *)
Definition is_kw (s : string) : bool := iskeyword (s2l s).               (* keyword.iskeyword *)

Definition msg_not_exist (p : string) := "Provided path " ++ p ++ " doesn't exist.".
Definition msg_not_dir (p : string) := "Provided path " ++ p ++ " isn't a directory.".
Definition msg_not_file (p : string) := "Provided path " ++ p ++ " isn't a file.".
Definition msg_not_ident (n : string) := "Provided name " ++ n ++ " cannot be used as python identifier.".
Definition msg_no_class (n p : string) := "Cannot import " ++ n ++ " from " ++ p.
Definition msg_no_source := "Schema source not provided. Use schema_path or remote_schema_url".
Definition msg_env (n : string) := "Environment variable " ++ n ++ " not found.".
Definition msg_comments (v : string) :=
  "'" ++ v ++ "' is not a valid choice. Valid options are: none, stable, timestamp".
Definition msg_no_type := "Missing 'type' field for scalar definition".
Definition msg_missing_fields := "Missing configuration fields: ".
Definition msg_no_suffix (f : string) := "Provided file name " ++ f ++ " is missing a file type.".
Definition msg_bad_suffix (f t : string) :=
  "Provided file name " ++ f ++ " has an invalid type " ++ t ++ ". Valid types are py, graphql and gql.".
Definition msg_reserved (n : string) :=
  "Provided name " ++ n ++ " is imported by the generated schema module and cannot be used as a variable name in it.".
Definition msg_same_names := "schema_variable_name and type_map_variable_name must be different.".
Definition msg_no_section := "Config has no [tool.ariadne-codegen] section.".

Definition assert_path_exists (e : env) (p : string) : option err :=
  if p_exists e p then None else Some (mkerr InvalidConfiguration (msg_not_exist p)).
Definition assert_path_is_valid_directory (e : env) (p : string) : option err :=
  if p_is_dir e p then None else Some (mkerr InvalidConfiguration (msg_not_dir p)).
Definition assert_path_is_valid_file (e : env) (p : string) : option err :=
  if p_is_file e p then None else Some (mkerr InvalidConfiguration (msg_not_file p)).
(* `if not name.isidentifier() or iskeyword(name): raise` — as written in the code *)
Definition assert_identifier (n : string) : option err :=
  if negb (is_identifier n) || is_kw n
  then Some (mkerr InvalidConfiguration (msg_not_ident n)) else None.

(* substring test:  needle in hay *)
Fixpoint prefix_chars (a b : chars) : bool :=
  match a, b with
  | [], _ => true
  | x :: a', y :: b' => Ascii.eqb x y && prefix_chars a' b'
  | _ :: _, [] => false
  end.
Fixpoint contains_chars (needle hay : chars) : bool :=
  prefix_chars needle hay || match hay with [] => false | _ :: r => contains_chars needle r end.
Definition contains (needle hay : string) : bool := contains_chars (s2l needle) (s2l hay).

Definition assert_class_is_defined_in_file (e : env) (p n : string) : option err :=
  match p_read e p with
  | Some content =>
      if contains ("class " ++ n) content then None
      else Some (mkerr InvalidConfiguration (msg_no_class n p))
  | None => Some (mkerr (Other "OSError") p)     (* read_text of something that is not a file *)
  end.

(* pathlib: Path(p).suffix — final component after stripping trailing '/', from its last '.', when that
   dot is neither the first nor the last character of the component *)
Fixpoint strip_trailing_slash_rev (r : chars) : chars :=
  match r with
  | c :: r' => if Ascii.eqb c "/"%char then strip_trailing_slash_rev r' else r
  | [] => []
  end.
Fixpoint take_until_slash (r : chars) : chars :=   (* on the reversed path: the reversed final component *)
  match r with
  | [] => []
  | c :: r' => if Ascii.eqb c "/"%char then [] else c :: take_until_slash r'
  end.
Definition path_name (p : string) : chars := rev (take_until_slash (strip_trailing_slash_rev (rev (s2l p)))).
(* scan the reversed name for the last '.', returning the reversed suffix without the dot *)
Fixpoint rsplit_dot (r acc : chars) : option (chars * chars) :=   (* (suffix-without-dot, reversed stem) *)
  match r with
  | [] => None
  | c :: r' => if Ascii.eqb c "."%char then Some (acc, r') else rsplit_dot r' (c :: acc)
  end.
Definition path_suffix (p : string) : string :=    (* includes the dot, "" when none *)
  match rsplit_dot (rev (path_name p)) [] with
  | Some (suf, stem_rev) =>
      match suf, stem_rev with
      | [], _ => ""            (* name ends with '.' *)
      | _, [] => ""            (* dot is the first character *)
      | _, _ => l2s ("."%char :: suf)
      end
  | None => ""
  end.
Definition lower_s (s : string) : string := l2s (map to_lower (s2l s)).
Definition drop1 (s : string) : string := match s with String _ r => r | EmptyString => "" end.
(* GraphQLSchemaSettings.target_file_format *)
Definition file_format (p : string) : string := lower_s (drop1 (path_suffix p)).

Definition assert_schema_target_filename (f : string) : option err :=
  let suf := path_suffix f in
  if String.eqb suf "" then Some (mkerr InvalidConfiguration (msg_no_suffix f))
  else let t := lower_s (drop1 suf) in
       if String.eqb t "py" || String.eqb t "graphql" || String.eqb t "gql" then None
       else Some (mkerr InvalidConfiguration (msg_bad_suffix f t)).

(* get_header_value: "$NAME" -> os.environ; lstrip removes every leading '$'; empty value = not found *)
Definition is_dollar (c : ascii) : bool := Ascii.eqb c "$"%char.
Definition get_header_value (e : env) (v : string) : res string :=
  match s2l v with
  | c :: _ =>
      if is_dollar c then
        let name := l2s (drop_while is_dollar (s2l v)) in
        match getenv e name with
        | Some val => if String.eqb val "" then invalid (msg_env name) else Ok val
        | None => invalid (msg_env name)
        end
      else Ok v
  | [] => Ok v
  end.
Fixpoint resolve_headers (e : env) (h : list (string * string)) : res (list (string * string)) :=
  match h with
  | [] => Ok []
  | (k, v) :: r =>
      match get_header_value e v with
      | Ok v' => match resolve_headers e r with
                 | Ok r' => Ok ((k, v') :: r') | Err x => Err x | Ill => Ill end
      | Err x => Err x
      | Ill => Ill
      end
  end.

(* ---------- typed reading of a section (dict with TOML values) ---------- *)
Definition section := list (string * json).

Definition get_str (kv : section) (k dflt : string) : option string :=
  match jlookup k kv with None => Some dflt | Some (JStr s) => Some s | Some _ => None end.
Definition get_bool (kv : section) (k : string) (dflt : bool) : option bool :=
  match jlookup k kv with None => Some dflt | Some (JBool b) => Some b | Some _ => None end.
Fixpoint all_strs (l : list json) : option (list string) :=
  match l with
  | [] => Some []
  | JStr s :: r => match all_strs r with Some r' => Some (s :: r') | None => None end
  | _ :: _ => None
  end.
Definition get_strlist (kv : section) (k : string) : option (list string) :=
  match jlookup k kv with None => Some [] | Some (JArr l) => all_strs l | Some _ => None end.
Fixpoint all_strvals (l : list (string * json)) : option (list (string * string)) :=
  match l with
  | [] => Some []
  | (k, JStr s) :: r => match all_strvals r with Some r' => Some ((k, s) :: r') | None => None end
  | _ :: _ => None
  end.
Definition get_strdict (kv : section) (k : string) : option (list (string * string)) :=
  match jlookup k kv with None => Some [] | Some (JObj l) => all_strvals l | Some _ => None end.

Notation "'do' x <- e ; f" := (match e with Some x => f | None => None end)
  (at level 200, x name, e at level 100, f at level 200).

(* BaseSettings *)
Record braw := {
  b_schema_path : string; b_url : string; b_headers : list (string * string);
  b_verify : bool; b_custom_ops : bool; b_plugins : list string
}.
Definition decode_base (kv : section) : option braw :=
  do sp <- get_str kv "schema_path" "";
  do url <- get_str kv "remote_schema_url" "";
  do h <- get_strdict kv "remote_schema_headers";
  do v <- get_bool kv "remote_schema_verify_ssl" true;
  do co <- get_bool kv "enable_custom_operations" false;
  do pl <- get_strlist kv "plugins";
  Some {| b_schema_path := sp; b_url := url; b_headers := h; b_verify := v; b_custom_ops := co;
          b_plugins := pl |}.

(* scalars: section.get("scalars", {}) -> ScalarData(type_=data["type"], serialize=data.get(...), ...) *)
Record scalar := { sc_name : string; sc_type : string; sc_serialize : option string;
                   sc_parse : option string; sc_import : option string }.
Inductive sres := ScOk (l : list scalar) | ScMissingType | ScIll.
Definition get_optstr (kv : section) (k : string) : option (option string) :=
  match jlookup k kv with None => Some None | Some (JStr s) => Some (Some s) | Some JNull => Some None
                     | Some _ => None end.
Fixpoint decode_scalars (l : list (string * json)) : sres :=
  match l with
  | [] => ScOk []
  | (name, JObj d) :: r =>
      match jlookup "type" d with
      | None => ScMissingType
      | Some (JStr t) =>
          match get_optstr d "serialize", get_optstr d "parse", get_optstr d "import" with
          | Some s, Some p, Some i =>
              match decode_scalars r with
              | ScOk r' => ScOk ({| sc_name := name; sc_type := t; sc_serialize := s; sc_parse := p;
                                    sc_import := i |} :: r')
              | x => x
              end
          | _, _, _ => ScIll
          end
      | Some _ => ScIll
      end
  | _ :: _ => ScIll
  end.
Definition section_scalars (kv : section) : sres :=
  match jlookup "scalars" kv with
  | None => ScOk []
  | Some (JObj l) => decode_scalars l
  | Some _ => ScIll
  end.

(* include_comments: a string, or (deprecated) a boolean rewritten to "timestamp"/"none" *)
(* include_comments is a CLOSED set of values: "none" | "stable" | "timestamp", or (deprecated) a boolean.
   Every other TOML value - integers (0 and 1 included: `isinstance(v, bool)`, not `v in {True, False}`),
   floats, dates, arrays, tables - is an unknown comment mode: CommentsStrategy(v) raises ValueError ->
   InvalidConfiguration "'{v}' is not a valid choice...".  The value is carried as Python's str(v); for arrays
   and tables str(v) is not modelled ([opaque] = true: the message is matched from the closing quote on). *)
Definition section_comments (kv : section) : option (string * bool) :=
  match jlookup "include_comments" kv with
  | None => Some ("stable", false)
  | Some (JStr s) => Some (s, false)
  | Some (JBool b) => Some ((if b then "timestamp" else "none"), false)
  | Some (JInt z) => Some (z_to_string z, false)
  | Some (JFloat lexeme) => Some (lexeme, false)
  | Some JNull => Some ("None", false)
  | Some (JArr _) => Some ("", true)
  | Some (JObj _) => Some ("", true)
  end.

Record craw := {
  r_base : braw;
  r_queries_path : string; r_pkg_name : string; r_pkg_path : option string;
  r_client_name : string; r_client_file : string; r_bc_name : string; r_bc_path : string;
  r_enums : string; r_inputs : string; r_fragments : string; r_comments : string; r_comments_opaque : bool;
  r_snake : bool; r_all_inputs : bool; r_all_enums : bool; r_async : bool; r_otel : bool;
  r_files : list string
}.

Definition get_optpath (kv : section) (k : string) : option (option string) :=
  match jlookup k kv with None => Some None | Some (JStr s) => Some (Some s) | Some _ => None end.

Definition decode_client (kv : section) : option craw :=
  do b <- decode_base kv;
  do qp <- get_str kv "queries_path" "";
  do pn <- get_str kv "target_package_name" "graphql_client";
  do pp <- get_optpath kv "target_package_path";
  do cn <- get_str kv "client_name" "Client";
  do cf <- get_str kv "client_file_name" "client";
  do bn <- get_str kv "base_client_name" "";
  do bp <- get_str kv "base_client_file_path" "";
  do en <- get_str kv "enums_module_name" "enums";
  do inp <- get_str kv "input_types_module_name" "input_types";
  do fr <- get_str kv "fragments_module_name" "fragments";
  do cm <- section_comments kv;
  do sn <- get_bool kv "convert_to_snake_case" true;
  do ai <- get_bool kv "include_all_inputs" true;
  do ae <- get_bool kv "include_all_enums" true;
  do asy <- get_bool kv "async_client" true;
  do ot <- get_bool kv "opentelemetry_client" false;
  do fs <- get_strlist kv "files_to_include";
  Some {| r_base := b; r_queries_path := qp; r_pkg_name := pn; r_pkg_path := pp; r_client_name := cn;
          r_client_file := cf; r_bc_name := bn; r_bc_path := bp; r_enums := en; r_inputs := inp;
          r_fragments := fr; r_comments := fst cm; r_comments_opaque := snd cm; r_snake := sn; r_all_inputs := ai; r_all_enums := ae;
          r_async := asy; r_otel := ot; r_files := fs |}.

(* dataclasses.fields(ClientSettings) / fields(GraphQLSchemaSettings): the keys that are NOT ignored *)
Definition base_field_names : list string :=
  ["schema_path"; "remote_schema_url"; "remote_schema_headers"; "remote_schema_verify_ssl";
   "enable_custom_operations"; "plugins"].
Definition client_field_names : list string :=
  base_field_names ++
  ["queries_path"; "target_package_name"; "target_package_path"; "client_name"; "client_file_name";
   "base_client_name"; "base_client_file_path"; "enums_module_name"; "input_types_module_name";
   "fragments_module_name"; "include_comments"; "convert_to_snake_case"; "include_all_inputs";
   "include_all_enums"; "async_client"; "opentelemetry_client"; "files_to_include"; "scalars"].
Definition schema_field_names : list string :=
  base_field_names ++ ["target_file_path"; "schema_variable_name"; "type_map_variable_name"].
Definition is_known (names : list string) (k : string) : bool := existsb (String.eqb k) names.

(* ---------- get_section ---------- *)
Inductive sec_src := SecTool | SecDeprecated.
Definition get_section (cfg : json) : res (sec_src * section) :=
  match cfg with
  | JObj top =>
      let legacy :=
        match jlookup "ariadne-codegen" top with
        | Some (JObj s) => Ok (SecDeprecated, s)
        | Some _ => Ill
        | None => missing msg_no_section
        end in
      match jlookup "tool" top with
      | Some (JObj t) =>
          match jlookup "ariadne-codegen" t with
          | Some (JObj s) => Ok (SecTool, s)
          | Some _ => Ill
          | None => legacy
          end
      | Some _ => Ill
      | None => legacy
      end
  | _ => Ill
  end.

(* ---------- resolved settings ---------- *)
Record bsettings := {
  s_schema_path : string; s_url : string; s_headers : list (string * string); s_verify : bool;
  s_custom_ops : bool; s_plugins : list string
}.
Record csettings := {
  c_base : bsettings;
  c_queries_path : string; c_pkg_name : string; c_pkg_path : string; c_client_name : string;
  c_client_file : string; c_bc_name : string; c_bc_path : string; c_enums : string; c_inputs : string;
  c_fragments : string; c_comments : string; c_snake : bool; c_all_inputs : bool; c_all_enums : bool;
  c_async : bool; c_otel : bool; c_files : list string; c_scalars : list scalar
}.
Record gsettings := {
  g_base : bsettings; g_target : string; g_schema_var : string; g_type_map_var : string
}.

(* first failing assertion of a list, in order *)
Fixpoint first_err (l : list (option err)) : option err :=
  match l with
  | [] => None
  | Some x :: _ => Some x
  | None :: r => first_err r
  end.

(* BaseSettings.__post_init__ *)
Definition base_post_init (e : env) (b : braw) : res bsettings :=
  if String.eqb (b_schema_path b) "" && String.eqb (b_url b) "" then invalid msg_no_source
  else
    match (if String.eqb (b_schema_path b) "" then None else assert_path_exists e (b_schema_path b)) with
    | Some x => Err x
    | None =>
        match resolve_headers e (b_headers b) with
        | Ok h => Ok {| s_schema_path := b_schema_path b; s_url := b_url b; s_headers := h;
                        s_verify := b_verify b; s_custom_ops := b_custom_ops b;
                        s_plugins := b_plugins b |}
        | Err x => Err x
        | Ill => Ill
        end
    end.

Definition msg_comments_opaque := "' is not a valid choice. Valid options are: none, stable, timestamp".
Definition comments_msg (r : craw) : string :=
  if r_comments_opaque r then msg_comments_opaque else msg_comments (r_comments r).
Definition valid_comment (s : string) : bool :=
  String.eqb s "none" || String.eqb s "stable" || String.eqb s "timestamp".

(* _set_default_base_client_data *)
Definition default_client (e : env) (async otel : bool) : string * string :=   (* (path, name) *)
  match async, otel with
  | true, true => (e_deps e ++ "/async_base_client_open_telemetry.py", "AsyncBaseClientOpenTelemetry")
  | true, false => (e_deps e ++ "/async_base_client.py", "AsyncBaseClient")
  | false, true => (e_deps e ++ "/base_client_open_telemetry.py", "BaseClientOpenTelemetry")
  | false, false => (e_deps e ++ "/base_client.py", "BaseClient")
  end.
Definition base_client_of (e : env) (r : craw) : string * string :=      (* (path, name) *)
  if String.eqb (r_bc_name r) "" && String.eqb (r_bc_path r) ""
  then default_client e (r_async r) (r_otel r)
  else (r_bc_path r, r_bc_name r).
Definition pkg_path_of (e : env) (r : craw) : string :=
  match r_pkg_path r with Some p => p | None => e_cwd e end.

(* the assertions of ClientSettings.__post_init__ after the base part, in code order *)
Definition client_asserts (e : env) (r : craw) : list (option err) :=
  let '(bp, bn) := base_client_of e r in
  [ assert_path_exists e (r_queries_path r);
    assert_identifier (r_pkg_name r);
    assert_path_is_valid_directory e (pkg_path_of e r);
    assert_identifier (r_client_name r);
    assert_identifier (r_client_file r);
    assert_identifier bn;
    assert_path_exists e bp;
    assert_path_is_valid_file e bp;
    (if p_is_file e bp then assert_class_is_defined_in_file e bp bn else None);
    assert_identifier (r_enums r);
    assert_identifier (r_inputs r);
    assert_identifier (r_fragments r) ]
  ++ map (assert_path_is_valid_file e) (r_files r).

Definition client_post_init (e : env) (r : craw) (scalars : list scalar) : res csettings :=
  if String.eqb (r_queries_path r) "" && negb (b_custom_ops (r_base r))
  then missing msg_missing_fields          (* TypeError -> MissingConfiguration in get_client_settings *)
  else
    match base_post_init e (r_base r) with
    | Err x => Err x
    | Ill => Ill
    | Ok b =>
        if negb (valid_comment (r_comments r)) then invalid (comments_msg r)
        else
          match first_err (client_asserts e r) with
          | Some x => Err x
          | None =>
              let '(bp, bn) := base_client_of e r in
              Ok {| c_base := b; c_queries_path := r_queries_path r; c_pkg_name := r_pkg_name r;
                    c_pkg_path := pkg_path_of e r; c_client_name := r_client_name r;
                    c_client_file := r_client_file r; c_bc_name := bn; c_bc_path := bp;
                    c_enums := r_enums r; c_inputs := r_inputs r; c_fragments := r_fragments r;
                    c_comments := r_comments r; c_snake := r_snake r; c_all_inputs := r_all_inputs r;
                    c_all_enums := r_all_enums r; c_async := r_async r; c_otel := r_otel r;
                    c_files := r_files r; c_scalars := scalars |}
          end
    end.

(* get_client_settings on a section: scalars first (MissingConfiguration), then the dataclass *)
Definition client_of_section (e : env) (kv : section) : res csettings :=
  match section_scalars kv with
  | ScMissingType => missing msg_no_type
  | ScIll => Ill
  | ScOk scalars =>
      match decode_client kv with
      | None => Ill
      | Some r => client_post_init e r scalars
      end
  end.

Definition get_client_settings (e : env) (cfg : json) : res csettings :=
  match get_section cfg with
  | Ok (_, kv) => client_of_section e kv
  | Err x => Err x
  | Ill => Ill
  end.

(* GraphQLSchemaSettings *)
Record graw := { gr_base : braw; gr_target : string; gr_schema_var : string; gr_type_map_var : string }.
Definition decode_schema (kv : section) : option graw :=
  do b <- decode_base kv;
  do t <- get_str kv "target_file_path" "schema.py";
  do sv <- get_str kv "schema_variable_name" "schema";
  do tv <- get_str kv "type_map_variable_name" "type_map";
  Some {| gr_base := b; gr_target := t; gr_schema_var := sv; gr_type_map_var := tv |}.

(* graphql_schema_generators/constants.py RESERVED_VARIABLE_NAMES: names bound by the imports of the
   generated schema module (data; K2-checked against the code each run) *)
Definition reserved_variable_names : list string :=
  ["DirectiveLocation"; "GraphQLArgument"; "GraphQLDirective"; "GraphQLEnumType"; "GraphQLEnumValue";
   "GraphQLField"; "GraphQLInputField"; "GraphQLInputObjectType"; "GraphQLInterfaceType"; "GraphQLList";
   "GraphQLNamedType"; "GraphQLNonNull"; "GraphQLObjectType"; "GraphQLScalarType"; "GraphQLSchema";
   "GraphQLUnionType"; "GraphQLID"; "GraphQLInt"; "GraphQLFloat"; "GraphQLString"; "GraphQLBoolean";
   "Undefined"; "TypeMap"; "cast"; "List"].
Definition is_reserved_var (n : string) : bool := existsb (String.eqb n) reserved_variable_names.
Definition assert_not_reserved (n : string) : option err :=
  if is_reserved_var n then Some (mkerr InvalidConfiguration (msg_reserved n)) else None.
Definition assert_names_differ (a b : string) : option err :=
  if String.eqb a b then Some (mkerr InvalidConfiguration msg_same_names) else None.

Definition schema_asserts (r : graw) : list (option err) :=
  [ assert_schema_target_filename (gr_target r);
    assert_identifier (gr_schema_var r);
    assert_identifier (gr_type_map_var r);
    assert_not_reserved (gr_schema_var r);
    assert_not_reserved (gr_type_map_var r);
    assert_names_differ (gr_schema_var r) (gr_type_map_var r) ].

Definition schema_post_init (e : env) (r : graw) : res gsettings :=
  match base_post_init e (gr_base r) with
  | Err x => Err x
  | Ill => Ill
  | Ok b =>
      match first_err (schema_asserts r) with
      | Some x => Err x
      | None => Ok {| g_base := b; g_target := gr_target r; g_schema_var := gr_schema_var r;
                      g_type_map_var := gr_type_map_var r |}
      end
  end.

Definition schema_of_section (e : env) (kv : section) : res gsettings :=
  match decode_schema kv with None => Ill | Some r => schema_post_init e r end.

Definition get_graphql_schema_settings (e : env) (cfg : json) : res gsettings :=
  match get_section cfg with
  | Ok (_, kv) => schema_of_section e kv
  | Err x => Err x
  | Ill => Ill
  end.

(* ---------- the checks as one list, in the order in which the code performs them ---------- *)
Definition headers_err (e : env) (h : list (string * string)) : option err :=
  match resolve_headers e h with Err x => Some x | _ => None end.
Definition base_checks (e : env) (b : braw) : list (option err) :=
  [ (if String.eqb (b_schema_path b) "" && String.eqb (b_url b) ""
     then Some (mkerr InvalidConfiguration msg_no_source) else None);
    (if String.eqb (b_schema_path b) "" then None else assert_path_exists e (b_schema_path b));
    headers_err e (b_headers b) ].
Definition client_checks (e : env) (r : craw) : list (option err) :=
  [ (if String.eqb (r_queries_path r) "" && negb (b_custom_ops (r_base r))
     then Some (mkerr MissingConfiguration msg_missing_fields) else None) ]
  ++ base_checks e (r_base r)
  ++ [ (if valid_comment (r_comments r) then None
        else Some (mkerr InvalidConfiguration (comments_msg r))) ]
  ++ client_asserts e r.
Definition schema_checks (e : env) (r : graw) : list (option err) :=
  base_checks e (gr_base r) ++ schema_asserts r.

(* ---------- the configuration object as a store: what the call leaves behind ----------
   get_client_settings works on `section = get_section(config_dict).copy()` and then ASSIGNS
   section["scalars"] (always) and section["include_comments"] (when boolean).  [copy] says whether the
   shallow copy is taken; without it the assignments land in the caller's dictionary. *)
Fixpoint jset (k : string) (v : json) (kv : section) : section :=
  match kv with
  | [] => [(k, v)]
  | (k', v') :: r => if String.eqb k k' then (k, v) :: r else (k', v') :: jset k v r
  end.
Definition opaque_scalars (l : list scalar) : json :=
  JObj (map (fun s => (sc_name s, JStr "<ScalarData>")) l).
Definition section_after (kv : section) : section :=
  match section_scalars kv with
  | ScOk l =>
      let kv1 := jset "scalars" (opaque_scalars l) kv in
      match jlookup "include_comments" kv with
      | Some (JBool b) => jset "include_comments" (JStr (if b then "timestamp" else "none")) kv1
      | _ => kv1
      end
  | _ => kv          (* the exception leaves the dictionary untouched *)
  end.
Definition put_section (cfg : json) (src : sec_src) (kv : section) : json :=
  match cfg, src with
  | JObj top, SecDeprecated => JObj (jset "ariadne-codegen" (JObj kv) top)
  | JObj top, SecTool =>
      match jlookup "tool" top with
      | Some (JObj t) => JObj (jset "tool" (JObj (jset "ariadne-codegen" (JObj kv) t)) top)
      | _ => cfg
      end
  | _, _ => cfg
  end.
Definition config_after_client (copy : bool) (cfg : json) : json :=
  if copy then cfg
  else match get_section cfg with
       | Ok (src, kv) => put_section cfg src (section_after kv)
       | _ => cfg
       end.
(* get_graphql_schema_settings takes no copy and assigns nothing *)
Definition config_after_schema (cfg : json) : json := cfg.

(* ---------- the documented constraints, as independent predicates on the resolved configuration ---------- *)
(* a name "that can be used as a Python identifier/module": an identifier that is not a keyword *)
Definition usable_name (s : string) : bool := is_identifier s && negb (is_kw s).

Fixpoint headers_resolvable (e : env) (h : list (string * string)) : bool :=
  match h with
  | [] => true
  | (_, v) :: r => (match get_header_value e v with Ok _ => true | _ => false end) && headers_resolvable e r
  end.

Definition base_constraints (e : env) (b : braw) : list (string * bool) :=
  [ ("schema-source", negb (String.eqb (b_schema_path b) "" && String.eqb (b_url b) ""));
    ("schema-path-exists", String.eqb (b_schema_path b) "" || p_exists e (b_schema_path b));
    ("headers-resolvable", headers_resolvable e (b_headers b)) ].

Definition class_defined (e : env) (p n : string) : bool :=
  match p_read e p with Some c => contains ("class " ++ n) c | None => false end.

Definition client_constraints (e : env) (r : craw) : list (string * bool) :=
  let '(bp, bn) := base_client_of e r in
  [ ("queries-path-given", negb (String.eqb (r_queries_path r) "" && negb (b_custom_ops (r_base r)))) ]
  ++ base_constraints e (r_base r) ++
  [ ("include-comments", valid_comment (r_comments r));
    ("queries-path-exists", p_exists e (r_queries_path r));
    ("target-package-name", usable_name (r_pkg_name r));
    ("target-package-path-dir", p_is_dir e (pkg_path_of e r));
    ("client-name", usable_name (r_client_name r));
    ("client-file-name", usable_name (r_client_file r));
    ("base-client-name", usable_name bn);
    ("base-client-file", p_is_file e bp);
    ("base-client-class", negb (p_is_file e bp) || class_defined e bp bn);
    ("enums-module-name", usable_name (r_enums r));
    ("input-types-module-name", usable_name (r_inputs r));
    ("fragments-module-name", usable_name (r_fragments r));
    ("files-to-include", forallb (p_is_file e) (r_files r)) ].

Definition schema_constraints (e : env) (r : graw) : list (string * bool) :=
  base_constraints e (gr_base r) ++
  [ ("target-file-type", match assert_schema_target_filename (gr_target r) with None => true | Some _ => false end);
    ("schema-variable-name", usable_name (gr_schema_var r));
    ("type-map-variable-name", usable_name (gr_type_map_var r));
    ("schema-variable-not-reserved", negb (is_reserved_var (gr_schema_var r)));
    ("type-map-variable-not-reserved", negb (is_reserved_var (gr_type_map_var r)));
    ("variable-names-differ", negb (String.eqb (gr_schema_var r) (gr_type_map_var r))) ].

Definition all_hold (l : list (string * bool)) : bool := forallb snd l.
Definition violated (l : list (string * bool)) : list string :=
  map fst (filter (fun p => negb (snd p)) l).

(* ---------- which constraint of the documented table each check belongs to ---------- *)
Definition base_check_rows (e : env) (b : braw) : list (string * option err) :=
  combine ["schema-source"; "schema-path-exists"; "headers-resolvable"] (base_checks e b).
Definition client_check_rows (e : env) (r : craw) : list (string * option err) :=
  let '(bp, bn) := base_client_of e r in
  [ ("queries-path-given",
     if String.eqb (r_queries_path r) "" && negb (b_custom_ops (r_base r))
     then Some (mkerr MissingConfiguration msg_missing_fields) else None) ]
  ++ base_check_rows e (r_base r)
  ++ [ ("include-comments", if valid_comment (r_comments r) then None
                            else Some (mkerr InvalidConfiguration (comments_msg r)));
       ("queries-path-exists", assert_path_exists e (r_queries_path r));
       ("target-package-name", assert_identifier (r_pkg_name r));
       ("target-package-path-dir", assert_path_is_valid_directory e (pkg_path_of e r));
       ("client-name", assert_identifier (r_client_name r));
       ("client-file-name", assert_identifier (r_client_file r));
       ("base-client-name", assert_identifier bn);
       ("base-client-file", assert_path_exists e bp);
       ("base-client-file", assert_path_is_valid_file e bp);
       ("base-client-class", if p_is_file e bp then assert_class_is_defined_in_file e bp bn else None);
       ("enums-module-name", assert_identifier (r_enums r));
       ("input-types-module-name", assert_identifier (r_inputs r));
       ("fragments-module-name", assert_identifier (r_fragments r)) ]
  ++ map (fun p => ("files-to-include", assert_path_is_valid_file e p)) (r_files r).
Definition schema_check_rows (e : env) (r : graw) : list (string * option err) :=
  base_check_rows e (gr_base r)
  ++ combine ["target-file-type"; "schema-variable-name"; "type-map-variable-name";
              "schema-variable-not-reserved"; "type-map-variable-not-reserved"; "variable-names-differ"]
             (schema_asserts r).

(* ---------- what this model mirrors, as data compared with the AST of settings.py on every run ----------
   the calls / raises of the three __post_init__ methods in source order (function, self-attributes used),
   and the TOML kind each field is read with.  A reordered, added or removed check in /repo makes the
   check fail closed naming the first differing entry. *)
Definition source_order_base : list (string * string) :=
  [("raise:InvalidConfiguration", ""); ("assert_path_exists", "schema_path");
   ("resolve_headers", "remote_schema_headers")].
Definition source_order_client : list (string * string) :=
  [("raise:TypeError", ""); ("__post_init__", ""); ("CommentsStrategy", "include_comments");
   ("raise:InvalidConfiguration", ""); ("_set_default_base_client_data", "_set_default_base_client_data");
   ("assert_path_exists", "queries_path");
   ("assert_string_is_valid_python_identifier", "target_package_name");
   ("assert_path_is_valid_directory", "target_package_path");
   ("assert_string_is_valid_python_identifier", "client_name");
   ("assert_string_is_valid_python_identifier", "client_file_name");
   ("assert_string_is_valid_python_identifier", "base_client_name");
   ("assert_path_exists", "base_client_file_path"); ("assert_path_is_valid_file", "base_client_file_path");
   ("assert_class_is_defined_in_file", "base_client_name,base_client_file_path");
   ("assert_string_is_valid_python_identifier", "enums_module_name");
   ("assert_string_is_valid_python_identifier", "input_types_module_name");
   ("assert_string_is_valid_python_identifier", "fragments_module_name");
   ("assert_path_is_valid_file", "")].
Definition source_order_schema : list (string * string) :=
  [("__post_init__", ""); ("assert_string_is_valid_schema_target_filename", "target_file_path");
   ("assert_string_is_valid_python_identifier", "schema_variable_name");
   ("assert_string_is_valid_python_identifier", "type_map_variable_name");
   ("assert_name_is_not_reserved_in_schema_module", "schema_variable_name");
   ("assert_name_is_not_reserved_in_schema_module", "type_map_variable_name");
   ("raise:InvalidConfiguration", "")].
Definition field_kinds : list (string * string) :=
  [("schema_path", "str"); ("remote_schema_url", "str"); ("remote_schema_headers", "strdict");
   ("remote_schema_verify_ssl", "bool"); ("enable_custom_operations", "bool"); ("plugins", "strlist");
   ("queries_path", "str"); ("target_package_name", "str"); ("target_package_path", "str");
   ("client_name", "str"); ("client_file_name", "str"); ("base_client_name", "str");
   ("base_client_file_path", "str"); ("enums_module_name", "str"); ("input_types_module_name", "str");
   ("fragments_module_name", "str"); ("include_comments", "comments"); ("convert_to_snake_case", "bool");
   ("include_all_inputs", "bool"); ("include_all_enums", "bool"); ("async_client", "bool");
   ("opentelemetry_client", "bool"); ("files_to_include", "strlist"); ("scalars", "scalars");
   ("target_file_path", "str"); ("schema_variable_name", "str"); ("type_map_variable_name", "str")].

(* ---------- sexp interface ---------- *)
Definition dPkind (e : sexp) : option pkind :=
  match e with
  | A "missing" => Some PMissing
  | A "dir" => Some PDir
  | L [A "file"; A c] => Some (PFile c)
  | _ => None
  end.
Definition dPair {X} (f : sexp -> option X) (e : sexp) : option (string * X) :=
  match e with
  | L [A k; v] => match f v with Some x => Some (k, x) | None => None end
  | _ => None
  end.
Definition dEnv (e : sexp) : option env :=
  match e with
  | L [paths; vars; A cwd; A deps] =>
      match dList (dPair dPkind) paths, dList (dPair dStr) vars with
      | Some p, Some v => Some {| e_paths := p; e_vars := v; e_cwd := cwd; e_deps := deps |}
      | _, _ => None
      end
  | _ => None
  end.

Definition sErrV (x : err) : sexp := L [A "err"; A (exn_name (x_cls x)); A (x_msg x)].
Definition sRes {X} (f : X -> sexp) (r : res X) : sexp :=
  match r with Ok a => L [A "ok"; f a] | Err x => sErrV x | Ill => L [A "ill"] end.
Definition sStrs (l : list string) : sexp := L (map A l).
Definition sKV (l : list (string * string)) : sexp := L (map (fun p => L [A (fst p); A (snd p)]) l).
Definition sOptS (o : option string) : sexp := match o with Some s => L [A "some"; A s] | None => A "none" end.
Definition sBase (b : bsettings) : sexp :=
  L [A (s_schema_path b); A (s_url b); sKV (s_headers b); sB (s_verify b); sB (s_custom_ops b);
     sStrs (s_plugins b)].
Definition sScalar (s : scalar) : sexp :=
  L [A (sc_name s); A (sc_type s); sOptS (sc_serialize s); sOptS (sc_parse s); sOptS (sc_import s)].
Definition sCS (c : csettings) : sexp :=
  L [sBase (c_base c); A (c_queries_path c); A (c_pkg_name c); A (c_pkg_path c); A (c_client_name c);
     A (c_client_file c); A (c_bc_name c); A (c_bc_path c); A (c_enums c); A (c_inputs c);
     A (c_fragments c); A (c_comments c); sB (c_snake c); sB (c_all_inputs c); sB (c_all_enums c);
     sB (c_async c); sB (c_otel c); sStrs (c_files c); L (map sScalar (c_scalars c))].
Definition sGS (g : gsettings) : sexp :=
  L [sBase (g_base g); A (g_target g); A (g_schema_var g); A (g_type_map_var g);
     A (file_format (g_target g))].
Definition sCons (l : list (string * bool)) : sexp := L (map (fun p => L [A (fst p); sB (snd p)]) l).

Definition client_info (e : env) (cfg : json) : sexp :=    (* constraint tables + guard *)
  match get_section cfg with
  | Ok (_, kv) =>
      match decode_client kv with
      | Some r => L [sCons (client_constraints e r)]
      | None => L [A "ill"]
      end
  | _ => L [A "nosection"]
  end.
Definition schema_info (e : env) (cfg : json) : sexp :=
  match get_section cfg with
  | Ok (_, kv) =>
      match decode_schema kv with
      | Some r => L [sCons (schema_constraints e r)]
      | None => L [A "ill"]
      end
  | _ => L [A "nosection"]
  end.

Definition run_settings (e : sexp) : sexp :=
  match e with
  | L [A "client"; cfg; en] =>
      match json_of_sexp cfg, dEnv en with
      | Some c, Some v =>
          L [sRes sCS (get_client_settings v c); client_info v c;
             json_to_sexp (config_after_client true c); json_to_sexp (config_after_client false c)]
      | _, _ => sErr "settings: bad arguments"
      end
  | L [A "schema"; cfg; en] =>
      match json_of_sexp cfg, dEnv en with
      | Some c, Some v =>
          L [sRes sGS (get_graphql_schema_settings v c); schema_info v c;
             json_to_sexp (config_after_schema c)]
      | _, _ => sErr "settings: bad arguments"
      end
  | L [A "fields"] => L [sStrs client_field_names; sStrs schema_field_names]
  | L [A "reserved"] => sStrs reserved_variable_names
  | L [A "source-order"] => L [sKV source_order_base; sKV source_order_client; sKV source_order_schema]
  | L [A "field-kinds"] => sKV field_kinds
  | L [A "messages"] =>
      sStrs [msg_not_exist "{}"; msg_not_dir "{}"; msg_not_file "{}"; msg_not_ident "{}"; msg_no_class "{}" "{}";
             msg_no_source; msg_env "{}"; msg_comments "{}"; msg_no_type; msg_missing_fields; msg_no_suffix "{}";
             msg_bad_suffix "{}" "{}"; msg_reserved "{}"; msg_same_names; msg_no_section]
  | L [A "suffix"; A p] => L [A (path_suffix p); A (file_format p)]
  | L [A "identifier"; A s] => L [sB (is_identifier s); sB (is_kw s)]
  | _ => sErr "settings: bad command"
  end.
