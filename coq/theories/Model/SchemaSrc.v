(* C19 — shared datatypes: a small schema-definition language (what the loader feeds to
   build_ast_schema and what survives introspection), with its S-expression codec.
   Definitions only. *)
From Coq Require Import List String Ascii ZArith Bool.
From AC Require Import Base.Sexp.
Import ListNotations.
Local Open Scope string_scope.

Inductive gtype := TNamed (n : string) | TList (t : gtype) | TNonNull (t : gtype).

(* constant values (SDL literals and coerced Python values alike) *)
Inductive cvalue :=
| CInt (z : Z) | CFloat (lexeme : string) | CStr (s : string) | CBool (b : bool) | CNull
| CEnum (v : string) | CList (l : list cvalue) | CObj (kv : list (string * cvalue)).

(* an input field as graphql-core holds it: [if_ast_default] is field.ast_node.default_value
   (exists only when the schema was built from SDL), [if_value_default] is field.default_value
   (the coerced value; exists on both routes) *)
Record ifield := {
  if_name : string; if_type : gtype;
  if_ast_default : option cvalue; if_value_default : option cvalue;
  if_has_node : bool;          (* field.ast_node is not None *)
  if_deprecated : bool }.

(* members of a type body: input fields are structured, everything else (output fields with
   their arguments, enum values, union members) is carried as its printed SDL text *)
Inductive member := MIn (f : ifield) | MOp (text : string).

Record tbody := { b_kind : string;     (* scalar enum object interface union input *)
                  b_header : string;   (* printed "implements ..." / directives: opaque *)
                  b_members : list member }.

(* one top-level type-system definition; [d_ext] = it is an `extend ...` *)
Record defn := { d_ext : bool; d_name : string; d_body : tbody }.

Definition nullable (t : gtype) : bool := match t with TNonNull _ => false | _ => true end.

(* ---------------- codec ---------------- *)
Fixpoint gtype_of_sexp (e : sexp) : option gtype :=
  match e with
  | L [A "named"; A n] => Some (TNamed n)
  | L [A "list"; t] => option_map TList (gtype_of_sexp t)
  | L [A "nn"; t] => option_map TNonNull (gtype_of_sexp t)
  | _ => None
  end.

Fixpoint gtype_to_sexp (t : gtype) : sexp :=
  match t with
  | TNamed n => L [A "named"; A n]
  | TList t => L [A "list"; gtype_to_sexp t]
  | TNonNull t => L [A "nn"; gtype_to_sexp t]
  end.

Fixpoint cvalue_of_sexp (e : sexp) : option cvalue :=
  match e with
  | A "n" => Some CNull
  | L [A "i"; z] => option_map CInt (dZ z)
  | L [A "f"; A s] => Some (CFloat s)
  | L [A "s"; A s] => Some (CStr s)
  | L [A "b"; b] => option_map CBool (dB b)
  | L [A "e"; A s] => Some (CEnum s)
  | L (A "l" :: l) =>
      option_map CList
      ((fix go (l : list sexp) : option (list cvalue) :=
         match l with
         | [] => Some []
         | x :: r => match cvalue_of_sexp x, go r with
                     | Some v, Some vs => Some (v :: vs) | _, _ => None end
         end) l)
  | L (A "o" :: l) =>
      option_map CObj
      ((fix go (l : list sexp) : option (list (string * cvalue)) :=
         match l with
         | [] => Some []
         | L [A k; x] :: r => match cvalue_of_sexp x, go r with
                              | Some v, Some vs => Some ((k, v) :: vs) | _, _ => None end
         | _ => None
         end) l)
  | _ => None
  end.

Fixpoint cvalue_to_sexp (v : cvalue) : sexp :=
  match v with
  | CNull => A "n"
  | CInt z => L [A "i"; sZ z]
  | CFloat s => L [A "f"; A s]
  | CStr s => L [A "s"; A s]
  | CBool b => L [A "b"; sB b]
  | CEnum s => L [A "e"; A s]
  | CList l => L (A "l" :: map cvalue_to_sexp l)
  | CObj kv => L (A "o" :: map (fun p => L [A (fst p); cvalue_to_sexp (snd p)]) kv)
  end.

(* (name type astdefault valuedefault hasnode deprecated) *)
Definition ifield_of_sexp (e : sexp) : option ifield :=
  match e with
  | L [A n; t; ad; vd; hn; dp] =>
      match gtype_of_sexp t, dOpt cvalue_of_sexp ad, dOpt cvalue_of_sexp vd, dB hn, dB dp with
      | Some t, Some ad, Some vd, Some hn, Some dp =>
          Some {| if_name := n; if_type := t; if_ast_default := ad; if_value_default := vd;
                  if_has_node := hn; if_deprecated := dp |}
      | _, _, _, _, _ => None
      end
  | _ => None
  end.

Definition ifield_to_sexp (f : ifield) : sexp :=
  L [A (if_name f); gtype_to_sexp (if_type f); sOpt cvalue_to_sexp (if_ast_default f);
     sOpt cvalue_to_sexp (if_value_default f); sB (if_has_node f); sB (if_deprecated f)].

Definition member_of_sexp (e : sexp) : option member :=
  match e with
  | L [A "in"; f] => option_map MIn (ifield_of_sexp f)
  | L [A "op"; A s] => Some (MOp s)
  | _ => None
  end.

Definition member_to_sexp (m : member) : sexp :=
  match m with MIn f => L [A "in"; ifield_to_sexp f] | MOp s => L [A "op"; A s] end.

(* (ext name kind header (members...)) *)
Definition defn_of_sexp (e : sexp) : option defn :=
  match e with
  | L [x; A n; A k; A h; ms] =>
      match dB x, dList member_of_sexp ms with
      | Some x, Some ms =>
          Some {| d_ext := x; d_name := n;
                  d_body := {| b_kind := k; b_header := h; b_members := ms |} |}
      | _, _ => None
      end
  | _ => None
  end.

Definition body_to_sexp (n : string) (b : tbody) : sexp :=
  L [A n; A (b_kind b); A (b_header b); sList member_to_sexp (b_members b)].
