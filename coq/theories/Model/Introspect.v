(* C19 — ariadne_codegen/schema.py introspect_remote_schema / get_graphql_schema_from_url,
   settings.py resolve_headers / get_header_value, what build_client_schema(introspection(S))
   keeps of S's input types, and client_generators/input_fields.py
   parse_input_field_default_value (where input defaults are read).   Definitions only.

   The model follows /repo after the fixes 4077122 (defaults read from field.default_value when
   there is no SDL node), 4fe57ef (build_client_schema failures and httpx.UnsupportedProtocol
   become IntrospectionError) and 6530558 (walk yields files only). *)
From Coq Require Import List String Ascii ZArith Bool.
From AC Require Import Base.Sexp Base.Strs Base.Json Model.SchemaSrc Model.Loader.
Import ListNotations.
Local Open Scope string_scope.

(* ================= 1. the request: headers, verify flag ================= *)
Definition env := list (string * string).          (* os.environ *)

Definition is_dollar (c : ascii) : bool := Ascii.eqb c "$"%char.

(* get_header_value: value.startswith("$") -> os.environ.get(value.lstrip("$")), a missing OR
   EMPTY variable raises InvalidConfiguration(name) *)
Definition header_value (en : env) (v : string) : string + string :=
  match s2l v with
  | c :: _ =>
      if is_dollar c then
        let name := l2s (drop_while is_dollar (s2l v)) in
        match assoc_get name en with
        | Some x => if String.eqb x "" then inl name else inr x
        | None => inl name
        end
      else inr v
  | [] => inr v
  end.

(* resolve_headers: dict comprehension in insertion order, first failure escapes *)
Fixpoint resolve_headers (en : env) (hs : list (string * string)) : string + list (string * string) :=
  match hs with
  | [] => inr []
  | (k, v) :: r =>
      match header_value en v with
      | inl n => inl n
      | inr x => match resolve_headers en r with
                 | inl n => inl n
                 | inr xs => inr ((k, x) :: xs)
                 end
      end
  end.

Record settings := { s_url : string; s_headers : list (string * string); s_verify : bool }.

(* what httpx.post is called with *)
(* the options of get_introspection_query: since b147fbc the FULL query is sent *)
Record qflags := { qf_descriptions : bool; qf_specified_by_url : bool; qf_directive_is_repeatable : bool;
                   qf_schema_description : bool; qf_input_value_deprecation : bool }.
Definition full_query : qflags :=
  {| qf_descriptions := true; qf_specified_by_url := true; qf_directive_is_repeatable := true;
     qf_schema_description := true; qf_input_value_deprecation := true |}.

Record request := { q_url : string; q_headers : list (string * string); q_verify : bool;
                    q_query : qflags }.

Definition request_of (en : env) (s : settings) : string + request :=
  match resolve_headers en (s_headers s) with
  | inl n => inl n
  | inr hs => inr {| q_url := s_url s; q_headers := hs; q_verify := s_verify s;
                     q_query := full_query |}
  end.

(* a sequence of generations in ONE process over the SAME configuration object, the environment
   changing in between: get_client_settings builds a fresh settings object each time and
   resolve_headers builds a fresh dict, so the configuration is read, never written *)
Definition run_once (en : env) (cfg : settings) : (string + request) * settings :=
  (request_of en cfg, cfg).

Fixpoint run_history (cfg : settings) (ens : list env) : list (string + request) * settings :=
  match ens with
  | [] => ([], cfg)
  | en :: r => let '(o, cfg1) := run_once en cfg in
               let '(os, cfg2) := run_history cfg1 r in (o :: os, cfg2)
  end.

(* ================= 2. the decision chain ================= *)
(* what httpx makes of the URL before anything is sent *)
Inductive urlclass :=
| UOk
| UInvalid          (* httpx.InvalidURL: malformed host/port, control characters, too long *)
| UNoScheme.        (* httpx.UnsupportedProtocol: no or non-http(s) scheme ("localhost/graphql");
                       translated like InvalidURL *)

Record response := { r_status : Z; r_body : option json }.   (* None: body is not JSON *)

Inductive ierr :=
| EInvalidUrl | EStatus (z : Z) | ENotJson | EFormat | EErrors (e : json) | EDataKey
| EBuild.     (* build_client_schema refused the data *)

Inductive outcome :=
| OError (e : ierr)              (* ariadne_codegen.exceptions.IntrospectionError *)
| OData (kv : list (string * json)).

Definition is_success (z : Z) : bool := (200 <=? z)%Z && (z <=? 299)%Z.

Definition introspect_remote_schema (u : urlclass) (r : response) : outcome :=
  match u with
  | UInvalid => OError EInvalidUrl
  | UNoScheme => OError EInvalidUrl
  | UOk =>
      if negb (is_success (r_status r)) then OError (EStatus (r_status r)) else
      match r_body r with
      | None => OError ENotJson
      | Some (JObj kv) =>
          if negb (jhas "data" kv) then OError EFormat else
          let errors := match jlookup "errors" kv with Some e => e | None => JNull end in
          if truthy errors then OError (EErrors errors) else
          match jlookup "data" kv with
          | Some (JObj d) => OData d
          | _ => OError EDataKey
          end
      | Some _ => OError EFormat
      end
  end.

(* the first checks of graphql-core's build_client_schema on the data *)
Inductive gate := GTypeError | GKeyError | GDeeper.

Definition client_schema_gate (d : list (string * json)) : gate :=
  match jlookup "__schema" d with
  | Some (JObj s) => if jhas "types" s then GDeeper else GKeyError
  | _ => GTypeError
  end.

(* get_graphql_schema_from_url up to the point where graphql-core walks the types;
   [deep]: whether build_client_schema accepts what lies below the gate (graphql-core's
   judgement, supplied by the caller; [Some exn]: it raises exn, one of TypeError, KeyError,
   AttributeError, ValueError, GraphQLError - all translated) *)
Inductive schema_outcome :=
| SError (e : ierr) | SBuilt (d : list (string * json)).

Definition schema_from_url (u : urlclass) (r : response) (deep : option string)
  : schema_outcome :=
  match introspect_remote_schema u r with
  | OError e => SError e
  | OData d =>
      match client_schema_gate d with
      | GTypeError => SError EBuild
      | GKeyError => SError EBuild
      | GDeeper => match deep with Some _ => SError EBuild | None => SBuilt d end
      end
  end.

(* -- the failure classes of the property text, as independent predicates on the input -- *)
Definition bad_url (u : urlclass) : bool := match u with UOk => false | _ => true end.
Definition non_2xx (r : response) : bool := negb (is_success (r_status r)).
Definition non_json (r : response) : bool := match r_body r with None => true | Some _ => false end.
Definition top_of (r : response) : option (list (string * json)) :=
  match r_body r with Some (JObj kv) => Some kv | _ => None end.
Definition bad_format (r : response) : bool :=
  match r_body r with
  | Some (JObj kv) => negb (jhas "data" kv)
  | Some _ => true
  | None => false
  end.
Definition has_errors (r : response) : bool :=
  match top_of r with
  | Some kv => match jlookup "errors" kv with Some e => truthy e | None => false end
  | None => false
  end.
Definition data_of (r : response) : option json :=
  match top_of r with Some kv => jlookup "data" kv | None => None end.
Definition data_not_object (r : response) : bool :=
  match data_of r with Some (JObj _) => false | Some _ => true | None => false end.
Definition data_malformed (r : response) (deep : option string) : bool :=
  match data_of r with
  | Some (JObj d) => match client_schema_gate d with
                     | GDeeper => match deep with Some _ => true | None => false end
                     | _ => true end
  | _ => false
  end.

Definition any_failure (u : urlclass) (r : response) (deep : option string) : bool :=
  bad_url u || non_2xx r || non_json r || bad_format r || has_errors r || data_not_object r
  || data_malformed r deep.

(* ================= 3. what introspection keeps of the input types ================= *)
Definition inputs := list (string * list ifield).

(* build_client_schema(introspection(S)) for the full query: no AST nodes; default VALUES kept
   (defaultValue is printed and re-coerced); deprecated input fields are transmitted too
   (input_value_deprecation=True since b147fbc) with their deprecation *)
Definition via_field (f : ifield) : ifield :=
  {| if_name := if_name f; if_type := if_type f; if_ast_default := None;
     if_value_default := if_value_default f; if_has_node := false;
     if_deprecated := if_deprecated f |}.

Definition via_fields (fs : list ifield) : list ifield := map via_field fs.

Definition via_introspection (s : inputs) : inputs := map (fun p => (fst p, via_fields (snd p))) s.

(* parse_input_field_default_value: the literal of the SDL node when there is one, else the
   literal rebuilt from field.default_value (get_default_value_node; graphql-core's ast_from_value
   refusing the value - a custom scalar with an object/list default - is outside the model) *)
Inductive pydefault :=
| PRequired                  (* no value: the pydantic field is required *)
| PNone                      (* = None *)
| PLiteral (v : cvalue)      (* rendering of node.default_value *)
| PValue (v : cvalue).       (* rendering of ast_from_value(field.default_value) *)

Definition field_default (f : ifield) : pydefault :=
  match (if if_has_node f then if_ast_default f else None) with
  | Some v => PLiteral v
  | None =>
      match if_value_default f with
      | Some v => PValue v
      | None => if nullable (if_type f) then PNone else PRequired
      end
  end.

Definition is_required (d : pydefault) : bool := match d with PRequired => true | _ => false end.

(* what the generated class says about one field: wire name, type, requiredness, and the value a
   caller gets when omitting it.  A literal denotes the value graphql-core coerces it to
   (field.default_value). *)
Definition semantic_default (f : ifield) : option cvalue :=
  match field_default f with
  | PRequired => None
  | PNone => Some CNull
  | PLiteral _ => if_value_default f
  | PValue v => Some v
  end.

Record pfield := { pf_name : string; pf_type : gtype; pf_required : bool;
                   pf_default : option cvalue }.

Definition gen_field (f : ifield) : pfield :=
  {| pf_name := if_name f; pf_type := if_type f;
     pf_required := is_required (field_default f);
     pf_default := semantic_default f |}.

Definition gen_inputs (s : inputs) : list (string * list pfield) :=
  map (fun p => (fst p, map gen_field (snd p))) s.

(* the input object types of a type map (Model/Loader.v), in type-map order: what
   InputTypesGenerator._filter_input_types walks *)
Definition in_fields (ms : list member) : list ifield :=
  flat_map (fun m => match m with MIn f => [f] | MOp _ => [] end) ms.
Definition inputs_of (tm : list (string * tbody)) : inputs :=
  flat_map (fun nb => if String.eqb (b_kind (snd nb)) "inputobject"
                      then [(fst nb, in_fields (b_members (snd nb)))] else []) tm.

(* schema built from SDL: every field has its node, and a literal iff a coerced value *)
Definition wf_field (f : ifield) : bool :=
  if_has_node f &&
  match if_ast_default f, if_value_default f with
  | Some _, Some _ => true | None, None => true | _, _ => false end.
Definition wf_sdl (s : inputs) : bool := forallb (fun p => forallb wf_field (snd p)) s.

Definition has_default (f : ifield) : bool :=
  match if_ast_default f with Some _ => true | None => false end.
(* finding classes as predicates on the schema *)
Definition no_defaults (s : inputs) : bool :=
  forallb (fun p => forallb (fun f => negb (has_default f)) (snd p)) s.
Definition no_deprecated (s : inputs) : bool :=
  forallb (fun p => forallb (fun f => negb (if_deprecated f)) (snd p)) s.
Definition no_nonnull_default (s : inputs) : bool :=
  forallb (fun p => forallb (fun f => nullable (if_type f) || negb (has_default f)) (snd p)) s.

Definition required_names (c : list pfield) : list string :=
  map pf_name (filter pf_required c).

(* ---------------- sexp interface ---------------- *)
Definition dPair (e : sexp) : option (string * string) :=
  match e with L [A k; A v] => Some (k, v) | _ => None end.

Definition dUrl (e : sexp) : option urlclass :=
  match e with
  | A "ok" => Some UOk | A "invalid" => Some UInvalid | A "noscheme" => Some UNoScheme
  | _ => None end.

Definition ierr_to_sexp (e : ierr) : sexp :=
  match e with
  | EInvalidUrl => L [A "invalid-url"]
  | EStatus z => L [A "status"; sZ z]
  | ENotJson => L [A "not-json"]
  | EFormat => L [A "format"]
  | EErrors j => L [A "errors"; json_to_sexp j]
  | EDataKey => L [A "data-key"]
  | EBuild => L [A "build"]
  end.

Definition pydefault_to_sexp (d : pydefault) : sexp :=
  match d with
  | PRequired => L [A "required"]
  | PNone => L [A "none"]
  | PLiteral v => L [A "literal"; cvalue_to_sexp v]
  | PValue v => L [A "value"; cvalue_to_sexp v]
  end.

Definition dInputs (e : sexp) : option inputs :=
  dList (fun x => match x with
                  | L [A n; fs] => option_map (fun l => (n, l)) (dList ifield_of_sexp fs)
                  | _ => None end) e.

Definition decisions (s : inputs) : sexp :=
  L (map (fun p => L [A (fst p);
        L (map (fun f => L [A (if_name f); pydefault_to_sexp (field_default f)]) (snd p))]) s).

Definition run_introspect (e : sexp) : sexp :=
  match e with
  | L [A "headers"; en; hs] =>
      match dList dPair en, dList dPair hs with
      | Some en, Some hs =>
          match resolve_headers en hs with
          | inl n => L [A "err"; A n]
          | inr xs => L [A "ok"; L (map (fun p => L [A (fst p); A (snd p)]) xs)]
          end
      | _, _ => sErr "headers" end
  | L [A "request"; en; A url; hs; v] =>
      match dList dPair en, dList dPair hs, dB v with
      | Some en, Some hs, Some v =>
          match request_of en {| s_url := url; s_headers := hs; s_verify := v |} with
          | inl n => L [A "err"; A n]
          | inr q => L [A "ok"; A (q_url q); L (map (fun p => L [A (fst p); A (snd p)]) (q_headers q));
                        sB (q_verify q);
                        L (map sB [qf_descriptions (q_query q); qf_specified_by_url (q_query q);
                                   qf_directive_is_repeatable (q_query q); qf_schema_description (q_query q);
                                   qf_input_value_deprecation (q_query q)])]
          end
      | _, _, _ => sErr "request" end
  | L [A "constants"] =>
      (* the marker character of get_header_value, found by probing the model itself *)
      L [A (match header_value [("X", "v")] "$X" with inr "v" => "$" | _ => "?" end);
         L (map sB [qf_descriptions full_query; qf_specified_by_url full_query; qf_directive_is_repeatable full_query;
                    qf_schema_description full_query; qf_input_value_deprecation full_query])]
  | L [A "history"; A url; hs; v; ens] =>
      match dList dPair hs, dB v, dList (dList dPair) ens with
      | Some hs, Some v, Some ens =>
          let '(os, cfg) := run_history {| s_url := url; s_headers := hs; s_verify := v |} ens in
          L [L (map (fun o => match o with
                              | inl n => L [A "err"; A n]
                              | inr q => L [A "ok"; L (map (fun p => L [A (fst p); A (snd p)]) (q_headers q))]
                              end) os);
             L (map (fun p => L [A (fst p); A (snd p)]) (s_headers cfg))]
      | _, _, _ => sErr "history" end
  | L [A "outcome"; u; st; body; deep] =>
      match dUrl u, dZ st, dOpt json_of_sexp body, dOpt dStr deep with
      | Some u, Some st, Some body, Some deep =>
          let r := {| r_status := st; r_body := body |} in
          L [match schema_from_url u r deep with
             | SError x => L [A "introspection-error"; ierr_to_sexp x]
             | SBuilt _ => L [A "schema"]
             end;
             sB (any_failure u r deep)]
      | _, _, _, _ => sErr "outcome" end
  | L [A "inputs"; s] =>
      match dInputs s with
      | Some s =>
          L [decisions s; decisions (via_introspection s);
             sB (wf_sdl s); sB (no_defaults s); sB (no_deprecated s); sB (no_nonnull_default s)]
      | None => sErr "inputs" end
  | _ => sErr "introspect: bad command"
  end.
