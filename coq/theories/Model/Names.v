(* Model of ariadne_codegen/utils.py: str_to_snake_case, str_to_pascal_case, process_name.
   Executable definitions only (proofs are in Proofs/NamesP.v).
   Domain: ASCII strings (GraphQL names: a letter or underscore, then letters, digits, underscores). *)
From Coq Require Import List String Ascii Bool Arith.
From AC Require Import Base.Strs Base.Sexp.
Import ListNotations.

Inductive ckind := KU | KL | KD | KO.

Definition kind (c : ascii) : ckind :=
  if is_upper c then KU else if is_lower c then KL else if is_digit c then KD else KO.

(* lower-cased kind *)
Definition lk (k : ckind) : ckind := match k with KU => KL | k => k end.

(* is there a word boundary between two ADJACENT alphanumeric characters of kinds p (previous)
   and c (current), given whether the character after the current one is lower-case?
   This is what re.findall(r"[A-Z]?[a-z]+|[A-Z]+(?=[A-Z][a-z]|\d|\W|_|$)|\d+") computes. *)
Definition boundary (p c : ckind) (next_lower : bool) : bool :=
  match p, c with
  | KL, KL => false
  | KU, KL => false
  | KU, KU => next_lower
  | KD, KD => false
  | _, _ => true
  end.

Definition head_lower (l : chars) : bool :=
  match l with c :: _ => is_lower c | [] => false end.

(* last : kind of the last alphanumeric character consumed (None: none yet);
   sep  : a non-alphanumeric character was seen since *)
Fixpoint snake_go (last : option ckind) (sep : bool) (l : chars) : chars :=
  match l with
  | [] => []
  | c :: r =>
      if is_alnum c then
        let b := match last with
                 | None => false
                 | Some p => sep || boundary p (kind c) (head_lower r)
                 end in
        (if b then ["_"%char] else []) ++ to_lower c :: snake_go (Some (kind c)) false r
      else snake_go last true r
  end.

Definition snake (n : chars) : chars := snake_go None false n.

(* str_to_pascal_case: "".join(n[:1].upper() + n[1:] for n in name.split("_")) *)
Fixpoint pascal_go (start : bool) (l : chars) : chars :=
  match l with
  | [] => []
  | c :: r => if is_us c then pascal_go true r
              else (if start then to_upper c else c) :: pascal_go false r
  end.
Definition pascal (n : chars) : chars := pascal_go true n.

Definition kwlist : list chars := map s2l
  ["False"; "None"; "True"; "and"; "as"; "assert"; "async"; "await"; "break"; "class";
   "continue"; "def"; "del"; "elif"; "else"; "except"; "finally"; "for"; "from"; "global";
   "if"; "import"; "in"; "is"; "lambda"; "nonlocal"; "not"; "or"; "pass"; "raise"; "return";
   "try"; "while"; "with"; "yield"]%string.

Definition iskeyword (n : chars) : bool := mem_chars n kwlist.

(* public names of dir(pydantic.BaseModel) for the installed pydantic; data, checked against
   ariadne_codegen.utils.PYDANTIC_RESERVED_FIELD_NAMES on every run (K2) *)
Definition pydantic_reserved : list chars := map s2l
  ["construct"; "copy"; "dict"; "from_orm"; "json"; "model_computed_fields"; "model_config";
   "model_construct"; "model_copy"; "model_dump"; "model_dump_json"; "model_extra";
   "model_fields"; "model_fields_set"; "model_json_schema"; "model_parametrized_name";
   "model_post_init"; "model_rebuild"; "model_validate"; "model_validate_json";
   "model_validate_strings"; "parse_file"; "parse_obj"; "parse_raw"; "schema"; "schema_json";
   "update_forward_refs"; "validate"]%string.

Definition all_us (n : chars) : bool := forallb is_us n.

Definition fallback_name : chars := s2l "underscore_named_field_".

Record pflags := { f_snake : bool; f_trim : bool; f_reserved : bool }.

Definition suffix_if (b : bool) (n : chars) : chars := if b then n ++ ["_"%char] else n.

(* process_name without a plugin manager, step for step
   (order after the fix "trim the leading underscore before the keyword / reserved checks") *)
Definition process_name_with (reserved : list chars) (fl : pflags) (name : chars) : chars :=
  let p1 := if f_snake fl then snake name else name in
  let p2 := if f_trim fl then drop_while is_us p1 else p1 in
  let p3 := suffix_if (iskeyword p2) p2 in
  let p4 := suffix_if (f_reserved fl && mem_chars p3 reserved) p3 in
  match name, p4 with
  | _ :: _, [] => if all_us name then fallback_name else p4
  | _, _ => p4
  end.

Definition process_name := process_name_with pydantic_reserved.

(* ---- well-formedness predicates used as theorem hypotheses ---- *)

Definition gql_name (n : chars) : bool :=
  match n with
  | [] => false
  | c :: _ => negb (is_digit c) && forallb is_name_char n
  end.

Definition py_identifier (n : chars) : bool := gql_name n.   (* ASCII identifiers *)

Fixpoint first_alnum_is_digit (n : chars) : bool :=
  match n with
  | [] => false
  | c :: r => if is_alnum c then is_digit c else first_alnum_is_digit r
  end.

Definition starts_us (n : chars) : bool := match n with c :: _ => is_us c | [] => false end.

(* the class of names on which process_name is known to misbehave (finding F18):
   snake-casing or trimming exposes a leading digit (_1 -> 1) *)
Definition g_c18 (fl : pflags) (n : chars) : bool :=
  if f_snake fl || f_trim fl then negb (first_alnum_is_digit n) else true.

(* ---- the name a generated class field gets, with its wire alias ---- *)
Definition field_names (fl : pflags) (n : chars) : chars * option chars :=
  let p := process_name fl n in
  (p, if chars_eqb p n then None else Some n).

(* wire name of a declared field: the alias when present, the Python name otherwise *)
Definition wire_name (d : chars * option chars) : chars :=
  match snd d with Some a => a | None => fst d end.

(* ---- enums.py: the member name of an enum value (keyword suffix only; no trimming, no snake-casing) ---- *)
(* utils.enum_member_name: keywords, "mro" and Enum's _sunder_ names get a trailing underscore *)
Definition is_sunder (v : chars) : bool :=
  match v, rev v with
  | a :: b :: _ :: _, z :: y :: _ => is_us a && is_us z && negb (is_us b) && negb (is_us y)
  | _, _ => false
  end.
Definition enum_renamed (v : chars) : bool :=
  iskeyword v || chars_eqb v (s2l "mro") || is_sunder v.
Definition enum_member (v : chars) : chars := suffix_if (enum_renamed v) v.

(* ---- sexp interface ---- *)
Local Open Scope string_scope.
Definition dFlags (e : sexp) : option pflags :=
  match e with
  | L [a; b; c] => match dB a, dB b, dB c with
                   | Some x, Some y, Some z => Some {| f_snake := x; f_trim := y; f_reserved := z |}
                   | _, _, _ => None end
  | _ => None
  end.

Definition all_flags : list pflags :=
  flat_map (fun a => flat_map (fun b => map (fun c => {| f_snake := a; f_trim := b; f_reserved := c |})
    [false; true]) [false; true]) [false; true].

Definition run_names (e : sexp) : sexp :=
  match e with
  | L [A "all"; A s] =>
      let n := s2l s in
      L [A (l2s (snake n)); A (l2s (pascal n)); sB (gql_name n);
         L (map (fun f => A (l2s (process_name f n))) all_flags);
         L (map (fun f => sB (g_c18 f n)) all_flags)]
  | L [A "snake"; A s] => A (l2s (snake (s2l s)))
  | L [A "pascal"; A s] => A (l2s (pascal (s2l s)))
  | L [A "process"; fl; A s] =>
      match dFlags fl with
      | Some f => A (l2s (process_name f (s2l s)))
      | None => sErr "flags" end
  | L [A "guard"; fl; A s] =>
      match dFlags fl with
      | Some f => sB (g_c18 f (s2l s))
      | None => sErr "flags" end
  | L [A "enum_member"; A s] => A (l2s (enum_member (s2l s)))
  | L [A "kwlist"] => L (map (fun k => A (l2s k)) kwlist)
  | L [A "reserved"] => L (map (fun k => A (l2s k)) pydantic_reserved)
  | _ => sErr "names: bad command"
  end.
