(* C19 — the top level of graphql-core's type-system grammar over TOKEN streams: where one
   definition ends and the next begins.  Used to replace the assumption "parse(join "\n" texts) is the
   concatenation of the per-file definition lists" by a theorem about this automaton plus two much
   smaller tied facts (lexing a join = concatenating the token streams; the automaton marks the same
   definition boundaries as graphql-core's parser).   Definitions only.

   The automaton is deliberately permissive inside a definition (it does not check which optional
   parts a given keyword allows): it has to agree with the parser on documents the parser accepts. *)
From Coq Require Import List String Ascii Bool Arith.
From AC Require Import Base.Sexp.
Import ListNotations.
Local Open Scope string_scope.

Inductive tok :=
| TName (s : string)
| TStr                      (* STRING or BLOCK_STRING *)
| TParen | TBrace | TBracket (* ( { [ *)
| TClose                    (* ) } ] *)
| TAt | TAmp | TPipe | TEq
| TOther.                   (* ! $ : ... INT FLOAT *)

Definition def_keywords : list string :=
  ["schema"; "scalar"; "type"; "interface"; "union"; "enum"; "input"; "directive"; "extend"].

Definition is_kw (s : string) : bool := existsb (String.eqb s) def_keywords.

(* tokens with which a type-system definition can begin *)
Definition is_start (t : tok) : bool :=
  match t with TStr => true | TName s => is_kw s | _ => false end.

Inductive q :=
| QStart                (* nothing of a definition read yet *)
| QDesc                 (* after a description *)
| QExtend               (* after `extend` *)
| QKw                   (* after scalar/type/interface/union/enum/input: the name follows *)
| QDirectiveKw | QDirAt (* after `directive`, after its `@` *)
| QDirDef               (* directive @name [(args)] [repeatable] ... waiting for `on` *)
| QAltStart | QAltPipe  (* after `=` / `on`, after a `|`: a name follows *)
| QAlt                  (* after a union member / directive location  (a definition may end here) *)
| QHead                 (* after the name, an implemented interface, a directive use  (may end here) *)
| QImpl | QImplAmp      (* after `implements`, after `&` *)
| QAt                   (* after the `@` of a directive use *)
| QBody.                (* after the closing brace of a body  (ends here) *)

(* state: automaton state, nesting depth, and the state to resume when the depth returns to 0 *)
Record st := { s_q : q; s_depth : nat }.
Definition init : st := {| s_q := QStart; s_depth := 0 |}.
Definition at0 (x : q) : st := {| s_q := x; s_depth := 0 |}.

Definition may_end (x : q) : bool :=
  match x with QStart | QAlt | QHead | QBody => true | _ => false end.
Definition accepting (s : st) : bool := may_end (s_q s) && Nat.eqb (s_depth s) 0.

(* the transition taken by a token that begins a definition (after an optional description) *)
Definition begin_def (t : tok) : option q :=
  match t with
  | TStr => Some QDesc
  | TName s =>
      if String.eqb s "extend" then Some QExtend
      else if String.eqb s "schema" then Some QHead
      else if String.eqb s "directive" then Some QDirectiveKw
      else if is_kw s then Some QKw
      else None
  | _ => None
  end.

(* one token at depth 0, inside a definition *)
Definition inside (x : q) (t : tok) : option st :=
  match x, t with
  | QDesc, TName s => if String.eqb s "extend" then None else
                      match begin_def t with Some y => Some (at0 y) | None => None end
  | QExtend, TName s => if String.eqb s "schema" then Some (at0 QHead)
                        else if is_kw s && negb (String.eqb s "extend") && negb (String.eqb s "directive")
                             then Some (at0 QKw) else None
  | QKw, TName _ => Some (at0 QHead)
  | QDirectiveKw, TAt => Some (at0 QDirAt)
  | QDirAt, TName _ => Some (at0 QDirDef)
  | QDirDef, TParen => Some {| s_q := QDirDef; s_depth := 1 |}
  | QDirDef, TName s => if String.eqb s "on" then Some (at0 QAltStart) else Some (at0 QDirDef)
  | QAltStart, TPipe => Some (at0 QAltPipe)
  | QAltStart, TName _ => Some (at0 QAlt)
  | QAltPipe, TName _ => Some (at0 QAlt)
  | QAlt, TPipe => Some (at0 QAltPipe)
  | QHead, TName _ => Some (at0 QImpl)               (* `implements` *)
  | QHead, TAmp => Some (at0 QImplAmp)
  | QHead, TAt => Some (at0 QAt)
  | QHead, TEq => Some (at0 QAltStart)
  | QHead, TParen => Some {| s_q := QHead; s_depth := 1 |}
  | QHead, TBrace => Some {| s_q := QBody; s_depth := 1 |}
  | QImpl, TAmp => Some (at0 QImplAmp)
  | QImpl, TName _ => Some (at0 QHead)
  | QImplAmp, TName _ => Some (at0 QHead)
  | QAt, TName _ => Some (at0 QHead)
  | _, _ => None
  end.

(* step: the new state and whether the token BEGINS a definition *)
Definition step (s : st) (t : tok) : option (st * bool) :=
  match s_depth s with
  | S d =>
      match t with
      | TParen | TBrace | TBracket => Some ({| s_q := s_q s; s_depth := S (S d) |}, false)
      | TClose => Some ({| s_q := s_q s; s_depth := d |}, false)
      | _ => Some (s, false)
      end
  | O =>
      if may_end (s_q s) && is_start t
      then match begin_def t with Some y => Some (at0 y, true) | None => None end
      else match inside (s_q s) t with Some s' => Some (s', false) | None => None end
  end.

Fixpoint run (s : st) (ts : list tok) : option (list bool * st) :=
  match ts with
  | [] => Some ([], s)
  | t :: r =>
      match step s t with
      | Some (s', b) => match run s' r with Some (bs, s'') => Some (b :: bs, s'') | None => None end
      | None => None
      end
  end.

(* cut a token list before every flagged token *)
Fixpoint segments (bs : list bool) (ts : list tok) : list (list tok) :=
  match bs, ts with
  | b :: bs', t :: ts' =>
      match segments bs' ts' with
      | seg :: rest => if b then [] :: (t :: seg) :: rest else (t :: seg) :: rest
      | [] => if b then [[]; [t]] else [[t]]
      end
  | _, _ => [[]]
  end.
(* the first segment is what precedes the first flag: empty for a document *)
Definition definitions_of (bs : list bool) (ts : list tok) : list (list tok) := tl (segments bs ts).

(* a document: the automaton accepts it *)
Definition doc_flags (ts : list tok) : option (list bool) :=
  match run init ts with
  | Some (bs, s) => if accepting s then Some bs else None
  | None => None
  end.

Definition split_doc (ts : list tok) : option (list (list tok)) :=
  match doc_flags ts with Some bs => Some (definitions_of bs ts) | None => None end.

(* (is-extension, keyword, name) of one definition's tokens, named as the harness names them *)
Definition summary (seg : list tok) : option (bool * string * string) :=
  let seg := match seg with TStr :: r => r | _ => seg end in
  let named (ext : bool) (k : string) (r : list tok) :=
    if String.eqb k "schema" then Some (ext, k, "schema")
    else if String.eqb k "directive" then
      match r with TAt :: TName n :: _ => Some (ext, k, "@" ++ n) | _ => None end
    else match r with TName n :: _ => Some (ext, k, n) | _ => None end in
  match seg with
  | TName e :: TName k :: r => if String.eqb e "extend" then named true k r else named false e (TName k :: r)
  | TName k :: r => named false k r
  | _ => None
  end.

(* ---------------- sexp interface ---------------- *)
Definition tok_of_sexp (e : sexp) : option tok :=
  match e with
  | L [A "n"; A s] => Some (TName s)
  | A "s" => Some TStr
  | A "(" => Some TParen | A "{" => Some TBrace | A "[" => Some TBracket
  | A ")" => Some TClose
  | A "@" => Some TAt | A "&" => Some TAmp | A "|" => Some TPipe | A "=" => Some TEq
  | A "o" => Some TOther
  | _ => None
  end.

Definition run_toplevel (e : sexp) : sexp :=
  match e with
  | L [A "split"; ts] =>
      match dList tok_of_sexp ts with
      | Some ts =>
          match split_doc ts with
          | Some segs => L [A "ok"; L (map (fun g => L [sN (List.length g);
                               match summary g with
                               | Some (x, k, n) => L [sB x; A k; A n]
                               | None => A "none" end]) segs)]
          | None => L [A "reject"]
          end
      | None => sErr "tokens" end
  | L [A "keywords"] => L (map A def_keywords)
  | _ => sErr "toplevel: bad command"
  end.
