(* Model of the subscription path of
     ariadne_codegen/client_generators/dependencies/async_base_client.py
       execute_ws / _send_connection_init / _send_subscribe / _handle_ws_message
       _convert_dict_to_json_serializable / _convert_value
   and of its twin async_base_client_open_telemetry.py
       execute_ws / _execute_ws / _execute_ws_with_telemetry / *_with_telemetry,
   as an init/step machine over server frames, together with the SPECIFICATION (spec_ws) of what
   the graphql-transport-ws property demands.  Executable definitions only (proofs: Proofs/WsP.v).

   The connection object is modelled as observed on websockets 17.1 (and reproduced by the scripted
   fake connection of the harness, which is itself compared with a real loopback server each run):
   recv()/iteration deliver the scripted frames in order; when they are exhausted recv() raises
   ConnectionClosedOK and iteration ends normally.  (After close() frames already buffered would
   still be delivered; since /repo b1e7ba9 the iterator leaves its loop on complete and never
   looks at them.)  Serialisation of the subscribe follows /repo d334181 (default=to_jsonable_python). *)
From Coq Require Import List String Ascii ZArith Bool.
From AC Require Import Base.Sexp Base.Json.
Import ListNotations.
Local Open Scope string_scope.
Local Open Scope list_scope.

(* ------------------------------------------------------------------------------------------ *)
(* Inputs                                                                                      *)

(* a server frame: text that json.loads rejects, or a JSON value (sent as its text) *)
Inductive frame := FText (s : string) | FJson (j : json).

(* Python values that may appear in the `variables` dict of a subscription call *)
Inductive pyv :=
| VUnset                              (* base_model.UNSET *)
| VJ (j : json)                       (* a JSON-native value: None/bool/int/str/list/dict of those *)
| VModel (native : bool) (dump : json)
    (* a pydantic model; dump = model_dump(by_alias=True, exclude_unset=True) made JSON-able;
       native=false: the python-mode dump contains a leaf json.dumps cannot encode (datetime, ...) *)
| VOpaque (jsonable : json)           (* a value only to_jsonable_python can encode (datetime, UUID, Decimal) *)
| VList (l : list pyv).               (* a Python list with at least one non-native element *)

Record request := {
  r_query : string;
  r_opname : option string;
  r_vars : option (list (string * pyv)) }.

Record cfg := {
  c_url : string;
  c_headers : list (string * json);           (* ws_headers or {} *)
  c_origin : option string;                   (* ws_origin as given *)
  c_init_payload : option json;               (* ws_connection_init_payload *)
  c_kw_headers : option (list (string * json)); (* kwargs.get("extra_headers") *)
  c_kw_other : list (string * json) }.        (* the remaining **kwargs of execute_ws *)

(* ------------------------------------------------------------------------------------------ *)
(* Observables                                                                                 *)

Inductive outcome :=
| Finished                                   (* the async iterator ends (StopAsyncIteration) *)
| ConnClosed                                 (* websockets.ConnectionClosed escapes *)
| RaisedMulti (errs : list json) (data : json)   (* GraphQLClientGraphQLMultiError(errors, data) *)
| RaisedInvalid (msg : option frame)         (* GraphQLClientInvalidMessageFormat; Some f: message=f,
                                                None: "Invalid message received. Expected: connection_ack" *)
| RaisedOther (exn : string).                (* any other exception class, by name *)

Inductive event :=
| ERecv                 (* one frame taken from the connection *)
| ESend (m : json)      (* websocket.send(json.dumps(m)) *)
| EYield (d : json)     (* a value handed to the consumer of the iterator *)
| EClose.               (* websocket.close() *)

Record conn := {
  k_url : string;
  k_subprotocols : list string;
  k_kwargs : list (string * json) }.   (* keyword arguments of ws_connect besides subprotocols *)

Record trace := {
  t_connect : conn;
  t_events : list event;
  t_fin : outcome;
  t_spans : list string }.     (* OpenTelemetry span names started, in order (plain client: none) *)

Definition sent_of (evs : list event) : list json :=
  flat_map (fun e => match e with ESend m => [m] | _ => [] end) evs.
Definition yielded_of (evs : list event) : list json :=
  flat_map (fun e => match e with EYield d => [d] | _ => [] end) evs.
Definition closes_of (evs : list event) : nat :=
  List.length (filter (fun e => match e with EClose => true | _ => false end) evs).
Definition consumed_of (evs : list event) : nat :=
  List.length (filter (fun e => match e with ERecv => true | _ => false end) evs).

(* ------------------------------------------------------------------------------------------ *)
(* Connection parameters                                                                       *)

Fixpoint dict_set (k : string) (v : json) (d : list (string * json)) : list (string * json) :=
  match d with
  | [] => [(k, v)]
  | (k', v') :: r => if String.eqb k k' then (k, v) :: r else (k', v') :: dict_set k v r
  end.
Definition dict_update (d u : list (string * json)) : list (string * json) :=
  fold_left (fun acc kv => dict_set (fst kv) (snd kv) acc) u d.

Definition GRAPHQL_TRANSPORT_WS := "graphql-transport-ws".

Definition origin_json (o : option string) : json :=
  match o with
  | Some s => if String.eqb s "" then JNull else JStr s     (* Origin(ws_origin) if ws_origin else None *)
  | None => JNull
  end.

Definition connect_of (c : cfg) : conn :=
  let headers := dict_update (c_headers c) (match c_kw_headers c with Some h => h | None => [] end) in
  let kwargs := c_kw_other c ++ match c_kw_headers c with Some h => [("extra_headers", JObj h)] | None => [] end in
  let merged := dict_update [("origin", origin_json (c_origin c))] kwargs in
  {| k_url := c_url c;
     k_subprotocols := [GRAPHQL_TRANSPORT_WS];
     k_kwargs := dict_set "extra_headers" (JObj headers) merged |}.

(* ------------------------------------------------------------------------------------------ *)
(* Messages the client sends                                                                   *)

Definition init_msg (c : cfg) : json :=
  JObj (("type", JStr "connection_init") ::
        match c_init_payload c with
        | Some p => if truthy p then [("payload", p)] else []
        | None => []
        end).

Definition pong_msg : json := JObj [("type", JStr "pong")].

(* _convert_value *)
Fixpoint convert_value (v : pyv) : pyv :=
  match v with
  | VModel true d => VJ d
  | VModel false d => VOpaque d
  | VList l => VList (map convert_value l)
  | v => v
  end.

Definition is_unset (v : pyv) : bool := match v with VUnset => true | _ => false end.

(* _convert_dict_to_json_serializable *)
Definition convert_dict (d : list (string * pyv)) : list (string * pyv) :=
  map (fun kv => (fst kv, convert_value (snd kv))) (filter (fun kv => negb (is_unset (snd kv))) d).

(* json.dumps(..., default=to_jsonable_python): what _send_subscribe does since d334181, the same
   call as the HTTP path of the client.  Fails (PydanticSerializationError) only on values nothing
   can encode, here UNSET nested in a list *)
Fixpoint dumps_lenient (v : pyv) : option json :=
  match v with
  | VJ j => Some j
  | VOpaque j => Some j
  | VModel _ j => Some j
  | VList l =>
      option_map JArr
      ((fix go (l : list pyv) : option (list json) :=
          match l with
          | [] => Some []
          | x :: r => match dumps_lenient x, go r with
                      | Some a, Some b => Some (a :: b) | _, _ => None end
          end) l)
  | VUnset => None
  end.

Fixpoint dumps_dict (f : pyv -> option json) (d : list (string * pyv)) : option (list (string * json)) :=
  match d with
  | [] => Some []
  | (k, v) :: r => match f v, dumps_dict f r with
                   | Some a, Some b => Some ((k, a) :: b) | _, _ => None end
  end.

Definition opname_json (o : option string) : json :=
  match o with Some s => JStr s | None => JNull end.

Definition ID_PLACEHOLDER := "<id>".   (* str(uuid4()); canonicalised by the harness *)

Definition subscribe_with (f : pyv -> option json) (rq : request) : option json :=
  let base := [("query", JStr (r_query rq)); ("operationName", opname_json (r_opname rq))] in
  let mk p := JObj [("id", JStr ID_PLACEHOLDER); ("type", JStr "subscribe"); ("payload", JObj p)] in
  match r_vars rq with
  | None => Some (mk base)
  | Some [] => Some (mk base)                       (* `if variables:` *)
  | Some d => match dumps_dict f (convert_dict d) with
              | Some vs => Some (mk (base ++ [("variables", JObj vs)]))
              | None => None                        (* PydanticSerializationError from json.dumps *)
              end
  end.

Definition subscribe_msg : request -> option json := subscribe_with dumps_lenient.
Definition SER_ERROR := "PydanticSerializationError".

(* ------------------------------------------------------------------------------------------ *)
(* _handle_ws_message                                                                          *)

Inductive mtype := MInit | MAck | MPing | MPong | MSubscribe | MNext | MError | MComplete.

(* GraphQLTransportWSMessageType *)
Definition mtype_of_string (s : string) : option mtype :=
  if String.eqb s "connection_init" then Some MInit
  else if String.eqb s "connection_ack" then Some MAck
  else if String.eqb s "ping" then Some MPing
  else if String.eqb s "pong" then Some MPong
  else if String.eqb s "subscribe" then Some MSubscribe
  else if String.eqb s "next" then Some MNext
  else if String.eqb s "error" then Some MError
  else if String.eqb s "complete" then Some MComplete
  else None.

(* the same table as data (member name of the Python enum, value): compared with the enum of BOTH
   modules of /repo on every run; Proofs/WsP.v mtype_table_exact ties it to mtype_of_string *)
Definition type_table : list (string * string * mtype) :=
  [("CONNECTION_INIT", "connection_init", MInit); ("CONNECTION_ACK", "connection_ack", MAck);
   ("PING", "ping", MPing); ("PONG", "pong", MPong); ("SUBSCRIBE", "subscribe", MSubscribe);
   ("NEXT", "next", MNext); ("ERROR", "error", MError); ("COMPLETE", "complete", MComplete)].

Inductive tyres := TInvalid | TKnown (t : mtype) (payload : option json).   (* None: no "payload" key *)

(* json.loads; `not isinstance(message_dict, dict)`; .get("type"); .get("payload", {});
   `not isinstance(type_, str) or type_ not in {...}`   (/repo 2ce90a9) *)
Definition msg_type (f : frame) : tyres :=
  match f with
  | FText _ => TInvalid
  | FJson (JObj kv) =>
      match jlookup "type" kv with
      | Some (JStr s) => match mtype_of_string s with Some t => TKnown t (jlookup "payload" kv) | None => TInvalid end
      | _ => TInvalid
      end
  | FJson _ => TInvalid
  end.

Inductive action :=
| ANone | AData (d : json) | AInvalid | AClose | APong
| AMulti (errs : list json) (whole : bool).   (* data= the whole message (error frame) / None (next with null data) *)

Definition is_error_obj (e : json) : bool :=
  match e with JObj kv => jhas "message" kv | _ => false end.

(* next: payload must be an object with "data"; null data raises the result's errors (/repo 20e6b35) *)
Definition next_action (p : json) : action :=
  match p with
  | JObj kv =>
      match jlookup "data" kv with
      | None => AInvalid
      | Some JNull =>
          match jlookup "errors" kv with
          | Some (JArr (e :: l)) => if forallb is_error_obj (e :: l) then AMulti (e :: l) false else AInvalid
          | _ => AInvalid
          end
      | Some d => AData d
      end
  | _ => AInvalid
  end.

(* error: message_dict.get("payload", []) must be a list of objects with "message" *)
Definition error_action (kv_payload : option json) : action :=
  match kv_payload with
  | None => AMulti [] true
  | Some (JArr l) => if forallb is_error_obj l then AMulti l true else AInvalid
  | Some _ => AInvalid
  end.

(* next reads message_dict.get("payload", {}), error re-reads message_dict.get("payload", []) *)
Definition action_of (t : mtype) (p : option json) : action :=
  match t with
  | MNext => next_action (match p with Some x => x | None => JObj [] end)
  | MComplete => AClose
  | MPing => APong
  | MError => error_action p
  | _ => ANone
  end.

Definition frame_json (f : frame) : json := match f with FJson j => j | FText _ => JNull end.

(* ------------------------------------------------------------------------------------------ *)
(* The machine                                                                                 *)

(* `data is not None` (since /repo 8b27040; before: Python truthiness of the data) *)
Definition nonnull (j : json) : bool := match j with JNull => false | _ => true end.

Inductive phase := AwaitAck | Streaming | Done (o : outcome).

Definition multi_data (whole : bool) (f : frame) : json := if whole then frame_json f else JNull.

Definition step (rq : request) (ph : phase) (f : frame) : phase * list event :=
  match ph with
  | Done _ => (ph, [])
  | AwaitAck =>
      match msg_type f with
      | TInvalid => (Done (RaisedInvalid (Some f)), [ERecv])
      | TKnown MAck _ =>
          match subscribe_msg rq with
          | Some m => (Streaming, [ERecv; ESend m])
          | None => (Done (RaisedOther SER_ERROR), [ERecv])
          end
      | TKnown _ _ => (Done (RaisedInvalid None), [ERecv])
      end
  | Streaming =>
      match msg_type f with
      | TInvalid => (Done (RaisedInvalid (Some f)), [ERecv])
      | TKnown t p =>
          match action_of t p with
          | ANone => (ph, [ERecv])
          | AData d => (ph, ERecv :: if nonnull d then [EYield d] else [])   (* `if data is not None: yield data` *)
          | AInvalid => (Done (RaisedInvalid (Some f)), [ERecv])
          | AClose => (Done Finished, [ERecv; EClose])   (* close(); return _WS_COMPLETE; break *)
          | APong => (ph, [ERecv; ESend pong_msg])
          | AMulti errs w => (Done (RaisedMulti errs (multi_data w f)), [ERecv])
          end
      end
  end.

Fixpoint run_from (rq : request) (ph : phase) (fs : list frame) : list event * phase :=
  match fs with
  | [] => ([], ph)
  | f :: r =>
      let '(ph', ev) := step rq ph f in
      let '(evs, p) := run_from rq ph' r in
      (ev ++ evs, p)
  end.

Definition finish (ph : phase) : outcome :=
  match ph with
  | AwaitAck => ConnClosed        (* recv() before the ack on an exhausted connection *)
  | Streaming => Finished
  | Done o => o
  end.

Definition run_ws (c : cfg) (rq : request) (fs : list frame) : trace :=
  let '(evs, p) := run_from rq AwaitAck fs in
  {| t_connect := connect_of c; t_events := ESend (init_msg c) :: evs; t_fin := finish p; t_spans := [] |}.

(* ------------------------------------------------------------------------------------------ *)
(* Histories: several subscriptions on ONE client object.  The client object holds url, ws_headers,
   ws_origin and the init payload; execute_ws works on `self.ws_headers.copy()` and a fresh
   merged_kwargs dict, so a call hands the object back unchanged — the model threads the object
   through the calls exactly to say that.                                                        *)

Record client := {
  cl_url : string;
  cl_headers : list (string * json);
  cl_origin : option string;
  cl_init_payload : option json }.

Record callkw := {
  kw_headers : option (list (string * json));   (* extra_headers= of this call *)
  kw_other : list (string * json) }.             (* the other keyword arguments of this call *)

Definition cfg_of (cl : client) (k : callkw) : cfg :=
  {| c_url := cl_url cl; c_headers := cl_headers cl; c_origin := cl_origin cl;
     c_init_payload := cl_init_payload cl; c_kw_headers := kw_headers k; c_kw_other := kw_other k |}.

Definition call (cl : client) (k : callkw) (rq : request) (fs : list frame) : trace * client :=
  (run_ws (cfg_of cl k) rq fs, cl).

Fixpoint run_history (cl : client) (calls : list (callkw * request * list frame)) : list trace * client :=
  match calls with
  | [] => ([], cl)
  | (k, rq, fs) :: r =>
      let '(t, cl') := call cl k rq fs in
      let '(ts, cl'') := run_history cl' r in
      (t :: ts, cl'')
  end.

(* ------------------------------------------------------------------------------------------ *)
(* OpenTelemetry twin.  tracer=false: execute_ws delegates to _execute_ws (a textual copy of the
   plain client); tracer=true: _execute_ws_with_telemetry and the *_with_telemetry helpers, which
   re-implement the message handler inside spans.  Written out separately on purpose.          *)

Definition msg_type_otel (f : frame) : tyres :=
  match f with
  | FText _ => TInvalid
  | FJson (JObj kv) =>
      (* span.set_attribute("type", type_) happens here *)
      match jlookup "type" kv with
      | Some (JStr s) => match mtype_of_string s with Some t => TKnown t (jlookup "payload" kv) | None => TInvalid end
      | _ => TInvalid
      end
  | FJson _ => TInvalid
  end.

Definition SPAN_RECV := "received message".

Definition step_otel (rq : request) (ph : phase) (f : frame) : phase * list event * list string :=
  match ph with
  | Done _ => (ph, [], [])
  | AwaitAck =>
      match msg_type_otel f with
      | TInvalid => (Done (RaisedInvalid (Some f)), [ERecv], [SPAN_RECV])
      | TKnown MAck _ =>
          (* the "subscribe" span json.dumps the converted variables before _send_subscribe *)
          match subscribe_msg rq with
          | Some m => (Streaming, [ERecv; ESend m], [SPAN_RECV; "subscribe"])
          | None => (Done (RaisedOther SER_ERROR), [ERecv], [SPAN_RECV; "subscribe"])
          end
      | TKnown _ _ => (Done (RaisedInvalid None), [ERecv], [SPAN_RECV])
      end
  | Streaming =>
      match msg_type_otel f with
      | TInvalid => (Done (RaisedInvalid (Some f)), [ERecv], [SPAN_RECV])
      | TKnown t p =>
          match action_of t p with
          | ANone => (ph, [ERecv], [SPAN_RECV])
          | AData d => (ph, ERecv :: if nonnull d then [EYield d] else [], [SPAN_RECV])
          | AInvalid => (Done (RaisedInvalid (Some f)), [ERecv], [SPAN_RECV])
          | AClose => (Done Finished, [ERecv; EClose], [SPAN_RECV])
          | APong => (ph, [ERecv; ESend pong_msg], [SPAN_RECV])
          | AMulti errs w => (Done (RaisedMulti errs (multi_data w f)), [ERecv], [SPAN_RECV])
          end
      end
  end.

Fixpoint run_from_otel (rq : request) (ph : phase) (fs : list frame) : list event * phase * list string :=
  match fs with
  | [] => ([], ph, [])
  | f :: r =>
      let '(ph', ev, sp) := step_otel rq ph f in
      let '(evs, p, sps) := run_from_otel rq ph' r in
      (ev ++ evs, p, sp ++ sps)
  end.

Definition run_ws_otel (tracer : bool) (c : cfg) (rq : request) (fs : list frame) : trace :=
  if tracer then
    let '(evs, p, sps) := run_from_otel rq AwaitAck fs in
    {| t_connect := connect_of c; t_events := ESend (init_msg c) :: evs; t_fin := finish p;
       t_spans := "GraphQL Subscription" :: "connection init" :: sps |}
  else
    let '(evs, p) := run_from rq AwaitAck fs in
    {| t_connect := connect_of c; t_events := ESend (init_msg c) :: evs; t_fin := finish p; t_spans := [] |}.

(* the message text of the invalid-message error is not part of the property *)
Definition erase_msg (o : outcome) : outcome :=
  match o with RaisedInvalid _ => RaisedInvalid None | o => o end.

(* the observable part of a trace that the plain and OpenTelemetry clients must share *)
Definition strip_spans (t : trace) : trace :=
  {| t_connect := t_connect t; t_events := t_events t; t_fin := t_fin t; t_spans := [] |}.

(* ------------------------------------------------------------------------------------------ *)
(* SPECIFICATION: what the property text demands of a graphql-transport-ws client, written
   independently of the handler above (only the table mtype_of_string is shared).               *)

Inductive skind :=
| SAck | SNext (d : json)          (* d is never null *)
| SNextErrors (errs : list json)   (* next whose data is null: nothing to yield, the result's errors are raised *)
| SPing | SPong | SComplete | SError (errs : list json)
| SIgnored      (* connection_init / subscribe echoed by a server: known type, no client action *)
| SMalformed.   (* non-JSON, not an object, missing/unknown type, next without data or with null data and
                   no errors, bad error payload *)

Definition wf_errors (l : list json) : bool := forallb is_error_obj l.

Definition skind_of (f : frame) : skind :=
  match f with
  | FJson (JObj kv) =>
      match jlookup "type" kv with
      | Some (JStr s) =>
          match mtype_of_string s with
          | Some MAck => SAck
          | Some MPing => SPing
          | Some MPong => SPong
          | Some MComplete => SComplete
          | Some MInit | Some MSubscribe => SIgnored
          | Some MNext =>
              match jlookup "payload" kv with
              | Some (JObj p) =>
                  match jlookup "data" p with
                  | Some JNull =>
                      match jlookup "errors" p with
                      | Some (JArr (e :: l)) => if wf_errors (e :: l) then SNextErrors (e :: l) else SMalformed
                      | _ => SMalformed
                      end
                  | Some d => SNext d
                  | None => SMalformed
                  end
              | _ => SMalformed
              end
          | Some MError =>
              match jlookup "payload" kv with
              | Some (JArr l) => if wf_errors l then SError l else SMalformed
              | None => SError []
              | _ => SMalformed
              end
          | None => SMalformed
          end
      | _ => SMalformed
      end
  | _ => SMalformed
  end.

(* after the subscribe: yield every next, answer every ping, stop at complete/error/malformed *)
Fixpoint spec_stream (fs : list frame) : list event * outcome :=
  match fs with
  | [] => ([], Finished)
  | f :: r =>
      match skind_of f with
      | SNext d => let '(e, o) := spec_stream r in (ERecv :: EYield d :: e, o)
      | SPing => let '(e, o) := spec_stream r in (ERecv :: ESend pong_msg :: e, o)
      | SPong | SAck | SIgnored => let '(e, o) := spec_stream r in (ERecv :: e, o)
      | SComplete => ([ERecv; EClose], Finished)
      | SError l => ([ERecv], RaisedMulti l (frame_json f))
      | SNextErrors l => ([ERecv], RaisedMulti l JNull)
      | SMalformed => ([ERecv], RaisedInvalid (Some f))
      end
  end.

Definition spec_ws (c : cfg) (rq : request) (fs : list frame) : trace :=
  let '(evs, o) :=
    match fs with
    | [] => ([], ConnClosed)
    | f :: r =>
        match skind_of f with
        | SAck => match subscribe_msg rq with
                  | Some m => let '(e, o) := spec_stream r in (ERecv :: ESend m :: e, o)
                  | None => ([ERecv], RaisedOther SER_ERROR)   (* not serialisable at all *)
                  end
        | _ => ([ERecv], RaisedInvalid None)     (* which message text: not specified *)
        end
    end in
  {| t_connect := connect_of c; t_events := ESend (init_msg c) :: evs; t_fin := o; t_spans := [] |}.

(* ------------------------------------------------------------------------------------------ *)
(* (no finding class is open: the guards g_stop, g_vars, g_truthy/g_nonnull, g_shape/shape_ok were deleted
   one by one as /repo b1e7ba9, d334181, 8b27040, 20e6b35, 2ce90a9 landed)                          *)

Definition terminal (k : skind) : bool :=
  match k with SComplete | SError _ | SNextErrors _ | SMalformed => true | _ => false end.

(* the frames a conformant client consumes after the subscribe: up to and including the first
   complete / error / malformed frame *)
Fixpoint spec_prefix (fs : list frame) : list frame :=
  match fs with
  | [] => []
  | f :: r => if terminal (skind_of f) then [f] else f :: spec_prefix r
  end.

Definition is_ack (f : frame) : bool := match skind_of f with SAck => true | _ => false end.

(* ------------------------------------------------------------------------------------------ *)
(* S-expression interface                                                                      *)

Definition dFrame (e : sexp) : option frame :=
  match e with
  | L [A "t"; A s] => Some (FText s)
  | L [A "j"; j] => option_map FJson (json_of_sexp j)
  | _ => None
  end.
Definition sFrame (f : frame) : sexp :=
  match f with FText s => L [A "t"; A s] | FJson j => L [A "j"; json_to_sexp j] end.

Fixpoint dPyv (e : sexp) : option pyv :=
  match e with
  | A "u" => Some VUnset
  | L [A "j"; j] => option_map VJ (json_of_sexp j)
  | L [A "m"; b; j] => match dB b, json_of_sexp j with Some b, Some j => Some (VModel b j) | _, _ => None end
  | L [A "q"; j] => option_map VOpaque (json_of_sexp j)
  | L (A "l" :: l) =>
      option_map VList
      ((fix go (l : list sexp) : option (list pyv) :=
          match l with
          | [] => Some []
          | x :: r => match dPyv x, go r with Some a, Some b => Some (a :: b) | _, _ => None end
          end) l)
  | _ => None
  end.

Definition dKV {X} (f : sexp -> option X) (e : sexp) : option (string * X) :=
  match e with
  | L [A k; v] => option_map (fun x => (k, x)) (f v)
  | _ => None
  end.

Definition dRequest (e : sexp) : option request :=
  match e with
  | L [A q; o; v] =>
      match dOpt dStr o, dOpt (dList (dKV dPyv)) v with
      | Some o, Some v => Some {| r_query := q; r_opname := o; r_vars := v |}
      | _, _ => None
      end
  | _ => None
  end.

Definition dCfg (e : sexp) : option cfg :=
  match e with
  | L [A url; hs; o; ip; kh; ko] =>
      match dList (dKV json_of_sexp) hs, dOpt dStr o, dOpt json_of_sexp ip,
            dOpt (dList (dKV json_of_sexp)) kh, dList (dKV json_of_sexp) ko with
      | Some hs, Some o, Some ip, Some kh, Some ko =>
          Some {| c_url := url; c_headers := hs; c_origin := o; c_init_payload := ip;
                  c_kw_headers := kh; c_kw_other := ko |}
      | _, _, _, _, _ => None
      end
  | _ => None
  end.

Definition sOutcome (o : outcome) : sexp :=
  match o with
  | Finished => A "finished"
  | ConnClosed => A "closed"
  | RaisedMulti errs d => L [A "multi"; L (map json_to_sexp errs); json_to_sexp d]
  | RaisedInvalid m => L [A "invalid"; sOpt sFrame m]
  | RaisedOther e => L [A "other"; A e]
  end.

Definition sEvent (e : event) : sexp :=
  match e with
  | ERecv => A "r"
  | ESend m => L [A "s"; json_to_sexp m]
  | EYield d => L [A "y"; json_to_sexp d]
  | EClose => A "c"
  end.

Definition sKV (kv : string * json) : sexp := L [A (fst kv); json_to_sexp (snd kv)].

Definition sTrace (t : trace) : sexp :=
  L [L [A (k_url (t_connect t)); L (map A (k_subprotocols (t_connect t)));
        L (map sKV (k_kwargs (t_connect t)))];
     L (map sEvent (t_events t)); sOutcome (t_fin t); L (map A (t_spans t))].

Definition sKind (k : skind) : sexp :=
  match k with
  | SAck => A "ack" | SNext d => L [A "next"; json_to_sexp d] | SPing => A "ping" | SPong => A "pong"
  | SComplete => A "complete" | SError l => L [A "error"; L (map json_to_sexp l)]
  | SNextErrors l => L [A "next-errors"; L (map json_to_sexp l)]
  | SIgnored => A "ignored" | SMalformed => A "malformed"
  end.

Definition run_ws_cmd (e : sexp) : sexp :=
  match e with
  | L [A "ws"; A variant; c; rq; fs] =>
      match dCfg c, dRequest rq, dList dFrame fs with
      | Some c, Some rq, Some fs =>
          let t := if String.eqb variant "plain" then Some (run_ws c rq fs)
                   else if String.eqb variant "otel" then Some (run_ws_otel false c rq fs)
                   else if String.eqb variant "otel-tracer" then Some (run_ws_otel true c rq fs)
                   else if String.eqb variant "spec" then Some (spec_ws c rq fs)
                   else None in
          match t with Some t => sTrace t | None => sErr "ws: variant" end
      | None, _, _ => sErr "ws: cfg"
      | _, None, _ => sErr "ws: request"
      | _, _, None => sErr "ws: frames"
      end
  | L [A "guards"; rq; fs] =>
      match dRequest rq, dList dFrame fs with
      | Some rq, Some fs =>
          L [L (map (fun f => sKind (skind_of f)) fs)]
      | _, _ => sErr "guards: input"
      end
  | L [A "tables"] =>
      L [L (map (fun x => L [A (fst (fst x)); A (snd (fst x))]) type_table);
         A GRAPHQL_TRANSPORT_WS;
         L (map A ("GraphQL Subscription" :: "connection init" :: "subscribe" :: [SPAN_RECV]));
         A SER_ERROR; A ID_PLACEHOLDER]
  | _ => sErr "ws: bad command"
  end.
