(* Model of ariadne_codegen/client_generators/scalars.py (ScalarData, generate_result_scalar_annotation,
   generate_input_scalar_annotation, generate_scalar_imports), of the wrapper placement around a scalar in
   result_fields.py (parse_scalar_type / parse_list_type) and input_fields.py (parse_input_field_type), of
   arguments.py _get_dict_value (serialize(<whole argument>)), and a pydantic-like semantics of the
   annotation fragment that returns the LOG of parse / serialize calls.
   Executable definitions only (proofs in Proofs/ScalarsP.v). *)
From Coq Require Import List String Ascii ZArith Bool.
From AC Require Import Base.Strs Base.Sexp Base.Json Gql.Coerce Model.Args Model.Convert.
Import ListNotations.
Local Open Scope string_scope.

(* ---- ScalarData ---- *)
Definition opt_list {X} (o : option X) : list X := match o with Some x => [x] | None => [] end.

(* names_to_import: type_, serialize, parse (in that order), those present *)
Definition names_to_import (c : scalar_cfg) : list string :=
  sc_type c :: opt_list (sc_ser c) ++ opt_list (sc_parse c).

(* generate_scalar_imports: (module, names); the deprecated `import` key first, importing the raw strings *)
Definition scalar_imports (c : scalar_cfg) : list (string * list string) :=
  (match sc_import c with Some m => [(m, names_to_import c)] | None => [] end) ++
  flat_map (fun nm => match split_dotted nm with
                      | (Some m, o) => [(m, [o])]
                      | (None, _) => [] end) (names_to_import c).

(* ---- annotations around one scalar ---- *)
Inductive sann :=
| SName (s : string)
| SOpt (a : sann)
| SList (a : sann)
| SBefore (a : sann) (f : string)      (* Annotated[a, BeforeValidator(f)] *)
| SPlain (a : sann) (f : string).      (* Annotated[a, PlainSerializer(f)] *)

Fixpoint sann_str (a : sann) : string :=
  match a with
  | SName s => s
  | SOpt x => "Optional[" ++ sann_str x ++ "]"
  | SList x => "List[" ++ sann_str x ++ "]"
  | SBefore x f => "Annotated[" ++ sann_str x ++ ", BeforeValidator(" ++ f ++ ")]"
  | SPlain x f => "Annotated[" ++ sann_str x ++ ", PlainSerializer(" ++ f ++ ")]"
  end.

Definition wrap_opt (nl : bool) (a : sann) : sann := if nl then SOpt a else a.

Definition cfg_parse (c : option scalar_cfg) : option string :=
  match c with Some c' => option_map object_name (sc_parse c') | None => None end.

Definition scalar_cfg_of (S : schema) (n : string) : option scalar_cfg :=
  match lookup_type S n with Some (DCustom c) => c | _ => None end.

(* generate_result_scalar_annotation / generate_input_scalar_annotation; unconfigured or built-in: a name *)
Definition leaf_name (S : schema) (n : string) : string :=
  match lookup_type S n with
  | Some (DBuiltin b) => input_scalar_py b
  | Some (DCustom (Some c)) => object_name (sc_type c)
  | Some (DCustom None) => "Any"
  | _ => n
  end.

Definition result_leaf (S : schema) (n : string) : sann :=
  match cfg_parse (scalar_cfg_of S n) with
  | Some f => SBefore (SName (leaf_name S n)) f
  | None => SName (leaf_name S n)
  end.

Definition input_leaf (S : schema) (n : string) : sann :=
  match cfg_ser (scalar_cfg_of S n) with
  | Some f => SPlain (SName (leaf_name S n)) f
  | None => SName (leaf_name S n)
  end.

(* result_fields.parse_operation_field_type on scalar leaves: list items always start nullable *)
Fixpoint result_sann (S : schema) (t : gtype) (nl : bool) : sann :=
  match t with
  | TNamed n => wrap_opt nl (result_leaf S n)
  | TList t' => wrap_opt nl (SList (result_sann S t' true))
  | TNonNull t' => result_sann S t' false
  end.

(* input_fields.parse_input_field_type: list items start nullable (since /repo 1ef155d; F21 before) *)
Fixpoint input_sann (S : schema) (t : gtype) (nl : bool) : sann :=
  match t with
  | TNamed n => wrap_opt nl (input_leaf S n)
  | TList t' => wrap_opt nl (SList (input_sann S t' true))
  | TNonNull t' => input_sann S t' false
  end.

(* ---- pydantic-like semantics: the log of hook calls ---- *)
(* validation of a raw JSON value against an annotation: BeforeValidator hooks fire on whatever value
   reaches them (including None); Optional short-circuits None; a list validates its items in order.
   None result = validation error / outside the fragment. *)
Fixpoint vlog (a : sann) (j : json) : option (list (string * json)) :=
  match a with
  | SName _ => Some []
  | SOpt x => match j with JNull => Some [] | _ => vlog x j end
  | SList x =>
      match j with
      | JArr l => (fix go (l : list json) : option (list (string * json)) :=
                     match l with
                     | [] => Some []
                     | e :: r => match vlog x e, go r with
                                 | Some a1, Some a2 => Some (a1 ++ a2)%list | _, _ => None end
                     end) l
      | _ => None
      end
  | SBefore x f => match x with SName _ => Some [(f, j)] | _ => None end
  | SPlain x _ => vlog x j
  end.

(* model_dump of a Python value held under an annotation: PlainSerializer hooks *)
Fixpoint dlog (a : sann) (v : pyval) : option (list (string * pyval)) :=
  match a with
  | SName _ => Some []
  | SOpt x => match v with PNone => Some [] | _ => dlog x v end
  | SList x =>
      match v with
      | PList l => (fix go (l : list pyval) : option (list (string * pyval)) :=
                      match l with
                      | [] => Some []
                      | e :: r => match dlog x e, go r with
                                  | Some a1, Some a2 => Some (a1 ++ a2)%list | _, _ => None end
                      end) l
      | _ => None
      end
  | SBefore x _ => dlog x v
  | SPlain _ f => Some [(f, v)]
  end.

(* arguments.py _get_dict_value / _generate_serialize_expr (since /repo d163d56): the log of serialize calls
   made when the generated expression is evaluated with the argument bound to its parameter *)
Definition arg_log (ser : string -> pyval -> pyval) (S : schema) (t : gtype) (v : pyval)
  : option (list (string * pyval)) :=
  match var_ser S t with
  | Some f => option_map snd (eval_se ser [("x", v)] (gen_se t "x" f true 0))
  | None => Some []
  end.

(* custom_arguments.py (enable_custom_operations; element-wise since /repo 3032a3a, finding F15 before): the log of
   serialize calls made when the generated expression is evaluated with the argument bound to its parameter *)
Definition custom_arg_log (ser : string -> pyval -> pyval) (S : schema) (t : gtype) (v : pyval)
  : option (list (string * pyval)) :=
  match var_ser S t with
  | Some f => option_map snd (eval_se ser [("x", v)] (gen_cu t "x" f true 0))
  | None => Some []
  end.

(* ---- specification: the occurrences the property speaks about ---- *)
(* non-null occurrences of a scalar with parse configured inside a value conformant to type t *)
Fixpoint occ_parse (S : schema) (t : gtype) (nn : bool) (j : json) : option (list (string * json)) :=
  match t with
  | TNonNull t' => occ_parse S t' true j
  | TNamed n =>
      match j with
      | JNull => if nn then None else Some []
      | _ => Some (match cfg_parse (scalar_cfg_of S n) with Some f => [(f, j)] | None => [] end)
      end
  | TList t' =>
      match j with
      | JNull => if nn then None else Some []
      | JArr l => (fix go (l : list json) : option (list (string * json)) :=
                     match l with
                     | [] => Some []
                     | e :: r => match occ_parse S t' false e, go r with
                                 | Some a1, Some a2 => Some (a1 ++ a2)%list | _, _ => None end
                     end) l
      | _ => None
      end
  end.

(* non-null occurrences of a scalar with serialize configured inside a schema-valid Python value *)
Fixpoint occ_ser (S : schema) (t : gtype) (nn : bool) (v : pyval) : option (list (string * pyval)) :=
  match t with
  | TNonNull t' => occ_ser S t' true v
  | TNamed n =>
      match v with
      | PNone => if nn then None else Some []
      | PUnset => None
      | _ => Some (match cfg_ser (scalar_cfg_of S n) with Some f => [(f, v)] | None => [] end)
      end
  | TList t' =>
      match v with
      | PNone => if nn then None else Some []
      | PList l => (fix go (l : list pyval) : option (list (string * pyval)) :=
                      match l with
                      | [] => Some []
                      | e :: r => match occ_ser S t' false e, go r with
                                  | Some a1, Some a2 => Some (a1 ++ a2)%list | _, _ => None end
                      end) l
      | _ => None
      end
  end.

(* ---- sexp ---- *)
Fixpoint pyval_to_sexp (v : pyval) : sexp :=
  match v with
  | PNone => A "none" | PUnset => A "unset"
  | PInt z => L [A "i"; sZ z] | PFloat s => L [A "f"; A s] | PStr s => L [A "s"; A s]
  | PBool b => L [A "b"; sB b] | PEnum t x => L [A "e"; A t; A x]
  | PCustom j => L [A "c"; json_to_sexp j]
  | PList l => L (A "l" :: map pyval_to_sexp l)
  | PModel c kw => L (A "m" :: A c :: map (fun p => L [A (fst p); pyval_to_sexp (snd p)]) kw)
  end.

Definition sJLog (o : option (list (string * json))) : sexp :=
  sOpt (fun l => L (map (fun p => L [A (fst p); json_to_sexp (snd p)]) l)) o.
Definition sPLog (o : option (list (string * pyval))) : sexp :=
  sOpt (fun l => L (map (fun p => L [A (fst p); pyval_to_sexp (snd p)]) l)) o.

Definition run_scalars (e : sexp) : sexp :=
  match e with
  | L [A "ann"; sch; t] =>
      match schema_of_sexp sch, gtype_of_sexp t with
      | Some Sc, Some ty =>
          L [A (sann_str (result_sann Sc ty true)); A (sann_str (input_sann Sc ty true));
             match parse_type_node Sc ty true with
             | Some (a, u) => L [A (ann_str a); A (dictval_str (dict_value Sc "x" u ty));
                                 A (match var_ser Sc ty with
                                    | Some f => dictval_str (gen_cu ty "x" f true 0) | None => "x" end)]
             | None => A "gen-error" end]
      | _, _ => sErr "ann: decode" end
  | L [A "vlog"; sch; t; j] =>
      match schema_of_sexp sch, gtype_of_sexp t, json_of_sexp j with
      | Some Sc, Some ty, Some jv => L [sJLog (vlog (result_sann Sc ty true) jv); sJLog (occ_parse Sc ty false jv)]
      | _, _, _ => sErr "vlog: decode" end
  | L [A "dlog"; sch; t; v] =>
      match schema_of_sexp sch, gtype_of_sexp t, pyval_of_sexp v with
      | Some Sc, Some ty, Some pv =>
          L [sPLog (dlog (input_sann Sc ty true) pv); sPLog (occ_ser Sc ty false pv);
             sPLog (arg_log ser_inst Sc ty pv); sPLog (custom_arg_log ser_inst Sc ty pv)]
      | _, _, _ => sErr "dlog: decode" end
  | L [A "imports"; c] =>
      match cfg_of_sexp c with
      | Some cfg => L (map (fun p => L [A (fst p); L (map A (snd p))]) (scalar_imports cfg))
      | None => sErr "imports: decode" end
  | _ => sErr "scalars: bad command"
  end.
