(* Model of ariadne_codegen/client_generators/input_fields.py parse_input_field_type and of
   input_types.py InputTypesGenerator (_parse_input_definition, class order, model_rebuild calls,
   enum imports).  Executable definitions only. *)
From Coq Require Import List String Ascii ZArith Bool.
From AC Require Import Base.Sexp Base.Json Base.Strs Gql.InSchema Model.Names Model.Defaults.
Import ListNotations.
Local Open Scope string_scope.

Inductive ann :=
| AStr | AInt | AFloat | ABool | AAny | AUpload
| AEnum (n : string) | AClass (n : string)           (* AClass is emitted quoted: a forward reference *)
| ACustom (ty : string) (serialize : option string)   (* T  or  Annotated[T, PlainSerializer(f)] *)
| AOpt (a : ann) | AList (a : ann)
| AInvalid.                                           (* ParsingError("Invalid input field type.") *)

Record scalar_data := { sd_type_name : string; sd_serialize_name : option string }.
Definition customs := list (string * scalar_data).

Definition opt_if (nullable : bool) (a : ann) : ann := if nullable then AOpt a else a.

(* leaf annotation and the type name reported for dependency tracking / defaults *)
Definition leaf (s : schema) (cs : customs) (n : string) : ann * string :=
  match kind_of s n with
  | KInt => (AInt, "") | KFloat => (AFloat, "") | KString => (AStr, "") | KID => (AStr, "")
  | KBoolean => (ABool, "")
  | KScalar =>
      if n =? "Upload" then (AUpload, "")
      else match lookup n cs with
           | Some d => (ACustom (sd_type_name d) (sd_serialize_name d), n)
           | None => (AAny, "")
           end
  | KInput _ => (AClass n, n)
  | KEnum _ => (AEnum n, n)
  | KUnknown => (AInvalid, "")
  end.

(* parse_input_field_type(type_, nullable, custom_scalars): list items start nullable again (fix 1ef155d);
   only a non-null wrapper clears the flag *)
Fixpoint parse_input_field_type (s : schema) (cs : customs) (t : gtype) (nullable : bool) : ann * string :=
  match t with
  | TNamed n => let '(a, tn) := leaf s cs n in (opt_if nullable a, tn)
  | TList t' =>
      let '(slice_, tn) := parse_input_field_type s cs t' true in
      (opt_if nullable (AList slice_), tn)
  | TNonNull t' => parse_input_field_type s cs t' false
  end.

(* the image of a GraphQL type the property asks for: every level nullable unless wrapped in non-null *)
Fixpoint image (s : schema) (cs : customs) (t : gtype) (nullable : bool) : ann :=
  match t with
  | TNamed n => opt_if nullable (fst (leaf s cs n))
  | TList t' => opt_if nullable (AList (image s cs t' true))
  | TNonNull t' => image s cs t' false
  end.

Definition is_opt (a : ann) : bool := match a with AOpt _ => true | _ => false end.

Record pfield := { p_name : string; p_ann : ann; p_value : option pyexpr }.
Record pclass := { c_name : string; c_fields : list pfield }.

Definition input_flags (snake : bool) : pflags := {| f_snake := snake; f_trim := true; f_reserved := true |}.
Definition py_name (snake : bool) (org : string) : string := l2s (process_name (input_flags snake) (s2l org)).

Fixpoint find_field (k : string) (fs : list ifdef) : option ifdef :=
  match fs with
  | [] => None
  | f :: r => if String.eqb k (i_name f) then Some f else find_field k r
  end.

(* `while name in used_names: name += "_"` (fix bec4417).  The loop runs at most |used| times; the fuel is
   |used|+1 and Proofs/FreshP.v shows the result is not in `used`, i.e. the fuel is never what stops it. *)
Fixpoint fresh (n : nat) (name : string) (used : list string) : string :=
  match n with
  | 0 => name
  | S n' => if mem name used then fresh n' (name ++ "_") used else name
  end.

(* the Python names of the fields of one input type, in definition order (GraphQL name -> Python name) *)
Fixpoint assign_names (snake : bool) (used : list string) (fs : list ifdef) : list (string * string) :=
  match fs with
  | [] => []
  | f :: r =>
      let n := fresh (S (List.length used)) (py_name snake (i_name f)) used in
      (i_name f, n) :: assign_names snake (n :: used) r
  end.

(* definition.fields is a dict: GraphQL field names are unique, so the name of a field is found by its key *)
Definition fname (snake : bool) (fs : list ifdef) (org : string) : string :=
  match lookup org (assign_names snake [] fs) with Some n => n | None => py_name snake org end.

(* coerce_default_value_node(node, type) (fix e1f804e): the literal is given the shape of its type — a single value
   for a list type becomes a one-item list, an Int literal for ID a string — through object literals too *)
Fixpoint coerce_lit (s : schema) (lit : cvalue) : gtype -> cvalue :=
  fix go (t : gtype) : cvalue :=
    match t with
    | TNonNull t' => go t'
    | TList t' =>
        match lit with
        | CNull => CNull
        | CList l => CList (map (fun x => coerce_lit s x t') l)
        | _ => CList [go t']
        end
    | TNamed nm =>
        match lit with
        | CNull => CNull
        | CObj kv =>
            match kind_of s nm with
            | KInput fs =>
                CObj (map (fun p => (fst p, match find_field (fst p) fs with
                                            | Some f => coerce_lit s (snd p) (i_type f)
                                            | None => snd p end)) kv)
            | _ => lit
            end
        | CInt z => match kind_of s nm with KID => CStr (z_to_string z) | _ => lit end
        | _ => lit
        end
    end.

Definition emitted_default (s : schema) (f : ifdef) : option cvalue :=
  option_map (fun d => coerce_lit s d (i_type f)) (i_default f).

(* one iteration of the loop in _parse_input_definition; fs = all fields of the input type *)
Definition gen_field (s : schema) (cs : customs) (snake : bool) (fs : list ifdef) (f : ifdef) : pfield :=
  let name := fname snake fs (i_name f) in
  let '(annotation, ft) := parse_input_field_type s cs (i_type f) true in
  let value := field_default_value (emitted_default s f) (is_nonnull (i_type f)) (is_opt annotation) ft in
  {| p_name := name; p_ann := annotation;
     p_value := if String.eqb name (i_name f) then value else Some (process_field_value value (i_name f)) |}.

Definition gen_class (s : schema) (cs : customs) (snake : bool) (n : string) (fs : list ifdef) : pclass :=
  {| c_name := n; c_fields := map (gen_field s cs snake fs) fs |}.

(* _filter_input_types: input object types in type_map order *)
Fixpoint gen_classes_of (s0 : schema) (cs : customs) (snake : bool) (s : schema) : list pclass :=
  match s with
  | [] => []
  | (n, DInput fs) :: r => gen_class s0 cs snake n fs :: gen_classes_of s0 cs snake r
  | _ :: r => gen_classes_of s0 cs snake r
  end.
Definition gen_classes (s : schema) (cs : customs) (snake : bool) : list pclass := gen_classes_of s cs snake s.

(* model_has_forward_refs: a Name containing a quote anywhere in the class body (annotations only can) *)
Fixpoint ann_has_class (a : ann) : bool :=
  match a with
  | AClass _ => true
  | AOpt a' | AList a' => ann_has_class a'
  | _ => false
  end.
Definition has_forward_refs (c : pclass) : bool := existsb (fun f => ann_has_class (p_ann f)) (c_fields c).
Definition rebuild_calls (cl : list pclass) : list string :=
  map c_name (filter has_forward_refs cl).

(* _save_dependencies / get_used_enums: enum type names referenced by fields, per class, in order *)
Definition field_type_name (s : schema) (cs : customs) (f : ifdef) : string :=
  snd (parse_input_field_type s cs (i_type f) true).
Definition used_enums (s : schema) (cs : customs) : list string :=
  flat_map (fun d => match snd d with
                     | DInput fs => filter (fun n => match kind_of s n with KEnum _ => true | _ => false end)
                                      (map (field_type_name s cs) fs)
                     | _ => [] end) s.

(* ---- what is left of finding F18 inside one input type after fix bec4417: Python names are distinct by
   construction now; the remaining hazard is populate_by_name reading the value of ANOTHER field, i.e. the final
   Python name of one field being the GraphQL name of a different field.  (The last conjunct, GraphQL names
   unique, is schema validity, not a finding.) ---- *)
Fixpoint names_ok_go (snake : bool) (all fs : list ifdef) : bool :=
  match fs with
  | [] => true
  | f :: r =>
      forallb (fun g => negb (fname snake all (i_name f) =? i_name g)
                        && negb (fname snake all (i_name g) =? i_name f)
                        && negb (i_name f =? i_name g)) r
      && names_ok_go snake all r
  end.
Definition names_ok_fields (snake : bool) (fs : list ifdef) : bool := names_ok_go snake fs fs.

(* ---- construction by Python field name: the same value keyed by the generated field names ---- *)
Definition rename_entry (ren : gtype -> json -> json) (snake : bool) (fs : list ifdef) (p : string * json)
  : string * json :=
  match find_field (fst p) fs with
  | Some g => (fname snake fs (i_name g), ren (i_type g) (snd p))
  | None => p
  end.

(* the value a user writes when passing keyword arguments / dicts keyed by Python names *)
Fixpoint rename (n : nat) (s : schema) (snake : bool) : gtype -> json -> json :=
  fix go (t : gtype) (j : json) {struct t} : json :=
    match t with
    | TNonNull t' => go t' j
    | TList t' =>
        match j, n with
        | JArr l, S n' => JArr (map (rename n' s snake t') l)
        | _, _ => j
        end
    | TNamed nm =>
        match kind_of s nm, j, n with
        | KInput fs, JObj kv, S n' => JObj (map (rename_entry (rename n' s snake) snake fs) kv)
        | _, _, _ => j
        end
    end.

(* ---- S-expression output ---- *)
Fixpoint ann_to_sexp (a : ann) : sexp :=
  match a with
  | AStr => A "str" | AInt => A "int" | AFloat => A "float" | ABool => A "bool" | AAny => A "Any"
  | AUpload => A "Upload" | AInvalid => A "INVALID"
  | AEnum n => L [A "enum"; A n]
  | AClass n => L [A "class"; A n]
  | ACustom t None => L [A "custom"; A t]
  | ACustom t (Some f) => L [A "custom"; A t; A f]
  | AOpt a => L [A "Optional"; ann_to_sexp a]
  | AList a => L [A "List"; ann_to_sexp a]
  end.

Definition pfield_to_sexp (f : pfield) : sexp :=
  L [A (p_name f); ann_to_sexp (p_ann f); sOpt pyexpr_to_sexp (p_value f);
     sOpt A (rhs_alias (p_value f));
     sB (match rhs_default (p_value f) with DRequired => true | _ => false end)].

Definition pclass_to_sexp (c : pclass) : sexp := L [A (c_name c); sList pfield_to_sexp (c_fields c)].

Definition custom_of_sexp (e : sexp) : option (string * scalar_data) :=
  match e with
  | L [A n; A t; ser] =>
      match dOpt dStr ser with
      | Some o => Some (n, {| sd_type_name := t; sd_serialize_name := o |})
      | None => None end
  | _ => None
  end.
Definition customs_of_sexp (e : sexp) : option customs := dList custom_of_sexp e.
