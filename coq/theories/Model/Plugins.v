(* C15 — the plugin manager and the four bundled plugins, as transformations of the abstract objects the
   hooks of ariadne_codegen/plugins/base.py receive.  Executable definitions only (proofs: Proofs/PluginsP.v).

   Mirrors, function by function:
     plugins/manager.py      PluginManager._apply_plugins_on_object            -> apply_hook (fold over the list)
     contrib/shorter_results.py     generate_result_types_module / generate_result_class / generate_fragments_module /
                                    generate_client_module, _modify_method_def, _update_node, _get_all_fields,
                                    _update_imports                                -> sh_step & friends
     contrib/extract_operations.py  generate_operation_str / generate_client_method / generate_client_module /
                                    generate_init_module, _get_gql_variable_name, _get_operations_module
                                                                                   -> ex_step & friends
     contrib/client_forward_refs.py generate_client_module, _store_imported_classes, _update_name_to_constant,
                                    _insert_import_statement_in_method, _update_imports -> fr_step & friends
     contrib/no_reimports.py        generate_init_module                           -> nr_step
     client_generators/package.py   the ORDER in which the hooks are called         -> generate
   The forward-refs model is the code after /repo 7b86743 (finding F24, fixed): the module path is stored
   without its leading dots and re-emitted at level 1; `from typing import TYPE_CHECKING` is absolute. *)
From Coq Require Import List String Ascii Bool Arith.
From AC Require Import Base.Strs Base.Sexp Model.Names.
Import ListNotations.
Local Open Scope string_scope.
Local Open Scope list_scope.

(* ------------------------------------------------------------------ small library *)
Fixpoint lookup {X} (k : string) (l : list (string * X)) : option X :=
  match l with
  | [] => None
  | (k', v) :: r => if String.eqb k k' then Some v else lookup k r
  end.

(* Python dict assignment d[k] = v : replace in place, else append (insertion order kept) *)
Fixpoint dict_set {X} (k : string) (v : X) (l : list (string * X)) : list (string * X) :=
  match l with
  | [] => [(k, v)]
  | (k', v') :: r => if String.eqb k k' then (k, v) :: r else (k', v') :: dict_set k v r
  end.

Definition mem (x : string) (l : list string) : bool := existsb (String.eqb x) l.
Definition add_set (x : string) (l : list string) : list string := if mem x l then l else l ++ [x].

Fixpoint str_leb (a b : string) : bool :=
  match a, b with
  | EmptyString, _ => true
  | String _ _, EmptyString => false
  | String x a', String y b' =>
      if Nat.ltb (nat_of_ascii x) (nat_of_ascii y) then true
      else if Nat.ltb (nat_of_ascii y) (nat_of_ascii x) then false
      else str_leb a' b'
  end.
Fixpoint insert_sorted (x : string) (l : list string) : list string :=
  match l with
  | [] => [x]
  | y :: r => if str_leb x y then x :: l else y :: insert_sorted x r
  end.
Definition sort_strings (l : list string) : list string := fold_right insert_sorted [] l.

Fixpoint repeat_dot (n : nat) : string := match n with O => "" | S k => ("." ++ repeat_dot k)%string end.
Fixpoint lstrip_dots (s : string) : string :=
  match s with
  | String "."%char r => lstrip_dots r
  | _ => s
  end.
Definition starts_with_dot (s : string) : bool :=
  match s with String "."%char _ => true | _ => false end.

Definition option_bind {X Y} (o : option X) (f : X -> option Y) : option Y :=
  match o with Some x => f x | None => None end.

(* ------------------------------------------------------------------ abstract Python objects *)
(* annotation expressions: ast.Name / ast.Constant(str) / ast.Subscript(Name head, slice) / anything else.
   A Subscript whose slice is a Tuple carries >= 2 arguments, otherwise exactly one. *)
Inductive ann :=
| AName (n : string)
| AConst (s : string)
| ASub (head : string) (args : list ann)
| AOther (txt : string).

Inductive qref := QVar (v : string) | QConst (c : string).       (* value of the `query=` keyword *)
(* RCallOn n txt: any other call `n.attr(...)` on a plain name, e.g. `self.get_data(response)` *)
Inductive rexpr := RValidate (cls : string) | RAttr (e : rexpr) (attr : string) | RCallOn (n : string) (txt : string)
                | ROther (txt : string).

Inductive stmt :=
| SImport (level : nat) (module : string) (name : string)         (* from <level dots><module> import name *)
| SQuery (var : string) (doc : string)                            (* query = gql("""doc""") *)
| SVars (txt : string)                                            (* variables: Dict[str, object] = {...} *)
| SExec (q : qref) (opname : string) (rest : string)              (* response = [await] self.execute(query=q, operation_name=..) *)
| SData (txt : string)                                            (* data = self.get_data(response) *)
| SReturn (e : rexpr)
| SAsyncFor (q : qref) (opname : string) (rest : string) (e : rexpr)  (* async for data in self.execute_ws(..): yield e *)
| SOther (txt : string).

Record param := { p_name : string; p_ann : option ann; p_default : option string }.
Record pmethod := { m_name : string; m_async : bool; m_params : list param; m_tail : string;
                    m_returns : option ann; m_body : list stmt }.
Record imp := { i_level : nat; i_module : string; i_names : list string }.
Record cmodule := { cm_imports : list imp; cm_tc : list imp; cm_class : string; cm_bases : list string;
                    cm_methods : list pmethod }.
Record pclass := { c_name : string; c_bases : list string; c_fields : list (string * ann) }.
Record initmod := { in_imports : list imp; in_all : list string }.

Inductive opkind := KQuery | KMutation | KSubscription.

(* what a hook receives and returns; every hook no bundled plugin overrides carries an opaque object *)
Inductive obj :=
| OOpStr (s : string)
| OClass (c : pclass)
| OResultModule (imports : list imp)
| OFragmentsModule (classes : list string)
| OMethod (m : pmethod)
| OClient (c : cmodule)
| OInit (i : option initmod)          (* None = module.body == [] *)
| OOpaque (txt : string).

Inductive hook :=
| HOpStr (opname : string)
| HResultClass
| HResultModule
| HFragmentsModule
| HClientMethod (opname : string) (kind : opkind)
| HClientModule
| HInitModule
| HOther (name : string).              (* the remaining hooks of plugins/base.py *)

(* ------------------------------------------------------------------ ShorterResults *)
Record sh_state := { sh_fragments_module : string;
                     sh_classes : list (string * pclass);
                     sh_imported : list (string * string);
                     sh_extended : list (string * list string) }.

Definition src_of (level : nat) (module : string) : string := (repeat_dot level ++ module)%string.

Definition sh_record_imports (st : sh_state) (imports : list imp) : sh_state :=
  {| sh_fragments_module := sh_fragments_module st; sh_classes := sh_classes st;
     sh_imported := fold_left (fun acc i =>
                       fold_left (fun acc2 n => dict_set n (src_of (i_level i) (i_module i)) acc2) (i_names i) acc)
                     imports (sh_imported st);
     sh_extended := sh_extended st |}.

Definition sh_record_class (st : sh_state) (c : pclass) : sh_state :=
  {| sh_fragments_module := sh_fragments_module st; sh_classes := dict_set (c_name c) c (sh_classes st);
     sh_imported := sh_imported st; sh_extended := sh_extended st |}.

Definition sh_record_fragments (st : sh_state) (names : list string) : sh_state :=
  {| sh_fragments_module := sh_fragments_module st; sh_classes := sh_classes st;
     sh_imported := fold_left (fun acc n => dict_set n ("." ++ sh_fragments_module st)%string acc) names (sh_imported st);
     sh_extended := sh_extended st |}.

(* _get_all_fields: fields of the bases found in the class dictionary first, then the class's own; fuel bounds
   the descent along bases (None = exhausted: CPython would raise RecursionError on a cyclic dictionary) *)
Fixpoint all_fields (fuel : nat) (cd : list (string * pclass)) (c : pclass) : option (list (string * ann)) :=
  match fuel with
  | O => None
  | S k =>
      let from_bases :=
        fold_left (fun acc b =>
                     match acc with
                     | None => None
                     | Some fs =>
                         match lookup b cd with
                         | None => Some fs
                         | Some bc => match all_fields k cd bc with
                                      | None => None
                                      | Some more => Some (fs ++ more) end
                         end
                     end) (c_bases c) (Some []) in
      match from_bases with
      | None => None
      | Some fs => Some (fs ++ c_fields c)
      end
  end.

(* ast.literal_eval on a Name id: a quoted id ("X" / 'X') is unquoted, every identifier is left alone *)
Definition unquote (s : string) : string :=
  match s with
  | String q r =>
      if (Ascii.eqb q """"%char || Ascii.eqb q "'"%char)%bool then
        match rev (s2l r) with
        | q' :: body => if Ascii.eqb q q' then l2s (rev body) else s
        | [] => s
        end
      else s
  | EmptyString => s
  end.

(* _update_node: unquote inner names, drop Annotated[...] wrappers, collect the names met *)
Fixpoint sh_update (a : ann) : ann * list string :=
  match a with
  | AName n => (AName (unquote n), [unquote n])
  | ASub h args =>
      let rs := map sh_update args in
      match h, args with
      | "Annotated", [x; _] => sh_update x
      | _, _ => (ASub h (map fst rs), flat_map snd rs)
      end
  | other => (other, [])
  end.

Definition sh_single_field (st : sh_state) (cls : string) : option (option (string * ann)) :=
  (* None = failure; Some None = leave the method alone; Some (Some (f, a)) = unwrap field f *)
  match lookup cls (sh_classes st) with
  | None => Some None
  | Some c =>
      match all_fields (S (List.length (sh_classes st))) (sh_classes st) c with
      | None => None
      | Some [fa] => Some (Some fa)
      | Some _ => Some None
      end
  end.

Definition sh_add_imports (st : sh_state) (method_name : string) (ids : list string) : sh_state :=
  {| sh_fragments_module := sh_fragments_module st; sh_classes := sh_classes st; sh_imported := sh_imported st;
     sh_extended :=
       fold_left (fun ext id =>
                    let from :=
                      match lookup id (sh_imported st) with
                      | Some f => Some f
                      | None => match lookup id (sh_classes st) with Some _ => Some method_name | None => None end
                      end in
                    match from with
                    | None => ext
                    | Some f => dict_set f (add_set id (match lookup f ext with Some l => l | None => [] end)) ext
                    end) ids (sh_extended st) |}.

Definition set_last (body : list stmt) (s : stmt) : list stmt := removelast body ++ [s].

Definition with_ret_body (m : pmethod) (r : option ann) (b : list stmt) : pmethod :=
  {| m_name := m_name m; m_async := m_async m; m_params := m_params m; m_tail := m_tail m;
     m_returns := r; m_body := b |}.

(* _modify_method_def *)
Definition sh_method (st : sh_state) (m : pmethod) : option (sh_state * pmethod) :=
  match last (map Some (m_body m)) None with
  | Some (SReturn e) =>
      match m_returns m with
      | Some (AName cls) =>
          match sh_single_field st cls with
          | None => None
          | Some None => Some (st, m)
          | Some (Some (f, a)) =>
              let '(node, ids) := sh_update a in
              Some (sh_add_imports st (m_name m) ids,
                    with_ret_body m (Some node) (set_last (m_body m) (SReturn (RAttr e f))))
          end
      | _ => Some (st, m)
      end
  | Some (SAsyncFor q on rest e) =>
      match m_returns m with
      | Some (ASub _ [AName cls]) =>
          match sh_single_field st cls with
          | None => None
          | Some None => Some (st, m)
          | Some (Some (f, a)) =>
              let '(node, ids) := sh_update a in
              Some (sh_add_imports st (m_name m) ids,
                    with_ret_body m (Some (ASub "AsyncIterator" [node]))
                                  (set_last (m_body m) (SAsyncFor q on rest (RAttr e f))))
          end
      | _ => Some (st, m)
      end
  | _ => Some (st, m)
  end.

Fixpoint sh_methods (st : sh_state) (ms : list pmethod) : option (sh_state * list pmethod) :=
  match ms with
  | [] => Some (st, [])
  | m :: r =>
      match sh_method st m with
      | None => None
      | Some (st1, m1) =>
          match sh_methods st1 r with
          | None => None
          | Some (st2, r2) => Some (st2, m1 :: r2)
          end
      end
  end.

(* the import bookkeeping at the end of generate_client_module: existing ImportFrom statements whose MODULE
   (without the level dots) is a key get the names appended and the key is popped; what is left becomes a new
   `from <key> import ...` (level 0) at the top *)
Fixpoint sh_extend_imports (imports : list imp) (ext : list (string * list string)) : list imp * list (string * list string) :=
  match imports with
  | [] => ([], ext)
  | i :: r =>
      match lookup (i_module i) ext with
      | Some names =>
          let ext' := filter (fun kv => negb (String.eqb (fst kv) (i_module i))) ext in
          let '(r', e') := sh_extend_imports r ext' in
          ({| i_level := i_level i; i_module := i_module i; i_names := i_names i ++ names |} :: r', e')
      | None =>
          let '(r', e') := sh_extend_imports r ext in (i :: r', e')
      end
  end.

Definition with_imports_methods (c : cmodule) (imports : list imp) (ms : list pmethod) : cmodule :=
  {| cm_imports := imports; cm_tc := cm_tc c; cm_class := cm_class c; cm_bases := cm_bases c; cm_methods := ms |}.

Definition sh_client (st : sh_state) (c : cmodule) : option (sh_state * cmodule) :=
  match sh_methods st (cm_methods c) with
  | None => None
  | Some (st1, ms) =>
      let '(imports1, rest) := sh_extend_imports (cm_imports c) (sh_extended st1) in
      let fresh := map (fun kv => {| i_level := 0; i_module := fst kv; i_names := snd kv |}) rest in
      Some ({| sh_fragments_module := sh_fragments_module st1; sh_classes := sh_classes st1;
               sh_imported := sh_imported st1; sh_extended := rest |},
            with_imports_methods c (rev fresh ++ imports1) ms)
  end.

Definition sh_step (st : sh_state) (h : hook) (o : obj) : option (sh_state * obj) :=
  match h, o with
  | HResultModule, OResultModule imports => Some (sh_record_imports st imports, o)
  | HResultClass, OClass c => Some (sh_record_class st c, o)
  | HFragmentsModule, OFragmentsModule names => Some (sh_record_fragments st names, o)
  | HClientModule, OClient c =>
      match sh_client st c with Some (st', c') => Some (st', OClient c') | None => None end
  | _, _ => Some (st, o)
  end.

(* ------------------------------------------------------------------ ExtractOperations *)
Record ex_state := { ex_module : string;
                     ex_gqls : list (string * string);      (* _operations_gqls      : operation name -> string *)
                     ex_vars : list (string * string);      (* _operations_variables : operation name -> constant *)
                     ex_written : bool }.

Definition upper_s (s : string) : string := l2s (map to_upper (s2l s)).
Definition const_name (opname : string) : string := (upper_s (l2s (snake (s2l opname))) ++ "_GQL")%string.

Definition ex_constants (st : ex_state) : list string := map snd (ex_vars st).

(* _get_operations_module: one assignment per entry of _operations_gqls, named through _operations_variables *)
Definition ex_operations_module (st : ex_state) : list (string * string) :=
  flat_map (fun kv => match lookup (fst kv) (ex_vars st) with
                      | Some c => [(c, snd kv)]
                      | None => [] end) (ex_gqls st).

Definition set_qref (s : stmt) (c : string) : option stmt :=
  match s with
  | SExec _ on rest => Some (SExec (QConst c) on rest)
  | SAsyncFor _ on rest e => Some (SAsyncFor (QConst c) on rest e)
  | _ => None
  end.

Definition kind_matches (k : opkind) (s : stmt) : bool :=
  match k, s with
  | KSubscription, SAsyncFor _ _ _ _ => true
  | KSubscription, _ => false
  | _, SExec _ _ _ => true
  | _, _ => false
  end.

(* generate_client_method: drop the first statement, put the constant's name into the `query=` keyword of the
   call found in the (new) second statement *)
Definition ex_method (st : ex_state) (opname : string) (k : opkind) (m : pmethod) : option pmethod :=
  match m_body m with
  | [] => Some m                    (* body[1:] of an empty list, then body[1] raises *)
  | _ :: body =>
      match body with
      | s0 :: s1 :: rest =>
          if kind_matches k s1 then
            match lookup opname (ex_vars st) with
            | None => None
            | Some c => match set_qref s1 c with
                        | Some s1' => Some (with_ret_body m (m_returns m) (s0 :: s1' :: rest))
                        | None => None end
            end
          else None
      | _ => None
      end
  end.

Definition ex_import (st : ex_state) : imp :=
  {| i_level := 1; i_module := ex_module st; i_names := ex_constants st |}.

Definition ex_step (st : ex_state) (h : hook) (o : obj) : option (ex_state * obj) :=
  match h, o with
  | HOpStr opname, OOpStr s =>
      Some ({| ex_module := ex_module st; ex_gqls := dict_set opname s (ex_gqls st);
               ex_vars := dict_set opname (const_name opname) (ex_vars st); ex_written := ex_written st |}, o)
  | HClientMethod opname k, OMethod m =>
      match ex_method st opname k m with Some m' => Some (st, OMethod m') | None => None end
  | HClientModule, OClient c =>
      Some (st, OClient (with_imports_methods c (ex_import st :: cm_imports c) (cm_methods c)))
  | HInitModule, OInit i =>
      let st' := {| ex_module := ex_module st; ex_gqls := ex_gqls st; ex_vars := ex_vars st; ex_written := true |} in
      match i with
      | None => Some (st', OInit None)
      | Some im => Some (st', OInit (Some {| in_imports := ex_import st :: in_imports im;
                                             in_all := sort_strings (in_all im ++ ex_constants st) |}))
      end
  | _, _ => Some (st, o)
  end.

(* ---- the reserved-name hook (process_name, /repo edeb7cc) and the reserved-name loop of arguments.py ---- *)
(* `while name in bad: name += "_"` ; fuel: one more than the longest bad name is always enough (Proofs: avoid_spec) *)
Fixpoint avoid (fuel : nat) (bad : list string) (name : string) : string :=
  match fuel with
  | O => name
  | S k => if mem name bad then avoid k bad (name ++ "_")%string else name
  end.
Definition max_len (l : list string) : nat := fold_right (fun s m => Nat.max (String.length s) m) 0 l.
Definition avoid_all (bad : list string) (name : string) : string := avoid (S (max_len bad)) bad name.

(* ExtractOperationsPlugin.process_name on a VariableDefinitionNode: while name in _operations_variables.values() *)
Definition ex_process_name (st : ex_state) (name : string) : string := avoid_all (ex_constants st) name.

(* ArgumentsGenerator.generate: the processed name of each variable (declaration order) goes through the plugins'
   process_name hook, then `while name in used_names: name += "_"`, then joins used_names *)
Fixpoint assign_names (hook : string -> string) (used : list string) (processed : list string) : list string :=
  match processed with
  | [] => []
  | p :: r => let n := avoid_all used (hook p) in n :: assign_names hook (n :: used) r
  end.

(* ------------------------------------------------------------------ ClientForwardRefs *)
(* _store_imported_classes: from_ = node.module.lstrip(".") *)
Definition fr_imported (imports : list imp) : list (string * string) :=
  fold_left (fun acc i =>
               if (negb (Nat.eqb (i_level i) 1) && negb (starts_with_dot (i_module i)))%bool then acc
               else
                 let from := lstrip_dots (i_module i) in
                 fold_left (fun acc2 n => dict_set n from acc2) (i_names i) acc)
            imports [].

(* _update_name_to_constant, returning the names it turned into constants *)
Fixpoint fr_ann (ic : list (string * string)) (a : ann) : ann * list string :=
  match a with
  | AName n => match lookup n ic with Some _ => (AConst n, [n]) | None => (a, []) end
  | ASub h args => let rs := map (fr_ann ic) args in (ASub h (map fst rs), flat_map snd rs)
  | other => (other, [])
  end.

Definition fr_param (ic : list (string * string)) (p : param) : param * list string :=
  match p_ann p with
  | Some a => let '(a', ns) := fr_ann ic a in
              ({| p_name := p_name p; p_ann := Some a'; p_default := p_default p |}, ns)
  | None => (p, [])
  end.

(* _get_call_arg_from_return / _from_async_for + _get_class_from_call: the validated class, looking through at
   most ONE attribute access *)
Definition fr_class_of (e : rexpr) : option string :=
  match e with
  | RValidate cls => Some cls
  | RCallOn n _ => Some n
  | RAttr (RValidate cls) _ => Some cls
  | RAttr (RCallOn n _) _ => Some n
  | _ => None
  end.

Definition fr_last_class (body : list stmt) : option string :=
  match last (map Some body) None with
  | Some (SReturn e) => fr_class_of e
  | Some (SAsyncFor _ _ _ e) => fr_class_of e
  | _ => None
  end.

(* a call on a name that is not a package import (`self.get_data(response)` of the custom-operation methods) is
   skipped: /repo 91a5368 (before it the lookup raised KeyError, finding C15-forward-refs-custom-operations) *)
Definition fr_method (ic : list (string * string)) (m : pmethod)
  : option (pmethod * list string (*annotation names*) * list string (*imported in method*)) :=
  let ps := map (fr_param ic) (m_params m) in
  let '(ret, rnames) := match m_returns m with
                        | Some a => let '(a', ns) := fr_ann ic a in (Some a', ns)
                        | None => (None, []) end in
  let names := flat_map snd ps ++ rnames in
  let m1 := {| m_name := m_name m; m_async := m_async m; m_params := map fst ps; m_tail := m_tail m;
               m_returns := ret; m_body := m_body m |} in
  match fr_last_class (m_body m) with
  | None => Some (m1, names, [])
  | Some cls =>
      match lookup cls ic with
      | None => Some (m1, names, [])
      | Some from => Some (with_ret_body m1 ret (SImport 1 from cls :: m_body m), names, [cls])
      end
  end.

Fixpoint fr_methods (ic : list (string * string)) (ms : list pmethod)
  : option (list pmethod * list string * list string) :=
  match ms with
  | [] => Some ([], [], [])
  | m :: r =>
      match fr_method ic m, fr_methods ic r with
      | Some (m', a, b), Some (r', a2, b2) => Some (m' :: r', a ++ a2, b ++ b2)
      | _, _ => None
      end
  end.

Fixpoint dedup (l : list string) : list string :=
  match l with
  | [] => []
  | x :: r => if mem x r then dedup r else x :: dedup r
  end.

Definition fr_reduce (removed : list string) (imports : list imp) : list imp :=
  flat_map (fun i =>
              let names := filter (fun n => negb (mem n removed)) (i_names i) in
              match names with
              | [] => []
              | _ => [{| i_level := i_level i; i_module := i_module i; i_names := names |}]
              end) imports.

(* _add_forward_ref_imports: one `from <module> import ...` (level 1) per stored module path *)
Definition fr_tc_imports (ic : list (string * string)) (types : list string) : option (list imp) :=
  fold_left (fun acc cls =>
               match acc, lookup cls ic with
               | Some l, Some from =>
                   Some (map (fun kv => {| i_level := 1; i_module := fst kv; i_names := snd kv |})
                             (dict_set from ((match lookup from (map (fun i => (i_module i, i_names i)) l) with
                                              | Some ns => ns | None => [] end) ++ [cls])
                                       (map (fun i => (i_module i, i_names i)) l)))
               | _, _ => None
               end) types (Some []).

(* when NO annotation name was stringified (every annotation is a builtin, e.g. after ShorterResults on scalar
   fields) but some class is imported in a method, no `if TYPE_CHECKING:` block and no TYPE_CHECKING import are
   emitted (/repo c4f3669; before it the block was emitted without a body and formatting the module failed —
   finding C15-forward-refs-empty-type-checking-block, fixed) *)
Definition fr_client (c : cmodule) : option cmodule :=
  let ic := fr_imported (cm_imports c) in
  match fr_methods ic (cm_methods c) with
  | None => None
  | Some (ms, ann_names, in_method) =>
      let types := dedup ann_names in
      let removed := types ++ in_method in
      match removed with
      | [] => Some (with_imports_methods c (cm_imports c) ms)
      | _ =>
          match fr_tc_imports ic types with
          | None => None
          | Some [] =>
              Some {| cm_imports := fr_reduce removed (cm_imports c); cm_tc := cm_tc c; cm_class := cm_class c;
                      cm_bases := cm_bases c; cm_methods := ms |}
          | Some tc =>
              Some {| cm_imports := fr_reduce removed (cm_imports c)
                                    ++ [{| i_level := 0; i_module := "typing"; i_names := ["TYPE_CHECKING"] |}];
                      cm_tc := cm_tc c ++ tc; cm_class := cm_class c; cm_bases := cm_bases c; cm_methods := ms |}
          end
      end
  end.

Definition fr_step (h : hook) (o : obj) : option obj :=
  match h, o with
  | HClientModule, OClient c => match fr_client c with Some c' => Some (OClient c') | None => None end
  | _, _ => Some o
  end.

(* ------------------------------------------------------------------ NoReimports *)
Definition nr_step (h : hook) (o : obj) : obj :=
  match h, o with
  | HInitModule, OInit _ => OInit None
  | _, _ => o
  end.

(* ------------------------------------------------------------------ the manager *)
Inductive plugin :=
| PShorter (st : sh_state)
| PExtract (st : ex_state)
| PForward
| PNoReimports
| PIdentity.            (* a plugin class overriding no hook: Plugin's defaults return their argument *)

Definition step (p : plugin) (h : hook) (o : obj) : option (plugin * obj) :=
  match p with
  | PShorter st => match sh_step st h o with Some (st', o') => Some (PShorter st', o') | None => None end
  | PExtract st => match ex_step st h o with Some (st', o') => Some (PExtract st', o') | None => None end
  | PForward => match fr_step h o with Some o' => Some (p, o') | None => None end
  | PNoReimports => Some (p, nr_step h o)
  | PIdentity => Some (p, o)
  end.

(* PluginManager._apply_plugins_on_object: modified_obj threaded through the plugins in configuration order *)
Fixpoint apply_hook (ps : list plugin) (h : hook) (o : obj) : option (list plugin * obj) :=
  match ps with
  | [] => Some ([], o)
  | p :: r =>
      match step p h o with
      | None => None
      | Some (p', o1) =>
          match apply_hook r h o1 with
          | None => None
          | Some (r', o2) => Some (p' :: r', o2)
          end
      end
  end.

(* plugins/explorer.py get_plugins_types: an entry of the `plugins` option is a class path or a module path; a
   module stands for the plugin classes it exposes (inspect.getmembers order, given); the list keeps entry order *)
Inductive entry := EClass (p : plugin) | EModule (ps : list plugin).
Definition resolve_entries (es : list entry) : list plugin :=
  flat_map (fun e => match e with EClass p => [p] | EModule ps => ps end) es.

(* ------------------------------------------------------------------ the order of hook calls (package.py) *)
Record uop := { uo_name : string; uo_kind : opkind; uo_str : string;
                uo_classes : list pclass; uo_imports : list imp; uo_method : pmethod }.
Record upackage := { u_ops : list uop;
                     u_fragment_classes : list pclass;
                     u_client : cmodule;   (* imports / class; cm_methods = the methods that are NOT operations
                                              (enable_custom_operations), appended after the operations' *)
                     u_init : initmod }.
Record package := { pk_client : cmodule; pk_init : option initmod;
                    pk_operations : list (list (string * string)) }.  (* one module per ExtractOperations instance that wrote *)

Fixpoint apply_classes (ps : list plugin) (cs : list pclass) : option (list plugin) :=
  match cs with
  | [] => Some ps
  | c :: r => match apply_hook ps HResultClass (OClass c) with
              | Some (ps', _) => apply_classes ps' r
              | None => None end
  end.

Definition set_doc (m : pmethod) (doc : string) : pmethod :=
  with_ret_body m (m_returns m)
    (map (fun s => match s with SQuery v _ => SQuery v doc | other => other end) (m_body m)).

Definition gen_op (ps : list plugin) (u : uop) : option (list plugin * pmethod) :=
  match apply_classes ps (uo_classes u) with
  | None => None
  | Some ps1 =>
      match apply_hook ps1 HResultModule (OResultModule (uo_imports u)) with
      | Some (ps2, _) =>
          match apply_hook ps2 (HOpStr (uo_name u)) (OOpStr (uo_str u)) with
          | Some (ps3, OOpStr s') =>
              match apply_hook ps3 (HClientMethod (uo_name u) (uo_kind u)) (OMethod (set_doc (uo_method u) s')) with
              | Some (ps4, OMethod m') => Some (ps4, m')
              | _ => None
              end
          | _ => None
          end
      | None => None
      end
  end.

Fixpoint gen_ops (ps : list plugin) (us : list uop) : option (list plugin * list pmethod) :=
  match us with
  | [] => Some (ps, [])
  | u :: r =>
      match gen_op ps u with
      | None => None
      | Some (ps1, m) =>
          match gen_ops ps1 r with
          | None => None
          | Some (ps2, ms) => Some (ps2, m :: ms)
          end
      end
  end.

Definition written_modules (ps : list plugin) : list (list (string * string)) :=
  flat_map (fun p => match p with
                     | PExtract st => if ex_written st then [ex_operations_module st] else []
                     | _ => [] end) ps.

Definition generate (ps : list plugin) (u : upackage) : option package :=
  match gen_ops ps (u_ops u) with
  | None => None
  | Some (ps1, ms) =>
      match apply_classes ps1 (u_fragment_classes u) with
      | None => None
      | Some ps2 =>
          match apply_hook ps2 HFragmentsModule (OFragmentsModule (map c_name (u_fragment_classes u))) with
          | None => None
          | Some (ps3, _) =>
              match apply_hook ps3 HClientModule (OClient (with_imports_methods (u_client u) (cm_imports (u_client u))
                                                                              (ms ++ cm_methods (u_client u)))) with
              | Some (ps4, OClient c) =>
                  match apply_hook ps4 HInitModule (OInit (Some (u_init u))) with
                  | Some (ps5, OInit i) =>
                      Some {| pk_client := c; pk_init := i; pk_operations := written_modules ps5 |}
                  | _ => None
                  end
              | _ => None
              end
          end
      end
  end.

(* ------------------------------------------------------------------ observables the theorems speak about *)
(* the request a method sends: (document, operationName, variables expression) *)
Fixpoint find_doc (v : string) (body : list stmt) : option string :=
  match body with
  | [] => None
  | SQuery v' d :: r => if String.eqb v v' then Some d else find_doc v r
  | _ :: r => find_doc v r
  end.

Fixpoint find_call (body : list stmt) : option (qref * string * string) :=
  match body with
  | [] => None
  | SExec q on rest :: _ => Some (q, on, rest)
  | SAsyncFor q on rest _ :: _ => Some (q, on, rest)
  | _ :: r => find_call r
  end.

Fixpoint find_vars (body : list stmt) : option string :=
  match body with
  | [] => None
  | SVars t :: _ => Some t
  | _ :: r => find_vars r
  end.

Definition resolve (consts : list (string * string)) (body : list stmt) (q : qref) : option string :=
  match q with
  | QVar v => find_doc v body
  | QConst c => lookup c consts
  end.

Definition request_of (consts : list (string * string)) (m : pmethod) : option (string * string * string * string) :=
  match find_call (m_body m), find_vars (m_body m) with
  | Some (q, on, rest), Some vars =>
      match resolve consts (m_body m) q with
      | Some doc => Some (doc, on, rest, vars)
      | None => None
      end
  | _, _ => None
  end.

(* value semantics of the returned expression: V validates `data` into an object = its attribute table *)
Inductive pyval := VObj (attrs : list (string * pyval)) | VLeaf (txt : string).
Fixpoint eval_r (V : string -> option pyval) (e : rexpr) : option pyval :=
  match e with
  | RValidate cls => V cls
  | RAttr e' f => match eval_r V e' with
                  | Some (VObj attrs) => lookup f attrs
                  | _ => None end
  | RCallOn _ _ => None
  | ROther _ => None
  end.

Definition result_expr (m : pmethod) : option rexpr :=
  match last (map Some (m_body m)) None with
  | Some (SReturn e) => Some e
  | Some (SAsyncFor _ _ _ e) => Some e
  | _ => None
  end.

(* how a type checker reads an annotation: a string constant that is a name denotes that name *)
Fixpoint denote (a : ann) : ann :=
  match a with
  | AConst s => AName s
  | ASub h args => ASub h (map denote args)
  | other => other
  end.

(* ------------------------------------------------------------------ S-expression codec + dispatcher *)
Fixpoint dAnn (fuel : nat) (e : sexp) : option ann :=
  match fuel with
  | O => None
  | S k =>
      match e with
      | L [A "n"; A s] => Some (AName s)
      | L [A "c"; A s] => Some (AConst s)
      | L [A "o"; A s] => Some (AOther s)
      | L [A "s"; A h; L args] => match dAll (dAnn k) args with Some l => Some (ASub h l) | None => None end
      | _ => None
      end
  end.
Fixpoint sAnn (a : ann) : sexp :=
  match a with
  | AName s => L [A "n"; A s]
  | AConst s => L [A "c"; A s]
  | AOther s => L [A "o"; A s]
  | ASub h args => L [A "s"; A h; L (map sAnn args)]
  end.

Definition dQ (e : sexp) : option qref :=
  match e with L [A "var"; A v] => Some (QVar v) | L [A "const"; A c] => Some (QConst c) | _ => None end.
Definition sQ (q : qref) : sexp :=
  match q with QVar v => L [A "var"; A v] | QConst c => L [A "const"; A c] end.
Fixpoint dR (fuel : nat) (e : sexp) : option rexpr :=
  match fuel with
  | O => None
  | S k =>
      match e with
      | L [A "validate"; A c] => Some (RValidate c)
      | L [A "attr"; x; A f] => match dR k x with Some r => Some (RAttr r f) | None => None end
      | L [A "other"; A t] => Some (ROther t)
      | L [A "callon"; A n; A t] => Some (RCallOn n t)
      | _ => None
      end
  end.
Fixpoint sR (r : rexpr) : sexp :=
  match r with
  | RValidate c => L [A "validate"; A c]
  | RAttr x f => L [A "attr"; sR x; A f]
  | ROther t => L [A "other"; A t]
  | RCallOn n t => L [A "callon"; A n; A t]
  end.

Definition dStmt (e : sexp) : option stmt :=
  match e with
  | L [A "import"; lv; A m; A n] => match dNat lv with Some l => Some (SImport l m n) | None => None end
  | L [A "query"; A v; A d] => Some (SQuery v d)
  | L [A "vars"; A t] => Some (SVars t)
  | L [A "exec"; q; A on; A rest] => match dQ q with Some q' => Some (SExec q' on rest) | None => None end
  | L [A "data"; A t] => Some (SData t)
  | L [A "return"; r] => match dR 8 r with Some r' => Some (SReturn r') | None => None end
  | L [A "asyncfor"; q; A on; A rest; r] =>
      match dQ q, dR 8 r with Some q', Some r' => Some (SAsyncFor q' on rest r') | _, _ => None end
  | L [A "other"; A t] => Some (SOther t)
  | _ => None
  end.
Definition sStmt (s : stmt) : sexp :=
  match s with
  | SImport l m n => L [A "import"; sN l; A m; A n]
  | SQuery v d => L [A "query"; A v; A d]
  | SVars t => L [A "vars"; A t]
  | SExec q on rest => L [A "exec"; sQ q; A on; A rest]
  | SData t => L [A "data"; A t]
  | SReturn r => L [A "return"; sR r]
  | SAsyncFor q on rest r => L [A "asyncfor"; sQ q; A on; A rest; sR r]
  | SOther t => L [A "other"; A t]
  end.

Definition dParam (e : sexp) : option param :=
  match e with
  | L [A n; a; d] =>
      match dOpt (dAnn 12) a, dOpt dStr d with
      | Some a', Some d' => Some {| p_name := n; p_ann := a'; p_default := d' |}
      | _, _ => None end
  | _ => None
  end.
Definition sParam (p : param) : sexp := L [A (p_name p); sOpt sAnn (p_ann p); sOpt A (p_default p)].

Definition dMethod (e : sexp) : option pmethod :=
  match e with
  | L [A n; a; L ps; A tail; r; L body] =>
      match dB a, dAll dParam ps, dOpt (dAnn 12) r, dAll dStmt body with
      | Some a', Some ps', Some r', Some b' =>
          Some {| m_name := n; m_async := a'; m_params := ps'; m_tail := tail; m_returns := r'; m_body := b' |}
      | _, _, _, _ => None end
  | _ => None
  end.
Definition sMethod (m : pmethod) : sexp :=
  L [A (m_name m); sB (m_async m); L (map sParam (m_params m)); A (m_tail m); sOpt sAnn (m_returns m);
     L (map sStmt (m_body m))].

Definition dImp (e : sexp) : option imp :=
  match e with
  | L [lv; A m; L names] =>
      match dNat lv, dAll dStr names with
      | Some l, Some ns => Some {| i_level := l; i_module := m; i_names := ns |}
      | _, _ => None end
  | _ => None
  end.
Definition sImp (i : imp) : sexp := L [sN (i_level i); A (i_module i); L (map A (i_names i))].

Definition dClient (e : sexp) : option cmodule :=
  match e with
  | L [L imports; L tc; A cls; L bases; L ms] =>
      match dAll dImp imports, dAll dImp tc, dAll dStr bases, dAll dMethod ms with
      | Some i, Some t, Some b, Some m =>
          Some {| cm_imports := i; cm_tc := t; cm_class := cls; cm_bases := b; cm_methods := m |}
      | _, _, _, _ => None end
  | _ => None
  end.
Definition sClient (c : cmodule) : sexp :=
  L [L (map sImp (cm_imports c)); L (map sImp (cm_tc c)); A (cm_class c); L (map A (cm_bases c));
     L (map sMethod (cm_methods c))].

Definition dField (e : sexp) : option (string * ann) :=
  match e with L [A n; a] => match dAnn 12 a with Some a' => Some (n, a') | None => None end | _ => None end.
Definition dClass (e : sexp) : option pclass :=
  match e with
  | L [A n; L bases; L fields] =>
      match dAll dStr bases, dAll dField fields with
      | Some b, Some f => Some {| c_name := n; c_bases := b; c_fields := f |}
      | _, _ => None end
  | _ => None
  end.

Definition dKind (e : sexp) : option opkind :=
  match e with A "query" => Some KQuery | A "mutation" => Some KMutation | A "subscription" => Some KSubscription
          | _ => None end.

Definition dUop (e : sexp) : option uop :=
  match e with
  | L [A n; k; A s; L cs; L is; m] =>
      match dKind k, dAll dClass cs, dAll dImp is, dMethod m with
      | Some k', Some cs', Some is', Some m' =>
          Some {| uo_name := n; uo_kind := k'; uo_str := s; uo_classes := cs'; uo_imports := is'; uo_method := m' |}
      | _, _, _, _ => None end
  | _ => None
  end.

Definition dInit (e : sexp) : option initmod :=
  match e with
  | L [L is; L al] =>
      match dAll dImp is, dAll dStr al with
      | Some i, Some a => Some {| in_imports := i; in_all := a |}
      | _, _ => None end
  | _ => None
  end.
Definition sInit (i : initmod) : sexp := L [L (map sImp (in_imports i)); L (map A (in_all i))].

Definition dPackage (e : sexp) : option upackage :=
  match e with
  | L [L ops; L fcs; c; i] =>
      match dAll dUop ops, dAll dClass fcs, dClient c, dInit i with
      | Some o, Some f, Some c', Some i' =>
          Some {| u_ops := o; u_fragment_classes := f; u_client := c'; u_init := i' |}
      | _, _, _, _ => None end
  | _ => None
  end.

(* plugin configuration: (shorter <fragments module>) (extract <operations module>) forward noreimports identity *)
Definition dPlugin (e : sexp) : option plugin :=
  match e with
  | L [A "shorter"; A fm] =>
      Some (PShorter {| sh_fragments_module := fm; sh_classes := []; sh_imported := []; sh_extended := [] |})
  | L [A "extract"; A om] =>
      Some (PExtract {| ex_module := om; ex_gqls := []; ex_vars := []; ex_written := false |})
  | A "forward" => Some PForward
  | A "noreimports" => Some PNoReimports
  | A "identity" => Some PIdentity
  | _ => None
  end.

Definition sConsts (l : list (string * string)) : sexp := L (map (fun kv => L [A (fst kv); A (snd kv)]) l).

Definition run_plugins (e : sexp) : sexp :=
  match e with
  | L [A "generate"; L ps; pkg] =>
      match dAll dPlugin ps, dPackage pkg with
      | Some ps', Some u =>
          match generate ps' u with
          | Some p => L [A "ok"; sClient (pk_client p); sOpt sInit (pk_init p); L (map sConsts (pk_operations p))]
          | None => L [A "fails"]
          end
      | None, _ => sErr "plugins: bad plugin list"
      | _, None => sErr "plugins: bad package"
      end
  | L [A "assign"; L consts; L reserved; L processed] =>
      match dAll dStr consts, dAll dStr reserved, dAll dStr processed with
      | Some c, Some r, Some p => L (map A (assign_names (avoid_all c) r p))
      | _, _, _ => sErr "plugins: assign"
      end
  | L [A "const_name"; A s] => A (const_name s)
  | L [A "unquote"; A s] => A (unquote s)
  | _ => sErr "plugins: bad command"
  end.
