(* Model of ariadne_codegen/graphql_schema_generators/*.py (strategy graphqlschema, target .py):
     gen_module  : what generate_schema_module emits, as an abstract Python-expression tree
                   (constants are carried as the source text ast.unparse writes for them);
     eval_module : Python evaluation of exactly the constructor calls of that tree, giving back
                   a flat schema record (named types are referenced by name; the lookup
                   type_map[key] and the thunks are evaluated against the emitted type map).
   Executable definitions only (proofs: Proofs/SchemaGenP.v). *)
From Coq Require Import List String Ascii ZArith Bool Arith.
From AC Require Import Base.Strs Base.Sexp Model.PyRepr Model.Names.
Import ListNotations.
Local Open Scope string_scope.
Local Open Scope list_scope.

(* ---------- the flat schema record ---------- *)
Inductive gtype := TNamed (n : chars) | TList (t : gtype) | TNonNull (t : gtype).

(* argument of a field/directive, and input-object field: same shape *)
Record farg := { a_name : chars; a_type : gtype; a_default : option pyval (* None = Undefined *);
                 a_desc : option chars; a_depr : option chars }.
Record ffield := { f_name : chars; f_type : gtype; f_args : list farg;
                   f_desc : option chars; f_depr : option chars }.
Record fenumval := { ev_name : chars; ev_value : pyval; ev_desc : option chars; ev_depr : option chars }.
Inductive ftdef :=
| DScalar (specified_by : option chars)
| DObject (ifaces : list chars) (fields : list ffield)
| DInterface (ifaces : list chars) (fields : list ffield)
| DUnion (members : list chars)
| DEnum (vals : list fenumval)
| DInput (fields : list farg).
Record ftype := { t_name : chars; t_desc : option chars; t_def : ftdef }.
Record fdirective := { d_name : chars; d_desc : option chars; d_rep : bool;
                       d_locs : list chars; d_args : list farg }.
Record fschema := { s_types : list ftype;           (* schema.type_map, in order, standard types included *)
                    s_query : option chars; s_mutation : option chars; s_subscription : option chars;
                    s_directives : list fdirective; s_desc : option chars }.

(* ---------- abstract Python ---------- *)
Inductive pyexpr :=
| EConst (src : chars)
| EName (n : chars)
| EAttr (e : pyexpr) (a : chars)
| ESub (e : pyexpr) (k : pyexpr)
| ECall (f : pyexpr) (args : list pyexpr) (kw : list (chars * pyexpr))
| ELambda (body : pyexpr)
| EDict (kv : list (pyexpr * pyexpr))
| EList (l : list pyexpr)
| ETuple (l : list pyexpr).

Record pyassign := { as_target : chars; as_ann : chars; as_value : pyexpr }.
Record pymod := { m_imports : list (chars * list chars); m_body : list pyassign }.

(* ---------- constants.py ---------- *)
Definition STANDARD_TYPES : list chars := map s2l
  ["ID"; "Boolean"; "Float"; "Int"; "String"; "__Schema"; "__Type"; "__TypeKind"; "__Field";
   "__InputValue"; "__EnumValue"; "__Directive"; "__DirectiveLocation"].
Definition STANDARD_SCALARS : list (chars * chars) :=
  map (fun p => (s2l (fst p), s2l (snd p)))
  [("Int", "GraphQLInt"); ("Float", "GraphQLFloat"); ("String", "GraphQLString");
   ("Boolean", "GraphQLBoolean"); ("ID", "GraphQLID")].

Fixpoint assoc {B : Type} (k : chars) (l : list (chars * B)) : option B :=
  match l with
  | [] => None
  | (k', v) :: r => if chars_eqb k k' then Some v else assoc k r
  end.
Definition std_const (n : chars) : option chars := assoc n STANDARD_SCALARS.
Definition std_of_const (c : chars) : option chars :=
  assoc c (map (fun p => (snd p, fst p)) STANDARD_SCALARS).
Definition is_standard (n : chars) : bool := mem_chars n STANDARD_TYPES.

(* ---------- generator ---------- *)
Definition class_of (d : ftdef) : chars :=
  s2l match d with
      | DScalar _ => "GraphQLScalarType" | DObject _ _ => "GraphQLObjectType"
      | DInterface _ _ => "GraphQLInterfaceType" | DUnion _ => "GraphQLUnionType"
      | DEnum _ => "GraphQLEnumType" | DInput _ => "GraphQLInputObjectType" end.

Definition user_types (S : fschema) : list ftype :=
  filter (fun t => negb (is_standard (t_name t))) (s_types S).

Fixpoint find_type (l : list ftype) (n : chars) : option ftype :=
  match l with
  | [] => None
  | t :: r => if chars_eqb n (t_name t) then Some t else find_type r n
  end.

(* ast.unparse of ast.Constant(value): repr(value), except that a float constant that is
   itself infinite is written 1e309 (only at top level: nested values go through plain repr) *)
Definition unparse_const (v : pyval) : chars :=
  match v with
  | PFloat lx => if chars_eqb lx (s2l "inf") then s2l "1e309"
                 else if chars_eqb lx (s2l "-inf") then s2l "-1e309" else lx
  | _ => py_repr v
  end.

Definition e_str (s : chars) : pyexpr := EConst (repr_str s).
Definition e_none : pyexpr := EConst (s2l "None").
Definition e_optstr (o : option chars) : pyexpr := match o with Some s => e_str s | None => e_none end.
Definition e_bool (b : bool) : pyexpr := EConst (s2l (if b then "True" else "False")).
Definition e_val (v : pyval) : pyexpr := EConst (unparse_const v).
(* fields.generate_default_value: lists and dicts become displays whose leaves are constants (so
   every float leaf gets ast.unparse's treatment of non-finite values); anything else one constant *)
Fixpoint gen_dv (v : pyval) : pyexpr :=
  match v with
  | PList l => EList (map gen_dv l)
  | PDict kv =>
      EDict ((fix go (kv : list (chars * pyval)) : list (pyexpr * pyexpr) :=
                match kv with [] => [] | (k, x) :: r => (e_str k, gen_dv x) :: go r end) kv)
  | _ => EConst (unparse_const v)
  end.
Definition e_default (d : option pyval) : pyexpr :=
  match d with None => EName (s2l "Undefined") | Some v => gen_dv v end.
Definition call (f : string) (args : list pyexpr) (kw : list (string * pyexpr)) : pyexpr :=
  ECall (EName (s2l f)) args (map (fun p => (s2l (fst p), snd p)) kw).
(* ast.Constant({}) / ast.Constant([]) and an empty display are the same text in the file: the abstract
   module is what Python's parser sees, i.e. displays; EConst carries atoms only *)
Definition mk_dict (kv : list (pyexpr * pyexpr)) : pyexpr := EDict kv.
Definition mk_list (l : list pyexpr) : pyexpr := EList l.

Definition tm_get (tm n : chars) : pyexpr := ESub (EName tm) (e_str n).

(* utils.get_named_type / fields.generate_field_type on a named type.  U is the whole type map
   (the class written in the cast is the class of the referenced object); the five standard
   scalars are referenced by their graphql-core constants. *)
Definition cast_ref (U : list ftype) (tm n : chars) : pyexpr :=
  call "cast" [EName (match find_type U n with
                      | Some t => class_of (t_def t)
                      | None => s2l "GraphQLNamedType" end); tm_get tm n] [].
Definition gen_named_ref (U : list ftype) (tm n : chars) : pyexpr :=
  match std_const n with
  | Some c => EName c
  | None => cast_ref U tm n
  end.

Fixpoint gen_type (U : list ftype) (tm : chars) (t : gtype) : pyexpr :=
  match t with
  | TNamed n => gen_named_ref U tm n
  | TList t => call "GraphQLList" [gen_type U tm t] []
  | TNonNull t => call "GraphQLNonNull" [gen_type U tm t] []
  end.

Definition gen_arg (cls : string) (U : list ftype) (tm : chars) (a : farg) : pyexpr :=
  call cls [gen_type U tm (a_type a)]
    [("default_value", e_default (a_default a)); ("description", e_optstr (a_desc a));
     ("deprecation_reason", e_optstr (a_depr a))].

Definition gen_args (U : list ftype) (tm : chars) (l : list farg) : pyexpr :=
  mk_dict (map (fun a => (e_str (a_name a), gen_arg "GraphQLArgument" U tm a)) l).

Definition gen_field (U : list ftype) (tm : chars) (f : ffield) : pyexpr :=
  call "GraphQLField" [gen_type U tm (f_type f)]
    [("args", gen_args U tm (f_args f)); ("description", e_optstr (f_desc f));
     ("deprecation_reason", e_optstr (f_depr f))].

Definition gen_field_map (U : list ftype) (tm : chars) (fs : list ffield) : pyexpr :=
  match fs with
  | [] => EDict []
  | _ => ELambda (EDict (map (fun f => (e_str (f_name f), gen_field U tm f)) fs))
  end.

Definition gen_input_field_map (U : list ftype) (tm : chars) (fs : list farg) : pyexpr :=
  match fs with
  | [] => EDict []
  | _ => ELambda (EDict (map (fun a => (e_str (a_name a), gen_arg "GraphQLInputField" U tm a)) fs))
  end.

Definition gen_type_list (tm : chars) (ann : string) (names : list chars) : pyexpr :=
  match names with
  | [] => EList []
  | _ => ELambda (call "cast" [ESub (EName (s2l "List")) (EName (s2l ann));
                               EList (map (tm_get tm) names)] [])
  end.

Definition gen_enum_value (v : fenumval) : pyexpr :=
  call "GraphQLEnumValue" []
    [("value", e_val (ev_value v)); ("description", e_optstr (ev_desc v));
     ("deprecation_reason", e_optstr (ev_depr v))].

Definition gen_named_type (U : list ftype) (tm : chars) (t : ftype) : pyexpr :=
  let nm := ("name", e_str (t_name t)) in
  let ds := ("description", e_optstr (t_desc t)) in
  match t_def t with
  | DScalar sb => call "GraphQLScalarType" [] [nm; ds; ("specified_by_url", e_optstr sb)]
  | DObject ifs fs =>
      call "GraphQLObjectType" []
        [nm; ds; ("interfaces", gen_type_list tm "GraphQLInterfaceType" ifs);
         ("fields", gen_field_map U tm fs)]
  | DInterface ifs fs =>
      call "GraphQLInterfaceType" []
        [nm; ds; ("interfaces", gen_type_list tm "GraphQLInterfaceType" ifs);
         ("fields", gen_field_map U tm fs)]
  | DUnion ms =>
      call "GraphQLUnionType" [] [nm; ds; ("types", gen_type_list tm "GraphQLObjectType" ms)]
  | DEnum vs =>
      call "GraphQLEnumType" []
        [nm; ds; ("values", mk_dict (map (fun v => (e_str (ev_name v), gen_enum_value v)) vs))]
  | DInput fs =>
      call "GraphQLInputObjectType" [] [nm; ds; ("fields", gen_input_field_map U tm fs)]
  end.

Definition gen_directive (U : list ftype) (tm : chars) (d : fdirective) : pyexpr :=
  call "GraphQLDirective" []
    [("name", e_str (d_name d)); ("description", e_optstr (d_desc d));
     ("is_repeatable", e_bool (d_rep d));
     ("locations", ETuple (map (fun l => EAttr (EName (s2l "DirectiveLocation")) l) (d_locs d)));
     ("args", match d_args d with [] => e_none | _ => gen_args U tm (d_args d) end)].

Definition gen_type_map (S : fschema) (tm : chars) : pyexpr :=
  let U := s_types S in
  mk_dict (map (fun t => (e_str (t_name t), gen_named_type U tm t)) (user_types S)).

(* utils.get_optional_named_type *)
Definition gen_opt_ref (U : list ftype) (tm : chars) (o : option chars) : pyexpr :=
  match o with
  | None => e_none
  | Some n => cast_ref U tm n
  end.

Definition gen_schema (S : fschema) (tm : chars) : pyexpr :=
  let U := s_types S in
  call "GraphQLSchema" []
    [("query", gen_opt_ref U tm (s_query S)); ("mutation", gen_opt_ref U tm (s_mutation S));
     ("subscription", gen_opt_ref U tm (s_subscription S));
     ("types", ECall (EAttr (EName tm) (s2l "values")) [] []);
     ("directives", mk_list (map (gen_directive U tm) (s_directives S)));
     ("description", e_optstr (s_desc S))].

(* names occurring free in an expression (for the unused-import pruning done by autoflake) *)
Fixpoint names_of (e : pyexpr) : list chars :=
  match e with
  | EConst _ => []
  | EName n => [n]
  | EAttr e _ => names_of e
  | ESub e k => names_of e ++ names_of k
  | ECall f args kw =>
      names_of f ++ flat_map names_of args
      ++ (fix go (kw : list (chars * pyexpr)) : list chars :=
            match kw with [] => [] | (_, x) :: r => names_of x ++ go r end) kw
  | ELambda b => names_of b
  | EDict kv =>
      (fix go (kv : list (pyexpr * pyexpr)) : list chars :=
         match kv with [] => [] | (k, x) :: r => names_of k ++ names_of x ++ go r end) kv
  | EList l => flat_map names_of l
  | ETuple l => flat_map names_of l
  end.

Definition GRAPHQL_IMPORTS : list chars := map s2l
  ["DirectiveLocation"; "GraphQLArgument"; "GraphQLDirective"; "GraphQLEnumType";
   "GraphQLEnumValue"; "GraphQLField"; "GraphQLInputField"; "GraphQLInputObjectType";
   "GraphQLInterfaceType"; "GraphQLList"; "GraphQLNamedType"; "GraphQLNonNull";
   "GraphQLObjectType"; "GraphQLScalarType"; "GraphQLSchema"; "GraphQLUnionType"; "GraphQLID";
   "GraphQLInt"; "GraphQLFloat"; "GraphQLString"; "GraphQLBoolean"; "Undefined"].
Definition IMPORTS : list (chars * list chars) :=
  [(s2l "graphql", GRAPHQL_IMPORTS); (s2l "graphql.type.schema", [s2l "TypeMap"]);
   (s2l "typing", [s2l "cast"; s2l "List"])].
Definition BUILTIN_NAMES : list chars := flat_map snd IMPORTS.

(* settings.py GraphQLSchemaSettings.__post_init__ (since 18e873d), the part about the two names:
     assert_string_is_valid_python_identifier  (isidentifier and not iskeyword; ASCII names here)
     assert_name_is_not_reserved_in_schema_module (constants.RESERVED_VARIABLE_NAMES =
        frozenset(GRAPHQL_IMPORTS + TYPE_MAP_IMPORTS + TYPING_IMPORTS))
     schema_variable_name != type_map_variable_name
   A configuration failing it is refused with InvalidConfiguration before anything is read or written. *)
Definition RESERVED_VARIABLE_NAMES : list chars := BUILTIN_NAMES.
Definition ident_ok (n : chars) : bool := py_identifier n && negb (iskeyword n).
Definition settings_ok (tm sn : chars) : bool :=
  ident_ok sn && ident_ok tm &&
  negb (mem_chars sn RESERVED_VARIABLE_NAMES) && negb (mem_chars tm RESERVED_VARIABLE_NAMES) &&
  negb (chars_eqb sn tm).

Definition gen_module (S : fschema) (tm sn : chars) : pymod :=
  let body := [ {| as_target := tm; as_ann := s2l "TypeMap"; as_value := gen_type_map S tm |};
                {| as_target := sn; as_ann := s2l "GraphQLSchema"; as_value := gen_schema S tm |} ] in
  (* pyflakes reports an import that is rebound before any use as a redefinition, not as unused:
     autoflake keeps it, so the assignment targets count as uses *)
  let used := flat_map (fun a => as_target a :: as_ann a :: names_of (as_value a)) body in
  {| m_imports :=
       filter (fun p => match snd p with [] => false | _ => true end)
         (map (fun p => (fst p, filter (fun n => mem_chars n used) (snd p))) IMPORTS);
     m_body := body |}.

(* ---------- evaluator ---------- *)
Fixpoint mapM {X Y : Type} (f : X -> option Y) (l : list X) : option (list Y) :=
  match l with
  | [] => Some []
  | x :: r => match f x, mapM f r with Some y, Some ys => Some (y :: ys) | _, _ => None end
  end.

(* Is the type-map variable bound yet?  The dict display of the first assignment is evaluated
   BEFORE the variable is bound (its constructor calls see the imports even when the variable has the
   name of an import); lambda bodies and the whole second assignment are evaluated after.
   [gname b tm e n]: e is the global name n and still means the import n. *)
Definition gname (b : bool) (tm : chars) (e : pyexpr) (n : string) : bool :=
  match e with EName x => chars_eqb x (s2l n) && negb (b && chars_eqb x tm) | _ => false end.

Definition as_call (b : bool) (tm : chars) (f : string) (e : pyexpr)
  : option (list pyexpr * list (chars * pyexpr)) :=
  match e with
  | ECall h args kw => if gname b tm h f then Some (args, kw) else None
  | _ => None
  end.

Definition lit (e : pyexpr) : option pyval :=
  match e with EConst src => py_literal_eval src | _ => None end.
Definition ev_str (e : pyexpr) : option chars :=
  match lit e with Some (PStr s) => Some s | _ => None end.
Definition ev_optstr (e : pyexpr) : option (option chars) :=
  match lit e with Some (PStr s) => Some (Some s) | Some PNone => Some None | _ => None end.
Definition ev_bool (e : pyexpr) : option bool :=
  match lit e with Some (PBool b) => Some b | _ => None end.
(* value of a constant expression: atoms by literal_eval (a float spelled 1e309 IS inf), displays
   element-wise, dict displays with last-wins keys; a bare name (inf, nan) is a NameError *)
Fixpoint ev_val (e : pyexpr) : option pyval :=
  match e with
  | EConst src =>
      match py_literal_eval src with
      | Some (PFloat lx) => Some (PFloat (canon_float lx))
      | o => o
      end
  | EList l =>
      option_map PList
        ((fix go (l : list pyexpr) : option (list pyval) :=
            match l with
            | [] => Some []
            | x :: r => match ev_val x, go r with Some v, Some vs => Some (v :: vs) | _, _ => None end
            end) l)
  | EDict kv =>
      option_map (fun l => PDict (dict_norm l))
        ((fix go (kv : list (pyexpr * pyexpr)) : option (list (chars * pyval)) :=
            match kv with
            | [] => Some []
            | (k, x) :: r =>
                match (match k with
                       | EConst src => match py_literal_eval src with Some (PStr s) => Some s | _ => None end
                       | _ => None end), ev_val x, go r with
                | Some k, Some v, Some vs => Some ((k, v) :: vs)
                | _, _, _ => None
                end
            end) kv)
  | _ => None
  end.
Definition ev_default (b : bool) (tm : chars) (e : pyexpr) : option (option pyval) :=
  if gname b tm e "Undefined" then Some None
  else match ev_val e with Some v => Some (Some v) | None => None end.

Definition kw (k : string) (kws : list (chars * pyexpr)) : option pyexpr := assoc (s2l k) kws.
(* keyword with the constructor's default when absent *)
Definition kw_optstr (k : string) (kws : list (chars * pyexpr)) : option (option chars) :=
  match kw k kws with None => Some None | Some e => ev_optstr e end.

(* dict display with constant string keys; duplicate keys: the last value wins (dict_norm) *)
Definition as_dict (e : pyexpr) : option (list (chars * pyexpr)) :=
  match e with
  | EDict kv =>
      option_map dict_norm
        (mapM (fun p => match ev_str (fst p) with Some k => Some (k, snd p) | None => None end) kv)
  | _ => None
  end.
(* a thunk is evaluated later (type-map variable bound); anything else where it stands *)
Definition unthunk (b : bool) (e : pyexpr) : bool * pyexpr :=
  match e with ELambda body => (true, body) | _ => (b, e) end.

(* what the type map binds a key to: the class of the object and its name attribute *)
Definition env := list (chars * (chars * chars)).

Definition ev_tm_get (b : bool) (tm : chars) (E : env) (e : pyexpr) : option (chars * chars) :=
  match e with
  | ESub (EName x) k =>
      if b && chars_eqb x tm then
        match ev_str k with Some key => assoc key E | None => None end
      else None
  | _ => None
  end.

(* cast(Cls, tm[key]) or a standard scalar constant -> the name of the referenced type.
   The cast is checked against the class of the object found (stricter than Python: a wrong
   cast is harmless at run time). *)
Definition ev_ref (b : bool) (tm : chars) (E : env) (e : pyexpr) : option chars :=
  match e with
  | EName c => if b && chars_eqb c tm then None else std_of_const c
  | _ =>
      match as_call b tm "cast" e with
      | Some ([EName cls; x], []) =>
          match ev_tm_get b tm E x with
          | Some (cls', nm) => if chars_eqb cls cls' then Some nm else None
          | None => None
          end
      | _ => None
      end
  end.

Fixpoint ev_type (b : bool) (tm : chars) (E : env) (e : pyexpr) : option gtype :=
  match e with
  | ECall (EName f) [x] [] =>
      if b && chars_eqb f tm then None
      else if chars_eqb f (s2l "GraphQLList") then option_map TList (ev_type b tm E x)
      else if chars_eqb f (s2l "GraphQLNonNull") then option_map TNonNull (ev_type b tm E x)
      else None
  | _ => option_map TNamed (ev_ref b tm E e)
  end.

Definition ev_arg (cls : string) (b : bool) (tm : chars) (E : env) (p : chars * pyexpr) : option farg :=
  match as_call b tm cls (snd p) with
  | Some ([t], kws) =>
      match ev_type b tm E t,
            match kw "default_value" kws with None => Some None | Some e => ev_default b tm e end,
            kw_optstr "description" kws, kw_optstr "deprecation_reason" kws with
      | Some ty, Some d, Some ds, Some dp =>
          Some {| a_name := fst p; a_type := ty; a_default := d; a_desc := ds; a_depr := dp |}
      | _, _, _, _ => None
      end
  | _ => None
  end.

Definition ev_args (cls : string) (b : bool) (tm : chars) (E : env) (e : pyexpr) : option (list farg) :=
  match as_dict e with Some kv => mapM (ev_arg cls b tm E) kv | None => None end.

Definition ev_field (b : bool) (tm : chars) (E : env) (p : chars * pyexpr) : option ffield :=
  match as_call b tm "GraphQLField" (snd p) with
  | Some ([t], kws) =>
      match ev_type b tm E t,
            match kw "args" kws with None => Some [] | Some e => ev_args "GraphQLArgument" b tm E e end,
            kw_optstr "description" kws, kw_optstr "deprecation_reason" kws with
      | Some ty, Some ar, Some ds, Some dp =>
          Some {| f_name := fst p; f_type := ty; f_args := ar; f_desc := ds; f_depr := dp |}
      | _, _, _, _ => None
      end
  | _ => None
  end.

Definition ev_fields (b0 : bool) (tm : chars) (E : env) (e : pyexpr) : option (list ffield) :=
  let '(b, body) := unthunk b0 e in
  match as_dict body with Some kv => mapM (ev_field b tm E) kv | None => None end.

Definition ev_input_fields (b0 : bool) (tm : chars) (E : env) (e : pyexpr) : option (list farg) :=
  let '(b, body) := unthunk b0 e in
  match as_dict body with Some kv => mapM (ev_arg "GraphQLInputField" b tm E) kv | None => None end.

(* (lambda:)? cast(List[Ann], [tm[k], ...])  |  []  ; every element must be of class Ann *)
Definition ev_type_list (b0 : bool) (tm : chars) (E : env) (ann : string) (e : pyexpr) : option (list chars) :=
  let '(b, body) := unthunk b0 e in
  match body with
  | EList [] => Some []
  | _ =>
      match as_call b tm "cast" body with
      | Some ([ESub l a; EList xs], []) =>
          (* typing.List[x] accepts any x at run time: only List itself must still be the import;
             the annotation is compared textually (checked cast, as in ev_ref) *)
          if gname b tm l "List" && gname false tm a ann then
            mapM (fun x => match ev_tm_get b tm E x with
                           | Some (cls, nm) => if chars_eqb cls (s2l ann) then Some nm else None
                           | None => None end) xs
          else None
      | _ => None
      end
  end.

Definition ev_enum_value (b : bool) (tm : chars) (p : chars * pyexpr) : option fenumval :=
  match as_call b tm "GraphQLEnumValue" (snd p) with
  | Some ([], kws) =>
      match match kw "value" kws with None => Some PNone | Some e => ev_val e end,
            kw_optstr "description" kws, kw_optstr "deprecation_reason" kws with
      | Some v, Some ds, Some dp =>
          Some {| ev_name := fst p; ev_value := v; ev_desc := ds; ev_depr := dp |}
      | _, _, _ => None
      end
  | _ => None
  end.

Definition TYPE_CLASSES : list string :=
  ["GraphQLScalarType"; "GraphQLObjectType"; "GraphQLInterfaceType"; "GraphQLUnionType";
   "GraphQLEnumType"; "GraphQLInputObjectType"].

(* class and name attribute of a named-type constructor call (first pass: builds the env).
   These calls sit in the dict display of the first assignment: evaluated before the type-map
   variable is bound. *)
Definition ev_type_head (e : pyexpr) : option (chars * chars) :=
  match e with
  | ECall (EName f) [] kws =>
      if existsb (fun c => chars_eqb f (s2l c)) TYPE_CLASSES then
        match kw "name" kws with
        | Some n => match ev_str n with Some nm => Some (f, nm) | None => None end
        | None => None
        end
      else None
  | _ => None
  end.

Definition ev_named_type (tm : chars) (E : env) (e : pyexpr) : option ftype :=
  match e, ev_type_head e with
  | ECall _ _ kws, Some (cls, nm) =>
      match kw_optstr "description" kws with
      | None => None
      | Some ds =>
          let mk d := Some {| t_name := nm; t_desc := ds; t_def := d |} in
          let ifaces := match kw "interfaces" kws with
                        | None => Some []
                        | Some x => ev_type_list false tm E "GraphQLInterfaceType" x end in
          let fields := match kw "fields" kws with None => None | Some x => ev_fields false tm E x end in
          if chars_eqb cls (s2l "GraphQLScalarType") then
            match kw_optstr "specified_by_url" kws with Some sb => mk (DScalar sb) | None => None end
          else if chars_eqb cls (s2l "GraphQLObjectType") then
            match ifaces, fields with Some i, Some f => mk (DObject i f) | _, _ => None end
          else if chars_eqb cls (s2l "GraphQLInterfaceType") then
            match ifaces, fields with Some i, Some f => mk (DInterface i f) | _, _ => None end
          else if chars_eqb cls (s2l "GraphQLUnionType") then
            match kw "types" kws with
            | Some x => match ev_type_list false tm E "GraphQLObjectType" x with
                        | Some m => mk (DUnion m) | None => None end
            | None => None end
          else if chars_eqb cls (s2l "GraphQLEnumType") then
            match kw "values" kws with
            | Some x => match as_dict x with
                        | Some kv => match mapM (ev_enum_value false tm) kv with
                                     | Some vs => mk (DEnum vs) | None => None end
                        | None => None end
            | None => None end
          else
            match kw "fields" kws with
            | Some x => match ev_input_fields false tm E x with
                        | Some fs => mk (DInput fs) | None => None end
            | None => None end
      end
  | _, _ => None
  end.

Definition ev_location (tm : chars) (e : pyexpr) : option chars :=
  match e with
  | EAttr h a => if gname true tm h "DirectiveLocation" then Some a else None
  | _ => None
  end.

Definition ev_directive (tm : chars) (E : env) (e : pyexpr) : option fdirective :=
  match as_call true tm "GraphQLDirective" e with
  | Some ([], kws) =>
      match match kw "name" kws with Some n => ev_str n | None => None end,
            kw_optstr "description" kws,
            match kw "is_repeatable" kws with None => Some false | Some b => ev_bool b end,
            match kw "locations" kws with
            | Some (ETuple ls) => mapM (ev_location tm) ls
            | Some (EList ls) => mapM (ev_location tm) ls
            | _ => None end,
            match kw "args" kws with
            | None => Some []
            | Some a => match ev_optstr a with
                        | Some None => Some []            (* args=None *)
                        | _ => ev_args "GraphQLArgument" true tm E a end
            end with
      | Some nm, Some ds, Some rp, Some ls, Some ar =>
          Some {| d_name := nm; d_desc := ds; d_rep := rp; d_locs := ls; d_args := ar |}
      | _, _, _, _, _ => None
      end
  | _ => None
  end.

Definition ev_opt_ref (tm : chars) (E : env) (o : option pyexpr) : option (option chars) :=
  match o with
  | None => Some None
  | Some e =>
      match ev_optstr e with
      | Some None => Some None
      | _ => match ev_ref true tm E e with Some n => Some (Some n) | None => None end
      end
  end.

Definition as_list (e : pyexpr) : option (list pyexpr) :=
  match e with
  | EList l => Some l
  | _ => None
  end.

Definition eval_module (m : pymod) : option fschema :=
  match m_body m with
  | [a1; a2] =>
      let tm := as_target a1 in
      match as_dict (as_value a1) with
      | None => None
      | Some tmkv =>
          match mapM (fun p => match ev_type_head (snd p) with
                               | Some h => Some (fst p, h) | None => None end) tmkv with
          | None => None
          | Some E =>
              match mapM (fun p => ev_named_type tm E (snd p)) tmkv,
                    as_call true tm "GraphQLSchema" (as_value a2) with
              | Some tys, Some ([], kws) =>
                  match kw "types" kws with
                  | Some (ECall (EAttr (EName x) v) [] []) =>
                      if chars_eqb x tm && chars_eqb v (s2l "values") then
                        match ev_opt_ref tm E (kw "query" kws), ev_opt_ref tm E (kw "mutation" kws),
                              ev_opt_ref tm E (kw "subscription" kws),
                              match kw "directives" kws with
                              | Some d => match as_list d with
                                          | Some ds => mapM (ev_directive tm E) ds
                                          | None => None end
                              | None => None end,   (* absent: the specified directives; not emitted so *)
                              kw_optstr "description" kws with
                        | Some q, Some mu, Some su, Some ds, Some de =>
                            Some {| s_types := tys; s_query := q; s_mutation := mu; s_subscription := su;
                                    s_directives := ds; s_desc := de |}
                        | _, _, _, _, _ => None
                        end
                      else None
                  | _ => None
                  end
              | _, _ => None
              end
          end
      end
  | _ => None
  end.

(* main.graphql_schema for a .py target: refuse, or write the module *)
Definition strategy_py (S : fschema) (tm sn : chars) : option pymod :=
  if settings_ok tm sn then Some (gen_module S tm sn) else None.

(* names read by the module (annotations are evaluated at module level) and names its imports bind *)
Definition reads (m : pymod) : list chars :=
  flat_map (fun a => as_ann a :: names_of (as_value a)) (m_body m).
Definition imported (m : pymod) : list chars := flat_map snd (m_imports m).

Definition assign_targets (m : pymod) : list chars := map as_target (m_body m).

(* ---------- well-formedness (what a valid graphql-core schema object graph guarantees) ---------- *)
Fixpoint named_of (t : gtype) : chars :=
  match t with TNamed n => n | TList t => named_of t | TNonNull t => named_of t end.

(* U is the whole type map.  A reference resolves when it is one of the five standard scalars or
   names a type that the emitted map keeps (not filtered out as a standard type). *)
Definition user_type (U : list ftype) (n : chars) : option ftype :=
  if is_standard n then None else find_type U n.
Definition resolves (U : list ftype) (n : chars) : bool :=
  match std_const n with
  | Some _ => true
  | None => match user_type U n with Some _ => true | None => false end
  end.
Definition has_class (U : list ftype) (cls : string) (n : chars) : bool :=
  match user_type U n with Some t => chars_eqb (class_of (t_def t)) (s2l cls) | None => false end.

(* vok: which constant values are admitted (wf_val: finite; py_val: every value CPython can hold) *)
Definition wf_arg (vok : pyval -> bool) (U : list ftype) (a : farg) : bool :=
  resolves U (named_of (a_type a)) &&
  match a_default a with Some v => vok v | None => true end.
Definition wf_args (vok : pyval -> bool) (U : list ftype) (l : list farg) : bool :=
  nodup_keys (map a_name l) && forallb (wf_arg vok U) l.
Definition wf_field (vok : pyval -> bool) (U : list ftype) (f : ffield) : bool :=
  resolves U (named_of (f_type f)) && wf_args vok U (f_args f).
Definition wf_fields (vok : pyval -> bool) (U : list ftype) (l : list ffield) : bool :=
  nodup_keys (map f_name l) && forallb (wf_field vok U) l.
Definition wf_type (vok : pyval -> bool) (U : list ftype) (t : ftype) : bool :=
  match t_def t with
  | DScalar _ => true
  | DObject ifs fs | DInterface ifs fs =>
      forallb (has_class U "GraphQLInterfaceType") ifs && wf_fields vok U fs
  | DUnion ms => forallb (has_class U "GraphQLObjectType") ms
  | DEnum vs => nodup_keys (map ev_name vs) && forallb (fun v => is_atom (ev_value v) && vok (ev_value v)) vs
  | DInput fs => wf_args vok U fs
  end.
Definition wf_root (U : list ftype) (o : option chars) : bool :=
  match o with Some n => match user_type U n with Some _ => true | None => false end | None => true end.

Definition wf_gen (vok : pyval -> bool) (S : fschema) : bool :=
  let U := s_types S in
  nodup_keys (map t_name (user_types S)) && forallb (wf_type vok U) (user_types S) &&
  wf_root U (s_query S) && wf_root U (s_mutation S) && wf_root U (s_subscription S) &&
  forallb (fun d => wf_args vok U (d_args d)) (s_directives S).

(* what a graphql-core schema object graph guarantees (names resolve, maps have distinct keys,
   constants are Python values) *)
Definition valid_fschema (S : fschema) : bool := wf_gen py_val S.

(* the guard of the round-trip theorem: valid with constants in dv_val (py_val minus nan, which no SDL or
   introspection literal can denote; non-finite floats included since fix 060db67), type-map variable
   not named like an import (finding C16-typemap-name-shadows-import).  Enum values are atoms (in this
   strategy: the value names); they still travel through one repr()-ed constant. *)
Definition wf_fschema (S : fschema) (tm : chars) : bool :=
  negb (mem_chars tm BUILTIN_NAMES) && wf_gen dv_val S.

(* the schema the generated module is expected to define: the source without the standard types
   (GraphQLSchema() adds those back itself) *)
Definition strip_std (S : fschema) : fschema :=
  {| s_types := user_types S; s_query := s_query S; s_mutation := s_mutation S;
     s_subscription := s_subscription S; s_directives := s_directives S; s_desc := s_desc S |}.

(* main.graphql_schema as a step on the project directory: what the target file holds after the run, given
   what it held before.  The SDL target is print_schema (graphql-core), carried abstractly as the schema it
   prints.  A refused configuration leaves the target as it was; an accepted one OVERWRITES it with a function
   of the schema and the settings only - the previous content (and hence its age) is never consulted. *)
Inductive target_format := FPy | FSdl.
Inductive target_content := CModule (m : pymod) | CSdl (printed : fschema).
Record step := { st_schema : fschema; st_format : target_format; st_tm : chars; st_sn : chars }.

Definition fresh_output (x : step) : target_content :=
  match st_format x with
  | FPy => CModule (gen_module (st_schema x) (st_tm x) (st_sn x))
  | FSdl => CSdl (strip_std (st_schema x))
  end.
Definition graphql_schema_step (old : option target_content) (x : step) : option target_content :=
  if settings_ok (st_tm x) (st_sn x) then Some (fresh_output x) else old.
Definition run_history (old : option target_content) (h : list step) : option target_content :=
  fold_left graphql_schema_step h old.

(* one PROCESS running several strategies: main.client() runs (which add the codegen-only @mixin directive to
   THEIR schema object, write THEIR package) may come between graphql_schema() runs.  They are no part of the
   inputs of a later graphql_schema(): it loads its schema from its own schema_path again. *)
Inductive event := EvSchema (x : step) | EvClient.
Definition event_step (old : option target_content) (e : event) : option target_content :=
  match e with EvSchema x => graphql_schema_step old x | EvClient => old end.
Definition run_process (old : option target_content) (h : list event) : option target_content :=
  fold_left event_step h old.
Definition schema_steps (h : list event) : list step :=
  flat_map (fun e => match e with EvSchema x => [x] | EvClient => [] end) h.

(* ---------- sexp interface ---------- *)
Definition sC (c : chars) : sexp := A (l2s c).
Definition dC (e : sexp) : option chars := match e with A s => Some (s2l s) | _ => None end.
Definition sOC := sOpt sC.
Definition dOC := dOpt dC.

Fixpoint gtype_to_sexp (t : gtype) : sexp :=
  match t with
  | TNamed n => L [A "N"; sC n]
  | TList t => L [A "L"; gtype_to_sexp t]
  | TNonNull t => L [A "NN"; gtype_to_sexp t]
  end.
Fixpoint gtype_of_sexp (e : sexp) : option gtype :=
  match e with
  | L [A "N"; A n] => Some (TNamed (s2l n))
  | L [A "L"; t] => option_map TList (gtype_of_sexp t)
  | L [A "NN"; t] => option_map TNonNull (gtype_of_sexp t)
  | _ => None
  end.

Definition farg_to_sexp (a : farg) : sexp :=
  L [sC (a_name a); gtype_to_sexp (a_type a); sOpt pyval_to_sexp (a_default a); sOC (a_desc a); sOC (a_depr a)].
Definition farg_of_sexp (e : sexp) : option farg :=
  match e with
  | L [n; t; d; ds; dp] =>
      match dC n, gtype_of_sexp t, dOpt pyval_of_sexp d, dOC ds, dOC dp with
      | Some n, Some t, Some d, Some ds, Some dp =>
          Some {| a_name := n; a_type := t; a_default := d; a_desc := ds; a_depr := dp |}
      | _, _, _, _, _ => None end
  | _ => None
  end.
Definition ffield_to_sexp (f : ffield) : sexp :=
  L [sC (f_name f); gtype_to_sexp (f_type f); sList farg_to_sexp (f_args f); sOC (f_desc f); sOC (f_depr f)].
Definition ffield_of_sexp (e : sexp) : option ffield :=
  match e with
  | L [n; t; ar; ds; dp] =>
      match dC n, gtype_of_sexp t, dList farg_of_sexp ar, dOC ds, dOC dp with
      | Some n, Some t, Some ar, Some ds, Some dp =>
          Some {| f_name := n; f_type := t; f_args := ar; f_desc := ds; f_depr := dp |}
      | _, _, _, _, _ => None end
  | _ => None
  end.
Definition fenumval_to_sexp (v : fenumval) : sexp :=
  L [sC (ev_name v); pyval_to_sexp (ev_value v); sOC (ev_desc v); sOC (ev_depr v)].
Definition fenumval_of_sexp (e : sexp) : option fenumval :=
  match e with
  | L [n; v; ds; dp] =>
      match dC n, pyval_of_sexp v, dOC ds, dOC dp with
      | Some n, Some v, Some ds, Some dp =>
          Some {| ev_name := n; ev_value := v; ev_desc := ds; ev_depr := dp |}
      | _, _, _, _ => None end
  | _ => None
  end.
Definition ftdef_to_sexp (d : ftdef) : sexp :=
  match d with
  | DScalar sb => L [A "scalar"; sOC sb]
  | DObject i f => L [A "object"; sList sC i; sList ffield_to_sexp f]
  | DInterface i f => L [A "interface"; sList sC i; sList ffield_to_sexp f]
  | DUnion m => L [A "union"; sList sC m]
  | DEnum v => L [A "enum"; sList fenumval_to_sexp v]
  | DInput f => L [A "input"; sList farg_to_sexp f]
  end.
Definition ftdef_of_sexp (e : sexp) : option ftdef :=
  match e with
  | L [A "scalar"; sb] => option_map DScalar (dOC sb)
  | L [A "object"; i; f] =>
      match dList dC i, dList ffield_of_sexp f with Some i, Some f => Some (DObject i f) | _, _ => None end
  | L [A "interface"; i; f] =>
      match dList dC i, dList ffield_of_sexp f with Some i, Some f => Some (DInterface i f) | _, _ => None end
  | L [A "union"; m] => option_map DUnion (dList dC m)
  | L [A "enum"; v] => option_map DEnum (dList fenumval_of_sexp v)
  | L [A "input"; f] => option_map DInput (dList farg_of_sexp f)
  | _ => None
  end.
Definition ftype_to_sexp (t : ftype) : sexp := L [sC (t_name t); sOC (t_desc t); ftdef_to_sexp (t_def t)].
Definition ftype_of_sexp (e : sexp) : option ftype :=
  match e with
  | L [n; ds; d] =>
      match dC n, dOC ds, ftdef_of_sexp d with
      | Some n, Some ds, Some d => Some {| t_name := n; t_desc := ds; t_def := d |}
      | _, _, _ => None end
  | _ => None
  end.
Definition fdirective_to_sexp (d : fdirective) : sexp :=
  L [sC (d_name d); sOC (d_desc d); sB (d_rep d); sList sC (d_locs d); sList farg_to_sexp (d_args d)].
Definition fdirective_of_sexp (e : sexp) : option fdirective :=
  match e with
  | L [n; ds; r; ls; ar] =>
      match dC n, dOC ds, dB r, dList dC ls, dList farg_of_sexp ar with
      | Some n, Some ds, Some r, Some ls, Some ar =>
          Some {| d_name := n; d_desc := ds; d_rep := r; d_locs := ls; d_args := ar |}
      | _, _, _, _, _ => None end
  | _ => None
  end.
Definition fschema_to_sexp (S : fschema) : sexp :=
  L [sList ftype_to_sexp (s_types S); sOC (s_query S); sOC (s_mutation S); sOC (s_subscription S);
     sList fdirective_to_sexp (s_directives S); sOC (s_desc S)].
Definition fschema_of_sexp (e : sexp) : option fschema :=
  match e with
  | L [ts; q; m; s; ds; de] =>
      match dList ftype_of_sexp ts, dOC q, dOC m, dOC s, dList fdirective_of_sexp ds, dOC de with
      | Some ts, Some q, Some m, Some s, Some ds, Some de =>
          Some {| s_types := ts; s_query := q; s_mutation := m; s_subscription := s;
                  s_directives := ds; s_desc := de |}
      | _, _, _, _, _, _ => None end
  | _ => None
  end.

Fixpoint pyexpr_to_sexp (e : pyexpr) : sexp :=
  match e with
  | EConst s => L [A "c"; sC s]
  | EName n => L [A "n"; sC n]
  | EAttr e a => L [A "at"; pyexpr_to_sexp e; sC a]
  | ESub e k => L [A "sub"; pyexpr_to_sexp e; pyexpr_to_sexp k]
  | ECall f args kws =>
      L [A "call"; pyexpr_to_sexp f; L (map pyexpr_to_sexp args);
         L ((fix go (l : list (chars * pyexpr)) : list sexp :=
               match l with [] => [] | (k, x) :: r => L [sC k; pyexpr_to_sexp x] :: go r end) kws)]
  | ELambda b => L [A "lam"; pyexpr_to_sexp b]
  | EDict kv =>
      L (A "dict" :: (fix go (l : list (pyexpr * pyexpr)) : list sexp :=
               match l with [] => [] | (k, x) :: r => L [pyexpr_to_sexp k; pyexpr_to_sexp x] :: go r end) kv)
  | EList l => L (A "list" :: map pyexpr_to_sexp l)
  | ETuple l => L (A "tup" :: map pyexpr_to_sexp l)
  end.

Fixpoint pyexpr_of_sexp (e : sexp) : option pyexpr :=
  let many := fix go (l : list sexp) : option (list pyexpr) :=
    match l with
    | [] => Some []
    | x :: r => match pyexpr_of_sexp x, go r with Some v, Some vs => Some (v :: vs) | _, _ => None end
    end in
  match e with
  | L [A "c"; A s] => Some (EConst (s2l s))
  | L [A "n"; A s] => Some (EName (s2l s))
  | L [A "at"; x; A a] => option_map (fun x => EAttr x (s2l a)) (pyexpr_of_sexp x)
  | L [A "sub"; x; k] =>
      match pyexpr_of_sexp x, pyexpr_of_sexp k with Some x, Some k => Some (ESub x k) | _, _ => None end
  | L [A "call"; f; L args; L kws] =>
      match pyexpr_of_sexp f, many args,
            (fix go (l : list sexp) : option (list (chars * pyexpr)) :=
               match l with
               | [] => Some []
               | L [A k; x] :: r => match pyexpr_of_sexp x, go r with
                                    | Some v, Some vs => Some ((s2l k, v) :: vs) | _, _ => None end
               | _ => None
               end) kws with
      | Some f, Some a, Some k => Some (ECall f a k)
      | _, _, _ => None end
  | L [A "lam"; b] => option_map ELambda (pyexpr_of_sexp b)
  | L (A "dict" :: kv) =>
      option_map EDict
        ((fix go (l : list sexp) : option (list (pyexpr * pyexpr)) :=
            match l with
            | [] => Some []
            | L [k; x] :: r => match pyexpr_of_sexp k, pyexpr_of_sexp x, go r with
                               | Some k, Some v, Some vs => Some ((k, v) :: vs) | _, _, _ => None end
            | _ => None
            end) kv)
  | L (A "list" :: l) => option_map EList (many l)
  | L (A "tup" :: l) => option_map ETuple (many l)
  | _ => None
  end.

Definition pyassign_to_sexp (a : pyassign) : sexp :=
  L [sC (as_target a); sC (as_ann a); pyexpr_to_sexp (as_value a)].
Definition pyassign_of_sexp (e : sexp) : option pyassign :=
  match e with
  | L [A t; A an; v] => match pyexpr_of_sexp v with
                        | Some v => Some {| as_target := s2l t; as_ann := s2l an; as_value := v |}
                        | None => None end
  | _ => None
  end.
Definition pymod_to_sexp (m : pymod) : sexp :=
  L [sList (fun p => L [sC (fst p); sList sC (snd p)]) (m_imports m); sList pyassign_to_sexp (m_body m)].
Definition pymod_of_sexp (e : sexp) : option pymod :=
  match e with
  | L [imps; body] =>
      match dList (fun p => match p with
                            | L [A m; ns] => match dList dC ns with Some ns => Some (s2l m, ns) | None => None end
                            | _ => None end) imps,
            dList pyassign_of_sexp body with
      | Some i, Some b => Some {| m_imports := i; m_body := b |}
      | _, _ => None end
  | _ => None
  end.

Definition sRes {X} (f : X -> sexp) (o : option X) : sexp :=
  match o with Some x => L [A "ok"; f x] | None => A "none" end.

Definition run_schemagen (e : sexp) : sexp :=
  match e with
  | L [A "gen"; s; A tm; A sn] =>
      match fschema_of_sexp s with
      | Some sch =>
          let m := gen_module sch (s2l tm) (s2l sn) in
          L [sB (wf_gen dv_val sch); pymod_to_sexp m;
             sRes fschema_to_sexp (eval_module m); fschema_to_sexp (strip_std sch)]
      | None => sErr "gen: bad schema" end
  | L [A "settings"; A tm; A sn] =>
      L [sB (settings_ok (s2l tm) (s2l sn)); sB (ident_ok (s2l tm)); sB (ident_ok (s2l sn))]
  | L [A "eval"; m] =>
      match pymod_of_sexp m with
      | Some m => L [sRes fschema_to_sexp (eval_module m); sList sC (assign_targets m)]
      | None => sErr "eval: bad module" end
  | L [A "repr"; v] =>
      match pyval_of_sexp v with
      | Some v => L [sC (py_repr v); sB (wf_val v); sB (py_val v);
                     sRes pyval_to_sexp (py_literal_eval (py_repr v)); sC (unparse_const v);
             sB (dv_val v); pyexpr_to_sexp (gen_dv v); sRes pyval_to_sexp (ev_val (gen_dv v))]
      | None => sErr "repr: bad value" end
  | L [A "leval"; A s] => sRes pyval_to_sexp (py_literal_eval (s2l s))
  | L [A "tables"] =>
      L [sList sC STANDARD_TYPES; sList (fun p => L [sC (fst p); sC (snd p)]) STANDARD_SCALARS;
         sList (fun p => L [sC (fst p); sList sC (snd p)]) IMPORTS]
  | _ => sErr "schemagen: bad command"
  end.
