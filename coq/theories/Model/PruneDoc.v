(* C09 — which selections reach which enums, inside the model.

   The enum lists PackageGenerator accumulates from the result classes of the operations and from the fragments
   module (p_res_enums / p_frag_enums of Model/Prune.v) and the variables' input / enum types (p_arg_inputs /
   p_arg_enums) are computed here from the schema and the executable document (Gql/Schema.v vocabulary), instead of
   being handed to the model by the harness.  sel_enums is the closure "enums reachable from result fields and
   fragments" the property names; Proofs/PruneDocP.v proves it equal to an inductive reachability relation.
   Executable definitions only. *)
From Coq Require Import List String Bool Arith.
From AC Require Import Base.Sexp Gql.Schema Model.Prune.
Import ListNotations.
Local Open Scope string_scope.

Fixpoint named (t : gtype) : string :=
  match t with TNamed n => n | TList t' => named t' | TNonNull t' => named t' end.

Definition field_named (S : schema) (parent f : string) : option string :=
  match lookup_type S parent with
  | Some (DObject _ fs) | Some (DInterface _ fs) => option_map named (assoc f fs)
  | _ => None
  end.

Definition is_enum (S : schema) (n : string) : bool :=
  match lookup_type S n with Some (DEnum _) => true | _ => false end.
Definition is_input (S : schema) (n : string) : bool :=
  match lookup_type S n with Some DInput => true | _ => false end.

Definition typename : string := "__typename".

(* enums of the fields selected below `parent`, following every fragment spread and inline fragment;
   second component: the fragments spread on the way.  fuel: list position + nesting + fragment hops *)
Fixpoint sel_walk (fuel : nat) (S : schema) (frs : list fragdef) (parent : string) (sels : list sel)
  : option (list string * list string) :=
  match fuel with
  | 0 => None
  | Datatypes.S f =>
      match sels with
      | [] => Some ([], [])
      | s :: rest =>
          let r1 :=
            match s with
            | SField _ n _ _ sub =>
                if String.eqb n typename then Some ([], [])
                else match field_named S parent n with
                     | None => Some ([], [])
                     | Some nt =>
                         match (match sub with Some ss => sel_walk f S frs nt ss | None => Some ([], []) end) with
                         | Some (es, fs) => let own := if is_enum S nt then [nt] else [] in Some ((own ++ es)%list, fs)
                         | None => None
                         end
                     end
            | SSpread n _ =>
                match lookup_frag frs n with
                | Some fd => match sel_walk f S frs (fr_on fd) (fr_sel fd) with
                             | Some (es, fs) => Some (es, n :: fs)
                             | None => None end
                | None => Some ([], [])
                end
            | SInline tc _ sub => sel_walk f S frs (match tc with Some t => t | None => parent end) sub
            end in
          match r1, sel_walk f S frs parent rest with
          | Some (e1, f1), Some (e2, f2) => Some ((e1 ++ e2)%list, (f1 ++ f2)%list)
          | _, _ => None
          end
      end
  end.

Definition sel_enums (fuel : nat) (S : schema) (frs : list fragdef) (parent : string) (sels : list sel)
  : option (list string) := option_map fst (sel_walk fuel S frs parent sels).

(* ---- the executable document ---- *)
Record opdef := { op_name : string; op_root : string; op_vars : list (string * gtype); op_sel : list sel }.

(* _unpack_fragment(fragment_def) without a root: no class of its own *)
Definition unpacks_by_definition (S : schema) (f : fragdef) : bool :=
  (match lookup_type S (fr_on f) with Some (DUnion _) => true | _ => false end)
  || existsb (fun s => match s with SInline _ _ _ => true | _ => false end) (fr_sel f).

Fixpoint all_ok {X} (l : list (option X)) : option (list X) :=
  match l with
  | [] => Some []
  | Some x :: r => match all_ok r with Some xs => Some (x :: xs) | None => None end
  | None :: _ => None
  end.

Record doc_enums := { de_arg_inputs : list string; de_arg_enums : list string;
                      de_res_enums : list string; de_frag_enums : list string }.

Definition doc_analysis (fuel : nat) (S : schema) (frs : list fragdef) (ops : list opdef) : option doc_enums :=
  match all_ok (map (fun o => sel_walk fuel S frs (op_root o) (op_sel o)) ops) with
  | None => None
  | Some rs =>
      let reached := flat_map snd rs in
      (* fragments no operation reaches still get classes in the fragments module unless they unpack by
         definition; walking them also reaches the fragments they spread *)
      let roots := filter (fun f => negb (mem (fr_name f) reached) && negb (unpacks_by_definition S f)) frs in
      match all_ok (map (fun f => sel_walk fuel S frs (fr_on f) (fr_sel f)) roots) with
      | None => None
      | Some fr =>
          let vars := flat_map (fun o => map (fun v => named (snd v)) (op_vars o)) ops in
          Some {| de_arg_inputs := filter (is_input S) vars; de_arg_enums := filter (is_enum S) vars;
                  de_res_enums := flat_map fst rs; de_frag_enums := flat_map fst fr |}
      end
  end.

(* ---- sexp interface ----
   (docenums fuel <schema> (frag ...) ((name root ((var gtype) ...) (sel ...)) ...))
        -> (some ((arg_inputs) (arg_enums) (res_enums) (frag_enums))) | none *)
Definition d_var (e : sexp) : option (string * gtype) :=
  match e with L [A n; t] => option_map (pair n) (d_gtype t) | _ => None end.
Definition d_op (e : sexp) : option opdef :=
  match e with
  | L [A n; A root; vs; ss] =>
      match dList d_var vs, dList d_sel ss with
      | Some v, Some s => Some {| op_name := n; op_root := root; op_vars := v; op_sel := s |}
      | _, _ => None end
  | _ => None
  end.

Definition run_prune_doc (e : sexp) : sexp :=
  match e with
  | L [A "docenums"; fu; sc; fr; ops] =>
      match dNat fu, d_schema sc, dList d_frag fr, dList d_op ops with
      | Some f, Some s, Some fs, Some os =>
          match doc_analysis f s fs os with
          | Some d => L [A "some"; L [sStrs (de_arg_inputs d); sStrs (de_arg_enums d);
                                      sStrs (de_res_enums d); sStrs (de_frag_enums d)]]
          | None => A "none"
          end
      | _, _, _, _ => sErr "docenums args" end
  | _ => run_prune e
  end.
