(* Model of the package layout logic of ariadne_codegen/client_generators/package.py
   (PackageGenerator.__init__/add_operation/generate and the _generate_* / _copy_files helpers),
   of the refusals raised on the way (add_operation, ClientGenerator.add_method,
   _validate_unique_file_names, ResultTypesGenerator._parse_mixin_arguments) and of what ends up in
   __init__ (init_file.py).  The *contents* of the modules are not modelled here: every sub-generator is
   summarised by the public names it hands to InitFileGenerator.add_import.
   Executable definitions only (proofs: Proofs/PackageP.v). *)
From Coq Require Import List String Ascii Bool Arith.
From AC Require Import Base.Strs Base.Sexp Model.Names Model.Init.
From AC Require Py.Ann Model.Rebuild.
Import ListNotations.
Local Open Scope string_scope.
Local Open Scope list_scope.

Inductive refusal := Anonymous | SubscriptionSync | DuplicateFiles | BadMixinArgs.
Inductive result (X : Type) := Ok (x : X) | Refused (r : refusal).
Arguments Ok {X} x.
Arguments Refused {X} r.

Inductive okind := OQuery | OMutation | OSubscription.

(* one @mixin directive: its arguments as (name, value is a string literal) *)
Definition mixin_args := list (chars * bool).

(* ResultTypesGenerator._parse_mixin_arguments: every argument value must be a StringValueNode and
   both `from` and `import` must be present *)
Definition has_arg (n : chars) (a : mixin_args) : bool := existsb (fun p => chars_eqb (fst p) n) a.
Definition mixin_ok (a : mixin_args) : bool :=
  forallb snd a && has_arg (s2l "from") a && has_arg (s2l "import") a.
Definition bad_mixins (l : list mixin_args) : bool := existsb (fun a => negb (mixin_ok a)) l.

(* one operation definition, in document order:
   o_mixins : the @mixin directives met while its result types are built;
   o_public : ResultTypesGenerator.get_generated_public_names() *)
Record op := { o_kind : okind; o_name : option chars; o_mixins : list mixin_args; o_public : list chars }.
Definition o_bad_mixin (o : op) : bool := bad_mixins (o_mixins o).

(* base client: file name, stem (module name), class name, and whether the path is one of the four
   bundled ones (then exceptions.py is copied and its names re-exported) *)
Record base_client := { bc_file : chars; bc_stem : chars; bc_class : chars; bc_default : bool }.

Record cfg := {
  c_client_name : chars; c_client_file : chars;
  c_enums_mod : chars; c_inputs_mod : chars; c_frags_mod : chars;
  c_async : bool; c_otel : bool; c_custom_ops : bool;
  c_include : list chars;                 (* Path(f).name of files_to_include, in order *)
  c_custom_base : option base_client      (* base_client_file_path / base_client_name given *)
}.

(* what the other generators contribute *)
Record summary := {
  s_frag_names : list chars;      (* fragments_definitions keys *)
  s_frag_unpacked : list chars;   (* union of get_unpacked_fragments() over the operations *)
  s_frag_mixins : list chars;     (* union of get_fragments_used_as_mixins() *)
  s_frag_dirs : list mixin_args;  (* @mixin directives met by _add_typename_to_fragments_definitions
                                     (fragment definitions are processed before any operation) *)
  s_frag_public : list chars;     (* FragmentsGenerator.get_generated_public_names() *)
  s_enums_public : list chars;
  s_inputs_public : list chars;
  s_has_query : bool; s_has_mutation : bool
}.

Definition s_frag_bad_mixin (s : summary) : bool := bad_mixins (s_frag_dirs s).

Record package := {
  written : list chars;           (* file names in the order they are written *)
  reported : list chars;          (* what generate() returns *)
  init_imports : list iimport;    (* the ImportFrom statements of __init__, in add_import order *)
  p_all : list chars              (* __all__ *)
}.

(* ---- constants (data; checked against client_generators/constants.py on every run, K2) ---- *)
Definition ext_py : chars := s2l ".py".
Definition py (stem : chars) : chars := stem ++ ext_py.

Definition exceptions_stem : chars := s2l "exceptions".
Definition base_model_stem : chars := s2l "base_model".
Definition base_operation_file : chars := s2l "base_operation.py".
Definition init_file : chars := s2l "__init__.py".
Definition custom_typing_file : chars := s2l "custom_typing_fields.py".
Definition custom_fields_file : chars := s2l "custom_fields.py".
Definition custom_queries_file : chars := s2l "custom_queries.py".
Definition custom_mutations_file : chars := s2l "custom_mutations.py".

Definition exception_names : list chars := map s2l
  ["GraphQLClientError"; "GraphQLClientHttpError"; "GraphQLClientInvalidResponseError";
   "GraphQLClientGraphQLError"; "GraphQLClientGraphQLMultiError"].
Definition base_model_names : list chars := map s2l ["BaseModel"; "Upload"].

Definition default_base (async otel : bool) : base_client :=
  let mk s c := {| bc_file := py (s2l s); bc_stem := s2l s; bc_class := s2l c; bc_default := true |} in
  match async, otel with
  | true, true => mk "async_base_client_open_telemetry" "AsyncBaseClientOpenTelemetry"
  | true, false => mk "async_base_client" "AsyncBaseClient"
  | false, true => mk "base_client_open_telemetry" "BaseClientOpenTelemetry"
  | false, false => mk "base_client" "BaseClient"
  end.

(* ClientSettings._set_default_base_client_data *)
Definition base_of (c : cfg) : base_client :=
  match c_custom_base c with Some b => b | None => default_base (c_async c) (c_otel c) end.

(* ---- add_operation ---- *)
(* method_name = module_name = process_name(name, convert_to_snake_case=True) *)
Definition op_flags : pflags := {| f_snake := true; f_trim := false; f_reserved := false |}.
Definition op_module (n : chars) : chars := process_name op_flags n.

Record pstate := { ps_files : list chars;         (* _result_types_files keys, insertion order *)
                   ps_init : list iimport;
                   ps_methods : list chars }.     (* names of the methods appended to the client class *)

Definition pstate0 : pstate := {| ps_files := []; ps_init := []; ps_methods := [] |}.

Definition is_sub (k : okind) : bool := match k with OSubscription => true | _ => false end.

Definition add_operation (c : cfg) (o : op) (st : pstate) : result pstate :=
  match o_name o with
  | None => Refused Anonymous                                   (* "Query without name." *)
  | Some n =>
      let m := op_module n in
      if mem_chars (py m) (ps_files st) then Refused DuplicateFiles   (* file_name in _result_types_files *)
      else if o_bad_mixin o then Refused BadMixinArgs           (* ResultTypesGenerator(...) *)
      else if is_sub (o_kind o) && negb (c_async c) then Refused SubscriptionSync   (* add_method *)
      else Ok {| ps_files := ps_files st ++ [py m];
                 ps_init := add_import (o_public o) m (ps_init st);
                 ps_methods := ps_methods st ++ [m] |}
  end.

(* ---- declarative counterparts used in the statements ---- *)
(* the tests that depend on the operation alone *)
Definition op_static_refusal (c : cfg) (o : op) : option refusal :=
  match o_name o with
  | None => Some Anonymous
  | Some _ => if o_bad_mixin o then Some BadMixinArgs
              else if is_sub (o_kind o) && negb (c_async c) then Some SubscriptionSync
              else None
  end.

(* module file of an operation (anonymous operations never get that far) *)
Definition op_file (o : op) : chars :=
  match o_name o with Some n => py (op_module n) | None => [] end.
Definition result_files (ops : list op) : list chars := map op_file ops.

(* the tests of one operation given the module files of the operations before it *)
Definition op_refusal (c : cfg) (seen : list chars) (o : op) : option refusal :=
  match o_name o with
  | None => Some Anonymous
  | Some _ => if mem_chars (op_file o) seen then Some DuplicateFiles else op_static_refusal c o
  end.

Fixpoint add_operations (c : cfg) (ops : list op) (st : pstate) : result pstate :=
  match ops with
  | [] => Ok st
  | o :: r => match add_operation c o st with
              | Ok st' => add_operations c r st'
              | Refused x => Refused x
              end
  end.

(* ---- generate ---- *)
(* self.files_to_include after __init__ (base_operation.py appended when custom operations are on)
   and _include_exceptions (exceptions.py appended for a bundled base client) *)
Definition includes (c : cfg) : list chars :=
  c_include c ++ (if c_custom_ops c then [base_operation_file] else [])
              ++ (if bc_default (base_of c) then [py exceptions_stem] else []).

Definition custom_files (c : cfg) (s : summary) : list chars :=
  if c_custom_ops c then
    [custom_typing_file; custom_fields_file]
    ++ (if s_has_query s then [custom_queries_file] else [])
    ++ (if s_has_mutation s then [custom_mutations_file] else [])
  else [].

(* the list checked by _validate_unique_file_names: every file generate() is going to write
   (and the fragments module name even when no fragments module is written) *)
Definition checked_names (c : cfg) (s : summary) (result_files : list chars) : list chars :=
  [py (c_client_file c); bc_file (base_of c); py base_model_stem;
   py (c_enums_mod c); py (c_inputs_mod c); py (c_frags_mod c)]
  ++ result_files ++ includes c ++ [init_file] ++ custom_files c s.

(* _generate_fragments: exclude = unpacked - used_as_mixins; nothing is written when every fragment
   is excluded *)
Definition frag_excluded (s : summary) (f : chars) : bool :=
  mem_chars f (s_frag_unpacked s) && negb (mem_chars f (s_frag_mixins s)).
Definition frags_written (s : summary) : bool :=
  existsb (fun f => negb (frag_excluded s f)) (s_frag_names s).

Definition written_files (c : cfg) (s : summary) (result_files : list chars) : list chars :=
  [py (c_inputs_mod c)]                                            (* _generate_input_types *)
  ++ result_files                                                  (* _generate_result_types *)
  ++ (if frags_written s then [py (c_frags_mod c)] else [])        (* _generate_fragments *)
  ++ includes c ++ [bc_file (base_of c); py base_model_stem]       (* _copy_files *)
  ++ custom_files c s
  ++ [py (c_client_file c)]                                        (* _generate_client *)
  ++ [py (c_enums_mod c)]                                          (* _generate_enums *)
  ++ [init_file].                                                  (* _generate_init *)

Definition final_imports (c : cfg) (s : summary) (i0 : list iimport) : list iimport :=
  let i1 := if bc_default (base_of c) then add_import exception_names exceptions_stem i0 else i0 in
  let i2 := add_import (s_inputs_public s) (c_inputs_mod c) i1 in
  let i3 := if frags_written s then add_import (s_frag_public s) (c_frags_mod c) i2 else i2 in
  let i4 := add_import [bc_class (base_of c)] (bc_stem (base_of c)) i3 in
  let i5 := add_import base_model_names base_model_stem i4 in
  let i6 := add_import [c_client_name c] (c_client_file c) i5 in
  add_import (s_enums_public s) (c_enums_mod c) i6.

Definition generate (c : cfg) (s : summary) (ops : list op) : result package :=
  if s_frag_bad_mixin s then Refused BadMixinArgs else
  match add_operations c ops pstate0 with
  | Refused r => Refused r
  | Ok st =>
      if has_dup (checked_names c s (ps_files st)) then Refused DuplicateFiles else
      let w := written_files c s (ps_files st) in
      let imps := final_imports c s (ps_init st) in
      Ok {| written := w; reported := sort_chars w; init_imports := imps; p_all := init_all imps |}
  end.

(* names of the methods add_method appends to the client class, in order *)
Definition ps_methods_of (c : cfg) (ops : list op) : list chars :=
  match add_operations c ops pstate0 with Ok st => ps_methods st | Refused _ => [] end.

(* ---- sexp interface ---- *)
Definition dKind (e : sexp) : option okind :=
  match e with
  | A "query" => Some OQuery | A "mutation" => Some OMutation | A "subscription" => Some OSubscription
  | _ => None end.

Definition dArg (e : sexp) : option (chars * bool) :=
  match e with
  | L [n; b] => match dC n, dB b with Some n', Some b' => Some (n', b') | _, _ => None end
  | _ => None end.
Definition dMixin (e : sexp) : option mixin_args := dList dArg e.

Definition dOp (e : sexp) : option op :=
  match e with
  | L [k; n; b; p] =>
      match dKind k, dOpt dC n, dList dMixin b, dCs p with
      | Some k', Some n', Some b', Some p' =>
          Some {| o_kind := k'; o_name := n'; o_mixins := b'; o_public := p' |}
      | _, _, _, _ => None end
  | _ => None end.

Definition dBase (e : sexp) : option base_client :=
  match e with
  | L [f; s; c] => match dC f, dC s, dC c with
                   | Some f', Some s', Some c' =>
                       Some {| bc_file := f'; bc_stem := s'; bc_class := c'; bc_default := false |}
                   | _, _, _ => None end
  | _ => None end.

Definition dCfg (e : sexp) : option cfg :=
  match e with
  | L [cn; cf; em; im; fm; a; o; cu; inc; cb] =>
      match dC cn, dC cf, dC em, dC im, dC fm with
      | Some cn', Some cf', Some em', Some im', Some fm' =>
          match dB a, dB o, dB cu, dCs inc, dOpt dBase cb with
          | Some a', Some o', Some cu', Some inc', Some cb' =>
              Some {| c_client_name := cn'; c_client_file := cf'; c_enums_mod := em'; c_inputs_mod := im';
                      c_frags_mod := fm'; c_async := a'; c_otel := o'; c_custom_ops := cu';
                      c_include := inc'; c_custom_base := cb' |}
          | _, _, _, _, _ => None end
      | _, _, _, _, _ => None end
  | _ => None end.

Definition dSummary (e : sexp) : option summary :=
  match e with
  | L [fn; fu; fmx; fb; fp; ep; ip; hq; hm] =>
      match dCs fn, dCs fu, dCs fmx, dList dMixin fb, dCs fp with
      | Some fn', Some fu', Some fmx', Some fb', Some fp' =>
          match dCs ep, dCs ip, dB hq, dB hm with
          | Some ep', Some ip', Some hq', Some hm' =>
              Some {| s_frag_names := fn'; s_frag_unpacked := fu'; s_frag_mixins := fmx';
                      s_frag_dirs := fb'; s_frag_public := fp'; s_enums_public := ep';
                      s_inputs_public := ip'; s_has_query := hq'; s_has_mutation := hm' |}
          | _, _, _, _ => None end
      | _, _, _, _, _ => None end
  | _ => None end.

Definition sRefusal (r : refusal) : sexp :=
  A (match r with Anonymous => "anonymous" | SubscriptionSync => "subscription-sync"
             | DuplicateFiles => "duplicate-files" | BadMixinArgs => "bad-mixin-args" end).

Definition sBase (b : base_client) : sexp := L [sC (bc_file b); sC (bc_stem b); sC (bc_class b)].

Definition run_package (e : sexp) : sexp :=
  match e with
  | L [A "generate"; c; s; ops] =>
      match dCfg c, dSummary s, dList dOp ops with
      | Some c', Some s', Some ops' =>
          match generate c' s' ops' with
          | Refused r => L [A "refused"; sRefusal r]
          | Ok p => L [A "ok"; sCs (written p); sCs (reported p); L (map sImport (init_imports p));
                       sCs (p_all p); sCs (ps_methods_of c' ops')]
          end
      | None, _, _ => sErr "package: bad cfg"
      | _, None, _ => sErr "package: bad summary"
      | _, _, None => sErr "package: bad ops"
      end
  | L [A "rebuilds"; tops; cls] =>
      (* classes of one generated module as (name, one flag per field: the annotation contains a quoted class);
         answer: the model_rebuild() calls of an operation module / of the fragments module with these top-level names *)
      let dcls := dList (fun e => match e with
                                  | L [A n; fl] => option_map (fun bs => (n, bs)) (dList dB fl)
                                  | _ => None end) cls in
      match dList dStr tops, dcls with
      | Some tops', Some cls' =>
          let mk := fun p : string * list bool =>
            {| Py.Ann.c_name := fst p; Py.Ann.c_bases := [];
               Py.Ann.c_fields := map (fun b : bool =>
                 {| Py.Ann.p_name := ""; Py.Ann.p_alias := None;
                    Py.Ann.p_ann := if b then Py.Ann.AClass "" else Py.Ann.AStr;
                    Py.Ann.p_default_none := false; Py.Ann.p_discriminator := false |}) (snd p) |} in
          let pcs := map mk cls' in
          L [L (map A (Model.Rebuild.op_rebuild_calls pcs)); L (map A (Model.Rebuild.frag_rebuild_calls tops' pcs))]
      | _, _ => sErr "rebuilds: cannot decode"
      end
  | L [A "module"; A n] => sC (op_module (s2l n))
  | L [A "sort"; l] => match dCs l with Some l' => sCs (sort_chars l') | None => sErr "sort" end
  | L [A "hasdup"; l] => match dCs l with Some l' => sB (has_dup l') | None => sErr "hasdup" end
  | L [A "consts"] =>
      L [sCs exception_names; sCs base_model_names;
         L (map sBase [default_base true false; default_base true true;
                       default_base false false; default_base false true]);
         sCs [py exceptions_stem; py base_model_stem; base_operation_file; init_file;
              custom_typing_file; custom_fields_file; custom_queries_file; custom_mutations_file]]
  | _ => sErr "package: bad command"
  end.
