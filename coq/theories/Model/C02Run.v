(* Command dispatcher of engine C02: document model (OpStr.v) + text path (Multiline.v). *)
From Coq Require Import List String.
From AC Require Import Base.Sexp Model.OpStr Model.Multiline.
Import ListNotations.
Local Open Scope string_scope.

Definition run_c02 (e : sexp) : sexp :=
  match e with
  | L (A "docs" :: _) | L (A "sets" :: _) | L (A "closure" :: _) => run_opstr e
  | _ => run_multiline e
  end.
