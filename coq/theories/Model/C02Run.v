(* Command dispatcher of engine C02: document model (OpStr.v) + text path (Multiline.v). *)
From Coq Require Import List String.
From AC Require Import Base.Strs Base.Sexp Gql.Lex Gql.Block Model.OpStr Model.Multiline.
Import ListNotations.
Local Open Scope string_scope.

Definition e_tok (t : tok) : sexp :=
  match t with
  | TP c => L [A "p"; A (l2s [c])]
  | TSpread => L [A "spread"]
  | TW w => L [A "w"; A (l2s w)]
  | TS r => L [A "s"; A (l2s r)]
  | TB r => L [A "b"; A (l2s r)]
  end.

Definition run_c02 (e : sexp) : sexp :=
  match e with
  | L [A "blockvalue"; A raw] => L (map (fun l => A (l2s l)) (block_value (s2l raw)))
  | L [A "tokens"; A text] => sOpt (fun l => L (map e_tok l)) (tokens (s2l text))
  | L (A "docs" :: _) | L (A "sets" :: _) | L (A "closure" :: _) => run_opstr e
  | _ => run_multiline e
  end.
