(* C19 — from TEXT to definitions: the structural lexer Gql/Lex.v composed with the top-level
   automaton Model/TopLevel.v.   Definitions only. *)
From Coq Require Import List String Ascii Bool Arith.
From AC Require Import Base.Sexp Base.Strs Gql.Lex Model.TopLevel.
Import ListNotations.
Local Open Scope char_scope.

(* a word is a Name when it begins with a letter or underscore (else a number) *)
Definition word_is_name (w : chars) : bool :=
  match w with c :: _ => is_upper c || is_lower c || is_us c | [] => false end.

Definition abstract (t : Lex.tok) : TopLevel.tok :=
  match t with
  | TW w => if word_is_name w then TName (l2s w) else TOther
  | TS _ | TB _ => TStr
  | TSpread => TOther
  | TP c =>
      if leq c "(" then TParen else if leq c "{" then TBrace else if leq c "[" then TBracket
      else if leq c ")" || leq c "}" || leq c "]" then TClose
      else if leq c "@" then TAt else if leq c "&" then TAmp else if leq c "|" then TPipe
      else if leq c "=" then TEq else TOther
  end.

Definition toks_of_text (s : chars) : option (list TopLevel.tok) :=
  match tokens s with Some ts => Some (map abstract ts) | None => None end.

(* the definitions of a type-system document given as text *)
Definition doc_of_text (s : chars) : option (list (list TopLevel.tok)) :=
  match toks_of_text s with Some ts => split_doc ts | None => None end.

Definition summaries_of_text (s : chars) : option (list (option (bool * string * string))) :=
  option_map (map summary) (doc_of_text s).

Local Open Scope string_scope.
Definition run_lextop (e : sexp) : sexp :=
  match e with
  | L [A "split-text"; A s] =>
      match doc_of_text (s2l s) with
      | Some segs => L [A "ok"; L (map (fun g => L [sN (List.length g);
                           match summary g with
                           | Some (x, k, n) => L [sB x; A k; A n]
                           | None => A "none" end]) segs)]
      | None => match tokens (s2l s) with Some _ => L [A "reject"] | None => L [A "no-lex"] end
      end
  | L [A "count-tokens"; A s] =>
      match tokens (s2l s) with Some ts => sN (List.length ts) | None => A "no-lex" end
  | _ => sErr "lextop: bad command"
  end.
